//go:build verif

package filtering

import (
	"bytes"
	"encoding/json"
	"fmt"
	"io/fs"
	"math/rand/v2"
	"net/http"
	"net/http/httptest"
	"net/netip"
	"os"
	"path/filepath"
	"slices"
	"sort"
	"strconv"
	"strings"
	"sync"
	"testing"
	"testing/synctest"
	"time"

	"github.com/AdguardTeam/AdGuardHome/internal/schedule"
	"github.com/AdguardTeam/AdGuardHome/internal/vutil"
	"gopkg.in/yaml.v3"
)

// C18, request path: ApplyBlockedServices / ApplyAdditionalFiltering consult
// the pause schedule with time.Now().  The clock is the fake clock of
// testing/synctest: every case runs in its own bubble (which starts at
// 2000-01-01T00:00:00Z) and sleeps until the instant of the case.

// c18fBubbleStart is the instant at which every synctest bubble starts.
var c18fBubbleStart = time.Date(2000, 1, 1, 0, 0, 0, 0, time.UTC)

func c18fI64(s string) int64 {
	v, err := strconv.ParseInt(s, 10, 64)
	if err != nil {
		panic(err)
	}

	return v
}

// c18fSchedule builds a *schedule.Weekly through its public JSON form (the
// fields are not visible from this package).  Ranges are in nanoseconds and
// must be valid.
func c18fSchedule(zone string, f []string) *schedule.Weekly {
	keys := []string{"sun", "mon", "tue", "wed", "thu", "fri", "sat"}
	m := map[string]any{"time_zone": zone}
	for i, k := range keys {
		s, e := c18fI64(f[2*i]), c18fI64(f[2*i+1])
		if s == 0 && e == 0 {
			continue
		}
		m[k] = map[string]int64{"start": s / 1_000_000, "end": e / 1_000_000}
	}
	data, err := json.Marshal(m)
	if err != nil {
		panic(err)
	}
	w := &schedule.Weekly{}
	if err = json.Unmarshal(data, w); err != nil {
		panic("c18: schedule: " + err.Error())
	}

	return w
}

func c18fRun(t *testing.T) func(f []string) []string {
	InitModule()

	return func(f []string) (out []string) {
		if f[0] == "C18.httpjson" {
			return c18hRun(f)
		}
		if f[0] != "C18.applied" {
			panic("unknown op " + f[0])
		}
		site, zone := f[1], vutil.Unhex(f[2])
		target := time.Unix(c18fI64(f[3]), c18fI64(f[4]))
		w := c18fSchedule(zone, f[6:20])
		loc, err := time.LoadLocation(zone)
		if err != nil {
			panic(err)
		}
		ids := []string{"youtube", "facebook"}

		d := &DNSFilter{confMu: &sync.RWMutex{}, conf: &Config{}}
		switch site {
		case "global":
			d.conf.BlockedServices = &BlockedServices{Schedule: w, IDs: ids}
			d.applyClientFiltering = func(_ string, _ netip.Addr, _ *Settings) {}
		case "client":
			// the global list is never paused; the client's own list and schedule replace it
			d.conf.BlockedServices = &BlockedServices{Schedule: schedule.EmptyWeekly(), IDs: []string{"tiktok"}}
			d.applyClientFiltering = func(_ string, _ netip.Addr, setts *Settings) {
				setts.BlockedServices = &BlockedServices{Schedule: w.Clone(), IDs: ids}
			}
		default:
			panic("unknown site " + site)
		}

		var perr any
		synctest.Test(t, func(t *testing.T) {
			defer func() { perr = recover() }()
			time.Sleep(target.Sub(time.Now()))
			now := time.Now()
			if !now.Equal(target) {
				panic("c18: fake clock at " + now.String() + ", want " + target.String())
			}
			setts := &Settings{ProtectionEnabled: true, FilteringEnabled: true}
			if site == "global" {
				d.ApplyBlockedServices(setts)
			} else {
				d.ApplyAdditionalFiltering(netip.MustParseAddr("192.0.2.1"), "cli", setts)
			}
			_, off := now.In(loc).Zone()
			out = []string{vutil.B(len(setts.ServicesRules) > 0), strconv.Itoa(off)}
		})
		if perr != nil {
			panic(perr)
		}

		return out
	}
}

func c18fZones() (names []string) {
	root := "/usr/share/zoneinfo"
	_ = filepath.WalkDir(root, func(p string, d fs.DirEntry, err error) error {
		if err != nil || d.IsDir() {
			return nil
		}
		rel, rerr := filepath.Rel(root, p)
		if rerr != nil {
			return nil
		}
		n := filepath.ToSlash(rel)
		if strings.HasPrefix(n, "posix/") || strings.HasPrefix(n, "right/") || strings.ContainsAny(n, ". ") ||
			n == "posixrules" || n == "leapseconds" || n == "Factory" || n == "localtime" {
			return nil
		}
		if _, lerr := time.LoadLocation(n); lerr == nil {
			names = append(names, n)
		}

		return nil
	})
	if len(names) == 0 {
		names = []string{"UTC"}
	}
	sort.Strings(names)

	return names
}

func c18fGen(r *rand.Rand, emit vutil.Emit) {
	zones := c18fZones()
	hi := time.Date(2040, 1, 1, 0, 0, 0, 0, time.UTC)
	trans := map[string][]int64{}
	for _, z := range zones {
		loc, _ := time.LoadLocation(z)
		t := c18fBubbleStart.In(loc)
		for i := 0; i < 200; i++ {
			_, end := t.ZoneBounds()
			if end.IsZero() || !end.Before(hi) {
				break
			}
			trans[z] = append(trans[z], end.Unix())
			t = end
		}
	}
	const minute, day = int64(time.Minute), 24 * int64(time.Hour)
	deltas := []int64{-7200, -3601, -3600, -1, 0, 1, 1800, 3599, 3600, 3601, 7200, 36000, 79200, 82800, 86399}
	n := vutil.N(4000)
	for i := 0; i < n; i++ {
		z := vutil.Pick(r, zones)
		loc, _ := time.LoadLocation(z)
		var sec int64
		if trs := trans[z]; len(trs) > 0 && r.IntN(5) > 0 {
			sec = vutil.Pick(r, trs) + vutil.Pick(r, deltas)
		} else {
			sec = c18fBubbleStart.Unix() + 1 + r.Int64N(40*365*86400)
		}
		if sec <= c18fBubbleStart.Unix() {
			sec = c18fBubbleStart.Unix() + 1 + r.Int64N(86400)
		}
		nsec := vutil.Pick(r, []int64{0, 0, 1, 999_999_999})
		lt := time.Unix(sec, nsec).In(loc)
		_, off := lt.Zone()
		h, m, _ := lt.Clock()
		tod, wd := int64(h*60+m), int(lt.Weekday())
		var days [7][2]int64
		mk := func(a, b int64) [2]int64 {
			a, b = max(a, 0), min(b, 1440)
			if a >= b {
				return [2]int64{}
			}

			return [2]int64{a * minute, b * minute}
		}
		switch r.IntN(8) {
		case 0:
			for j := range days {
				days[j] = [2]int64{0, day}
			}
		case 1:
		case 2:
			days[wd] = mk(tod, tod+1)
		case 3:
			days[wd] = mk(tod+1, tod+61)
		case 4:
			days[wd] = mk(tod-60, tod)
		case 5:
			d := int64(60)
			if r.IntN(2) == 0 {
				d = -60
			}
			days[wd] = mk(tod+d, tod+d+1)
		case 6:
			for j := range days {
				if j != wd {
					days[j] = [2]int64{0, day}
				}
			}
		default:
			for j := range days {
				a, b := int64(r.IntN(1441)), int64(r.IntN(1441))
				days[j] = mk(min(a, b), max(a, b))
			}
		}
		f := []string{"C18.applied", vutil.Pick(r, []string{"global", "client"}), vutil.Hex(z),
			strconv.FormatInt(sec, 10), strconv.FormatInt(nsec, 10), strconv.Itoa(off)}
		for _, d := range days {
			f = append(f, strconv.FormatInt(d[0], 10), strconv.FormatInt(d[1], 10))
		}
		emit(f...)
	}
	c18hGen(r, emit, zones, max(n/3, 200))
}

// ---------------------------------------------------------------------------
// C18.httpjson: a serialised schedule through the real HTTP handler
// PUT /control/blocked_services/update.  The line has the layout of C18.json
// (text, parseOK, tz, tzOK, 7 x (present, start, end) oracle values, tokOK,
// 7 x (kind, startTok, endTok)); the documents are built token by token, so the
// tokens are always known and the oracle values are unused (0).

var c18hToks = []string{
	"0", "60000", "3600000", "86400000", "86460000", "-60000", "59999", "60000.0", "6e4", "3.6e6", "36e5", "0.5", "1.5", "-0",
	"3600000.25", "3600000.5", "-0.5", "0.2", "0.7", "43200000.9999", "1e-7", "-1e-7", "0.000001", "60000.000001",
	"2100000.000001", "540000.000010", "86400000.000001", "60000.0000001", "\"60000\"", "\"1h\"", "1e-400", "0.0", "0e0",
}

func c18hRun(f []string) []string {
	text := vutil.Unhex(f[1])
	d := &DNSFilter{confMu: &sync.RWMutex{}, conf: &Config{
		ConfigModified:  func() {},
		BlockedServices: &BlockedServices{Schedule: schedule.EmptyWeekly()},
	}}
	body := `{"ids":["youtube"],"schedule":` + text + `}`
	rec := httptest.NewRecorder()
	d.handleBlockedServicesUpdate(rec, httptest.NewRequest(http.MethodPut, "/control/blocked_services/update", strings.NewReader(body)))
	if rec.Code != http.StatusOK {
		return []string{"err", strconv.Itoa(rec.Code)}
	}
	// what was installed, read back through its public JSON form
	w := d.conf.BlockedServices.Schedule
	data, err := json.Marshal(w)
	if err != nil {
		panic(err)
	}
	var m map[string]json.RawMessage
	if err = json.Unmarshal(data, &m); err != nil {
		panic(err)
	}
	var tz string
	_ = json.Unmarshal(m["time_zone"], &tz)
	out := []string{"ok", vutil.Hex(tz)}
	for _, k := range c18sDayKeys {
		var day struct{ Start, End json.Number }
		if raw, ok := m[k]; ok {
			if err = json.Unmarshal(raw, &day); err != nil {
				panic(err)
			}
		}
		for _, v := range []json.Number{day.Start, day.End} {
			ms := int64(0)
			if v != "" {
				if ms, err = strconv.ParseInt(string(v), 10, 64); err != nil {
					panic("non-integer milliseconds in the installed schedule: " + string(v))
				}
			}
			out = append(out, strconv.FormatInt(ms*1_000_000, 10))
		}
	}
	w2 := &schedule.Weekly{}
	rt := json.Unmarshal(data, w2) == nil
	if rt {
		data2, merr := json.Marshal(w2)
		rt = merr == nil && string(data2) == string(data)
	}

	return append(out, vutil.Hex(string(data)), vutil.B(rt))
}

func c18hGen(r *rand.Rand, emit vutil.Emit, zones []string, n int) {
	for i := 0; i < n; i++ {
		tz := vutil.Pick(r, zones)
		if r.IntN(6) == 0 {
			tz = vutil.Pick(r, []string{"", "UTC", "Nowhere/Land", "Local"})
		}
		_, lerr := time.LoadLocation(tz)
		pBad := 2 + r.IntN(40)
		var pair []string
		tok := func() string {
			if len(pair) == 0 {
				// an ordered pair of whole minutes
				a, b := r.IntN(1441), r.IntN(1441)
				if a > b {
					a, b = b, a
				}
				if a == b {
					a, b = 0, max(b, 1)
				}
				pair = []string{strconv.Itoa(a * 60000), strconv.Itoa(b * 60000)}
			}
			t := pair[0]
			pair = pair[1:]
			if r.IntN(pBad) == 0 {
				return vutil.Pick(r, c18hToks)
			}

			return t
		}
		parts := []string{}
		tf := []string{"1"}
		for _, k := range c18sDayKeys {
			switch r.IntN(12) {
			case 0, 1, 2, 3:
				tf = append(tf, "0", "~", "~")
			case 4:
				a := tok()
				pair = nil
				parts = append(parts, `"`+k+`":{"start":`+a+`}`)
				tf = append(tf, "1", vutil.Hex(a), "~")
			default:
				a, b := tok(), tok()
				parts = append(parts, `"`+k+`":{"start":`+a+`,"end":`+b+`}`)
				tf = append(tf, "1", vutil.Hex(a), vutil.Hex(b))
			}
		}
		tzj, _ := json.Marshal(tz)
		parts = append(parts, `"time_zone":`+string(tzj))
		r.Shuffle(len(parts), func(i, j int) { parts[i], parts[j] = parts[j], parts[i] })
		f := []string{"C18.httpjson", vutil.Hex("{" + strings.Join(parts, ",") + "}"), "1", vutil.Hex(tz), vutil.B(lerr == nil)}
		for j := 0; j < 7; j++ {
			f = append(f, "0", "0", "0")
		}
		emit(append(f, tf...)...)
	}
}

func TestVerifC18Applied(t *testing.T) { vutil.Main(t, c18fGen, c18fRun(t)) }

// ---------------------------------------------------------------------------
// Sequences on ONE long-lived DNSFilter (blocks starting with C18.sreset).
//
// A block runs inside one synctest bubble, so the fake clock persists between
// its lines: requests (global and per-client), updates of the global schedule
// and services through the real HTTP handlers, changes of the client's own
// settings, and clock advances.  Every request is compared with the STATELESS
// model: the schedule in force at that instant decides, whatever happened
// before.

var (
	c18sGlobalIDs = []string{"facebook", "youtube"}
	c18sClientIDs = []string{"tiktok", "twitch"}
	c18sDayKeys   = []string{"sun", "mon", "tue", "wed", "thu", "fri", "sat"}
)

// c18sSchedJSON renders a schedule for the HTTP API (durations in ms).
func c18sSchedJSON(zone string, f []string) map[string]any {
	m := map[string]any{"time_zone": zone}
	for i, k := range c18sDayKeys {
		s, e := c18fI64(f[2*i]), c18fI64(f[2*i+1])
		if s == 0 && e == 0 {
			continue
		}
		m[k] = map[string]int64{"start": s / 1_000_000, "end": e / 1_000_000}
	}

	return m
}

// c18sWorld is the implementation state of one block.
type c18sWorld struct {
	polluted bool
	d       *DNSFilter
	gLoc    *time.Location
	cli     *BlockedServices
	cLoc    *time.Location
	dataDir string
}

func (w *c18sWorld) do(f []string) []string {
	if f[0] == "C18.sreset" {
		// package-level state left behind by an EARLIER block (which reported it): this block could not be
		// replayed on its own, so it is skipped
		b, _ := json.Marshal(schedule.EmptyWeekly())
		w.polluted = string(b) != `{"time_zone":"Local"}`
		if w.polluted {
			return []string{"polluted"}
		}
	} else if w.polluted {
		return []string{"skipped"}
	}
	switch f[0] {
	case "C18.sreset":
		w.cli, w.cLoc, w.gLoc = nil, nil, time.Local
		d, err := New(&Config{
			DataDir:        w.dataDir,
			ConfigModified: func() {},
			BlockedServices: &BlockedServices{Schedule: schedule.EmptyWeekly()},
			ApplyClientFiltering: func(_ string, _ netip.Addr, setts *Settings) {
				// what client.Storage.ApplyClientFiltering does with a client
				// that has its own blocked services: hand out a copy
				setts.BlockedServices = w.cli.Clone()
			},
		}, nil)
		if err != nil {
			panic(err)
		}
		w.d = d

		return []string{"ok"}
	case "C18.supd":
		zone := vutil.Unhex(f[1])
		body, err := json.Marshal(map[string]any{
			"schedule": c18sSchedJSON(zone, f[2:16]),
			"ids":      c18sGlobalIDs[:vutil.Atoi(f[16])],
		})
		if err != nil {
			panic(err)
		}
		rec := httptest.NewRecorder()
		w.d.handleBlockedServicesUpdate(rec, httptest.NewRequest(http.MethodPut, "/control/blocked_services/update", bytes.NewReader(body)))
		if rec.Code == http.StatusOK {
			w.gLoc, _ = time.LoadLocation(zone)
		}

		return []string{strconv.Itoa(rec.Code)}
	case "C18.sload":
		// start-up: the configuration file is decoded over the default configuration, whose
		// blocked_services.schedule is pre-filled with schedule.EmptyWeekly() (internal/home/config.go)
		zone := vutil.Unhex(f[1])
		var sb strings.Builder
		sb.WriteString("blocked_services:\n  schedule:\n    time_zone: " + strconv.Quote(zone) + "\n")
		for i, k := range c18sDayKeys {
			a, b := c18fI64(f[2+2*i]), c18fI64(f[3+2*i])
			if a == 0 && b == 0 {
				continue
			}
			sb.WriteString("    " + k + ":\n      start: " + strconv.FormatInt(a/1_000_000_000, 10) + "s\n      end: " +
				strconv.FormatInt(b/1_000_000_000, 10) + "s\n")
		}
		ids, _ := json.Marshal(c18sGlobalIDs[:vutil.Atoi(f[16])])
		sb.WriteString("  ids: " + string(ids) + "\n")
		def := &struct {
			BlockedServices *BlockedServices `yaml:"blocked_services"`
		}{BlockedServices: &BlockedServices{Schedule: schedule.EmptyWeekly(), IDs: []string{}}}
		if err := yaml.Unmarshal([]byte(sb.String()), def); err != nil {
			panic("c18: config load: " + err.Error())
		}
		func() {
			w.d.confMu.Lock()
			defer w.d.confMu.Unlock()

			w.d.conf.BlockedServices = def.BlockedServices
		}()
		w.gLoc, _ = time.LoadLocation(zone)

		return []string{"ok"}
	case "C18.supdnos":
		// an update that carries no schedule: the handler installs schedule.EmptyWeekly()
		body, _ := json.Marshal(map[string]any{"ids": c18sGlobalIDs[:vutil.Atoi(f[1])]})
		rec := httptest.NewRecorder()
		w.d.handleBlockedServicesUpdate(rec, httptest.NewRequest(http.MethodPut, "/control/blocked_services/update", bytes.NewReader(body)))
		if rec.Code == http.StatusOK {
			w.gLoc = time.Local
		}

		return []string{strconv.Itoa(rec.Code)}
	case "C18.sget":
		// GET /control/blocked_services/get: what the API reads back must be what is stored (the
		// schedule also when no service is blocked yet: seed C18-20)
		rec := httptest.NewRecorder()
		w.d.handleBlockedServicesGet(rec, httptest.NewRequest(http.MethodGet, "/control/blocked_services/get", nil))
		var got struct {
			Schedule map[string]json.RawMessage `json:"schedule"`
			IDs      []string                   `json:"ids"`
		}
		if err := json.Unmarshal(rec.Body.Bytes(), &got); err != nil {
			return []string{strconv.Itoa(rec.Code), "undecodable"}
		}
		zone := ""
		_ = json.Unmarshal(got.Schedule["time_zone"], &zone)
		res := []string{strconv.Itoa(rec.Code), vutil.Hex(zone)}
		for _, k := range c18sDayKeys {
			var day struct {
				Start json.Number `json:"start"`
				End   json.Number `json:"end"`
			}
			if raw, ok := got.Schedule[k]; ok {
				_ = json.Unmarshal(raw, &day)
			}
			for _, v := range []json.Number{day.Start, day.End} {
				ms, err := v.Int64()
				if v != "" && err != nil {
					return []string{strconv.Itoa(rec.Code), "fractional-ms", string(v)}
				}
				res = append(res, strconv.FormatInt(ms*1_000_000, 10))
			}
		}

		return append(res, strconv.Itoa(len(got.IDs)))
	case "C18.sset":
		body, _ := json.Marshal(c18sGlobalIDs[:vutil.Atoi(f[1])])
		rec := httptest.NewRecorder()
		w.d.handleBlockedServicesSet(rec, httptest.NewRequest(http.MethodPost, "/control/blocked_services/set", bytes.NewReader(body)))

		return []string{strconv.Itoa(rec.Code)}
	case "C18.scli":
		if f[1] == "0" {
			w.cli, w.cLoc = nil, nil

			return []string{"ok"}
		}
		if f[1] == "2" {
			// a client without a schedule of its own gets the empty one (internal/home/clients.go)
			w.cli = &BlockedServices{Schedule: schedule.EmptyWeekly(), IDs: c18sClientIDs[:vutil.Atoi(f[17])]}
			w.cLoc = time.Local

			return []string{"ok"}
		}
		zone := vutil.Unhex(f[2])
		w.cli = &BlockedServices{Schedule: c18fSchedule(zone, f[3:17]), IDs: c18sClientIDs[:vutil.Atoi(f[17])]}
		w.cLoc, _ = time.LoadLocation(zone)

		return []string{"ok"}
	case "C18.sreq":
		target := time.Unix(c18fI64(f[2]), c18fI64(f[3]))
		time.Sleep(target.Sub(time.Now()))
		now := time.Now()
		setts := &Settings{ProtectionEnabled: true, FilteringEnabled: true}
		switch f[1] {
		case "global":
			w.d.ApplyBlockedServices(setts)
		case "client":
			w.d.ApplyAdditionalFiltering(netip.MustParseAddr("192.0.2.1"), "cli", setts)
		default:
			panic("unknown site " + f[1])
		}
		nG, nC := 0, 0
		for _, e := range setts.ServicesRules {
			switch {
			case slices.Contains(c18sGlobalIDs, e.Name):
				nG++
			case slices.Contains(c18sClientIDs, e.Name):
				nC++
			default:
				panic("unexpected service " + e.Name)
			}
		}
		_, offG := now.In(w.gLoc).Zone()
		offC := 0
		if w.cLoc != nil {
			_, offC = now.In(w.cLoc).Zone()
		}

		return []string{strconv.FormatInt(now.Unix(), 10), strconv.Itoa(now.Nanosecond()), strconv.Itoa(offG),
			strconv.Itoa(offC), strconv.Itoa(nG), strconv.Itoa(nC)}
	default:
		panic("unknown op " + f[0])
	}
}

// c18sBubble is a running synctest bubble serving the lines of one block.
type c18sBubble struct {
	req  chan []string
	resp chan []string
	done chan struct{}
}

func c18sStart(t *testing.T, dataDir string) *c18sBubble {
	b := &c18sBubble{req: make(chan []string), resp: make(chan []string), done: make(chan struct{})}
	go func() {
		defer close(b.done)
		synctest.Test(t, func(t *testing.T) {
			w := &c18sWorld{dataDir: dataDir}
			defer func() {
				if w.d != nil {
					w.d.Close()
				}
			}()
			for f := range b.req {
				b.resp <- func() (out []string) {
					defer func() {
						if v := recover(); v != nil {
							out = []string{"\x00panic", fmt.Sprint(v)}
						}
					}()

					return w.do(f)
				}()
			}
		})
	}()

	return b
}

func (b *c18sBubble) stop() {
	close(b.req)
	<-b.done
}

func c18sRun(t *testing.T) (run func(f []string) []string, stop func()) {
	InitModule()
	base := t.TempDir()
	var cur *c18sBubble
	stop = func() {
		if cur != nil {
			cur.stop()
			cur = nil
		}
	}
	run = func(f []string) []string {
		if f[0] == "C18.sreset" {
			stop()
			dir, err := os.MkdirTemp(base, "blk")
			if err != nil {
				panic(err)
			}
			cur = c18sStart(t, dir)
		}
		if cur == nil {
			panic("c18: line outside a block")
		}
		cur.req <- f
		out := <-cur.resp
		if len(out) == 2 && out[0] == "\x00panic" {
			panic(out[1])
		}

		return out
	}

	return run, stop
}

// c18sGen generates blocks.
func c18sGen(r *rand.Rand, emit vutil.Emit) {
	zones := c18fZones()
	const minute, day = int64(time.Minute), 24 * int64(time.Hour)
	full := [2]int64{0, day}
	type conf struct {
		zone string
		loc  *time.Location
		days [7][2]int64
		n    int
	}
	fmtConf := func(c *conf) (f []string) {
		f = append(f, vutil.Hex(c.zone))
		for _, d := range c.days {
			f = append(f, strconv.FormatInt(d[0], 10), strconv.FormatInt(d[1], 10))
		}

		return append(f, strconv.Itoa(c.n))
	}
	mk := func(a, b int64) [2]int64 {
		a, b = max(a, 0), min(b, 1440)
		if a >= b {
			return [2]int64{}
		}

		return [2]int64{a * minute, b * minute}
	}
	// newConf builds a configuration whose answer at `now` is chosen to differ
	// from (flip) or resemble the previous one in characteristic ways.
	newConf := func(prev *conf, now time.Time) *conf {
		c := &conf{n: 1 + r.IntN(2)}
		if r.IntN(12) == 0 {
			c.n = 0
		}
		if prev != nil && r.IntN(10) < 7 {
			c.zone, c.loc = prev.zone, prev.loc
		} else {
			c.zone = vutil.Pick(r, zones)
			c.loc, _ = time.LoadLocation(c.zone)
		}
		lt := now.In(c.loc)
		h, m, _ := lt.Clock()
		tod, wd := int64(h*60+m), int(lt.Weekday())
		switch r.IntN(10) {
		case 0, 1:
			for j := range c.days {
				c.days[j] = full
			}
		case 2, 3:
			// no ranges at all
		case 4:
			c.days[wd] = mk(tod, tod+1)
		case 5:
			c.days[wd] = mk(tod+1, tod+2+int64(r.IntN(90)))
		case 6:
			c.days[wd] = mk(tod-int64(1+r.IntN(90)), tod)
		case 7:
			c.days[wd] = mk(0, tod+1)
			c.days[(wd+1)%7] = mk(0, int64(r.IntN(3)))
		case 8:
			for j := range c.days {
				if j != wd {
					c.days[j] = full
				}
			}
		default:
			for j := range c.days {
				a, b := int64(r.IntN(1441)), int64(r.IntN(1441))
				c.days[j] = mk(min(a, b), max(a, b))
			}
		}

		return c
	}
	offAt := func(c *conf, t time.Time) int {
		if c == nil {
			return 0
		}
		_, off := t.In(c.loc).Zone()

		return off
	}
	utc := &conf{zone: "Local", loc: time.Local}

	n := vutil.N(300)
	for blk := 0; blk < n; blk++ {
		emit("C18.sreset")
		g, cli := utc, (*conf)(nil)
		// start near a transition of a random zone, or anywhere in 2000-2040
		z0, _ := time.LoadLocation(vutil.Pick(r, zones))
		now := time.Unix(c18fBubbleStart.Unix()+86400+r.Int64N(39*365*86400), 0)
		if r.IntN(3) > 0 {
			if _, end := now.In(z0).ZoneBounds(); !end.IsZero() && end.Year() < 2040 {
				now = end.Add(-time.Duration(r.IntN(7200)) * time.Second)
			}
		}
		noSched := func(n int) *conf { return &conf{zone: "Local", loc: time.Local, n: n} }
		zeros := []string{"-", "0", "0", "0", "0", "0", "0", "0", "0", "0", "0", "0", "0", "0", "0"}
		reqNow := func(site string) {
			emit("C18.sreq", site, strconv.FormatInt(now.Unix(), 10), strconv.Itoa(now.Nanosecond()),
				strconv.Itoa(offAt(g, now)), strconv.Itoa(offAt(cli, now)))
		}
		if blk == 0 || r.IntN(3) == 0 {
			// start-up, then users of the empty schedule: config load -> client without a schedule ->
			// request -> update without a schedule -> request.  (Always in the first block: state shared
			// through package-level variables shows up there, later blocks would be skipped.)
			g = newConf(nil, now)
			if blk == 0 {
				for j := range g.days {
					g.days[j] = full
				}
				g.n = 1
			}
			emit(append([]string{"C18.sload"}, fmtConf(g)...)...)
			cli = noSched(1 + r.IntN(2))
			emit(append(append([]string{"C18.scli", "2"}, zeros...), strconv.Itoa(cli.n))...)
			reqNow("client")
			g = noSched(1 + r.IntN(2))
			emit("C18.supdnos", strconv.Itoa(g.n))
			reqNow("global")
		}
		nOps := 20 + r.IntN(50)
		for i := 0; i < nOps; i++ {
			switch k := r.IntN(23); {
			case k >= 20:
				switch k {
				case 20:
					g = newConf(g, now)
					emit(append([]string{"C18.sload"}, fmtConf(g)...)...)
				case 21:
					g = noSched(r.IntN(3))
					emit("C18.supdnos", strconv.Itoa(g.n))
				default:
					cli = noSched(r.IntN(3))
					emit(append(append([]string{"C18.scli", "2"}, zeros...), strconv.Itoa(cli.n))...)
				}
			case k < 11:
				// a request after a clock advance
				var d time.Duration
				ref := g
				if cli != nil && r.IntN(2) == 0 {
					ref = cli
				}
				lt := now.In(ref.loc)
				switch r.IntN(16) {
				case 0, 1, 2:
					d = 0
				case 3:
					d = 1
				case 4:
					d = time.Second
				case 5:
					d = 59 * time.Second
				case 6:
					d = 60 * time.Second
				case 7:
					d = 61 * time.Second
				case 8, 9:
					// to the next minute boundary (-1 ns, 0, +1 s)
					d = now.Truncate(time.Minute).Add(time.Minute).Sub(now) + vutil.Pick(r, []time.Duration{-1, 0, time.Second})
				case 10:
					d = now.Truncate(time.Hour).Add(time.Hour).Sub(now) + vutil.Pick(r, []time.Duration{-1, 0, time.Second})
				case 11:
					// the next local midnight of the schedule's zone
					y, mo, dd := lt.Date()
					d = time.Date(y, mo, dd+1, 0, 0, 0, 0, ref.loc).Sub(now) + vutil.Pick(r, []time.Duration{-time.Second, -1, 0, time.Second})
				case 12:
					// the next transition of the schedule's zone
					if _, end := lt.ZoneBounds(); !end.IsZero() && end.Year() < 2040 {
						d = end.Sub(now) + vutil.Pick(r, []time.Duration{-time.Second, 0, time.Second, 30 * time.Minute, time.Hour})
					}
				case 13:
					d = time.Hour
				case 14:
					d = 24 * time.Hour
				default:
					d = time.Duration(r.Int64N(int64(3 * time.Hour)))
				}
				if d < 0 {
					d = 0
				}
				now = now.Add(d)
				site := "global"
				if r.IntN(2) == 0 {
					site = "client"
				}
				emit("C18.sreq", site, strconv.FormatInt(now.Unix(), 10), strconv.Itoa(now.Nanosecond()),
					strconv.Itoa(offAt(g, now)), strconv.Itoa(offAt(cli, now)))
			case k < 15:
				g = newConf(g, now)
				emit(append([]string{"C18.supd"}, fmtConf(g)...)...)
				if r.IntN(2) == 0 {
					emit("C18.sget")
				}
			case k < 16:
				c := *g
				c.n = r.IntN(3)
				g = &c
				emit("C18.sset", strconv.Itoa(g.n))
				if r.IntN(2) == 0 {
					emit("C18.sget")
				}
			default:
				if cli != nil && r.IntN(5) == 0 {
					cli = nil
					emit("C18.scli", "0", "-", "0", "0", "0", "0", "0", "0", "0", "0", "0", "0", "0", "0", "0", "0", "0")
				} else {
					cli = newConf(cli, now)
					emit(append([]string{"C18.scli", "1"}, fmtConf(cli)...)...)
				}
			}
		}
	}
}

func TestVerifC18Seq(t *testing.T) {
	run, stop := c18sRun(t)
	defer stop()
	vutil.Main(t, c18sGen, run)
}
