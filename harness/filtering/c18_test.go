//go:build verif

package filtering

import (
	"encoding/json"
	"io/fs"
	"math/rand/v2"
	"net/netip"
	"path/filepath"
	"sort"
	"strconv"
	"strings"
	"sync"
	"testing"
	"testing/synctest"
	"time"

	"github.com/AdguardTeam/AdGuardHome/internal/schedule"
	"github.com/AdguardTeam/AdGuardHome/internal/vutil"
)

// C18, request path: ApplyBlockedServices / ApplyAdditionalFiltering consult
// the pause schedule with time.Now().  The clock is the fake clock of
// testing/synctest: every case runs in its own bubble (which starts at
// 2000-01-01T00:00:00Z) and sleeps until the instant of the case.

// c18fBubbleStart is the instant at which every synctest bubble starts.
var c18fBubbleStart = time.Date(2000, 1, 1, 0, 0, 0, 0, time.UTC)

func c18fI64(s string) int64 {
	v, err := strconv.ParseInt(s, 10, 64)
	if err != nil {
		panic(err)
	}

	return v
}

// c18fSchedule builds a *schedule.Weekly through its public JSON form (the
// fields are not visible from this package).  Ranges are in nanoseconds and
// must be valid.
func c18fSchedule(zone string, f []string) *schedule.Weekly {
	keys := []string{"sun", "mon", "tue", "wed", "thu", "fri", "sat"}
	m := map[string]any{"time_zone": zone}
	for i, k := range keys {
		s, e := c18fI64(f[2*i]), c18fI64(f[2*i+1])
		if s == 0 && e == 0 {
			continue
		}
		m[k] = map[string]int64{"start": s / 1_000_000, "end": e / 1_000_000}
	}
	data, err := json.Marshal(m)
	if err != nil {
		panic(err)
	}
	w := &schedule.Weekly{}
	if err = json.Unmarshal(data, w); err != nil {
		panic("c18: schedule: " + err.Error())
	}

	return w
}

func c18fRun(t *testing.T) func(f []string) []string {
	InitModule()

	return func(f []string) (out []string) {
		if f[0] != "C18.applied" {
			panic("unknown op " + f[0])
		}
		site, zone := f[1], vutil.Unhex(f[2])
		target := time.Unix(c18fI64(f[3]), c18fI64(f[4]))
		w := c18fSchedule(zone, f[6:20])
		loc, err := time.LoadLocation(zone)
		if err != nil {
			panic(err)
		}
		ids := []string{"youtube", "facebook"}

		d := &DNSFilter{confMu: &sync.RWMutex{}, conf: &Config{}}
		switch site {
		case "global":
			d.conf.BlockedServices = &BlockedServices{Schedule: w, IDs: ids}
			d.applyClientFiltering = func(_ string, _ netip.Addr, _ *Settings) {}
		case "client":
			// the global list is never paused; the client's own list and schedule replace it
			d.conf.BlockedServices = &BlockedServices{Schedule: schedule.EmptyWeekly(), IDs: []string{"tiktok"}}
			d.applyClientFiltering = func(_ string, _ netip.Addr, setts *Settings) {
				setts.BlockedServices = &BlockedServices{Schedule: w.Clone(), IDs: ids}
			}
		default:
			panic("unknown site " + site)
		}

		var perr any
		synctest.Test(t, func(t *testing.T) {
			defer func() { perr = recover() }()
			time.Sleep(target.Sub(time.Now()))
			now := time.Now()
			if !now.Equal(target) {
				panic("c18: fake clock at " + now.String() + ", want " + target.String())
			}
			setts := &Settings{ProtectionEnabled: true, FilteringEnabled: true}
			if site == "global" {
				d.ApplyBlockedServices(setts)
			} else {
				d.ApplyAdditionalFiltering(netip.MustParseAddr("192.0.2.1"), "cli", setts)
			}
			_, off := now.In(loc).Zone()
			out = []string{vutil.B(len(setts.ServicesRules) > 0), strconv.Itoa(off)}
		})
		if perr != nil {
			panic(perr)
		}

		return out
	}
}

func c18fZones() (names []string) {
	root := "/usr/share/zoneinfo"
	_ = filepath.WalkDir(root, func(p string, d fs.DirEntry, err error) error {
		if err != nil || d.IsDir() {
			return nil
		}
		rel, rerr := filepath.Rel(root, p)
		if rerr != nil {
			return nil
		}
		n := filepath.ToSlash(rel)
		if strings.HasPrefix(n, "posix/") || strings.HasPrefix(n, "right/") || strings.ContainsAny(n, ". ") ||
			n == "posixrules" || n == "leapseconds" || n == "Factory" || n == "localtime" {
			return nil
		}
		if _, lerr := time.LoadLocation(n); lerr == nil {
			names = append(names, n)
		}

		return nil
	})
	if len(names) == 0 {
		names = []string{"UTC"}
	}
	sort.Strings(names)

	return names
}

func c18fGen(r *rand.Rand, emit vutil.Emit) {
	zones := c18fZones()
	hi := time.Date(2040, 1, 1, 0, 0, 0, 0, time.UTC)
	trans := map[string][]int64{}
	for _, z := range zones {
		loc, _ := time.LoadLocation(z)
		t := c18fBubbleStart.In(loc)
		for i := 0; i < 200; i++ {
			_, end := t.ZoneBounds()
			if end.IsZero() || !end.Before(hi) {
				break
			}
			trans[z] = append(trans[z], end.Unix())
			t = end
		}
	}
	const minute, day = int64(time.Minute), 24 * int64(time.Hour)
	deltas := []int64{-7200, -3601, -3600, -1, 0, 1, 1800, 3599, 3600, 3601, 7200, 36000, 79200, 82800, 86399}
	n := vutil.N(4000)
	for i := 0; i < n; i++ {
		z := vutil.Pick(r, zones)
		loc, _ := time.LoadLocation(z)
		var sec int64
		if trs := trans[z]; len(trs) > 0 && r.IntN(5) > 0 {
			sec = vutil.Pick(r, trs) + vutil.Pick(r, deltas)
		} else {
			sec = c18fBubbleStart.Unix() + 1 + r.Int64N(40*365*86400)
		}
		if sec <= c18fBubbleStart.Unix() {
			sec = c18fBubbleStart.Unix() + 1 + r.Int64N(86400)
		}
		nsec := vutil.Pick(r, []int64{0, 0, 1, 999_999_999})
		lt := time.Unix(sec, nsec).In(loc)
		_, off := lt.Zone()
		h, m, _ := lt.Clock()
		tod, wd := int64(h*60+m), int(lt.Weekday())
		var days [7][2]int64
		mk := func(a, b int64) [2]int64 {
			a, b = max(a, 0), min(b, 1440)
			if a >= b {
				return [2]int64{}
			}

			return [2]int64{a * minute, b * minute}
		}
		switch r.IntN(8) {
		case 0:
			for j := range days {
				days[j] = [2]int64{0, day}
			}
		case 1:
		case 2:
			days[wd] = mk(tod, tod+1)
		case 3:
			days[wd] = mk(tod+1, tod+61)
		case 4:
			days[wd] = mk(tod-60, tod)
		case 5:
			d := int64(60)
			if r.IntN(2) == 0 {
				d = -60
			}
			days[wd] = mk(tod+d, tod+d+1)
		case 6:
			for j := range days {
				if j != wd {
					days[j] = [2]int64{0, day}
				}
			}
		default:
			for j := range days {
				a, b := int64(r.IntN(1441)), int64(r.IntN(1441))
				days[j] = mk(min(a, b), max(a, b))
			}
		}
		f := []string{"C18.applied", vutil.Pick(r, []string{"global", "client"}), vutil.Hex(z),
			strconv.FormatInt(sec, 10), strconv.FormatInt(nsec, 10), strconv.Itoa(off)}
		for _, d := range days {
			f = append(f, strconv.FormatInt(d[0], 10), strconv.FormatInt(d[1], 10))
		}
		emit(f...)
	}
}

func TestVerifC18Applied(t *testing.T) { vutil.Main(t, c18fGen, c18fRun(t)) }
