//go:build verif

package filtering

import (
	"crypto/sha256"
	"encoding/hex"
	"math/rand/v2"
	"strings"
	"testing"
	"time"

	"github.com/AdguardTeam/AdGuardHome/internal/filtering/hashprefix"
	"github.com/AdguardTeam/AdGuardHome/internal/vutil"
	"github.com/miekg/dns"
	"golang.org/x/net/publicsuffix"
)

// C19, front end: the REAL DNSFilter.CheckHost with the safe-browsing and the
// parental-control checker (real hashprefix.Checker, fresh cache per case)
// behind recording lookup services.  The query name comes in the letter case
// the client sent (dnsforward only strips the trailing dot).

// c19Svc is a lookup service: a database of full hashes, answers with every
// hash carrying one of the 4-hex-digit labels asked (mirrors `serve` with the
// plain script).
type c19Svc struct {
	db        [][32]byte
	questions []string
}

func (u *c19Svc) Exchange(req *dns.Msg) (resp *dns.Msg, err error) {
	q := req.Question[0].Name
	u.questions = append(u.questions, q)
	asked := map[string]bool{}
	for _, l := range strings.Split(q, ".") {
		if len(l) == 4 {
			asked[l] = true
		}
	}
	var strs []string
	for _, h := range u.db {
		if asked[hex.EncodeToString(h[:2])] {
			strs = append(strs, hex.EncodeToString(h[:]))
		}
	}
	resp = (&dns.Msg{}).SetReply(req)
	if len(strs) > 0 {
		resp.Answer = append(resp.Answer, &dns.TXT{
			Hdr: dns.RR_Header{Name: q, Rrtype: dns.TypeTXT, Class: dns.ClassINET, Ttl: 10}, Txt: strs,
		})
	}

	return resp, nil
}

func (u *c19Svc) Address() string { return "c19" }
func (u *c19Svc) Close() error    { return nil }

var c19Filter *DNSFilter

func c19HostRun(f []string) []string {
	if f[0] != "C19.host" {
		panic("unknown op " + f[0])
	}
	if c19Filter == nil {
		d, err := New(&Config{}, nil)
		if err != nil {
			panic(err)
		}
		c19Filter = d
	}

	host := vutil.Unhex(f[1])
	setts := &Settings{
		FilteringEnabled: vutil.UnB(f[2]), SafeBrowsingEnabled: vutil.UnB(f[3]),
		ParentalEnabled: vutil.UnB(f[4]), ProtectionEnabled: vutil.UnB(f[5]),
	}
	sufS, sufP := vutil.Unhex(f[6]), vutil.Unhex(f[7])
	i := 10 + 2*vutil.Atoi(f[10]) + 1
	readDB := func() (db [][32]byte) {
		n := vutil.Atoi(f[i])
		for k := 0; k < n; k++ {
			var h [32]byte
			copy(h[:], vutil.Unhex(f[i+1+k]))
			db = append(db, h)
		}
		i += 1 + n

		return db
	}
	sb := &c19Svc{db: readDB()}
	pc := &c19Svc{db: readDB()}
	mk := func(u *c19Svc, suf string) Checker {
		return hashprefix.New(&hashprefix.Config{
			Upstream: u, ServiceName: "c19", TXTSuffix: suf, CacheTime: 10 * time.Minute, CacheSize: 100000,
		})
	}
	c19Filter.safeBrowsingChecker = mk(sb, sufS)
	c19Filter.parentalControlChecker = mk(pc, sufP)

	res, err := c19Filter.CheckHost(host, dns.TypeA, setts)

	reason := "other:" + res.Reason.String()
	switch {
	case err != nil:
		reason = "err"
	case res.Reason == NotFilteredNotFound && !res.IsFiltered:
		reason = "none"
	case res.Reason == FilteredSafeBrowsing && res.IsFiltered:
		reason = "sb"
	case res.Reason == FilteredParental && res.IsFiltered:
		reason = "pc"
	}
	q := func(u *c19Svc) string {
		switch len(u.questions) {
		case 0:
			return "-"
		case 1:
			return vutil.Hex(u.questions[0])
		default:
			return vutil.Hex(strings.Join(u.questions, " "))
		}
	}

	return []string{reason, q(sb), q(pc)}
}

var c19HostLabels = []string{"www", "mail", "a", "cdn", "x1", "api", "login", "static"}

var c19HostBases = []string{
	"example.com", "example.org", "test.co.uk", "foo.dyndns.org", "user.github.io", "host.internal",
	"bank.com.au", "foo.bar.kobe.jp", "xn--e1afmkfd.xn--p1ai", "printer.lan",
}

// c19Case re-cases the ASCII letters of s at random (DNS 0x20 and friends).
func c19Case(r *rand.Rand, s string) string {
	b := []byte(s)
	mode := r.IntN(5)
	for i, c := range b {
		up := false
		switch mode {
		case 0: // as is
		case 1:
			up = true
		case 2:
			up = r.IntN(2) == 0
		case 3:
			up = i == 0
		default:
			up = i >= len(b)-3 // the TLD
		}
		if up && 'a' <= c && c <= 'z' {
			b[i] = c - 32
		}
	}

	return string(b)
}

func c19Subs(host string) (subs []string) {
	if host == "" {
		return nil
	}
	subs = []string{host}
	for i := 0; i < len(host); i++ {
		if host[i] == '.' {
			subs = append(subs, host[i+1:])
		}
	}

	return subs
}

func c19HostGen(r *rand.Rand, emit vutil.Emit) {
	n := vutil.N(2000)
	sufs := []string{"sb.dns.adguard.com.", "pc.dns.adguard.com.", "x."}
	for c := 0; c < n; c++ {
		low := vutil.Pick(r, c19HostBases)
		for k := r.IntN(5); k > 0; k-- {
			low = vutil.Pick(r, c19HostLabels) + "." + low
		}
		switch r.IntN(30) {
		case 0:
			low = ""
		case 1:
			low = "com"
		case 2:
			low += "." // dnsforward strips it; CheckHost may still see one from other callers
		}
		host := c19Case(r, low)

		ps, icann := publicsuffix.PublicSuffix(low)
		subs := c19Subs(low)
		// databases: the name, a parent, the same in the queried case (must NOT
		// match), the public suffix, strangers sharing a prefix
		mkdb := func() (db [][32]byte) {
			for k, m := 0, r.IntN(4); k < m && len(subs) > 0; k++ {
				switch r.IntN(6) {
				case 0, 1:
					db = append(db, sha256.Sum256([]byte(vutil.Pick(r, subs))))
				case 2:
					db = append(db, sha256.Sum256([]byte(low)))
				case 3:
					db = append(db, sha256.Sum256([]byte(host)))
				case 4:
					db = append(db, sha256.Sum256([]byte(vutil.Pick(r, c19Subs(host)))))
				default:
					x := sha256.Sum256([]byte(vutil.Pick(r, subs)))
					x[31] ^= 1
					x[5] = byte(r.IntN(256))
					db = append(db, x)
				}
			}

			return db
		}
		dbS, dbP := mkdb(), mkdb()

		f := []string{"C19.host", vutil.Hex(host),
			vutil.B(r.IntN(2) == 0), vutil.B(r.IntN(4) > 0), vutil.B(r.IntN(3) > 0), vutil.B(r.IntN(10) > 0),
			vutil.Hex(vutil.Pick(r, sufs)), vutil.Hex(vutil.Pick(r, sufs)), vutil.Hex(ps), vutil.B(icann), vutil.Itoa(len(subs))}
		for _, s := range subs {
			h := sha256.Sum256([]byte(s))
			f = append(f, vutil.Hex(s), hex.EncodeToString(h[:]))
		}
		for _, db := range [][][32]byte{dbS, dbP} {
			f = append(f, vutil.Itoa(len(db)))
			for _, h := range db {
				f = append(f, hex.EncodeToString(h[:]))
			}
		}
		emit(f...)
	}
}

func TestVerifC19Host(t *testing.T) { vutil.Main(t, c19HostGen, c19HostRun) }
