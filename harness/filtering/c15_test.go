//go:build verif

package filtering

import (
	"bufio"
	"bytes"
	"compress/gzip"
	"context"
	"encoding/json"
	"fmt"
	"io"
	"math/rand/v2"
	"net"
	"net/http"
	"net/http/httptest"
	"os"
	"path/filepath"
	"strconv"
	"strings"
	"sync"
	"testing"
	"time"

	"github.com/AdguardTeam/AdGuardHome/internal/filtering/rulelist"
	"github.com/AdguardTeam/AdGuardHome/internal/vutil"
	"github.com/AdguardTeam/golibs/log"
	"github.com/miekg/dns"
)

// C15 harness, part (b): sequences of refreshes against a list server whose
// answer is scripted per request (and local list files), through the real
// tryRefreshFilters.  After every refresh each list's count, checksum, file
// bytes, "rules in force" (CheckHost probes) and whether the file was replaced
// are reported.

const c15Root = "/tmp/vc15"

type c15Script struct {
	kind     string // "F" or "B"
	data     string
	complete bool
}

type c15List struct {
	allow, enabled, local bool
}

type c15World struct {
	mu       sync.Mutex
	scripts  map[string][]c15Script // URL -> answers, one per request (the last repeats)
	reqs     map[string]int         // URL -> requests received during this operation
	cond     map[string]int         // URL -> requests carrying If-Modified-Since during this operation
	lastBody map[string]string      // URL -> the body the source serves now
	lastMod  map[string]time.Time   // URL -> when that body appeared
	srv      *httptest.Server
	client   *http.Client

	d       *DNSFilter
	lists   []c15List
	removed map[int]bool
	dataDir string
}

var (
	c15Once sync.Once
	c15W    *c15World
)

func (w *c15World) serve(rw http.ResponseWriter, r *http.Request) {
	key := r.Host + r.URL.Path
	w.mu.Lock()
	seq, ok := w.scripts[key]
	var sc c15Script
	if ok {
		sc = seq[min(w.reqs[key], len(seq)-1)]
		w.reqs[key]++
	}
	ims := r.Header.Get("If-Modified-Since")
	lm, hasLM := w.lastMod[key]
	if ims != "" {
		w.cond[key]++
	}
	w.mu.Unlock()
	if ok && ims != "" && hasLM && (sc.kind == "B" || sc.kind == "G") && sc.complete {
		// what a real server does with a conditional request
		if t, perr := http.ParseTime(ims); perr == nil && !lm.Truncate(time.Second).After(t) {
			rw.WriteHeader(http.StatusNotModified)

			return
		}
	}
	if hasLM {
		rw.Header().Set("Last-Modified", lm.UTC().Format(http.TimeFormat))
	}
	if !ok {
		http.Error(rw, "no script", http.StatusTeapot)

		return
	}
	hijack := func() (net.Conn, *bufio.ReadWriter) {
		hj, hok := rw.(http.Hijacker)
		if !hok {
			panic("no hijacker")
		}
		c, brw, err := hj.Hijack()
		if err != nil {
			panic(err)
		}

		return c, brw
	}
	switch {
	case strings.HasPrefix(sc.kind, "S"):
		// a plain status with a body, no redirect
		code := vutil.Atoi(sc.kind[1:])
		rw.Header().Set("Content-Type", "text/plain")
		rw.WriteHeader(code)
		_, _ = io.WriteString(rw, sc.data)
	case sc.kind == "G":
		// gzip content coding (Go's transport asks for it and decodes it): whole, or cut inside the stream
		var zb bytes.Buffer
		zw := gzip.NewWriter(&zb)
		_, _ = zw.Write([]byte(sc.data))
		_ = zw.Close()
		z := zb.Bytes()
		if !sc.complete {
			z = z[:len(z)*2/3]
		}
		rw.Header().Set("Content-Encoding", "gzip")
		rw.Header().Set("Content-Type", "text/plain")
		_, _ = rw.Write(z)
	case strings.HasPrefix(sc.kind, "R"):
		// a redirect the client follows to a 200 with the body
		rw.Header().Set("Location", "http://"+r.Host+r.URL.Path+".r")
		rw.WriteHeader(vutil.Atoi(sc.kind[1:]))
	case sc.kind == "F" && sc.data == "404":
		http.Error(rw, "||w0.never.example^\n", http.StatusNotFound)
	case sc.kind == "F" && sc.data == "500":
		http.Error(rw, "||w0.never.example^\n", http.StatusInternalServerError)
	case sc.kind == "F":
		// connection closed before any header
		c, _ := hijack()
		_ = c.Close()
	case sc.complete:
		rw.Header().Set("Content-Type", "text/plain")
		_, _ = io.WriteString(rw, sc.data)
	default:
		// body cut short: either a too large Content-Length or an unterminated chunk stream
		c, brw := hijack()
		if len(sc.data)%2 == 0 {
			_, _ = fmt.Fprintf(brw, "HTTP/1.1 200 OK\r\nContent-Type: text/plain\r\nContent-Length: %d\r\n\r\n%s", len(sc.data)+57, sc.data)
		} else {
			_, _ = fmt.Fprintf(brw, "HTTP/1.1 200 OK\r\nContent-Type: text/plain\r\nTransfer-Encoding: chunked\r\n\r\n%x\r\n%s\r\n", len(sc.data), sc.data)
		}
		_ = brw.Flush()
		_ = c.Close()
	}
}

// c15Attempts turns "pre1+pre2+…+final" into the answers to the successive
// requests of ONE update: pre ∈ cut<hex> (announces more than it sends, then
// drops the connection), reset, s500, s404; final = an ordinary kind answered
// with (data, complete).
func c15Attempts(kind, data string, complete bool) (seq []c15Script) {
	parts := strings.Split(kind, "+")
	for _, p := range parts[:len(parts)-1] {
		switch {
		case strings.HasPrefix(p, "cut"):
			seq = append(seq, c15Script{kind: "B", data: vutil.Unhex(p[3:]), complete: false})
		case p == "reset":
			seq = append(seq, c15Script{kind: "F", data: "reset"})
		case p == "s500":
			seq = append(seq, c15Script{kind: "F", data: "500"})
		case p == "s404":
			seq = append(seq, c15Script{kind: "F", data: "404"})
		default:
			panic("harness: unknown attempt " + p)
		}
	}

	return append(seq, c15Script{kind: parts[len(parts)-1], data: data, complete: complete})
}

func c15Setup() *c15World {
	c15Once.Do(func() {
		log.SetOutput(io.Discard)
		w := &c15World{scripts: map[string][]c15Script{}, reqs: map[string]int{}, cond: map[string]int{},
			lastBody: map[string]string{}, lastMod: map[string]time.Time{}}
		w.srv = httptest.NewServer(http.HandlerFunc(w.serve))
		addr := w.srv.Listener.Addr().String()
		w.client = &http.Client{
			Timeout: 5 * time.Second,
			Transport: &http.Transport{
				DisableKeepAlives: true,
				DialContext: func(ctx context.Context, network, _ string) (net.Conn, error) {
					return (&net.Dialer{}).DialContext(ctx, network, addr)
				},
			},
		}
		c15W = w
	})

	return c15W
}

func c15Teardown() {
	if c15W == nil {
		return
	}
	if c15W.d != nil {
		c15W.d.Close()
	}
	c15W.srv.Close()
	if c15W.dataDir != "" {
		_ = os.RemoveAll(c15W.dataDir)
	}
	_ = os.RemoveAll(c15Root)
}

func c15URL(i int, l c15List) string {
	if l.local {
		return fmt.Sprintf("%s/l%d.txt", c15Root, i)
	}

	return c15HTTPURL(i, 0)
}

func c15HTTPURL(host, ver int) string { return fmt.Sprintf("http://l%d.example/v%d.txt", host, ver) }

func (w *c15World) reset(f []string) []string {
	n := vutil.Atoi(f[0])
	if w.d != nil {
		w.d.Close()
		w.d = nil
	}
	if w.dataDir != "" {
		_ = os.RemoveAll(w.dataDir)
	}
	_ = os.RemoveAll(c15Root)
	if err := os.MkdirAll(c15Root, 0o755); err != nil {
		panic(err)
	}
	dir, err := os.MkdirTemp("", "vc15-data-")
	if err != nil {
		panic(err)
	}
	w.dataDir = dir
	w.lists = nil
	w.removed = map[int]bool{}
	conf := &Config{
		FilteringEnabled:           true,
		ProtectionEnabled:          true,
		SafeFSPatterns:             []string{c15Root + "/*"},
		HTTPClient:                 w.client,
		ConfigModified:             func() {},
		DataDir:                    dir,
		FiltersUpdateIntervalHours: 24,
	}
	for i := 0; i < n; i++ {
		l := c15List{allow: vutil.UnB(f[1+3*i]), enabled: vutil.UnB(f[2+3*i]), local: f[3+3*i] == "L"}
		w.lists = append(w.lists, l)
		fy := FilterYAML{Enabled: l.enabled, URL: c15URL(i, l), Name: fmt.Sprintf("l%d", i), white: l.allow, Filter: Filter{ID: rulelist.URLFilterID(i + 1)}}
		if l.allow {
			conf.WhitelistFilters = append(conf.WhitelistFilters, fy)
		} else {
			conf.Filters = append(conf.Filters, fy)
		}
	}
	d, err := New(conf, nil)
	if err != nil {
		panic(err)
	}
	d.filtersInitializerChan = make(chan filtersInitializerParams, 1)
	w.d = d

	return []string{"ok"}
}

// flt returns the live FilterYAML of list i.
func (w *c15World) flt(i int) *FilterYAML {
	id := rulelist.URLFilterID(i + 1)
	for k := range w.d.conf.Filters {
		if w.d.conf.Filters[k].ID == id {
			return &w.d.conf.Filters[k]
		}
	}
	for k := range w.d.conf.WhitelistFilters {
		if w.d.conf.WhitelistFilters[k].ID == id {
			return &w.d.conf.WhitelistFilters[k]
		}
	}
	if w.removed[i] {
		return nil
	}
	panic("no such list")
}

// pathOf is the stored file of list i, also when the list has been removed.
func (w *c15World) pathOf(i int) string {
	fy := FilterYAML{Filter: Filter{ID: rulelist.URLFilterID(i + 1)}}

	return fy.Path(w.dataDir)
}

func (w *c15World) mask(i int) int {
	m := 0
	setts := &Settings{FilteringEnabled: true, ProtectionEnabled: true}
	for k := 0; k < 4; k++ {
		res, err := w.d.CheckHost(fmt.Sprintf("w%d.l%d.example", k, i), dns.TypeA, setts)
		if err != nil {
			panic(err)
		}
		hit := false
		if w.lists[i].allow {
			hit = res.Reason == NotFilteredAllowList
		} else {
			hit = res.IsFiltered && res.Reason == FilteredBlockList
		}
		if hit {
			m |= 1 << k
		}
	}

	return m
}

func (w *c15World) refresh(f []string) []string {
	block, allow, force := vutil.UnB(f[0]), vutil.UnB(f[1]), vutil.UnB(f[2])
	rest := f[3:]
	n := len(w.lists)
	if len(rest) != 4*n {
		panic("bad refresh line")
	}
	before := make([]os.FileInfo, n)
	w.mu.Lock()
	w.scripts = map[string][]c15Script{}
	w.reqs = map[string]int{}
	w.cond = map[string]int{}
	w.mu.Unlock()
	now := time.Now()
	for i := 0; i < n; i++ {
		due, kind, data, complete := vutil.UnB(rest[4*i]), rest[4*i+1], vutil.Unhex(rest[4*i+2]), vutil.UnB(rest[4*i+3])
		l := w.lists[i]
		fy := w.flt(i)
		if fy == nil {
			continue // removed from the configuration
		}
		w.d.conf.filtersMu.Lock()
		if due {
			fy.LastUpdated = time.Time{}
		} else {
			fy.LastUpdated = now
		}
		w.d.conf.filtersMu.Unlock()
		before[i], _ = os.Stat(fy.Path(w.dataDir))
		if l.local {
			p := c15URL(i, l)
			_ = os.RemoveAll(p)
			switch {
			case kind == "B":
				if !complete {
					panic("harness: a local file cannot be cut short")
				}
				if err := os.WriteFile(p, []byte(data), 0o644); err != nil {
					panic(err)
				}
			case data == "dir":
				if err := os.Mkdir(p, 0o755); err != nil {
					panic(err)
				}
			}
		} else {
			w.mu.Lock()
			key := strings.TrimPrefix(fy.URL, "http://")
			w.scripts[key] = c15Attempts(kind, data, complete)
			if data != w.lastBody[key] || w.lastMod[key].IsZero() {
				// the source has a new version of the list
				w.lastBody[key], w.lastMod[key] = data, time.Now()
			}
			if strings.HasPrefix(kind, "R") {
				w.scripts[key+".r"] = []c15Script{{kind: "B", data: data, complete: complete}}
			}
			w.mu.Unlock()
		}
	}

	_, _, ok := w.d.tryRefreshFilters(block, allow, force)
	if !ok {
		panic("refresh lock busy")
	}

	return w.observe(before)
}

// observe reports count, checksum, file, rules in force and "rewritten" of every list.
func (w *c15World) observe(before []os.FileInfo) (obs []string) {
	n := len(w.lists)
	for i := 0; i < n; i++ {
		fy := w.flt(i)
		if fy == nil {
			fy = &FilterYAML{Filter: Filter{ID: rulelist.URLFilterID(i + 1)}}
		}
		p := w.pathOf(i)
		file := "~"
		data, err := os.ReadFile(p)
		if err == nil {
			file = vutil.Hex(string(data))
		}
		after, _ := os.Stat(p)
		rew := after != nil && (before[i] == nil || !os.SameFile(before[i], after))
		// What a restart computes: the real DNSFilter.load on the stored file.
		re := FilterYAML{Filter: Filter{ID: fy.ID}}
		if lerr := w.d.load(&re); lerr != nil {
			// a restart would come up with no rules for this list
			re.RulesCount, re.checksum = 0, 0
		}
		w.mu.Lock()
		nreq := w.reqs[strings.TrimPrefix(fy.URL, "http://")]
		ncond := w.cond[strings.TrimPrefix(fy.URL, "http://")]
		w.mu.Unlock()
		obs = append(obs, strconv.Itoa(fy.RulesCount), strconv.FormatUint(uint64(fy.checksum), 10), file,
			strconv.Itoa(w.mask(i)), vutil.B(rew), strconv.Itoa(re.RulesCount), strconv.FormatUint(uint64(re.checksum), 10),
			strconv.Itoa(nreq), strconv.Itoa(ncond))
	}
	// no stray pending files may be left behind
	ents, _ := os.ReadDir(filepath.Join(w.dataDir, filterDir))
	for _, e := range ents {
		// <id>.txt.old is what remove_url leaves behind (never deleted, as the code says)
		if !strings.HasSuffix(e.Name(), ".txt") && !strings.HasSuffix(e.Name(), ".txt.old") {
			obs = append(obs, "stray:"+vutil.Hex(e.Name()))
		}
	}

	return obs
}

// setURL runs one set_url request on list i.
func (w *c15World) setURL(f []string) []string {
	i, j, k := vutil.Atoi(f[0]), vutil.Atoi(f[1]), vutil.Atoi(f[2])
	enabled, kind, data, complete := vutil.UnB(f[3]), f[4], vutil.Unhex(f[5]), vutil.UnB(f[6])
	n := len(w.lists)
	if i >= n || w.lists[i].local {
		panic("harness: set_url is exercised on HTTP lists only")
	}
	before := make([]os.FileInfo, n)
	for x := 0; x < n; x++ {
		before[x], _ = os.Stat(w.pathOf(x))
	}
	oldURL := w.flt(i).URL
	newURL := c15HTTPURL(j, k)
	w.mu.Lock()
	w.scripts = map[string][]c15Script{strings.TrimPrefix(newURL, "http://"): c15Attempts(kind, data, complete)}
	w.reqs = map[string]int{}
	w.cond = map[string]int{}
	if strings.HasPrefix(kind, "R") {
		w.scripts[strings.TrimPrefix(newURL, "http://")+".r"] = []c15Script{{kind: "B", data: data, complete: complete}}
	}
	w.mu.Unlock()

	body, err := json.Marshal(filterURLReq{
		Data:      &filterURLReqData{Name: fmt.Sprintf("l%d", i), URL: newURL, Enabled: enabled},
		URL:       oldURL,
		Whitelist: w.lists[i].allow,
	})
	if err != nil {
		panic(err)
	}
	r := httptest.NewRequest(http.MethodPost, "http://agh.example/control/filtering/set_url", bytes.NewReader(body))
	rec := httptest.NewRecorder()
	w.d.handleFilteringSetURL(rec, r)
	// The engine rebuild is only requested here; C15.loop runs it.
	changed := w.flt(i).URL == newURL && oldURL != newURL

	return append([]string{strconv.Itoa(rec.Code), vutil.B(changed)}, w.observe(before)...)
}

func (w *c15World) stats() []os.FileInfo {
	before := make([]os.FileInfo, len(w.lists))
	for x := range w.lists {
		before[x], _ = os.Stat(w.pathOf(x))
	}

	return before
}

// setRules runs set_rules: a handler that changes no list and requests an
// engine rebuild.
func (w *c15World) setRules() []string {
	before := w.stats()
	w.mu.Lock()
	w.reqs = map[string]int{}
	w.cond = map[string]int{}
	w.mu.Unlock()
	r := httptest.NewRequest(http.MethodPost, "http://agh.example/control/filtering/set_rules", strings.NewReader(`{"rules":[]}`))
	r.Header.Set("Content-Type", "application/json")
	rec := httptest.NewRecorder()
	w.d.handleFilteringSetRules(rec, r)

	return append([]string{strconv.Itoa(rec.Code)}, w.observe(before)...)
}

// remove runs remove_url on list i.
func (w *c15World) remove(f []string) []string {
	i := vutil.Atoi(f[0])
	before := w.stats()
	w.mu.Lock()
	w.reqs = map[string]int{}
	w.cond = map[string]int{}
	w.mu.Unlock()
	fy := w.flt(i)
	if fy == nil {
		panic("harness: list already removed")
	}
	body, err := json.Marshal(map[string]any{"url": fy.URL, "whitelist": w.lists[i].allow})
	if err != nil {
		panic(err)
	}
	r := httptest.NewRequest(http.MethodPost, "http://agh.example/control/filtering/remove_url", bytes.NewReader(body))
	rec := httptest.NewRecorder()
	w.d.handleFilteringRemoveURL(rec, r)
	w.removed[i] = true
	if w.flt(i) != nil {
		panic("harness: remove_url did not remove the list")
	}
	before[i] = nil

	return append([]string{strconv.Itoa(rec.Code)}, w.observe(before)...)
}

// loop does what updatesLoop does with the tasks waiting in the channel.
func (w *c15World) loop() []string {
	before := w.stats()
	w.mu.Lock()
	w.reqs = map[string]int{}
	w.cond = map[string]int{}
	w.mu.Unlock()
	for {
		select {
		case params := <-w.d.filtersInitializerChan:
			if ierr := w.d.initFiltering(params.allowFilters, params.blockFilters); ierr != nil {
				panic(ierr)
			}

			continue
		default:
		}

		break
	}

	return w.observe(before)
}

func c15RunB(f []string) []string {
	w := c15Setup()
	switch f[0] {
	case "C15.reset":
		return w.reset(f[1:])
	case "C15.refresh":
		return w.refresh(f[1:])
	case "C15.seturl":
		return w.setURL(f[1:])
	case "C15.setrules":
		return w.setRules()
	case "C15.loop":
		return w.loop()
	case "C15.remove":
		return w.remove(f[1:])
	}
	panic("unknown op " + f[0])
}

// ---------------------------------------------------------------- generator

func c15Content(r *rand.Rand, i int) string {
	var b strings.Builder
	n := r.IntN(5)
	wrote := false
	for j := 0; j < n; j++ {
		if wrote && r.IntN(7) == 0 {
			// an HTML opener AFTER the first rule is an ordinary rule line for the parser
			b.WriteString(vutil.Pick(r, []string{"", " ", "\t"}) +
				vutil.Pick(r, []string{"<html>", "<HTML lang=\"en\">", "<!DOCTYPE html>", "<!doctype html>", "<Html", "<!DocType"}) +
				vutil.Pick(r, []string{"\n", "\r\n", "\n", ""}))
			if !strings.HasSuffix(b.String(), "\n") {
				b.WriteString("\n")
			}

			continue
		}
		switch r.IntN(12) {
		case 0:
			b.WriteString("# comment\n")
		case 1:
			b.WriteString("! Title: T" + strconv.Itoa(r.IntN(3)) + "\n")
		case 2:
			b.WriteString("\n")
		case 3:
			b.WriteString("  \t\r\n")
		case 4:
			// an Adblock-style header, before or after a title
			b.WriteString(vutil.Pick(r, []string{"[Adblock Plus 2.0]\n", "! Title: T\n[Adblock Plus 2.0]\n", "[Adblock Plus 2.0]\n! Title: T\n", "[uBlock Origin]\n"}))
		default:
			k := r.IntN(4)
			wrote = true
			rule := fmt.Sprintf("||w%d.l%d.example^", k, i)
			b.WriteString(vutil.Pick(r, []string{"", "", " ", "\t", "\xc2\xa0"}) + rule + vutil.Pick(r, []string{"", "", " ", "\r", "\xe2\x80\x80"}))
			if j == n-1 && r.IntN(4) == 0 {
				break
			}
			b.WriteString(vutil.Pick(r, []string{"\n", "\n", "\r\n"}))
		}
	}

	return b.String()
}

func c15GenB(r *rand.Rand, emit vutil.Emit) {
	nblocks := vutil.N(500)
	for b := 0; b < nblocks; b++ {
		n := 1 + r.IntN(3)
		lists := make([]c15List, n)
		line := []string{"C15.reset", strconv.Itoa(n)}
		for i := range lists {
			lists[i] = c15List{allow: r.IntN(3) == 0, enabled: r.IntN(8) > 0, local: r.IntN(4) == 0}
			src := "H"
			if lists[i].local {
				src = "L"
			}
			line = append(line, vutil.B(lists[i].allow), vutil.B(lists[i].enabled), src)
		}
		emit(line...)
		prev := make([]string, n)
		removed := map[int]bool{}
		ver := 0
		if r.IntN(25) == 0 && !lists[0].local && lists[0].enabled {
			// cut sweep: store a list, then deliver a different body cut after k bytes for EVERY k,
			// by a short Content-Length / an unterminated chunk / a cut gzip stream: nothing may change
			first := c15Content(r, 0) + "||w0.l0.example^\n"
			second := c15Content(r, 0) + "||w1.l0.example^\n||w2.l0.example^\n"
			op := func(kind, data string, complete bool) {
				ln := []string{"C15.refresh", vutil.B(!lists[0].allow), vutil.B(lists[0].allow), "1"}
				for i := range lists {
					if i == 0 {
						ln = append(ln, "1", kind, vutil.Hex(data), vutil.B(complete))
					} else {
						ln = append(ln, "0", "F", vutil.Hex("404"), "1")
					}
				}
				emit(ln...)
			}
			op("B", first, true)
			for k := 0; k <= len(second); k++ {
				op(vutil.Pick(r, []string{"B", "B", "G"}), second[:k], false)
			}
			// the same cuts, each immediately followed by a complete answer to a second request
			for k := 0; k < len(second); k++ {
				op("cut"+vutil.Hex(second[:k])+"+B", second, true)
			}
			op("B", second, true)

			continue
		}
		steps := 2 + r.IntN(7)
		for s := 0; s < steps; s++ {
			if r.IntN(4) == 0 {
				// a burst of 1-3 handler calls that each request an engine rebuild
				// (set_url on HTTP lists, set_rules), THEN the updates-loop step
				var httpLists []int
				for i, l := range lists {
					if !l.local && !removed[i] {
						httpLists = append(httpLists, i)
					}
				}
				for b := 1 + r.IntN(3); b > 0; b-- {
					if r.IntN(12) == 0 {
						// remove_url of a list that is still there
						var alive []int
						for i := range lists {
							if !removed[i] {
								alive = append(alive, i)
							}
						}
						if len(alive) > 0 {
							i := vutil.Pick(r, alive)
							removed[i] = true
							emit("C15.remove", strconv.Itoa(i))
							var keep []int
							for _, x := range httpLists {
								if x != i {
									keep = append(keep, x)
								}
							}
							httpLists = keep

							continue
						}
					}
					if len(httpLists) == 0 || r.IntN(4) == 0 {
						emit("C15.setrules")

						continue
					}
					i := vutil.Pick(r, httpLists)
					j, k := i, 0
					switch x := r.IntN(10); {
					case x < 5:
						ver++
						k = ver
					case x < 8:
						k = ver // maybe the current one: only the enabled flag can change
					case x < 9:
						k = 0
					default:
						j = r.IntN(n) // another list's URL: duplicate
					}
					kind, data, complete := "B", c15Content(r, i), true
					switch x := r.IntN(12); {
					case x < 3:
						kind, data = "F", vutil.Pick(r, []string{"404", "500", "reset"})
					case x < 4:
						data = ""
					case x < 5:
						data = "# only a comment\n\n"
					case x < 6:
						complete = false
					case x < 7:
						data = "<html><body>moved</body></html>\n"
					case x < 8:
						data = prev[i]
					case x < 10:
						kind = "S" + vutil.Pick(r, []string{"201", "204", "206", "301", "304", "403", "503"})
					case x < 11:
						kind = "R" + vutil.Pick(r, []string{"301", "302", "308"})
					}
					emit("C15.seturl", strconv.Itoa(i), strconv.Itoa(j), strconv.Itoa(k), vutil.B(r.IntN(3) > 0),
						kind, vutil.Hex(data), vutil.B(complete))
				}
				emit("C15.loop")
				if r.IntN(6) == 0 {
					emit("C15.loop") // nothing waiting
				}

				continue
			}
			block, allow := true, true
			switch r.IntN(6) {
			case 0:
				allow = false
			case 1:
				block = false
			}
			force := r.IntN(3) > 0
			op := []string{"C15.refresh", vutil.B(block), vutil.B(allow), vutil.B(force)}
			for i, l := range lists {
				due := r.IntN(3) > 0
				kind, data, complete := "B", "", true
				switch x := r.IntN(20); {
				case x < 4:
					kind = "F"
					if l.local {
						data = vutil.Pick(r, []string{"nofile", "dir"})
					} else {
						data = vutil.Pick(r, []string{"404", "500", "reset"})
					}
				case x < 7:
					// same content as last time: checksum unchanged
					data = prev[i]
				case x < 9 && !l.local:
					// cut short: before the body, mid-line, at a line boundary
					data = c15Content(r, i)
					complete = false
					if len(data) > 0 {
						switch r.IntN(3) {
						case 0:
							data = ""
						case 1:
							data = data[:r.IntN(len(data)+1)]
						default:
							if j := strings.LastIndexByte(data[:len(data)-1], '\n'); j >= 0 {
								data = data[:j+1]
							}
						}
					}
				case x < 10:
					data = vutil.Pick(r, []string{"<html><body>404</body></html>\n", "<!DOCTYPE html>\n<html>\n", "# c\n <HTML>\n||w0.l0.example^\n"})
				case x < 11:
					data = c15Content(r, i) + vutil.Pick(r, []string{"\x00\x01\x02binary\n", "||w1.l" + strconv.Itoa(i) + ".example^\x7f\n", "a\x1bb"})
				case x < 12:
					// same rules, different comments / spacing: same checksum
					data = "# refreshed\n" + strings.ReplaceAll(prev[i], "\n", " \r\n")
				default:
					data = c15Content(r, i)
				}
				if !l.local && r.IntN(6) == 0 {
					// other status codes, with empty / partial / full bodies
					body := c15Content(r, i)
					switch r.IntN(3) {
					case 0:
						body = ""
					case 1:
						// the first half, whole lines only (a truncated rule would be a
						// different, broader rule for the probe oracle)
						body = body[:len(body)/2]
						body = body[:strings.LastIndexByte(body, '\n')+1]
					}
					if r.IntN(4) == 0 {
						kind = "R" + vutil.Pick(r, []string{"301", "302", "303", "307", "308"})
					} else {
						kind = "S" + vutil.Pick(r, []string{"201", "202", "203", "204", "205", "206", "226", "300", "301", "302",
							"304", "307", "400", "401", "403", "410", "429", "500", "502", "503"})
					}
					data, complete = body, true
				}
				if !l.local && kind == "B" && r.IntN(6) == 0 {
					// the source answers the FIRST request of this update differently from later ones
					other := c15Content(r, i) + "||w3.l" + strconv.Itoa(i) + ".example^\n"
					pre := vutil.Pick(r, []string{"cut" + vutil.Hex(other[:r.IntN(len(other))]), "reset", "s500", "s404",
						"cut" + vutil.Hex(other[:r.IntN(len(other))]) + "+cut" + vutil.Hex(other[:r.IntN(len(other))])})
					kind = pre + "+B"
				} else if !l.local && kind == "B" && r.IntN(10) == 0 {
					kind = "G" // the same body, gzip-coded (cut inside the stream when !complete)
				}
				if (kind == "B" || kind == "G" || kind[0] == 'R') && complete {
					prev[i] = data
				}
				if strings.Contains(kind, "+") {
					prev[i] = prev[i] // the first answer decides: nothing stored
				}
				op = append(op, vutil.B(due), kind, vutil.Hex(data), vutil.B(complete))
			}
			emit(op...)
		}
	}
}

func TestVerifC15Refresh(t *testing.T) {
	t.Cleanup(c15Teardown)
	vutil.Main(t, c15GenB, c15RunB)
}
