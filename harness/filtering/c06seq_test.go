//go:build verif

package filtering

import (
	"bytes"
	"encoding/json"
	"fmt"
	"math/rand/v2"
	"net/http"
	"net/http/httptest"
	"net/netip"
	"sort"
	"strings"
	"sync"
	"testing"
	"time"

	"github.com/AdguardTeam/AdGuardHome/internal/vutil"
	"github.com/stretchr/testify/require"
	"gopkg.in/yaml.v3"
)

// C06 sequence harness: ONE long-lived DNSFilter per block, built by New from a
// *Config that the harness keeps and hands back to WriteDiskConfig exactly as
// internal/home does (same pointer).  Operations: lookups, configuration
// writes, and rewrite add / delete / update through the real HTTP handlers.
// After every table operation the live d.conf.Rewrites is dumped with its
// derived fields.
//
//	C06.reset  autosave  b name×b  n (domain answer kind ip)×n   (blocking rules ||name^)
//	C06.reload               (save, YAML round trip, a NEW filter from what was saved)
//	C06.list                 (GET /control/rewrite/list)
//	C06.bad    add|del|upd   (malformed JSON body)
//	C06.q      host qtype
//	C06.write  same          (1: the live *Config, as home; 0: another object)
//	C06.add    domain answer kind ip
//	C06.del    domain answer
//	C06.upd    tdomain tanswer domain answer kind ip

var (
	c06SeqT    *testing.T
	c06SeqD    *DNSFilter
	c06SeqConf *Config
	c06SeqAuto bool
	c06SeqDead bool
	c06SeqFlt  []Filter
	c06SeqSett = &Settings{ProtectionEnabled: true, FilteringEnabled: true}
)

func c06DumpRows(rws []*LegacyRewrite) (out []string) {
	out = []string{vutil.Itoa(len(rws))}
	for _, rw := range rws {
		ip := ""
		if rw.IP != (netip.Addr{}) {
			ip = rw.IP.String()
		}
		out = append(out, vutil.Hex(rw.Domain), vutil.Hex(rw.Answer), vutil.Itoa(int(rw.Type)), vutil.Hex(ip))
	}

	return out
}

func c06SeqDump() []string {
	d := c06SeqD
	d.confMu.RLock()
	defer d.confMu.RUnlock()

	return c06DumpRows(d.conf.Rewrites)
}

func c06SeqHTTP(h http.HandlerFunc, method string, body any) string {
	b, err := json.Marshal(body)
	if err != nil {
		panic(err)
	}
	w := httptest.NewRecorder()
	h(w, httptest.NewRequest(method, "/control/rewrite/x", bytes.NewReader(b)))

	return vutil.Itoa(w.Code)
}

// c06SeqNew replaces the long-lived filter by one created from rws.
func c06SeqNew(rws []*LegacyRewrite) {
	conf := &Config{Rewrites: rws}
	conf.ConfigModified = func() {
		// home: onConfigModified -> config.write -> filters.WriteDiskConfig(config.Filtering)
		if c06SeqAuto {
			c06SeqD.WriteDiskConfig(conf)
		}
	}
	d, err := New(conf, c06SeqFlt)
	require.NoError(c06SeqT, err)
	if c06SeqD != nil && !c06SeqDead {
		c06SeqD.Close()
	}
	c06SeqD, c06SeqConf, c06SeqDead = d, conf, false
}

func c06SeqRun(f []string) []string {
	switch f[0] {
	case "C06.reset":
		c06SeqAuto = vutil.UnB(f[1])
		nb := vutil.Atoi(f[2])
		rules := ""
		for i := 0; i < nb; i++ {
			rules += "||" + vutil.Unhex(f[3+i]) + "^\n"
		}
		c06SeqFlt = nil
		if nb > 0 {
			c06SeqFlt = []Filter{{ID: 1, Data: []byte(rules)}}
		}
		f = f[3+nb:]
		n := vutil.Atoi(f[0])
		rws := make([]*LegacyRewrite, n)
		for i := range rws {
			rws[i] = &LegacyRewrite{Domain: vutil.Unhex(f[1+4*i]), Answer: vutil.Unhex(f[2+4*i])}
		}
		c06SeqNew(rws)

		return c06SeqDump()
	}
	if c06SeqD == nil || c06SeqDead {
		return []string{"SKIP"}
	}
	d := c06SeqD
	switch f[0] {
	case "C06.q":
		host, qt := vutil.Unhex(f[1]), uint16(vutil.Atoi(f[2]))
		ch := make(chan []string, 1)
		go func() {
			defer func() {
				if v := recover(); v != nil {
					ch <- []string{"PANIC", vutil.Hex(fmt.Sprint(v))}
				}
			}()
			out := c06Fmt(d.processRewrites(host, qt))
			chk, err := d.CheckHost(host, qt, c06SeqSett)
			if err != nil {
				ch <- append(out, "E", vutil.Hex(err.Error()))

				return
			}
			ch <- append(out, c06Fmt(chk)...)
		}()
		select {
		case out := <-ch:
			return out
		case <-time.After(c06Deadline):
			c06SeqDead = true

			return []string{"HANG"}
		}
	case "C06.write":
		if vutil.UnB(f[1]) {
			d.WriteDiskConfig(c06SeqConf)

			return append(c06SeqDump(), c06DumpRows(c06SeqConf.Rewrites)...)
		}
		c := &Config{}
		d.WriteDiskConfig(c)

		return append(c06SeqDump(), c06DumpRows(c.Rewrites)...)
	case "C06.reload":
		// What internal/home does over a restart: the configuration is written
		// (WriteDiskConfig into the config object, YAML on disk) and a new
		// filter is created from what was read back.
		c := &Config{}
		d.WriteDiskConfig(c)
		data, err := yaml.Marshal(c.Rewrites)
		require.NoError(c06SeqT, err)
		var loaded []*LegacyRewrite
		require.NoError(c06SeqT, yaml.Unmarshal(data, &loaded))
		c06SeqNew(loaded)

		return c06SeqDump()
	case "C06.list":
		w := httptest.NewRecorder()
		d.handleRewriteList(w, httptest.NewRequest(http.MethodGet, "/control/rewrite/list", nil))
		var arr []rewriteEntryJSON
		require.NoError(c06SeqT, json.Unmarshal(w.Body.Bytes(), &arr))
		out := []string{vutil.Itoa(len(arr))}
		for _, e := range arr {
			out = append(out, vutil.Hex(e.Domain), vutil.Hex(e.Answer))
		}

		return out
	case "C06.bad":
		h, m := d.handleRewriteAdd, http.MethodPost
		switch f[1] {
		case "del":
			h = d.handleRewriteDelete
		case "upd":
			h, m = d.handleRewriteUpdate, http.MethodPut
		}
		w := httptest.NewRecorder()
		h(w, httptest.NewRequest(m, "/control/rewrite/x", strings.NewReader(`{"domain": "x.com", "answer":`)))

		return append([]string{vutil.Itoa(w.Code)}, c06SeqDump()...)
	case "C06.race":
		// Lookups race the real update handler, which flips one entry between
		// its old and new value (an odd number of times, so that the update
		// has happened in the end).  Every distinct answer seen is reported.
		td, ta, ud, ua := vutil.Unhex(f[1]), vutil.Unhex(f[2]), vutil.Unhex(f[3]), vutil.Unhex(f[4])
		host, qt, iters := vutil.Unhex(f[7]), uint16(vutil.Atoi(f[8])), vutil.Atoi(f[9])
		us := c06Stored([2]string{ud, ua})
		seen := map[string]struct{}{}
		var mu sync.Mutex
		var wg sync.WaitGroup
		done := make(chan struct{})
		for g := 0; g < 2; g++ {
			wg.Add(1)
			go func() {
				defer wg.Done()
				local := map[string]struct{}{}
				for i := 0; i < iters; i++ {
					out := c06Fmt(d.processRewrites(host, qt))
					chk, _ := d.CheckHost(host, qt, c06SeqSett)
					local[strings.Join(append(out, c06Fmt(chk)...), "\t")] = struct{}{}
				}
				mu.Lock()
				for k := range local {
					seen[k] = struct{}{}
				}
				mu.Unlock()
			}()
		}
		go func() { wg.Wait(); close(done) }()
		flips, status := 0, ""
		flip := func() {
			if flips%2 == 0 {
				status = c06SeqHTTP(d.handleRewriteUpdate, http.MethodPut, rewriteUpdateJSON{
					Target: rewriteEntryJSON{Domain: td, Answer: ta},
					Update: rewriteEntryJSON{Domain: ud, Answer: ua},
				})
			} else {
				c06SeqHTTP(d.handleRewriteUpdate, http.MethodPut, rewriteUpdateJSON{
					Target: rewriteEntryJSON{Domain: us[0], Answer: us[1]},
					Update: rewriteEntryJSON{Domain: td, Answer: ta},
				})
			}
			flips++
		}
	loop:
		for {
			select {
			case <-done:
				break loop
			default:
				flip()
			}
		}
		if flips%2 == 0 {
			flip()
		}
		keys := make([]string, 0, len(seen))
		for k := range seen {
			keys = append(keys, k)
		}
		sort.Strings(keys)
		out := []string{status, vutil.Itoa(len(keys))}
		for _, k := range keys {
			out = append(out, vutil.Hex(k))
		}

		return append(out, c06SeqDump()...)
	case "C06.add":
		st := c06SeqHTTP(d.handleRewriteAdd, http.MethodPost,
			rewriteEntryJSON{Domain: vutil.Unhex(f[1]), Answer: vutil.Unhex(f[2])})

		return append([]string{st}, c06SeqDump()...)
	case "C06.del":
		st := c06SeqHTTP(d.handleRewriteDelete, http.MethodPost,
			rewriteEntryJSON{Domain: vutil.Unhex(f[1]), Answer: vutil.Unhex(f[2])})

		return append([]string{st}, c06SeqDump()...)
	case "C06.upd":
		st := c06SeqHTTP(d.handleRewriteUpdate, http.MethodPut, rewriteUpdateJSON{
			Target: rewriteEntryJSON{Domain: vutil.Unhex(f[1]), Answer: vutil.Unhex(f[2])},
			Update: rewriteEntryJSON{Domain: vutil.Unhex(f[3]), Answer: vutil.Unhex(f[4])},
		})

		return append([]string{st}, c06SeqDump()...)
	default:
		panic("unknown op " + f[0])
	}
}

func c06Oracle(ans string) (kind, ip string) {
	kind = "0"
	if a, err := netip.ParseAddr(ans); err == nil {
		kind = "6"
		if a.Is4() {
			kind = "4"
		}
		ip = a.String()
	}

	return kind, vutil.Hex(ip)
}

// c06Stored is how the entry is kept after normalize (for picking targets).
func c06Stored(e [2]string) [2]string {
	dom := strings.ToLower(e[0])
	if e[1] == "A" || e[1] == "AAAA" {
		return [2]string{dom, e[1]}
	}
	if _, err := netip.ParseAddr(e[1]); err == nil {
		return [2]string{dom, e[1]}
	}

	return [2]string{dom, strings.ToLower(e[1])}
}

// c06RaceBlock: a chain through the entry that is edited while the alias is
// being resolved (x -> y edited to y -> address, x -> y edited to x -> z, ...).
func c06RaceBlock(r *rand.Rand, emit vutil.Emit) {
	n := []string{"x.race.com", "y.race.com", "z.race.com", "w.race.com"}
	r.Shuffle(len(n), func(i, j int) { n[i], n[j] = n[j], n[i] })
	x, y, z := n[0], n[1], n[2]
	addr := vutil.Pick(r, []string{"9.9.9.9", "2001:db8::9"})
	tbl := [][2]string{{x, y}}
	var upd [2]string
	switch r.IntN(4) {
	case 0: // x -> y becomes y -> addr
		upd = [2]string{y, addr}
	case 1: // x -> y becomes x -> z, z has an address
		tbl = append(tbl, [2]string{z, "1.1.1.1"})
		upd = [2]string{x, z}
	case 2: // x -> y becomes y -> z, z has an address
		tbl = append(tbl, [2]string{z, "1.1.1.2"}, [2]string{"*.race.com", "0.0.0.0"})
		upd = [2]string{y, z}
	default: // x -> y becomes y -> "A" exception, y already has addresses
		tbl = append(tbl, [2]string{y, "1.1.1.1"})
		upd = [2]string{y, "A"}
	}
	r.Shuffle(len(tbl), func(i, j int) { tbl[i], tbl[j] = tbl[j], tbl[i] })
	f := []string{"C06.reset", "0", "0", vutil.Itoa(len(tbl))}
	for _, e := range tbl {
		k, ip := c06Oracle(e[1])
		f = append(f, vutil.Hex(e[0]), vutil.Hex(e[1]), k, ip)
	}
	emit(f...)
	qt := vutil.Pick(r, []int{1, 1, 28})
	emit("C06.q", vutil.Hex(x), vutil.Itoa(qt))
	k, ip := c06Oracle(upd[1])
	emit("C06.race", vutil.Hex(x), vutil.Hex(y), vutil.Hex(upd[0]), vutil.Hex(upd[1]), k, ip,
		vutil.Hex(x), vutil.Itoa(qt), vutil.Itoa(1500))
	emit("C06.q", vutil.Hex(x), vutil.Itoa(qt))
}

func c06SeqGen(r *rand.Rand, emit vutil.Emit) {
	blocks := vutil.N(2500)
	for b := 0; b < blocks; b++ {
		if b%25 == 7 {
			c06RaceBlock(r, emit)

			continue
		}
		u := c06NewUniv(r, r.IntN(3) == 0)
		host := u.host(r)
		if host == "" {
			host = vutil.Pick(r, u.names)
		}
		newEntry := func() [2]string {
			dom := u.domain(r)
			if r.IntN(3) == 0 {
				dom = strings.ToLower(host)
			}

			return [2]string{dom, u.answer(r, dom, host)}
		}
		var cur [][2]string
		size := r.IntN(7)
		// blocking rules over names of the universe: a query the rewrites pass
		// through must reach the rule engine, a rewritten one must not
		var rules []string
		if r.IntN(2) == 0 && !strings.ContainsAny(host, "* ") && !strings.Contains(host, "..") &&
			!strings.HasPrefix(host, ".") && !strings.HasSuffix(host, ".") {
			rules = append(rules, strings.ToLower(host))
			if r.IntN(2) == 0 {
				rules = append(rules, vutil.Pick(r, u.names))
			}
		}
		f := []string{"C06.reset", vutil.B(r.IntN(3) == 0), vutil.Itoa(len(rules))}
		for _, n := range rules {
			f = append(f, vutil.Hex(n))
		}
		sizeIdx := len(f)
		f = append(f, vutil.Itoa(size))
		for i := 0; i < size; i++ {
			e := newEntry()
			cur = append(cur, c06Stored(e))
			k, ip := c06Oracle(e[1])
			f = append(f, vutil.Hex(e[0]), vutil.Hex(e[1]), k, ip)
		}
		// A chain that ends in an "A"/"AAAA" exception: processRewrites returns
		// a non-rewritten result with a left-over canonical name, and the query
		// for the alias must still reach the rule engines.
		if r.IntN(5) == 0 && len(u.names) > 1 {
			t := vutil.Pick(r, u.names)
			alias := strings.ToLower(host)
			if t != alias {
				extra := [][2]string{{alias, t}, {t, vutil.Pick(r, []string{"A", "AAAA"})}}
				if r.IntN(2) == 0 {
					extra = append(extra, [2]string{t, vutil.Pick(r, c06V4)})
				}
				for _, e := range extra {
					cur = append(cur, c06Stored(e))
					k, ip := c06Oracle(e[1])
					f = append(f, vutil.Hex(e[0]), vutil.Hex(e[1]), k, ip)
				}
				size += len(extra)
				f[sizeIdx] = vutil.Itoa(size)
			}
		}
		emit(f...)

		query := func() {
			h := host
			switch r.IntN(6) {
			case 0:
				h = u.host(r)
			case 1:
				if len(cur) > 0 {
					h = vutil.Pick(r, cur)[0]
					if strings.HasPrefix(h, "*.") {
						h = "q" + h[1:]
					}
				}
			}
			emit("C06.q", vutil.Hex(h), vutil.Itoa(c06Qtype(r)))
		}
		target := func() [2]string {
			switch p := r.IntN(100); {
			case len(cur) == 0 || p < 12:
				return newEntry() // most likely not there
			case p < 24:
				// the configured spelling, not the stored one
				t := vutil.Pick(r, cur)

				return [2]string{c06Case(t[0], r), t[1]}
			default:
				return vutil.Pick(r, cur)
			}
		}

		query()
		nops := 3 + r.IntN(8)
		for i := 0; i < nops; i++ {
			switch p := r.IntN(100); {
			case p < 32:
				query()
			case p < 38:
				emit("C06.list")
			case p < 44:
				emit("C06.reload")
				query()
			case p < 47:
				emit("C06.bad", vutil.Pick(r, []string{"add", "del", "upd"}))
			case p < 62:
				emit("C06.write", vutil.B(r.IntN(5) > 0))
				query()
			case p < 78:
				e := newEntry()
				k, ip := c06Oracle(e[1])
				emit("C06.add", vutil.Hex(e[0]), vutil.Hex(e[1]), k, ip)
				cur = append(cur, c06Stored(e))
			case p < 89:
				t := target()
				emit("C06.del", vutil.Hex(t[0]), vutil.Hex(t[1]))
				kept := cur[:0:0]
				for _, c := range cur {
					if c != t {
						kept = append(kept, c)
					}
				}
				cur = kept
			default:
				t := target()
				e := newEntry()
				k, ip := c06Oracle(e[1])
				emit("C06.upd", vutil.Hex(t[0]), vutil.Hex(t[1]), vutil.Hex(e[0]), vutil.Hex(e[1]), k, ip)
				for i, c := range cur {
					if c == t {
						cur[i] = c06Stored(e)

						break
					}
				}
			}
		}
		emit("C06.write", "1")
		query()
		emit("C06.reload")
		emit("C06.list")
		query()
	}
}

func TestVerifC06Seq(t *testing.T) {
	c06SeqT = t
	vutil.Main(t, c06SeqGen, c06SeqRun)
}
