//go:build verif

package filtering

import (
	"bytes"
	"context"
	"encoding/json"
	"fmt"
	"io"
	"math/rand/v2"
	"net"
	"net/http"
	"net/http/httptest"
	"net/url"
	"os"
	"path"
	"path/filepath"
	"strconv"
	"strings"
	"sync"
	"testing"
	"time"
	"unicode/utf8"

	"github.com/AdguardTeam/AdGuardHome/internal/filtering/rulelist"
	"github.com/AdguardTeam/AdGuardHome/internal/vutil"
	"github.com/AdguardTeam/golibs/log"
	"github.com/AdguardTeam/golibs/netutil/urlutil"
)

// C17 harness.  A fixed tree of marker files lives under c17Root; every file
// holds one unique rule, so the content that ends up in data/filters/<id>.txt
// names the file that was read.  The tree is static, the input lines carry
// the pattern list, the location and the oracles (kind of Clean(loc) on disk,
// URL validity, HTTP result), so every line can be executed again.

const (
	c17Root  = "/tmp/vc17"
	c17RootX = "/tmp/vc17x"

	// c17DataDir is the DataDir of every DNSFilter of this harness: fixed, so
	// that locations inside it are reproducible input.
	c17DataDir = c17Root + "/data"

	c17OldURL  = "http://lists.example/h0.txt"
	c17OldBody = "||h0.example^\n"
	c17NewBody = "||h1.example^\n"
)

var c17Files = []string{
	c17Root + "/safe/a.txt",
	c17Root + "/safe/b.lst",
	c17Root + "/safe/sub/c.txt",
	c17Root + "/safe/.hid.txt",
	c17Root + "/safe/\xc3\xbc.txt",
	c17Root + "/safe/st*r.txt",
	c17Root + "/safe/q?.txt",
	c17Root + "/safe/br[a].txt",
	c17Root + "/safe/bs\\.txt",
	c17Root + "/other/d.txt",
	c17Root + "/other/e.txt",
	c17Root + "/other/ads-1.txt",
	c17Root + "/other/ads-2.txt",
	c17Root + "/other/x.lst",
	c17Root + "/other/safe/e.txt",
	c17Root + "/safe2/f.txt",
	c17Root + "/top.txt",
	c17DataDir + "/userfilters/u.txt",
	c17DataDir + "/userfilters/v.lst",
	c17DataDir + "/custom.txt",
	c17RootX + "/g.txt",
}

var c17Dirs = []string{
	c17Root, c17Root + "/safe", c17Root + "/safe/sub", c17Root + "/other", c17Root + "/other/safe",
	c17Root + "/safe2", c17RootX, "/", "/tmp", "/etc",
	c17DataDir, c17DataDir + "/userfilters", c17DataDir + "/filters",
}

var c17Missing = []string{
	c17Root + "/safe/nope.txt", c17Root + "/nope/a.txt", c17Root + "/safe/a.txt/x", "/nonexistent-vc17",
	c17Root + "/safe/sub", // a directory, listed again among the "odd" targets
}

var c17System = []string{"/etc/hostname", "/etc/passwd"}

type c17World struct {
	byContent map[string]string // normalised content -> clean absolute path
	srv       *httptest.Server
	client    *http.Client
	dataDir   string
	fetchMemo map[string]bool
}

var (
	c17Once sync.Once
	c17W    *c17World

	// c17Cwd is the working directory, c17CwdFile a recognisable file in it.
	c17Cwd, c17CwdFile string
)

func c17Normalise(data []byte) (out string, ok bool) {
	buf := &bytes.Buffer{}
	res, err := rulelist.NewParser().Parse(buf, bytes.NewReader(data), make([]byte, rulelist.DefaultRuleBufSize))
	if err != nil || res.RulesCount == 0 {
		return "", false
	}

	return buf.String(), true
}

func c17Setup() *c17World {
	c17Once.Do(func() {
		log.SetOutput(io.Discard)
		w := &c17World{byContent: map[string]string{}, fetchMemo: map[string]bool{}}
		for _, d := range c17Dirs {
			if strings.HasPrefix(d, "/tmp/vc17") {
				if err := os.MkdirAll(d, 0o755); err != nil {
					panic(err)
				}
			}
		}
		for i, f := range c17Files {
			body := fmt.Sprintf("||m%d.example^\n", i)
			cur, err := os.ReadFile(f)
			if err != nil || string(cur) != body {
				if err = os.WriteFile(f, []byte(body), 0o644); err != nil {
					panic(err)
				}
			}
			w.byContent[body] = f
		}
		for _, f := range c17System {
			data, err := os.ReadFile(f)
			if err != nil {
				continue
			}
			if norm, ok := c17Normalise(data); ok {
				if _, dup := w.byContent[norm]; !dup {
					w.byContent[norm] = f
				}
			}
		}
		w.srv = httptest.NewServer(http.HandlerFunc(func(rw http.ResponseWriter, r *http.Request) {
			switch {
			case r.URL.Path == "/h0.txt":
				_, _ = io.WriteString(rw, c17OldBody)
			case strings.HasSuffix(r.URL.Path, ".txt"):
				_, _ = io.WriteString(rw, c17NewBody)
			default:
				http.NotFound(rw, r)
			}
		}))
		addr := w.srv.Listener.Addr().String()
		// Same kind of client as internal/home/httpclient.go: a plain
		// http.Transport with a custom dialer.  Every host resolves to the
		// local test server.
		w.client = &http.Client{
			Timeout: 5 * time.Second,
			Transport: &http.Transport{
				DialContext: func(ctx context.Context, network, _ string) (net.Conn, error) {
					return (&net.Dialer{}).DialContext(ctx, network, addr)
				},
			},
		}
		w.dataDir = c17DataDir
		if err := os.MkdirAll(filepath.Join(c17DataDir, filterDir), 0o755); err != nil {
			panic(err)
		}
		// a file in the working directory of the server process
		if wd, err := os.Getwd(); err == nil {
			c17Cwd = wd
			if data, rerr := os.ReadFile(filepath.Join(wd, "path.go")); rerr == nil {
				if norm, ok := c17Normalise(data); ok {
					if _, dup := w.byContent[norm]; !dup {
						w.byContent[norm] = filepath.Join(wd, "path.go")
						c17CwdFile = filepath.Join(wd, "path.go")
					}
				}
			}
		}
		c17W = w
	})

	return c17W
}

func c17Teardown() {
	if c17W == nil {
		return
	}
	if c17Seq != nil {
		c17Seq.Close()
		c17Seq = nil
	}
	c17W.srv.Close()
	_ = os.RemoveAll(c17Root)
	_ = os.RemoveAll(c17RootX)
}

// c17Kind is the file-system oracle: what is at the cleaned path.  ok is false
// for a regular file whose content the harness cannot recognise later.
func (w *c17World) c17Kind(loc string) (kind string, ok bool) {
	if !strings.HasPrefix(loc, "/") {
		return "N", true
	}
	p := path.Clean(loc)
	st, err := os.Stat(p)
	switch {
	case err != nil:
		return "N", true
	case st.IsDir():
		return "D", true
	case !st.Mode().IsRegular():
		return "", false
	}
	for _, f := range w.byContent {
		if f == p {
			return "F", true
		}
	}

	return "", false
}

func c17URLOK(loc string) bool {
	u, err := url.ParseRequestURI(loc)
	if err != nil {
		return false
	}

	return urlutil.ValidateHTTPURL(u) == nil
}

// fetchOK is the network oracle: the client gets 200 for loc.
func (w *c17World) fetchOK(loc string) bool {
	if strings.HasPrefix(loc, "/") {
		return false
	}
	if v, ok := w.fetchMemo[loc]; ok {
		return v
	}
	resp, err := w.client.Get(loc)
	v := err == nil && resp.StatusCode == http.StatusOK
	if err == nil {
		_ = resp.Body.Close()
	}
	w.fetchMemo[loc] = v

	return v
}

// srcOf maps the content of a stored list file to its origin.
func (w *c17World) srcOf(content string) (tag, val string) {
	switch {
	case content == "":
		return "none", "-"
	case content == c17OldBody:
		return "old", "-"
	case content == c17NewBody:
		return "http", "-"
	}
	if p, ok := w.byContent[content]; ok {
		return "file", vutil.Hex(p)
	}

	return "unknown", "-"
}

func c17PanicKind(v any) string {
	msg := fmt.Sprint(v)
	switch {
	case strings.Contains(msg, "pathMatchesAny: bad pattern"):
		return "badPattern"
	case strings.Contains(msg, "pathMatchesAny:"):
		return "notAbs"
	default:
		panic(v)
	}
}

func c17Cls(op string, status int, body string) string {
	switch {
	case status == http.StatusOK:
		return "ok"
	case strings.Contains(body, "does not match safe patterns"):
		return "nomatch"
	case strings.Contains(body, "checking filter: stat "):
		return "stat"
	case strings.Contains(body, "checking filter:"):
		return "url"
	case op == "C17.add" && (strings.HasPrefix(body, "Couldn't fetch filter from URL") || strings.Contains(body, "is invalid (maybe")):
		return "fetch"
	case op == "C17.seturl" && status == http.StatusBadRequest &&
		!strings.HasPrefix(body, "url ") && !strings.HasPrefix(body, "data is absent") && !strings.HasPrefix(body, "decoding"):
		return "fetch"
	default:
		return "other:" + vutil.Hex(body)
	}
}

func c17TakeList(f []string) (items, rest []string) {
	n := vutil.Atoi(f[0])
	for _, h := range f[1 : 1+n] {
		items = append(items, vutil.Unhex(h))
	}

	return items, f[1+n:]
}

// c17NewFilter creates a DNSFilter with the given patterns and initial lists.
// obs is non-nil when filtering.New rejects the patterns.
func c17NewFilter(w *c17World, pats []string, filters []FilterYAML) (d *DNSFilter, obs []string) {
	if len(pats) == 0 {
		// "no patterns configured" comes as nil and as a zero-length list
		c17EmptyToggle = !c17EmptyToggle
		if c17EmptyToggle {
			pats = []string{}
		} else {
			pats = nil
		}
	}
	conf := &Config{
		FilteringEnabled: true,
		SafeFSPatterns:   pats,
		HTTPClient:       w.client,
		ConfigModified:   func() {},
		DataDir:          w.dataDir,
		Filters:          filters,
	}
	d, err := New(conf, nil)
	if err != nil {
		msg := err.Error()
		const marker = "safe_fs_patterns: at index "
		if i := strings.Index(msg, marker); i >= 0 {
			rest := msg[i+len(marker):]
			if j := strings.IndexByte(rest, ':'); j > 0 {
				return nil, []string{"conferr", rest[:j]}
			}
		}
		panic(err)
	}
	// What Start() does, without the background goroutine.
	d.filtersInitializerChan = make(chan filtersInitializerParams, 1)

	return d, nil
}

func c17ResetDataDir(w *c17World, withOld bool) (fdir string) {
	fdir = filepath.Join(w.dataDir, filterDir)
	_ = os.RemoveAll(fdir)
	if err := os.MkdirAll(fdir, 0o755); err != nil {
		panic(err)
	}
	if withOld {
		if err := os.WriteFile(filepath.Join(fdir, "1.txt"), []byte(c17OldBody), 0o644); err != nil {
			panic(err)
		}
	}

	return fdir
}

func c17Baseline(op, loc string) []FilterYAML {
	switch op {
	case "C17.seturl", "C17.sseturl":
		return []FilterYAML{{Enabled: true, URL: c17OldURL, Name: "old", Filter: Filter{ID: 1}}}
	case "C17.refresh", "C17.srefresh":
		return []FilterYAML{{Enabled: true, URL: loc, Name: "old", Filter: Filter{ID: 1}}}
	}

	return nil
}

// c17RunEntry executes add / set_url / refresh on a fresh DNSFilter.
func c17RunEntry(op string, pats []string, loc string, enabled bool) (obs []string) {
	w := c17Setup()
	fdir := c17ResetDataDir(w, op != "C17.add")
	if op != "C17.refresh" && !utf8.ValidString(loc) {
		panic("harness: JSON entry points need a valid UTF-8 location")
	}
	d, cobs := c17NewFilter(w, pats, c17Baseline(op, loc))
	if cobs != nil {
		return cobs
	}
	defer d.Close()

	return c17Exec(w, d, fdir, op, loc, enabled)
}

var c17EmptyToggle bool

// c17Seq is the long-lived instance of the sequence mode: ONE DNSFilter per
// block, so that anything the implementation remembers between requests
// (caches, memoised decisions) takes part in the later steps.
var c17Seq *DNSFilter

func c17RunConf(pats []string) []string {
	w := c17Setup()
	if c17Seq != nil {
		c17Seq.Close()
		c17Seq = nil
	}
	c17ResetDataDir(w, false)
	d, cobs := c17NewFilter(w, pats, nil)
	if cobs != nil {
		return cobs
	}
	c17Seq = d

	return []string{"ok"}
}

// c17RunStep runs one entry point on the long-lived instance.  The list
// configuration and the data directory are put back to the same baseline as in
// the stateless cases before every step; the DNSFilter object is kept.
func c17RunStep(op string, loc string, enabled bool) []string {
	w := c17Setup()
	d := c17Seq
	if d == nil {
		return []string{"noconf"}
	}
	if op != "C17.srefresh" && !utf8.ValidString(loc) {
		panic("harness: JSON entry points need a valid UTF-8 location")
	}
	fdir := c17ResetDataDir(w, op != "C17.sadd")
	base := c17Baseline(op, loc)
	func() {
		d.conf.filtersMu.Lock()
		defer d.conf.filtersMu.Unlock()
		d.conf.Filters = base
		d.conf.WhitelistFilters = nil
	}()
	// what New does with the configured lists
	d.loadFilters(d.conf.Filters)

	return c17Exec(w, d, fdir, "C17."+strings.TrimPrefix(op, "C17.s"), loc, enabled)
}

// c17Exec runs the entry point on d and observes the result.
func c17Exec(w *c17World, d *DNSFilter, fdir, op, loc string, enabled bool) (obs []string) {
	defer func() {
		if v := recover(); v != nil {
			obs = []string{"panic", c17PanicKind(v)}
		}
	}()

	stored := func() (tag, val string) {
		ents, rerr := os.ReadDir(fdir)
		if rerr != nil {
			panic(rerr)
		}
		var found []string
		for _, e := range ents {
			if !strings.HasSuffix(e.Name(), ".txt") {
				continue
			}
			data, ferr := os.ReadFile(filepath.Join(fdir, e.Name()))
			if ferr != nil {
				panic(ferr)
			}
			found = append(found, string(data))
		}
		switch len(found) {
		case 0:
			return "none", "-"
		case 1:
			return w.srcOf(found[0])
		default:
			return "unknown", "-"
		}
	}

	switch op {
	case "C17.add":
		body, _ := json.Marshal(filterAddJSON{Name: "n", URL: loc})
		r := httptest.NewRequest(http.MethodPost, "http://agh.example/control/filtering/add_url", bytes.NewReader(body))
		rec := httptest.NewRecorder()
		d.handleFilteringAddURL(rec, r)
		tag, val := stored()
		changed := len(d.conf.Filters) == 1 && d.conf.Filters[0].URL == loc
		if len(d.conf.Filters) > 1 || len(d.conf.WhitelistFilters) > 0 {
			tag = "unknown"
		}

		return []string{"done", strconv.Itoa(rec.Code), c17Cls(op, rec.Code, rec.Body.String()), tag, val, vutil.B(changed)}
	case "C17.seturl":
		body, _ := json.Marshal(filterURLReq{
			Data: &filterURLReqData{Name: "n", URL: loc, Enabled: enabled},
			URL:  c17OldURL,
		})
		r := httptest.NewRequest(http.MethodPost, "http://agh.example/control/filtering/set_url", bytes.NewReader(body))
		rec := httptest.NewRecorder()
		d.handleFilteringSetURL(rec, r)
		tag, val := stored()
		changed := len(d.conf.Filters) == 1 && d.conf.Filters[0].URL == loc

		return []string{"done", strconv.Itoa(rec.Code), c17Cls(op, rec.Code, rec.Body.String()), tag, val, vutil.B(changed)}
	case "C17.refresh":
		updated, _, ok := d.tryRefreshFilters(true, true, true)
		if !ok {
			panic("refresh lock busy")
		}
		tag, val := stored()
		if updated >= 1 {
			return []string{"done", "200", "ok", tag, val, "0"}
		}

		return []string{"done", "400", "fetch", tag, val, "0"}
	}
	panic("unknown op " + op)
}

func c17Run(f []string) []string {
	switch f[0] {
	case "C17.rune":
		r, n := utf8.DecodeRuneInString(vutil.Unhex(f[1]))

		return []string{strconv.Itoa(int(r)), strconv.Itoa(n)}
	case "C17.clean":
		return []string{vutil.Hex(filepath.Clean(vutil.Unhex(f[1])))}
	case "C17.match":
		ok, err := filepath.Match(vutil.Unhex(f[1]), vutil.Unhex(f[2]))
		if err != nil {
			return []string{"err", "badpattern"}
		}

		return []string{"ok", vutil.B(ok)}
	case "C17.any":
		pats, rest := c17TakeList(f[1:])

		return c17RunAny(pats, vutil.Unhex(rest[0]))
	case "C17.add", "C17.seturl", "C17.refresh":
		pats, rest := c17TakeList(f[1:])

		return c17RunEntry(f[0], pats, vutil.Unhex(rest[0]), vutil.UnB(rest[4]))
	case "C17.conf":
		pats, _ := c17TakeList(f[1:])

		return c17RunConf(pats)
	case "C17.sadd", "C17.sseturl", "C17.srefresh":
		return c17RunStep(f[0], vutil.Unhex(f[1]), vutil.UnB(f[5]))
	}
	panic("unknown op " + f[0])
}

func c17RunAny(pats []string, p string) (obs []string) {
	defer func() {
		if v := recover(); v != nil {
			obs = []string{"panic", c17PanicKind(v)}
		}
	}()

	return []string{"ok", vutil.B(pathMatchesAny(pats, p))}
}

// ---------------------------------------------------------------- generators

func c17Dir(p string) string {
	d := path.Dir(p)
	if d == "/" {
		return ""
	}

	return d
}

func c17EscapeMeta(s string) string {
	var b strings.Builder
	for i := 0; i < len(s); i++ {
		switch s[i] {
		case '*', '?', '[', '\\':
			b.WriteByte('\\')
		}
		b.WriteByte(s[i])
	}

	return b.String()
}

// c17Pattern builds one pattern "near" the clean absolute path t.
func c17Pattern(r *rand.Rand, t string) string {
	dir, base := c17Dir(t), path.Base(t)
	ext := path.Ext(base)
	switch r.IntN(30) {
	case 0, 1:
		return c17EscapeMeta(t)
	case 2:
		return t
	case 3, 4:
		return dir + "/*"
	case 5:
		return dir + "/*" + ext
	case 6:
		if len(base) > 0 {
			i := r.IntN(len(base))
			for i > 0 && !utf8.RuneStart(base[i]) {
				i--
			}
			_, n := utf8.DecodeRuneInString(base[i:])

			return dir + "/" + c17EscapeMeta(base[:i]) + "?" + c17EscapeMeta(base[i+n:])
		}

		return dir + "/?"
	case 7:
		if len(base) > 0 && base[0] < 0x80 && base[0] > ' ' {
			c := base[0]
			cls := []string{
				fmt.Sprintf("[%c-%c]", c, c+2), fmt.Sprintf("[^%c]", c), fmt.Sprintf("[%c]", c+1),
				fmt.Sprintf("[a-z.]"), fmt.Sprintf("[^/]"), fmt.Sprintf("[\\%c]", c),
			}

			return dir + "/" + vutil.Pick(r, cls) + c17EscapeMeta(base[1:])
		}

		return dir + "/[\xc3\xa0-\xc3\xbf]" + c17EscapeMeta(strings.TrimPrefix(base, "\xc3\xbc"))
	case 8:
		return c17Dir(dir) + "/*/" + c17EscapeMeta(base)
	case 9:
		return c17Dir(dir) + "/*/*"
	case 10:
		return dir
	case 11:
		return dir + "/"
	case 12:
		return vutil.Pick(r, c17Dirs) + "/*"
	case 13:
		return vutil.Pick(r, []string{"*", "/*", "/*/*", "/*/*/*", "/*/*/*/*", "/*/*/*/*/*", "", "/", "/tmp/*/*/*"})
	case 14:
		return strings.TrimPrefix(t, "/")
	case 15:
		return dir + vutil.Pick(r, []string{"/[", "/*[", "/[a-]", "/*\\", "/[]", "/[^]", "/*/[a", "/a*[", "/[\xff]"})
	case 16:
		return vutil.Pick(r, []string{"\\", "[", "*[", "t*[", "tes[", "test[", "test\\", "[t]est*[", "????[", "*t["})
	case 17:
		return c17Root + vutil.Pick(r, []string{"/*/*.txt", "/**/*.txt", "/*/*/*.txt", "/s*/*", "/safe*", "/safe*/*", "/*.txt"})
	case 18:
		return dir + "*"
	case 19:
		// classes that admit the separator
		return c17Dir(dir) + "/" + path.Base(dir) + vutil.Pick(r, []string{"[/]", "[^x]", "[.-0]", "?", "*"}) + c17EscapeMeta(base)
	case 20:
		return dir + "/../" + path.Base(dir) + "/*"
	case 21:
		return dir + "/./*"
	case 22:
		return dir + "//*"
	case 23:
		return strings.ToUpper(dir) + "/*"
	case 24:
		return dir + "/*/../*"
	case 25:
		return dir + "/" + c17EscapeMeta(base) + "*"
	case 26:
		return dir + "/*" + c17EscapeMeta(base)
	case 27:
		return dir + "/*?"
	default:
		return vutil.Pick(r, []string{"/etc/*", "/etc/hostname", "/etc/passw[d]", "/*/passwd", c17RootX + "/*", c17Root + "*/*"})
	}
}

// c17DataTarget is a location inside the data directory's conventional
// sub-directories, the data directory itself, or the working directory.
func c17DataTarget(r *rand.Rand) string {
	ts := []string{
		c17DataDir + "/userfilters/u.txt", c17DataDir + "/userfilters/u.txt", c17DataDir + "/userfilters/v.lst",
		c17DataDir + "/custom.txt", c17DataDir + "/userfilters", c17DataDir, c17DataDir + "/filters",
		c17DataDir + "/userfilters/none.txt",
	}
	if c17CwdFile != "" {
		ts = append(ts, c17CwdFile, c17Cwd)
	}

	return vutil.Pick(r, ts)
}

func c17Target(r *rand.Rand) string {
	switch r.IntN(12) {
	case 0:
		return vutil.Pick(r, c17Dirs)
	case 1:
		return vutil.Pick(r, c17Missing)
	case 2:
		return vutil.Pick(r, c17System)
	default:
		return vutil.Pick(r, c17Files)
	}
}

func c17Pats(r *rand.Rand, t string) (pats []string) {
	n := 1
	switch x := r.IntN(20); {
	case x < 2:
		n = 0
	case x < 12:
		n = 1
	case x < 18:
		n = 2
	default:
		n = 3
	}
	for i := 0; i < n; i++ {
		tt := t
		if r.IntN(4) == 0 {
			tt = c17Target(r)
		}
		pats = append(pats, c17Pattern(r, tt))
	}

	return pats
}

func c17InsertAtSlash(r *rand.Rand, t, ins string) string {
	var idx []int
	for i := 0; i < len(t); i++ {
		if t[i] == '/' {
			idx = append(idx, i)
		}
	}
	if len(idx) == 0 {
		return ins + t
	}
	i := vutil.Pick(r, idx)

	return t[:i+1] + ins + t[i+1:]
}

// c17Spell returns a spelling of the clean absolute path t.
func c17Spell(r *rand.Rand, t string, depth int) string {
	rel := strings.TrimPrefix(t, "/")
	switch r.IntN(40) {
	case 0, 1, 2, 3, 4, 5:
		return t
	case 6:
		return c17InsertAtSlash(r, t, "./")
	case 7:
		return c17InsertAtSlash(r, t, "/")
	case 8:
		return c17InsertAtSlash(r, t, "x/../")
	case 9:
		return t + "/"
	case 10:
		return t + "/."
	case 11:
		return "/.." + t
	case 12:
		return "/" + t
	case 13:
		s := vutil.Pick(r, c17Dirs)
		up := strings.Count(path.Clean(s), "/")
		if s == "/" {
			up = 0
		}

		return s + strings.Repeat("/..", up) + t
	case 14:
		return rel
	case 15:
		return "./" + rel
	case 16:
		return strings.Repeat("../", 1+r.IntN(8)) + rel
	case 17:
		return "file://" + t
	case 18:
		return "file:" + t
	case 19:
		return "file://localhost" + t
	case 20:
		return "ftp://lists.example" + t
	case 21:
		return "http://lists.example/h1.txt"
	case 22:
		return "http://lists.example/missing"
	case 23:
		return "https://lists.example/h1.txt"
	case 24:
		return "http://lists.example" + t
	case 25:
		return c17InsertAtSlash(r, t, "%2e%2e/")
	case 26:
		return t + "\x00"
	case 27:
		return strings.ToUpper(t)
	case 28:
		return vutil.Pick(r, []string{"", "/", ".", "..", "/..", "/.", "//", "a", "*", "/*"})
	case 29:
		return t + "/../" + path.Base(t)
	case 30:
		return vutil.Pick(r, []string{"\\", " ", "\t", "file:///../..", "FILE://", "File:", "gopher://x"}) + t
	case 31:
		// a sibling reached by climbing out of the safe directory
		return c17Dir(t) + "/../" + vutil.Pick(r, []string{"other/d.txt", "safe2/f.txt", "top.txt", "../vc17x/g.txt", "safe/a.txt"})
	case 32:
		return t + "/.."
	case 33:
		return c17InsertAtSlash(r, t, "../")
	case 34:
		return c17InsertAtSlash(r, t, "*/")
	default:
		if depth > 2 {
			return t
		}
		// two transformations stacked
		s := c17Spell(r, t, depth+1)
		if strings.HasPrefix(s, "/") {
			return c17Spell(r, s, depth+2)
		}

		return s
	}
}

var c17RunePool = []string{
	"a", "b", "c", "z", "A", "0", ".", "-", "/", "*", "?", "[", "]", "\\", "^", "\x00", "\x7f",
	"\xc3\xa9", "\xc3\xbc", "\xe2\x82\xac", "\xf0\x9f\x98\x80", "\xef\xbf\xbd", "\xff", "\x80", "\xc3", "\xe2\x82",
}

func c17ClassItem(r *rand.Rand) (pat string, in, out string) {
	switch r.IntN(12) {
	case 0:
		return "a", "a", "b"
	case 1:
		return "a-c", vutil.Pick(r, []string{"a", "b", "c"}), "d"
	case 2:
		return "\xc3\xa9", "\xc3\xa9", "e"
	case 3:
		return "\xc3\xa0-\xf0\x9f\x98\x80", vutil.Pick(r, []string{"\xc3\xbc", "\xe2\x82\xac", "\xf0\x9f\x98\x80"}), "z"
	case 4:
		return "\\]", "]", "["
	case 5:
		return "\\-", "-", "+"
	case 6:
		return "/", "/", "."
	case 7:
		return vutil.Pick(r, []string{"*", "?", "["}), vutil.Pick(r, []string{"*", "?", "["}), "a"
	case 8:
		return "\x00-\xf4\x8f\xbf\xbf", vutil.Pick(r, c17RunePool), ""
	case 9:
		return "z-a", "m", "m"
	case 10:
		return ".-0", vutil.Pick(r, []string{".", "/", "0"}), "1"
	default:
		return "\\\\", "\\", "/"
	}
}

var c17BadBits = []string{
	"[", "[]", "[^]", "[a-]", "[a-", "\\", "[-a]", "[]a]", "[a", "[\xff]", "[a-\xff]", "[\\", "[a\\", "[^", "[a]]", "[[]",
	"[a-b-c]", "[\xc3]", "[\xe2\x82]", "[a\xe2\x82\xac", "[--]", "[a-\\", "[!a]", "[^^]", "[^-]", "[a]*[",
}

// c17MatchCase builds a pattern and a name that is likely to match it.
func c17MatchCase(r *rand.Rand) (pat, name string) {
	n := r.IntN(7)
	for i := 0; i < n; i++ {
		switch r.IntN(10) {
		case 0, 1:
			pat += "*"
			if r.IntN(6) == 0 {
				pat += "*"
			}
			k := r.IntN(4)
			for j := 0; j < k; j++ {
				c := vutil.Pick(r, c17RunePool)
				if c == "/" && r.IntN(4) > 0 {
					c = "x"
				}
				name += c
			}
		case 2:
			pat += "?"
			name += vutil.Pick(r, c17RunePool)
		case 3, 4:
			neg := r.IntN(3) == 0
			pat += "["
			if neg {
				pat += "^"
			}
			k := 1 + r.IntN(3)
			var ins, outs []string
			for j := 0; j < k; j++ {
				p, in, out := c17ClassItem(r)
				pat += p
				ins, outs = append(ins, in), append(outs, out)
			}
			pat += "]"
			if neg != (r.IntN(5) > 0) {
				name += vutil.Pick(r, ins)
			} else {
				name += vutil.Pick(r, outs)
			}
		default:
			c := vutil.Pick(r, c17RunePool)
			for j := 0; j < len(c); j++ {
				switch c[j] {
				case '*', '?', '[', '\\':
					if r.IntN(8) > 0 {
						pat += "\\"
					}
				default:
					if r.IntN(12) == 0 {
						pat += "\\"
					}
				}
				pat += string(c[j])
			}
			if r.IntN(10) > 0 {
				name += c
			} else {
				name += vutil.Pick(r, c17RunePool)
			}
		}
	}
	if r.IntN(7) == 0 {
		b := vutil.Pick(r, c17BadBits)
		i := 0
		if len(pat) > 0 {
			i = r.IntN(len(pat) + 1)
		}
		pat = pat[:i] + b + pat[i:]
	}
	if r.IntN(5) == 0 && len(name) > 0 {
		i := r.IntN(len(name))
		switch r.IntN(3) {
		case 0:
			name = name[:i] + name[i+1:]
		case 1:
			name = name[:i] + vutil.Pick(r, c17RunePool) + name[i:]
		default:
			name += vutil.Pick(r, c17RunePool)
		}
	}

	return pat, name
}

func c17HexList(xs []string) (out []string) {
	out = append(out, strconv.Itoa(len(xs)))
	for _, x := range xs {
		out = append(out, vutil.Hex(x))
	}

	return out
}

func c17Gen(r *rand.Rand, emit vutil.Emit) {
	w := c17Setup()
	n := vutil.N(30000)
	segs := []string{"", ".", "..", "a", "b", "...", "..a", "a.", "\xc3\xbc", " "}
	for i := 0; i < n; i++ {
		switch x := r.IntN(100); {
		case x < 40:
			pat, name := c17MatchCase(r)
			emit("C17.match", vutil.Hex(pat), vutil.Hex(name))
		case x < 48:
			// patterns of the C17 pool against tree paths
			t := c17Target(r)
			pat := c17Pattern(r, t)
			if r.IntN(5) == 0 {
				t = c17Target(r)
			}
			emit("C17.match", vutil.Hex(pat), vutil.Hex(t))
		case x < 56:
			t := c17Target(r)
			pats := c17Pats(r, t)
			p := t
			if r.IntN(6) == 0 {
				p = c17Spell(r, t, 0)
			}
			emit(append(append([]string{"C17.any"}, c17HexList(pats)...), vutil.Hex(p))...)
		case x < 64:
			var p string
			if r.IntN(2) == 0 {
				p = c17Spell(r, c17Target(r), 0)
			} else {
				if r.IntN(4) > 0 {
					p = "/"
				}
				k := r.IntN(7)
				for j := 0; j < k; j++ {
					p += vutil.Pick(r, segs) + "/"
				}
				p += vutil.Pick(r, segs)
			}
			emit("C17.clean", vutil.Hex(p))
		case x < 68:
			k := r.IntN(6)
			pool := []byte{0x00, 0x41, 0x7f, 0x80, 0x8f, 0x90, 0x9f, 0xa0, 0xbf, 0xc0, 0xc1, 0xc2, 0xdf, 0xe0, 0xe1, 0xec, 0xed, 0xee, 0xef, 0xf0, 0xf1, 0xf3, 0xf4, 0xf5, 0xff}
			b := make([]byte, k)
			for j := range b {
				b[j] = vutil.Pick(r, pool)
			}
			emit("C17.rune", vutil.Hex(string(b)))
		default:
			op := vutil.Pick(r, []string{"C17.add", "C17.seturl", "C17.refresh"})
			t := c17Target(r)
			pats := c17Pats(r, t)
			if r.IntN(8) == 0 {
				// nothing configured: the data directory's own sub-directories
				// must not become readable by default
				t = c17DataTarget(r)
				pats = nil
				if r.IntN(4) == 0 {
					pats = []string{c17Root + "/safe/*"}
				}
			}
			loc := c17Spell(r, t, 0)
			if op == "C17.refresh" && r.IntN(40) == 0 {
				loc += "\xff"
			}
			if op != "C17.refresh" && !utf8.ValidString(loc) {
				loc = strings.ToValidUTF8(loc, "_")
			}
			if loc == c17OldURL {
				continue
			}
			kind, ok := w.c17Kind(loc)
			if !ok {
				continue
			}
			enabled := op != "C17.seturl" || r.IntN(4) > 0
			line := append([]string{op}, c17HexList(pats)...)
			line = append(line, vutil.Hex(loc), kind, vutil.B(c17URLOK(loc)), vutil.B(w.fetchOK(loc)), vutil.B(enabled))
			emit(line...)
		}
	}
}

// c17NarrowPattern builds a well-formed pattern that selects SOME files of
// dir, never the whole directory: exact (escaped) paths, prefix-*, ?, classes.
func c17NarrowPattern(r *rand.Rand, dir string, files []string) string {
	f := vutil.Pick(r, files)
	base := path.Base(f)
	ext := path.Ext(base)
	stem := strings.TrimSuffix(base, ext)
	switch r.IntN(8) {
	case 0, 1, 2:
		return c17EscapeMeta(f)
	case 3:
		if i := strings.IndexByte(stem, '-'); i > 0 {
			return dir + "/" + c17EscapeMeta(stem[:i+1]) + "*" + ext
		}

		return dir + "/" + c17EscapeMeta(stem) + "*"
	case 4:
		if len(stem) > 0 && stem[0] < 0x80 {
			return dir + "/" + c17EscapeMeta(stem[:1]) + "*"
		}

		return c17EscapeMeta(f)
	case 5:
		return dir + "/?" + ext
	case 6:
		if len(base) > 0 && base[0] < 0x80 && base[0] > ' ' && !strings.ContainsAny(base[:1], "*?[\\]^-") {
			return dir + "/[" + base[:1] + "]" + c17EscapeMeta(base[1:])
		}

		return c17EscapeMeta(f)
	default:
		return dir + "/*" + ext
	}
}

// c17GenSeq emits blocks: one configuration, then a sequence of add / set_url
// / refresh steps that keep coming back to the same few directories with
// matching and non-matching files interleaved.
func c17GenSeq(r *rand.Rand, emit vutil.Emit) {
	w := c17Setup()
	nblocks := vutil.N(600)
	byDir := map[string][]string{}
	var dirs []string
	for _, f := range c17Files {
		d := path.Dir(f)
		if _, ok := byDir[d]; !ok {
			dirs = append(dirs, d)
		}
		byDir[d] = append(byDir[d], f)
	}
	for b := 0; b < nblocks; b++ {
		dir := vutil.Pick(r, dirs)
		files := byDir[dir]
		var pats []string
		for k := 1 + r.IntN(2); k > 0; k-- {
			p := c17NarrowPattern(r, dir, files)
			if _, err := filepath.Match(p, "test"); err == nil {
				pats = append(pats, p)
			}
		}
		if r.IntN(12) == 0 {
			pats = nil
		}
		if r.IntN(10) == 0 {
			// a second directory under its own narrow pattern
			d2 := vutil.Pick(r, dirs)
			pats = append(pats, c17NarrowPattern(r, d2, byDir[d2]))
		}
		dataBlock := r.IntN(10) == 0
		if dataBlock {
			pats = nil
		}
		emit(append([]string{"C17.conf"}, c17HexList(pats)...)...)
		steps := 5 + r.IntN(10)
		for s := 0; s < steps; s++ {
			var t string
			switch x := r.IntN(20); {
			case dataBlock && x < 16:
				t = c17DataTarget(r)
			case x < 14:
				t = vutil.Pick(r, files)
			case x < 16:
				t = dir
			case x < 17:
				t = dir + "/nope.txt"
			default:
				t = c17Target(r)
			}
			loc := t
			if r.IntN(5) == 0 {
				loc = c17Spell(r, t, 0)
			}
			op := vutil.Pick(r, []string{"C17.sadd", "C17.sseturl", "C17.srefresh", "C17.srefresh"})
			if op != "C17.srefresh" && !utf8.ValidString(loc) {
				loc = strings.ToValidUTF8(loc, "_")
			}
			if loc == c17OldURL {
				continue
			}
			kind, ok := w.c17Kind(loc)
			if !ok {
				continue
			}
			enabled := op != "C17.sseturl" || r.IntN(4) > 0
			emit(op, vutil.Hex(loc), kind, vutil.B(c17URLOK(loc)), vutil.B(w.fetchOK(loc)), vutil.B(enabled))
		}
	}
}

func TestVerifC17Seq(t *testing.T) {
	t.Cleanup(c17Teardown)
	vutil.Main(t, c17GenSeq, c17Run)
}

func TestVerifC17(t *testing.T) {
	t.Cleanup(c17Teardown)
	vutil.Main(t, c17Gen, c17Run)
}
