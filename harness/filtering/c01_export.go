//go:build verif

package filtering

import "github.com/AdguardTeam/golibs/log"

// Exports for the C01 configuration-sequence harness (internal/dnsforward),
// compiled in through `go test -overlay` only.  They let the harness run the
// asynchronous engine rebuild exactly where the real updatesLoop would,
// without the timer-driven refresh of that loop.

// VerifInitRebuildChan creates the channel (*DNSFilter).Start creates.
func (d *DNSFilter) VerifInitRebuildChan() {
	d.filtersInitializerChan = make(chan filtersInitializerParams, 1)
}

// VerifRunPendingRebuild performs one iteration of updatesLoop's
// "case params := <-d.filtersInitializerChan" if a rebuild is pending.
func (d *DNSFilter) VerifRunPendingRebuild() (ran bool) {
	select {
	case params := <-d.filtersInitializerChan:
		err := d.initFiltering(params.allowFilters, params.blockFilters)
		if err != nil {
			log.Error("filtering: initializing: %s", err)
		}

		return true
	default:
		return false
	}
}
