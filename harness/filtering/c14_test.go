//go:build verif && linux

package filtering

import (
	"bytes"
	"fmt"
	"math/rand/v2"
	"net"
	"net/http"
	"os"
	"path/filepath"
	"runtime"
	"strconv"
	"strings"
	"sync/atomic"
	"testing"
	"time"

	"github.com/AdguardTeam/AdGuardHome/internal/vc14"
	"github.com/AdguardTeam/AdGuardHome/internal/vutil"
)

// C14 harness for downloaded filter-list files: filtering/filter.go update →
// updateIntl → finalizeUpdate over aghrenameio (NewPendingFile, one Write per
// rule line, CloseReplace when the list changed, Cleanup otherwise).

func TestVerifC14(t *testing.T) {
	if vc14.IsChild() {
		vc14.ChildLoop(c14Child)

		return
	}
	if os.Getenv("VERIF_OUT") == "" {
		t.Skip("driven by /verif/bin/check")
	}

	p := &c14Parent{t: t, root: t.TempDir()}
	p.canImm = vc14.CanImmutable(p.root)
	defer p.close()
	vutil.Main(t, p.gen, p.run)
}

// ---------------------------------------------------------------- content

// c14Body builds a filter list of about size bytes.  raw is what the source
// serves, want is what the parser is meant to store (rules only, trimmed, one
// per line).  breakAt >= 0 spoils the list in the middle in the given way.
func c14Body(size int, seed uint64, spoil string) (raw, want []byte) {
	r := rand.New(rand.NewPCG(seed, 1414))
	var rb, wb bytes.Buffer
	if spoil == "html" {
		rb.WriteString("<!DOCTYPE html>\n<html><body>captive portal</body></html>\n")
	}
	spoilAt := -1
	if spoil == "bad" || spoil == "toolong" {
		spoilAt = r.IntN(size + 1)
	}
	// One write(2) per rule line: keep the traces of the larger lists at a few
	// hundred events (now and then a long one with short lines).
	short := r.IntN(16) == 0
	lineLen := func() int {
		switch {
		case size > 1<<20:
			return 20000 + r.IntN(40000)
		case size > 1<<16:
			return 1500 + r.IntN(6000)
		case size > 1<<12 && !short:
			return 100 + r.IntN(800)
		default:
			return 8 + r.IntN(60)
		}
	}
	for rb.Len() < size || spoilAt >= 0 {
		if spoilAt >= 0 && rb.Len() >= spoilAt {
			if spoil == "bad" {
				rb.WriteString("||bin\x01ary.example^\n")
			} else {
				rb.WriteString("||" + strings.Repeat("x", 70000) + "^\n")
			}
			spoilAt = -1

			continue
		}
		v := r.IntN(40)
		if size > 1<<20 && wb.Len() == 0 {
			// Large lists start with a rule: the generator need not build them to
			// know that they are not empty.
			v = 4
		}
		switch {
		case v == 0:
			rb.WriteString("# comment " + strconv.Itoa(r.IntN(1000)) + "\n")
		case v == 1:
			rb.WriteString("! Title: list " + strconv.Itoa(r.IntN(1000)) + "\n")
		case v == 2:
			rb.WriteString("\n")
		case v == 3:
			rb.WriteString("   \t\r\n")
		default:
			n := lineLen()
			var sb strings.Builder
			sb.WriteString("||")
			if n > 4096 {
				// Long lines: a random 61-byte block repeated (fast for tens of MiB).
				var blk [61]byte
				for j := range blk {
					blk[j] = "abcdefghijklmnopqrstuvwxyz0123456789-."[r.IntN(38)]
				}
				for sb.Len()+len(blk) < n {
					sb.Write(blk[:])
				}
			}
			for sb.Len() < n {
				sb.WriteByte("abcdefghijklmnopqrstuvwxyz0123456789-."[r.IntN(38)])
			}
			sb.WriteString("^")
			rule := sb.String()
			switch r.IntN(8) {
			case 0:
				rb.WriteString("  " + rule + " \t\n")
			case 1:
				rb.WriteString(rule + "\r\n")
			default:
				rb.WriteString(rule + "\n")
			}
			wb.WriteString(rule + "\n")
		}
	}
	raw = rb.Bytes()
	if r.IntN(4) == 0 && len(raw) > 0 && spoil == "" {
		// No newline at the end of the source.
		raw = raw[:len(raw)-1]
		if bytes.HasSuffix(raw, []byte("\r")) {
			raw = raw[:len(raw)-1]
		}
	}

	return raw, wb.Bytes()
}

// ---------------------------------------------------------------- child

var c14c struct {
	w, dest string
	d       *DNSFilter
	flt     *FilterYAML
	http    bool
	addr    string
	urlNo   int
	body    []byte
	status  int
	ln      net.Listener
	// script: how the HTTP source answers the 1st, 2nd, … request of the current
	// save (ok, slow, cut, reset, 500); requests beyond it are answered "ok".
	script []string
	reqs   atomic.Int32

	// second list (id 8) and the state of a race of two overlapping updates
	fltB   *FilterYAML
	destB  string
	raceOn bool
	raceA  []byte
	raceB  []byte
	seenA  chan struct{}
	seenB  chan struct{}
}

func must(err error) {
	if err != nil {
		panic(err)
	}
}

// c14Serve answers one request of the list's HTTP source according to the
// script of the current save.
func c14Serve(w http.ResponseWriter, rq *http.Request) {
	if c14c.raceOn {
		c14ServeRace(w, rq)

		return
	}
	n := int(c14c.reqs.Add(1))
	if c14c.status != 0 {
		w.WriteHeader(c14c.status)

		return
	}
	beh := "ok"
	if n <= len(c14c.script) {
		beh = c14c.script[n-1]
	}
	body := c14c.body
	switch beh {
	case "500":
		w.WriteHeader(http.StatusInternalServerError)
	case "cut", "reset":
		// Announce the whole list, send half of it (at least one rule line when
		// there are several) and drop the connection.
		hj, ok := w.(http.Hijacker)
		if !ok {
			panic("no hijacker")
		}
		conn, buf, err := hj.Hijack()
		must(err)
		_, _ = fmt.Fprintf(buf, "HTTP/1.1 200 OK\r\nContent-Type: text/plain\r\nContent-Length: %d\r\nConnection: close\r\n\r\n", len(body))
		_, _ = buf.Write(body[:len(body)/2])
		_ = buf.Flush()
		if tc, isTCP := conn.(*net.TCPConn); isTCP && beh == "reset" {
			// Let the data reach the client, then reset instead of FIN.
			time.Sleep(20 * time.Millisecond)
			_ = tc.SetLinger(0)
		}
		_ = conn.Close()
	case "slow":
		time.Sleep(120 * time.Millisecond)
		_, _ = w.Write(body)
	default:
		_, _ = w.Write(body)
	}
}

// c14ServeRace serves one of two lists downloaded at the same time: a third of
// the body (ending in the middle of a line), then it waits until the other
// download has begun as well, then the rest in two pieces — so that both
// parsers sit on a half-read line while the other one works.
func c14ServeRace(w http.ResponseWriter, rq *http.Request) {
	body, mine, other := c14c.raceA, c14c.seenA, c14c.seenB
	if rq.URL.Path == "/b.txt" {
		body, mine, other = c14c.raceB, c14c.seenB, c14c.seenA
	}
	fl, _ := w.(http.Flusher)
	a, b := len(body)/3, 2*len(body)/3
	_, _ = w.Write(body[:a])
	if fl != nil {
		fl.Flush()
	}
	close(mine)
	select {
	case <-other:
	case <-time.After(300 * time.Millisecond):
	}
	time.Sleep(2 * time.Millisecond)
	_, _ = w.Write(body[a:b])
	if fl != nil {
		fl.Flush()
	}
	time.Sleep(2 * time.Millisecond)
	_, _ = w.Write(body[b:])
}

// c14URL is the k-th source address of the block: a local file or an HTTP URL.
func c14URL(k int) string {
	if c14c.http {
		return fmt.Sprintf("http://%s/list%d.txt", c14c.addr, k)
	}

	return filepath.Join(c14c.w, "src", fmt.Sprintf("list%d.txt", k))
}

func c14Child(f []string) []string {
	switch f[0] {
	case "reset":
		// reset <W> <T> <hasInitial> <seed> <file|http>
		if c14c.ln != nil {
			_ = c14c.ln.Close()
			c14c.ln = nil
		}
		w := f[1]
		c14c.w = w
		c14c.urlNo = 0
		must(os.MkdirAll(filepath.Join(w, "src"), 0o755))
		must(os.MkdirAll(filepath.Join(w, "data", filterDir), 0o755))
		must(os.MkdirAll(f[2], 0o755))
		must(os.Setenv("TMPDIR", f[2]))
		c14c.http = f[5] == "http"
		if c14c.http {
			ln, lerr := net.Listen("tcp", "127.0.0.1:0")
			must(lerr)
			c14c.ln = ln
			c14c.addr = ln.Addr().String()
			go func() {
				_ = http.Serve(ln, http.HandlerFunc(c14Serve))
			}()
		}
		flt := FilterYAML{Enabled: true, URL: c14URL(0), Name: "c14", Filter: Filter{ID: 7}}
		c14c.dest = flt.Path(filepath.Join(w, "data"))
		fltB := FilterYAML{Enabled: true, URL: filepath.Join(w, "src", "b.txt"), Name: "c14b", Filter: Filter{ID: 8}}
		if c14c.http {
			fltB.URL = "http://" + c14c.addr + "/b.txt"
		}
		c14c.destB = fltB.Path(filepath.Join(w, "data"))
		if f[3] == "1" {
			seed, _ := strconv.ParseUint(f[4], 10, 64)
			_, want := c14Body(300, seed, "")
			must(os.WriteFile(c14c.dest, want, 0o644))
		}
		// As at startup: New loads the enabled lists, which sets the checksum of
		// what is on disk.
		d, err := New(&Config{
			DataDir:        filepath.Join(w, "data"),
			HTTPClient:     &http.Client{Timeout: 60 * time.Second},
			SafeFSPatterns: []string{filepath.Join(w, "src", "*")},
			Filters:        []FilterYAML{flt, fltB},
		}, nil)
		must(err)
		c14c.d, c14c.flt, c14c.fltB = d, &d.conf.Filters[0], &d.conf.Filters[1]

		return []string{"ok"}
	case "save":
		return c14Save(f[1], f[2], f[3], f[4])
	case "race":
		return c14Race(f[1], f[2], f[3], f[4], f[5])
	default:
		panic("unknown command " + f[0])
	}
}

// c14Save performs one real refresh, or one change of the list's URL
// (filterSetProperties, what POST /control/filtering/set_url does).
// Answer: committed newLen finalOK oldSum newSum.
func c14Save(variant, sizeS, seedS, probe string) []string {
	size, _ := strconv.Atoi(sizeS)
	seed, _ := strconv.ParseUint(seedS, 10, 64)
	dest := c14c.dest
	before, _ := os.ReadFile(dest)
	oldSum := vc14.FileSum(dest)

	c14c.script = nil
	if i := strings.IndexByte(variant, '@'); i >= 0 {
		c14c.script = strings.Split(variant[i+1:], ",")
		variant = variant[:i]
	}
	c14c.reqs.Store(0)
	setURL := strings.HasPrefix(variant, "seturl")
	spoil, missing := "", false
	switch strings.TrimPrefix(variant, "seturl") {
	case "ok", "same", "":
	case "bad", "toolong", "html":
		spoil = strings.TrimPrefix(variant, "seturl")
	case "missing":
		missing = true
	default:
		panic("unknown variant " + variant)
	}
	raw, want := c14Body(size, seed, spoil)

	oldURL := c14c.flt.URL
	url := oldURL
	if setURL {
		c14c.urlNo++
		url = c14URL(c14c.urlNo)
	}
	c14c.status = 0
	switch {
	case missing && c14c.http:
		c14c.status = http.StatusNotFound
	case missing:
		_ = os.Remove(url)
	case c14c.http:
		c14c.body = raw
	default:
		must(os.WriteFile(url, raw, 0o644))
	}

	var ok bool
	var err error
	vc14.WithFault(probe, dest, func() {
		vc14.Window(func() {
			if setURL {
				_, err = c14c.d.filterSetProperties(
					oldURL,
					FilterYAML{Enabled: true, URL: url, Name: c14c.flt.Name},
					false,
				)
			} else {
				ok, err = c14c.d.update(c14c.flt)
			}
		})
	})

	after, rerr := os.ReadFile(dest)
	committed := ok && err == nil
	if setURL {
		committed = err == nil && vc14.FileSum(dest) != oldSum
	}
	var finalOK bool
	if committed {
		finalOK = rerr == nil && bytes.Equal(after, want)
	} else {
		finalOK = bytes.Equal(after, before) && vc14.FileSum(dest) == oldSum
	}
	// An abandoned update must say so: an error for spoiled or missing sources
	// and for injected faults, none when the list simply has not changed.
	lim := vc14.FsizeOf(probe)
	wantErr := spoil != "" || missing || strings.HasPrefix(probe, "faildir") || (lim >= 0 && int64(len(want)) > lim) ||
		strings.HasSuffix(probe, "+leak")
	if !committed && (err != nil) != wantErr && len(c14c.script) == 0 {
		finalOK = false
	}
	if setURL && err != nil && c14c.flt.URL != oldURL {
		// A failed change rolls the properties back.
		finalOK = false
	}

	// What the save was meant to store: length and number of rule lines (one
	// write each) of the ONE complete list served.
	return []string{vutil.B(committed), strconv.Itoa(len(want)), vutil.B(finalOK), oldSum, vc14.FileSum(dest),
		strconv.Itoa(int(c14c.reqs.Load())), strconv.Itoa(bytes.Count(want, []byte("\n")))}
}

// c14Race runs two overlapping updates of DIFFERENT lists on the one DNSFilter: a
// refresh of list 7 and what add_url does for list 8 (update does not take the
// refresh lock).  Both sources stall in the middle of a line.  Each committed
// file must be exactly the normal form of ITS OWN source's complete body.
// Answer: committedA finalOK oldSumA sumA sumA.
func c14Race(variant, sizeA, seedA, sizeB, seedB string) []string {
	mk := func(sizeS, seedS string) (raw, want []byte) {
		size, _ := strconv.Atoi(sizeS)
		seed, _ := strconv.ParseUint(seedS, 10, 64)

		return c14Body(size, seed, "")
	}
	rawA, wantA := mk(sizeA, seedA)
	rawB, wantB := mk(sizeB, seedB)
	c14c.raceA, c14c.raceB = rawA, rawB
	c14c.seenA, c14c.seenB = make(chan struct{}), make(chan struct{})
	c14c.raceOn = true
	defer func() { c14c.raceOn = false }()

	beforeA, _ := os.ReadFile(c14c.dest)
	beforeB, _ := os.ReadFile(c14c.destB)
	oldSum := vc14.FileSum(c14c.dest)
	if strings.HasSuffix(variant, "1") {
		// One processor: the second download runs on the same P while the first
		// is parked in a network read.
		defer runtime.GOMAXPROCS(runtime.GOMAXPROCS(1))
	}
	var okA, okB bool
	var errA, errB error
	vc14.Window(func() {
		done := make(chan struct{})
		go func() { okA, errA = c14c.d.update(c14c.flt); close(done) }()
		okB, errB = c14c.d.update(c14c.fltB)
		<-done
	})
	afterA, _ := os.ReadFile(c14c.dest)
	afterB, _ := os.ReadFile(c14c.destB)
	check := func(ok bool, err error, after, before, want []byte) bool {
		if err != nil {
			return false
		}
		if ok {
			return bytes.Equal(after, want)
		}

		return bytes.Equal(after, before)
	}
	finalOK := check(okA, errA, afterA, beforeA, wantA) && check(okB, errB, afterB, beforeB, wantB)
	n := 0
	if okA && errA == nil {
		n = 1
	}

	return []string{strconv.Itoa(n), vutil.B(finalOK), oldSum, vc14.Sum(wantA), vc14.Sum(wantA)}
}

// ---------------------------------------------------------------- parent

type c14Parent struct {
	t     *testing.T
	root  string
	child *vc14.Child
	blk   int
	w, tm string
	dest  string

	canImm bool
}

func (p *c14Parent) close() {
	if p.child != nil {
		p.child.Stop()
	}
	_ = os.RemoveAll(c14ShmRoot())
	vc14.ClearImmutable(p.root)
}

func c14ShmRoot() string { return "/dev/shm/verif-c14-filtering-" + strconv.Itoa(os.Getpid()) }

// c14Cap is rulelist.DefaultMaxRuleListSize (64 MiB): sizes around it cross the
// only size-dependent boundary a list download may meet on its way to the file.
const c14Cap = 64 << 20

const c14DestRel = "W/data/" + filterDir + "/7.txt"

func c14Size(r *rand.Rand) int {
	switch v := r.IntN(100); {
	case v < 8:
		return 0
	case v < 60:
		return r.IntN(4096)
	case v < 92:
		return r.IntN(1 << 16)
	case v < 98:
		return r.IntN(1 << 20)
	default:
		if vutil.Thorough() {
			return 1<<20 + r.IntN(31<<20)
		}

		return r.IntN(1 << 20)
	}
}

// genCap emits a block whose downloads cross the 64 MiB cap: the file must then
// hold the COMPLETE list (or, if the code refuses it, the complete old one).
func (p *c14Parent) genCap(r *rand.Rand, emit vutil.Emit, src string, sizes []int) {
	emit("C14.reset", fmt.Sprintf("filter-same-%d-%s", r.Uint64N(1<<40), src), vutil.Hex(c14DestRel), "0")
	for _, size := range sizes {
		emit("C14.save", "ok", strconv.Itoa(size), strconv.FormatUint(r.Uint64N(1<<40), 10), "1", "0", "same")
	}
}

func (p *c14Parent) gen(r *rand.Rand, emit vutil.Emit) {
	n := vutil.N(40)
	// One download just over the cap in every run; thorough: both sides of the
	// cap, both kinds of source, and a smaller list replacing the large one.
	if vc14.Injected() == "" {
		p.genCap(r, emit, "http", []int{c14Cap + 1 + r.IntN(1<<20)})
	}
	for b := 0; b < n; b++ {
		if vutil.Thorough() && b%60 == 30 && vc14.Injected() == "" {
			src := "http"
			if r.IntN(3) == 0 {
				src = "file"
			}
			p.genCap(r, emit, src, []int{c14Cap - 1 - r.IntN(2<<20), c14Cap + 1 + r.IntN(2<<20), r.IntN(1 << 16)})

			continue
		}
		mode := "same"
		if r.IntN(4) == 0 {
			mode = "xdev"
		}
		src := "file"
		if r.IntN(3) == 0 {
			src = "http"
		}
		hasInitial := r.IntN(3) != 0
		files := []string{}
		if hasInitial {
			files = append(files, vutil.Hex(c14DestRel))
		}
		resetSeed := r.Uint64N(1 << 40)
		emit(append([]string{"C14.reset", fmt.Sprintf("filter-%s-%d-%s", mode, resetSeed, src),
			vutil.Hex(c14DestRel), strconv.Itoa(len(files))}, files...)...)

		// What the generator knows about the implementation's state: the list in
		// the file (size, seed; fileEmpty: no rules or no file) and whether the
		// filter's remembered checksum is zero (never loaded, an empty list, or —
		// a quirk of the code — any change of URL, even a failed one).
		st := struct {
			size      int
			seed      uint64
			wantLen   int
			fileEmpty bool
			ckZero    bool
		}{300, resetSeed, 0, !hasInitial, !hasInitial}
		if hasInitial {
			_, w := c14Body(300, resetSeed, "")
			st.wantLen, st.fileEmpty, st.ckZero = len(w), len(w) == 0, len(w) == 0
		}

		saves := 1 + r.IntN(20)
		for s := 0; s < saves; s++ {
			size := c14Size(r)
			seed := r.Uint64N(1 << 40)
			fault, lim := "", -1
			switch f := r.IntN(16); {
			case f == 0 && p.canImm:
				fault = "faildir"
			case f == 1:
				fault = "notmp"
			case f == 2 || f == 3:
				lim = 0
				if r.IntN(2) == 0 {
					lim = r.IntN(2000)
				}
				fault = "fsize=" + strconv.Itoa(lim)
			}
			probe := vc14.Probe(mode, fault)
			// With every fsync failing (strace injection) no update can be committed:
			// CloseReplace returns the error — and, a quirk of the code, nobody calls
			// Cleanup after that: the temporary file and its descriptor stay.
			inj := vc14.Injected() == "fsync"
			leak := func(wouldCommit bool) (commit bool, pr string) {
				if inj && wouldCommit {
					return false, probe + "+leak"
				}

				return wouldCommit, probe
			}
			// The save fails before or while writing wantLen bytes.
			writeFails := func(wantLen int) bool {
				return fault == "faildir" || (lim >= 0 && wantLen > lim)
			}
			body := func(size int, seed uint64) (wantLen int, empty bool) {
				if size > 1<<20 {
					return size / 2, false
				}
				_, w := c14Body(size, seed, "")

				return len(w), len(w) == 0
			}

			// Requests the HTTP source must see in one update: one, none when the
			// temporary file cannot even be created.
			reqsOf := func(fault string) string {
				if src != "http" || fault == "faildir" {
					return "0"
				}

				return "1"
			}
			if src == "http" && !inj && r.IntN(9) == 0 {
				// Two overlapping updates of different lists (this one and list 8),
				// both sources stalling mid-line; small lists with short lines, so
				// that both parsers work in the pooled 1 KiB buffer.
				sa, sb := 300+r.IntN(3700), 300+r.IntN(3700)
				wantLen, empty := body(sa, seed)
				if !empty {
					emit("C14.race", vutil.Pick(r, []string{"filters", "filters1", "filters1"}), strconv.Itoa(sa),
						strconv.FormatUint(seed, 10), strconv.Itoa(sb), strconv.FormatUint(r.Uint64N(1<<40), 10), mode)
					st.size, st.seed, st.wantLen, st.fileEmpty, st.ckZero = sa, seed, wantLen, false, false

					continue
				}
			}
			v := r.IntN(26)
			if v >= 11 && v < 14 && st.fileEmpty {
				v, size = 0, 0
			}
			sz, sd := strconv.Itoa(size), strconv.FormatUint(seed, 10)
			switch {
			case v < 11:
				wantLen, empty := body(size, seed)
				changed := !empty || !st.ckZero
				// The HTTP source may answer the attempts of one update differently; the
				// code asks once, so the first answer decides.
				variant, firstOK := "ok", true
				if src == "http" && size >= 200 && r.IntN(3) == 0 {
					script := vutil.Pick(r, []string{"cut,ok", "reset,ok", "cut,cut,ok", "500,ok", "ok,cut", "slow,ok",
						"cut,cut,cut", "reset,reset,ok"})
					variant = "ok@" + script
					firstOK = strings.HasPrefix(script, "ok") || strings.HasPrefix(script, "slow")
				}
				commit, pr := leak(changed && !writeFails(wantLen) && firstOK)
				emit("C14.save", variant, sz, sd, vutil.B(commit), "0", pr, reqsOf(fault))
				if commit {
					st.size, st.seed, st.wantLen, st.fileEmpty, st.ckZero = size, seed, wantLen, empty, empty
				}
			case v < 14:
				// The list in the file again: a change only when the checksum was
				// forgotten.
				commit, pr := leak(st.ckZero && !writeFails(st.wantLen))
				emit("C14.save", "same", strconv.Itoa(st.size), strconv.FormatUint(st.seed, 10), vutil.B(commit), "0", pr)
				if commit {
					st.ckZero = false
				}
			case v < 16:
				emit("C14.save", "bad", sz, sd, "0", "0", probe)
			case v < 17:
				emit("C14.save", "toolong", sz, sd, "0", "0", probe)
			case v < 18:
				emit("C14.save", "html", sz, sd, "0", "0", probe)
			case v < 20:
				emit("C14.save", "missing", "0", sd, "0", "0", probe)
			case v < 23:
				// set_url to a good list: the old file must stay until the new one
				// is complete.
				wantLen, empty := body(size, seed)
				commit, pr := leak(!empty && !writeFails(wantLen))
				emit("C14.save", "seturl", sz, sd, vutil.B(commit), "0", pr)
				st.ckZero = true
				if commit {
					st.size, st.seed, st.wantLen, st.fileEmpty, st.ckZero = size, seed, wantLen, false, false
				}
			case v < 25:
				emit("C14.save", "seturlbad", sz, sd, "0", "0", probe)
				st.ckZero = true
			default:
				emit("C14.save", "seturlmissing", "0", sd, "0", "0", probe)
				st.ckZero = true
			}
		}
	}
}

func (p *c14Parent) run(f []string) []string {
	switch f[0] {
	case "C14.reset":
		if p.child == nil {
			p.child = vc14.Start(p.t, "TestVerifC14", p.root)
		}
		p.blk++
		parts := strings.Split(f[1], "-")
		p.w = filepath.Join(p.root, "b"+strconv.Itoa(p.blk))
		p.tm = filepath.Join(p.root, "t"+strconv.Itoa(p.blk))
		if parts[1] == "xdev" {
			p.tm = filepath.Join(c14ShmRoot(), "t"+strconv.Itoa(p.blk))
		}
		p.dest = filepath.Join(p.w, "data", filterDir, "7.txt")
		p.child.SetRoots(map[string]string{p.w: "W", p.tm: "T"})
		resp, _, err := p.child.Do("reset", p.w, p.tm, vutil.B(vutil.Atoi(f[3]) > 0), parts[2], parts[3])
		if err != nil {
			panic(err)
		}

		return resp
	case "C14.race":
		rd := vc14.StartReader(p.dest)
		resp, events, err := p.child.Do("race", f[1], f[2], f[3], f[4], f[5])
		if err != nil || len(resp) != 5 {
			rd.Stop()
			if err != nil {
				panic(err)
			}

			return resp
		}
		reads, bad := rd.Stop(resp[2], resp[3], resp[4])
		out := []string{resp[0], resp[1], strconv.Itoa(reads), strconv.Itoa(bad)}
		names := p.child.ListFiles(filepath.Join(p.w, "data", filterDir), p.tm)
		out = append(out, strconv.Itoa(len(names)))
		out = append(out, names...)
		out = append(out, strconv.Itoa(len(events)))

		return append(out, events...)
	case "C14.save":
		rd := vc14.StartReader(p.dest)
		resp, events, err := p.child.Do("save", f[1], f[2], f[3], f[6])
		if err != nil || len(resp) != 7 {
			rd.Stop()
			if err != nil {
				panic(err)
			}

			return resp
		}
		reads, bad := rd.Stop(resp[3], resp[4])
		out := []string{resp[0], resp[1], resp[2], strconv.Itoa(reads), strconv.Itoa(bad)}
		names := p.child.ListFiles(filepath.Join(p.w, "data", filterDir), p.tm)
		out = append(out, strconv.Itoa(len(names)))
		out = append(out, names...)
		out = append(out, strconv.Itoa(len(events)))
		out = append(out, events...)

		return append(out, resp[5], resp[6])
	default:
		panic("unknown op " + f[0])
	}
}
