//go:build verif

package dnsforward

// Harness shared by C01 and C02 (the C02 generator lives in c02_test.go).
//
// One case = one complete configuration (blocking mode, protection state,
// filtering flags, blocked services, persistent client, custom rules, block
// and allow lists) + one query + a scripted upstream answer.  run() applies
// the configuration to a real Server with a real filtering.DNSFilter (real
// urlfilter engines built by EnableFilters from files and user rules, a real
// client.Storage), calls handleDNSRequest and observes the response, the
// mock upstream's call log and the query-log record.

import (
	"bytes"
	"context"
	"encoding/json"
	"fmt"
	"net/http"
	"net/http/httptest"
	"math/big"
	"math/rand/v2"
	"net"
	"net/netip"
	"os"
	"path/filepath"
	"sort"
	"strconv"
	"strings"
	"sync"
	"sync/atomic"
	"syscall"
	"testing"
	"time"

	"github.com/AdguardTeam/AdGuardHome/internal/client"
	"github.com/AdguardTeam/AdGuardHome/internal/filtering"
	"github.com/AdguardTeam/AdGuardHome/internal/filtering/rulelist"
	"github.com/AdguardTeam/AdGuardHome/internal/querylog"
	"github.com/AdguardTeam/AdGuardHome/internal/schedule"
	"github.com/AdguardTeam/AdGuardHome/internal/vutil"
	"github.com/AdguardTeam/dnsproxy/proxy"
	"github.com/AdguardTeam/dnsproxy/upstream"
	"github.com/AdguardTeam/golibs/hostsfile"
	"github.com/AdguardTeam/golibs/logutil/slogutil"
	"github.com/AdguardTeam/golibs/netutil"
	"github.com/AdguardTeam/golibs/timeutil"
	"github.com/AdguardTeam/urlfilter"
	"github.com/AdguardTeam/urlfilter/filterlist"
	"github.com/AdguardTeam/urlfilter/rules"
	"github.com/miekg/dns"
)

// ---------------------------------------------------------------- case

type c01Service struct {
	id    string
	rules []string
}

type c01List struct {
	enabled bool
	lines   []string
}

type c01Rewrite struct{ domain, answer string }

type c01HostsRec struct {
	addr  netip.Addr
	names []string
}

// c01Lease is one lease of the DHCP fake.
type c01Lease struct {
	name string
	ip   netip.Addr
}

// c01DHCP is the state behind the [testDHCP] closures of an environment.
type c01DHCP struct {
	mu     sync.Mutex
	on     bool
	leases []c01Lease
}

func (d *c01DHCP) set(on bool, leases []c01Lease) {
	d.mu.Lock()
	defer d.mu.Unlock()
	d.on, d.leases = on, leases
}

func (d *c01DHCP) enabled() (ok bool) {
	d.mu.Lock()
	defer d.mu.Unlock()

	return d.on
}

func (d *c01DHCP) ipByHost(host string) (ip netip.Addr) {
	d.mu.Lock()
	defer d.mu.Unlock()
	for _, l := range d.leases {
		if l.name == host {
			return l.ip
		}
	}

	return netip.Addr{}
}

type c01Case struct {
	extraProbes [][2]string

	// widened model: legacy rewrites, hosts container, safe browsing / parental
	rewrites         []c01Rewrite
	hosts            []c01HostsRec
	sbOn, parOn      bool
	sbHost, parHost  string
	csb, cpar        bool
	sbSet, parSet    []string
	// authority section of the scripted upstream answer
	uns []dns.RR
	// the built-in DHCP server: enabled?  its leases (host name -> address); local domain "lan"
	dhcpOn bool
	leases []c01Lease

	mode       string
	bip4, bip6 netip.Addr
	ttl        int
	prot       bool
	pause      string
	gfilt      bool
	aaaaDis    bool
	gSched     bool
	gSvc       []c01Service
	hasClient  bool
	cname      string
	useOwn     bool
	cfilt      bool
	useOwnBS   bool
	cSched     bool
	cSvc       []c01Service
	cip        netip.Addr
	custom     []string
	block      []c01List
	allow      []c01List
	qname      string
	qtype      uint16
	urcode     int
	uans       []dns.RR
}

// ---------------------------------------------------------------- tokens

func c01IPTok(a netip.Addr, str string) string {
	if !a.IsValid() {
		return "nil"
	}
	fam := "4."
	if !a.Is4() {
		fam = "6."
	}

	return fam + new(big.Int).SetBytes(a.AsSlice()).String() + "." + vutil.Hex(str)
}

func c01NetIPTok(ip net.IP, withStr bool) string {
	if len(ip) == 0 {
		return "nil"
	}
	a, ok := netip.AddrFromSlice(ip)
	if !ok {
		return "nil"
	}
	s := ""
	if withStr {
		s = ip.String()
	}

	return c01IPTok(a, s)
}

func c01ParseIPTok(s string) (a netip.Addr) {
	if s == "nil" {
		return netip.Addr{}
	}
	parts := strings.Split(s, ".")
	n, ok := new(big.Int).SetString(parts[1], 10)
	if !ok {
		panic("bad ip token " + s)
	}
	size := 4
	if parts[0] == "6" {
		size = 16
	}
	b := n.FillBytes(make([]byte, size))
	a, _ = netip.AddrFromSlice(b)

	return a
}

func c01IPListTok(ips []net.IP, withStr bool) string {
	if len(ips) == 0 {
		return "-"
	}
	var ss []string
	for _, ip := range ips {
		ss = append(ss, c01NetIPTok(ip, withStr))
	}

	return strings.Join(ss, ",")
}

func c01ParseIPList(s string) (ips []net.IP) {
	if s == "-" {
		return nil
	}
	for _, t := range strings.Split(s, ",") {
		ips = append(ips, net.IP(c01ParseIPTok(t).AsSlice()))
	}

	return ips
}

// c01RRTok renders a record; withStr adds the String() oracle of addresses
// (input side only).
func c01RRTok(rr dns.RR, withStr bool) string {
	h := rr.Header()
	hd := func(k string) string {
		ttl := h.Ttl
		if n := c01TTLNorm; n > 0 && !withStr && ttl < n && ttl+5 >= n {
			ttl = n
		}

		return k + ":" + vutil.Hex(h.Name) + ":" + strconv.Itoa(int(ttl)) + ":"
	}
	switch v := rr.(type) {
	case *dns.A:
		return hd("A") + c01NetIPTok(v.A, withStr)
	case *dns.AAAA:
		return hd("AAAA") + c01NetIPTok(v.AAAA, withStr)
	case *dns.CNAME:
		return hd("CNAME") + vutil.Hex(v.Target)
	case *dns.SOA:
		return hd("SOA") + vutil.Hex(v.Mbox)
	case *dns.PTR:
		return hd("PTR") + vutil.Hex(v.Ptr)
	case *dns.HTTPS:
		var ps []string
		for _, kv := range v.Value {
			switch p := kv.(type) {
			case *dns.SVCBIPv4Hint:
				ps = append(ps, "4="+c01IPListTok(p.Hint, withStr))
			case *dns.SVCBIPv6Hint:
				ps = append(ps, "6="+c01IPListTok(p.Hint, withStr))
			default:
				ps = append(ps, "o="+strconv.Itoa(int(kv.Key())))
			}
		}
		pstr := "-"
		if len(ps) > 0 {
			pstr = strings.Join(ps, ";")
		}

		return hd("HTTPS") + strconv.Itoa(int(v.Priority)) + ":" + vutil.Hex(v.Target) + ":" + pstr
	case *dns.TXT:
		return hd("O") + strconv.Itoa(int(h.Rrtype)) + ":" + vutil.Hex(strings.Join(v.Txt, "|"))
	case *dns.MX:
		return hd("O") + strconv.Itoa(int(h.Rrtype)) + ":" + vutil.Hex(v.Mx)
	default:
		return hd("O") + strconv.Itoa(int(h.Rrtype)) + ":" + vutil.Hex(rr.String())
	}
}

func c01ParseRR(tok string) dns.RR {
	p := strings.Split(tok, ":")
	ttl, _ := strconv.Atoi(p[2])
	hdr := func(t uint16) dns.RR_Header {
		return dns.RR_Header{Name: vutil.Unhex(p[1]), Rrtype: t, Class: dns.ClassINET, Ttl: uint32(ttl)}
	}
	switch p[0] {
	case "A":
		return &dns.A{Hdr: hdr(dns.TypeA), A: net.IP(c01ParseIPTok(p[3]).AsSlice())}
	case "AAAA":
		return &dns.AAAA{Hdr: hdr(dns.TypeAAAA), AAAA: net.IP(c01ParseIPTok(p[3]).AsSlice())}
	case "CNAME":
		return &dns.CNAME{Hdr: hdr(dns.TypeCNAME), Target: vutil.Unhex(p[3])}
	case "SOA":
		return &dns.SOA{Hdr: hdr(dns.TypeSOA), Ns: "ns.invalid.", Mbox: vutil.Unhex(p[3]), Serial: 1, Refresh: 2, Retry: 3, Expire: 4, Minttl: 5}
	case "HTTPS":
		prio, _ := strconv.Atoi(p[3])
		rr := &dns.HTTPS{SVCB: dns.SVCB{Hdr: hdr(dns.TypeHTTPS), Priority: uint16(prio), Target: vutil.Unhex(p[4])}}
		if p[5] != "-" {
			for _, ps := range strings.Split(p[5], ";") {
				kv := strings.SplitN(ps, "=", 2)
				switch kv[0] {
				case "4":
					rr.Value = append(rr.Value, &dns.SVCBIPv4Hint{Hint: c01ParseIPList(kv[1])})
				case "6":
					rr.Value = append(rr.Value, &dns.SVCBIPv6Hint{Hint: c01ParseIPList(kv[1])})
				default:
					k, _ := strconv.Atoi(kv[1])
					switch dns.SVCBKey(k) {
					case dns.SVCB_ALPN:
						rr.Value = append(rr.Value, &dns.SVCBAlpn{Alpn: []string{"h2"}})
					case dns.SVCB_PORT:
						rr.Value = append(rr.Value, &dns.SVCBPort{Port: 443})
					default:
						panic("unsupported svcb key in case")
					}
				}
			}
		}

		return rr
	case "O":
		t, _ := strconv.Atoi(p[3])
		switch uint16(t) {
		case dns.TypeTXT:
			return &dns.TXT{Hdr: hdr(dns.TypeTXT), Txt: strings.Split(vutil.Unhex(p[4]), "|")}
		case dns.TypeMX:
			return &dns.MX{Hdr: hdr(dns.TypeMX), Preference: 10, Mx: vutil.Unhex(p[4])}
		}
	}
	panic("bad rr token " + tok)
}

// ---------------------------------------------------------------- encode / decode of a case

func c01SvcFields(svcs []c01Service) (f []string) {
	f = append(f, strconv.Itoa(len(svcs)))
	for _, s := range svcs {
		f = append(f, vutil.Hex(s.id), strconv.Itoa(len(s.rules)))
		for _, r := range s.rules {
			f = append(f, vutil.Hex(r))
		}
	}

	return f
}

func c01ListFields(ls []c01List) (f []string) {
	f = append(f, strconv.Itoa(len(ls)))
	for _, l := range ls {
		f = append(f, vutil.B(l.enabled), strconv.Itoa(len(l.lines)))
		for _, r := range l.lines {
			f = append(f, vutil.Hex(r))
		}
	}

	return f
}

func c01BlockHostTok(h string) string {
	if h == "" {
		return "-"
	}
	if a, err := netip.ParseAddr(h); err == nil {
		return "ip=" + c01IPTok(a, "")
	}

	return "name=" + vutil.Hex(h)
}

// extFields renders the extension group (directly after the op name).
func (c *c01Case) extFields() (f []string) {
	f = append(f, strconv.Itoa(len(c.rewrites)))
	for _, rw := range c.rewrites {
		parsed := "none"
		if a, err := netip.ParseAddr(rw.answer); err == nil {
			fam := "6:"
			if a.Is4() {
				fam = "4:"
			}
			parsed = fam + vutil.Hex(a.String())
		}
		f = append(f, vutil.Hex(rw.domain), vutil.Hex(rw.answer), parsed)
	}
	f = append(f, strconv.Itoa(len(c.hosts)))
	for _, h := range c.hosts {
		f = append(f, c01IPTok(h.addr, ""), strconv.Itoa(len(h.names)))
		for _, n := range h.names {
			f = append(f, vutil.Hex(n))
		}
	}
	// oracle: netutil.IPFromReversedAddr of the queried host
	arpa := "nil"
	if a, err := netutil.IPFromReversedAddr(strings.ToLower(strings.TrimSuffix(c.qname, "."))); err == nil {
		arpa = c01IPTok(a, "")
	}
	f = append(f, arpa, vutil.B(c.sbOn), vutil.B(c.parOn), c01BlockHostTok(c.sbHost), c01BlockHostTok(c.parHost),
		vutil.B(c.csb), vutil.B(c.cpar))
	for _, set := range [][]string{c.sbSet, c.parSet} {
		f = append(f, strconv.Itoa(len(set)))
		for _, h := range set {
			f = append(f, vutil.Hex(h))
		}
	}
	f = append(f, strconv.Itoa(len(c.uns)))
	for _, rr := range c.uns {
		f = append(f, c01RRTok(rr, true))
	}
	f = append(f, vutil.B(c.dhcpOn), strconv.Itoa(len(c.leases)))
	for _, l := range c.leases {
		f = append(f, vutil.Hex(l.name), c01IPTok(l.ip, ""))
	}

	return f
}

func (c *c01Case) fields(op string) (f []string) {
	f = append([]string{op}, c.extFields()...)
	f = append(f, c.mode, c01IPTok(c.bip4, ""), c01IPTok(c.bip6, ""), strconv.Itoa(c.ttl),
		vutil.B(c.prot), c.pause, vutil.B(c.gfilt), vutil.B(c.aaaaDis), vutil.B(c.gSched))
	f = append(f, c01SvcFields(c.gSvc)...)
	f = append(f, vutil.B(c.hasClient), vutil.Hex(c.cname), vutil.B(c.useOwn), vutil.B(c.cfilt),
		vutil.B(c.useOwnBS), vutil.B(c.cSched))
	f = append(f, c01SvcFields(c.cSvc)...)
	f = append(f, c01IPTok(c.cip, ""))
	f = append(f, strconv.Itoa(len(c.custom)))
	for _, r := range c.custom {
		f = append(f, vutil.Hex(r))
	}
	f = append(f, c01ListFields(c.block)...)
	f = append(f, c01ListFields(c.allow)...)
	f = append(f, vutil.Hex(c.qname), strconv.Itoa(int(c.qtype)), strconv.Itoa(c.urcode), strconv.Itoa(len(c.uans)))
	for _, rr := range c.uans {
		f = append(f, c01RRTok(rr, true))
	}

	return f
}

type c01Reader struct {
	f []string
	i int
}

func (r *c01Reader) next() string { s := r.f[r.i]; r.i++; return s }
func (r *c01Reader) int() int     { return vutil.Atoi(r.next()) }
func (r *c01Reader) bool() bool   { return vutil.UnB(r.next()) }
func (r *c01Reader) str() string  { return vutil.Unhex(r.next()) }
func (r *c01Reader) strs() (l []string) {
	n := r.int()
	for i := 0; i < n; i++ {
		l = append(l, r.str())
	}

	return l
}

func (r *c01Reader) svcs() (l []c01Service) {
	n := r.int()
	for i := 0; i < n; i++ {
		id := r.str()
		l = append(l, c01Service{id: id, rules: r.strs()})
	}

	return l
}

func (r *c01Reader) lists() (l []c01List) {
	n := r.int()
	for i := 0; i < n; i++ {
		en := r.bool()
		l = append(l, c01List{enabled: en, lines: r.strs()})
	}

	return l
}

func c01ParseBlockHost(tok string) string {
	switch {
	case tok == "-":
		return ""
	case strings.HasPrefix(tok, "ip="):
		return c01ParseIPTok(tok[3:]).String()
	default:
		return vutil.Unhex(strings.TrimPrefix(tok, "name="))
	}
}

func c01Decode(f []string) (c *c01Case) {
	r := &c01Reader{f: f, i: 1}
	c = &c01Case{}
	for n := r.int(); n > 0; n-- {
		d, a := r.str(), r.str()
		r.next() // ParseAddr oracle (for the driver)
		c.rewrites = append(c.rewrites, c01Rewrite{domain: d, answer: a})
	}
	for n := r.int(); n > 0; n-- {
		a := c01ParseIPTok(r.next())
		c.hosts = append(c.hosts, c01HostsRec{addr: a, names: r.strs()})
	}
	r.next() // arpa oracle (for the driver)
	c.sbOn, c.parOn = r.bool(), r.bool()
	c.sbHost, c.parHost = c01ParseBlockHost(r.next()), c01ParseBlockHost(r.next())
	c.csb, c.cpar = r.bool(), r.bool()
	c.sbSet, c.parSet = r.strs(), r.strs()
	for n := r.int(); n > 0; n-- {
		c.uns = append(c.uns, c01ParseRR(r.next()))
	}
	c.dhcpOn = r.bool()
	for n := r.int(); n > 0; n-- {
		name := r.str()
		c.leases = append(c.leases, c01Lease{name: name, ip: c01ParseIPTok(r.next())})
	}
	c.mode = r.next()
	c.bip4, c.bip6 = c01ParseIPTok(r.next()), c01ParseIPTok(r.next())
	c.ttl, c.prot, c.pause, c.gfilt, c.aaaaDis, c.gSched = r.int(), r.bool(), r.next(), r.bool(), r.bool(), r.bool()
	c.gSvc = r.svcs()
	c.hasClient, c.cname, c.useOwn, c.cfilt, c.useOwnBS, c.cSched = r.bool(), r.str(), r.bool(), r.bool(), r.bool(), r.bool()
	c.cSvc = r.svcs()
	c.cip = c01ParseIPTok(r.next())
	c.custom = r.strs()
	c.block, c.allow = r.lists(), r.lists()
	c.qname = r.str()
	c.qtype = uint16(r.int())
	c.urcode = r.int()
	n := r.int()
	for i := 0; i < n; i++ {
		c.uans = append(c.uans, c01ParseRR(r.next()))
	}

	return c
}

// ---------------------------------------------------------------- oracles (real urlfilter on the same texts)

func c01BuildEngine(texts []string) *urlfilter.DNSEngine {
	lists := make([]filterlist.RuleList, 0, len(texts))
	for i, t := range texts {
		lists = append(lists, &filterlist.StringRuleList{ID: i, RulesText: t, IgnoreCosmetic: true})
	}
	st, err := filterlist.NewRuleStorage(lists)
	if err != nil {
		panic(err)
	}

	return urlfilter.NewDNSEngine(st)
}

func c01EngTok(e *urlfilter.DNSEngine, req *urlfilter.DNSRequest) string {
	res, ok := e.MatchRequest(req)
	if !ok {
		return "none"
	}
	if res.NetworkRule != nil {
		return "net:" + vutil.B(res.NetworkRule.Whitelist)
	}
	tok := func(hrs []*rules.HostRule) string {
		if len(hrs) == 0 {
			return "-"
		}
		var ss []string
		for _, hr := range hrs {
			ss = append(ss, c01IPTok(hr.IP, ""))
		}

		return strings.Join(ss, ",")
	}

	return "hosts:" + tok(res.HostRulesV4) + ":" + tok(res.HostRulesV6)
}

// c01Probes lists the (host, rrtype) pairs the pipeline may hand to the engines.
func (c *c01Case) probes() (ps [][2]string) {
	seen := map[[2]string]bool{}
	add := func(h string, t uint16) {
		k := [2]string{strings.ToLower(h), strconv.Itoa(int(t))}
		if !seen[k] {
			seen[k] = true
			ps = append(ps, k)
		}
	}
	add(strings.TrimSuffix(c.qname, "."), c.qtype)
	for _, rr := range c.uans {
		switch v := rr.(type) {
		case *dns.CNAME:
			add(strings.TrimSuffix(v.Target, "."), dns.TypeCNAME)
		case *dns.A:
			add(v.A.String(), dns.TypeA)
		case *dns.AAAA:
			add(v.AAAA.String(), dns.TypeAAAA)
		case *dns.HTTPS:
			for _, kv := range v.Value {
				switch p := kv.(type) {
				case *dns.SVCBIPv4Hint:
					for _, ip := range p.Hint {
						add(ip.String(), dns.TypeHTTPS)
					}
				case *dns.SVCBIPv6Hint:
					for _, ip := range p.Hint {
						add(ip.String(), dns.TypeHTTPS)
					}
				}
			}
		}
	}

	for _, p := range c.extraProbes {
		add(p[0], uint16(vutil.Atoi(p[1])))
	}

	return ps
}

// oracleFields computes what real urlfilter engines, built from the enabled
// rule texts the way the configuration says, answer for every probe.
func (c *c01Case) oracleFields() (f []string) {
	blockTexts := []string{strings.Join(c.custom, "\n")}
	for _, l := range c.block {
		if l.enabled {
			blockTexts = append(blockTexts, strings.Join(l.lines, "\n"))
		}
	}
	var allowTexts []string
	for _, l := range c.allow {
		if l.enabled {
			allowTexts = append(allowTexts, strings.Join(l.lines, "\n"))
		}
	}
	be, ae := c01BuildEngine(blockTexts), c01BuildEngine(allowTexts)
	name := ""
	if c.hasClient {
		name = c.cname
	}
	ps := c.probes()
	f = append(f, strconv.Itoa(len(ps)))
	for _, p := range ps {
		t, _ := strconv.Atoi(p[1])
		req := &urlfilter.DNSRequest{Hostname: p[0], ClientIP: c.cip, ClientName: name, DNSType: uint16(t)}
		f = append(f, vutil.Hex(p[0]), p[1], c01EngTok(ae, req), c01EngTok(be, req))
	}
	// services whose rules match the queried host
	host := strings.ToLower(strings.TrimSuffix(c.qname, "."))
	var hit []string
	seen := map[string]bool{}
	for _, s := range append(append([]c01Service{}, c.gSvc...), c.cSvc...) {
		if seen[s.id] {
			continue
		}
		seen[s.id] = true
		if host == "" {
			continue
		}
		req := rules.NewRequestForHostname(host)
		for _, text := range s.rules {
			r, err := rules.NewNetworkRule(text, 0)
			if err == nil && r.Match(req) {
				hit = append(hit, s.id)

				break
			}
		}
	}
	f = append(f, strconv.Itoa(len(hit)))
	for _, h := range hit {
		f = append(f, vutil.Hex(h))
	}

	return f
}

// ---------------------------------------------------------------- the system under test

// c01Upstream is the recording mock upstream.  Calls are recorded per request
// id so that concurrent queries (reload mode) can be told apart.
type c01Upstream struct {
	mu     sync.Mutex
	calls  map[uint16][]string
	order  []string
	rcode  int
	answer []dns.RR
	ns     []dns.RR
}

var _ upstream.Upstream = (*c01Upstream)(nil)

func (u *c01Upstream) Exchange(m *dns.Msg) (resp *dns.Msg, err error) {
	q := m.Question[0]
	u.mu.Lock()
	if u.calls == nil {
		u.calls = map[uint16][]string{}
	}
	tok := vutil.Hex(q.Name) + ":" + strconv.Itoa(int(q.Qtype))
	u.calls[m.Id] = append(u.calls[m.Id], tok)
	u.order = append(u.order, tok)
	u.mu.Unlock()
	resp = new(dns.Msg).SetReply(m)
	resp.Rcode = u.rcode
	for _, rr := range u.answer {
		resp.Answer = append(resp.Answer, dns.Copy(rr))
	}
	for _, rr := range u.ns {
		resp.Ns = append(resp.Ns, dns.Copy(rr))
	}

	return resp, nil
}

func (u *c01Upstream) take(id uint16) (calls []string) {
	u.mu.Lock()
	defer u.mu.Unlock()
	calls = u.calls[id]
	delete(u.calls, id)
	u.order = nil

	return calls
}

// takeAll returns every recorded call in order of arrival (sequential modes:
// genBlockedHost resolves the block host under a request id of its own).
func (u *c01Upstream) takeAll() (calls []string) {
	u.mu.Lock()
	defer u.mu.Unlock()
	calls = u.order
	u.order, u.calls = nil, nil

	return calls
}

func (u *c01Upstream) Address() string { return "c01.upstream.example" }
func (u *c01Upstream) Close() error    { return nil }

// c01QueryLog records the query-log entry of every request, keyed by the
// request message.
type c01QueryLog struct {
	querylog.QueryLog

	mu      sync.Mutex
	entries map[*dns.Msg]*querylog.AddParams
}

func (l *c01QueryLog) Add(p *querylog.AddParams) {
	l.mu.Lock()
	defer l.mu.Unlock()
	if l.entries == nil {
		l.entries = map[*dns.Msg]*querylog.AddParams{}
	}
	l.entries[p.Question] = p
}

func (l *c01QueryLog) ShouldLog(string, uint16, uint16, []string) bool { return true }

func (l *c01QueryLog) take(req *dns.Msg) (p *querylog.AddParams) {
	l.mu.Lock()
	defer l.mu.Unlock()
	p = l.entries[req]
	delete(l.entries, req)

	return p
}

// c01Checker is the scripted safe-browsing / parental checker (the real one is
// a hash-prefix lookup, property C19).
type c01Checker struct{ blocked map[string]bool }

func (ck *c01Checker) Check(host string) (block bool, err error) {
	if strings.HasPrefix(host, "slowlookup.") {
		// the real checker is a network lookup: a few milliseconds
		time.Sleep(5 * time.Millisecond)
	}

	return ck.blocked[host], nil
}

type c01Env struct {
	s       *Server
	f       *filtering.DNSFilter
	fconf   *filtering.Config
	ups     *c01Upstream
	ql      *c01QueryLog
	dataDir string
	storage *client.Storage
	sbCk    *c01Checker
	parCk   *c01Checker
	dhcp    *c01DHCP
	concurrent bool
	// wedged is set when a request did not return; the server is then replaced
	wedged    bool
	t         *testing.T
	cacheSize uint32

	// configuration-sequence mode
	handlers map[string]http.HandlerFunc
	srcDir   string
	hold     bool          // do not run the rebuild loop after a handler call (burst)
	backup   []byte        // content of the list file a lifecycle step replaced
	brokenAt string        // its path
	stalled  chan struct{} // closed when the stalled rebuild has finished

	// sequence / reload modes
	cur        *c01Case
	nextID     atomic.Uint32
	reloadStop chan struct{}
	reloadDone chan struct{}
}

func (e *c01Env) newFilterConf() *filtering.Config {
	return &filtering.Config{
		DataDir:           e.dataDir,
		ProtectionEnabled: true,
		FilteringEnabled:  true,
		BlockingMode:      filtering.BlockingModeDefault,
		BlockedServices:   emptyFilteringBlockedServices(),
		ApplyClientFiltering: func(id string, addr netip.Addr, setts *filtering.Settings) {
			if e.storage != nil {
				e.storage.ApplyClientFiltering(id, addr, setts)
			}
		},
		ConfigModified:         func() {},
		SafeBrowsingChecker:    e.sbCk,
		ParentalControlChecker: e.parCk,
	}
}

func c01NewEnv(t *testing.T, cacheSize uint32) (e *c01Env) {
	filtering.InitModule()
	e = &c01Env{ups: &c01Upstream{}, ql: &c01QueryLog{}, dataDir: t.TempDir(), sbCk: &c01Checker{}, parCk: &c01Checker{},
		dhcp: &c01DHCP{}, t: t, cacheSize: cacheSize}
	e.fconf = e.newFilterConf()
	f, err := filtering.New(e.fconf, nil)
	if err != nil {
		t.Fatal(err)
	}
	e.f = f
	s, err := NewServer(DNSCreateParams{
		DHCPServer: &testDHCP{
			OnEnabled:  e.dhcp.enabled,
			OnHostByIP: func(ip netip.Addr) (host string) { return "" },
			OnIPByHost: e.dhcp.ipByHost,
		},
		DNSFilter:   f,
		QueryLog:    e.ql,
		PrivateNets: netutil.SubnetSetFunc(netutil.IsLocallyServed),
		Logger:      slogutil.NewDiscardLogger(),
	})
	if err != nil {
		t.Fatal(err)
	}
	err = s.Prepare(&ServerConfig{
		UDPListenAddrs: []*net.UDPAddr{{}},
		TCPListenAddrs: []*net.TCPAddr{{}},
		TLSConf:        &TLSConfig{},
		Config: Config{
			UpstreamMode:     UpstreamModeLoadBalance,
			CacheSize:        cacheSize,
			EDNSClientSubnet: &EDNSClientSubnet{Enabled: false},
			ClientsContainer: EmptyClientsContainer{},
		},
		ConfigModified: func() {},
		ServePlainDNS:  true,
	})
	if err != nil {
		t.Fatal(err)
	}
	s.conf.UpstreamConfig.Upstreams = []upstream.Upstream{e.ups}
	e.s = s
	if err = s.Start(); err != nil {
		t.Fatal(err)
	}
	t.Cleanup(func() {
		e.stopReload()
		if _, wedged := c01Wedged.Load(s); !wedged {
			_ = s.Stop()
		}
	})

	return e
}

func c01Mode(m string) filtering.BlockingMode {
	switch m {
	case "default":
		return filtering.BlockingModeDefault
	case "null_ip":
		return filtering.BlockingModeNullIP
	case "custom_ip":
		return filtering.BlockingModeCustomIP
	case "nxdomain":
		return filtering.BlockingModeNXDOMAIN
	case "refused":
		return filtering.BlockingModeREFUSED
	}
	panic("bad mode " + m)
}

func c01BlockedServices(svcs []c01Service, schedNow bool) *filtering.BlockedServices {
	bs := &filtering.BlockedServices{Schedule: schedule.EmptyWeekly()}
	if schedNow {
		bs.Schedule = schedule.FullWeekly()
	}
	for _, s := range svcs {
		bs.IDs = append(bs.IDs, s.id)
	}

	return bs
}

// apply configures the running server for the case through the same entry
// points the application uses (Set*, EnableFilters, client storage).
func (e *c01Env) apply(c *c01Case) {
	// A fresh DNSFilter per case: filtering.New runs the real prepareRewrites /
	// normalize on the rewrite table (as at start-up); everything else is set
	// through the entry points the application uses.
	fc := e.newFilterConf()
	for _, rw := range c.rewrites {
		fc.Rewrites = append(fc.Rewrites, &filtering.LegacyRewrite{Domain: rw.domain, Answer: rw.answer})
	}
	hs, _ := hostsfile.NewDefaultStorage()
	for _, h := range c.hosts {
		hs.Add(&hostsfile.Record{Addr: h.addr, Names: h.names, Source: "verif"})
	}
	fc.EtcHosts = hs
	fc.SafeBrowsingEnabled, fc.ParentalEnabled = c.sbOn, c.parOn
	fc.SafeBrowsingBlockHost, fc.ParentalBlockHost = c.sbHost, c.parHost
	e.dhcp.set(c.dhcpOn, c.leases)
	e.sbCk.blocked, e.parCk.blocked = map[string]bool{}, map[string]bool{}
	for _, h := range c.sbSet {
		e.sbCk.blocked[h] = true
	}
	for _, h := range c.parSet {
		e.parCk.blocked[h] = true
	}
	f, err := filtering.New(fc, nil)
	if err != nil {
		panic(err)
	}
	e.s.serverLock.Lock()
	old := e.s.dnsFilter
	e.s.dnsFilter = f
	e.s.serverLock.Unlock()
	old.Close()
	e.f, e.fconf = f, fc

	f.SetBlockingMode(c01Mode(c.mode), c.bip4, c.bip6)
	fc.BlockingIPv4, fc.BlockingIPv6 = c.bip4, c.bip6
	f.SetBlockedResponseTTL(uint32(c.ttl))
	var until *time.Time
	switch c.pause {
	case "past":
		t := time.Now().Add(-time.Hour)
		until = &t
	case "future":
		t := time.Now().Add(time.Hour)
		until = &t
	}
	f.SetProtectionStatus(c.prot, until)
	fc.BlockedServices = c01BlockedServices(c.gSvc, c.gSched)
	e.s.conf.AAAADisabled = c.aaaaDis

	// rule lists: files in DataDir/filters/<id>.txt, user rules inline
	fdir := filepath.Join(e.dataDir, "filters")
	oldFiles, _ := filepath.Glob(filepath.Join(fdir, "*.txt"))
	for _, p := range oldFiles {
		_ = os.Remove(p)
	}
	id := 1
	mk := func(ls []c01List) (ys []filtering.FilterYAML) {
		for _, l := range ls {
			y := filtering.FilterYAML{Enabled: l.enabled, URL: fmt.Sprintf("https://lists.example/%d.txt", id), Name: fmt.Sprintf("l%d", id)}
			y.ID = rulelist.URLFilterID(id)
			err := os.WriteFile(filepath.Join(fdir, strconv.Itoa(id)+".txt"), []byte(strings.Join(l.lines, "\n")+"\n"), 0o644)
			if err != nil {
				panic(err)
			}
			ys = append(ys, y)
			id++
		}

		return ys
	}
	fc.Filters = mk(c.block)
	fc.WhitelistFilters = mk(c.allow)
	fc.UserRules = c.custom
	fc.FilteringEnabled = c.gfilt
	f.EnableFilters(false)

	// persistent client
	e.storage = nil
	if c.hasClient {
		p := &client.Persistent{
			Name:                  c.cname,
			IPs:                   []netip.Addr{c.cip},
			UID:                   client.MustNewUID(),
			UseOwnSettings:        c.useOwn,
			FilteringEnabled:      c.cfilt,
			UseOwnBlockedServices: c.useOwnBS,
			BlockedServices:       c01BlockedServices(c.cSvc, c.cSched),
			SafeBrowsingEnabled:   c.csb,
			ParentalEnabled:       c.cpar,
		}
		st, err := client.NewStorage(context.Background(), &client.StorageConfig{
			Logger:         slogutil.NewDiscardLogger(),
			Clock:          timeutil.SystemClock{},
			DHCP:           client.EmptyDHCP{},
			InitialClients: []*client.Persistent{p},
		})
		if err != nil {
			panic(err)
		}
		e.storage = st
	}
}

func c01MsgFields(m *dns.Msg) (f []string) {
	qn, qt := "", 0
	if len(m.Question) > 0 {
		qn, qt = m.Question[0].Name, int(m.Question[0].Qtype)
	}
	f = []string{strconv.Itoa(m.Rcode), vutil.Hex(qn), strconv.Itoa(qt), strconv.Itoa(len(m.Answer))}
	for _, rr := range m.Answer {
		f = append(f, c01RRTok(rr, false))
	}
	f = append(f, strconv.Itoa(len(m.Ns)))
	for _, rr := range m.Ns {
		f = append(f, c01RRTok(rr, false))
	}

	return f
}

// c01Wedged holds the servers abandoned after a request hung (never stopped: Stop would block too).
var c01Wedged sync.Map

// c01HangTimeout bounds one request; nothing in the harness takes longer than milliseconds.
const c01HangTimeout = 8 * time.Second

// c01TTLNorm, when non-zero, is the lowest TTL of the scripted upstream answer:
// a record TTL at most 5 s below it is rendered as that value (ageing of an
// entry of the dnsproxy cache; sequence mode only).
var c01TTLNorm uint32

// query sends one request through handleDNSRequest and renders the
// observation: response, upstream calls made for it, query-log record.
func (e *c01Env) query(cip netip.Addr, qname string, qtype uint16) (obs []string) {
	req := &dns.Msg{}
	req.Id = uint16(e.nextID.Add(1))
	req.RecursionDesired = true
	req.Question = []dns.Question{{Name: qname, Qtype: qtype, Qclass: dns.ClassINET}}
	// TCP code path: over UDP dnsproxy truncates an upstream answer above 512
	// bytes (no EDNS in the request) inside Resolve, before any filtering.
	// The client counts as one of the private network (dnsproxy derives the flag from the
	// address; only processDHCPHosts reads it).
	pctx := &proxy.DNSContext{Proto: proxy.ProtoTCP, Req: req, Addr: netip.AddrPortFrom(cip, 34567), IsPrivateClient: true}

	var err error
	done := make(chan struct{})
	go func() {
		defer close(done)
		err = e.s.handleDNSRequest(nil, pctx)
	}()
	select {
	case <-done:
	case <-time.After(c01HangTimeout):
		// The request never returned (the server is wedged: see corpus/C01/finding-deadlock.txt).
		e.wedged = true
		c01Wedged.Store(e.s, true)

		return []string{"hang"}
	}
	// An expired pause re-enables protection in a goroutine; let it finish
	// before the next case reconfigures the filter.
	for e.s.protectionUpdateInProgress.Load() {
		time.Sleep(50 * time.Microsecond)
	}
	var calls []string
	if e.concurrent {
		calls = e.ups.take(req.Id)
	} else {
		calls = e.ups.takeAll()
	}
	p := e.ql.take(req)
	if err != nil || pctx.Res == nil {
		return []string{"err"}
	}

	obs = append([]string{"ok"}, c01MsgFields(pctx.Res)...)
	obs = append(obs, strconv.Itoa(len(calls)))
	obs = append(obs, calls...)
	if p == nil {
		obs = append(obs, "noqlog")
	} else {
		obs = append(obs, "qlog", strconv.Itoa(int(p.Result.Reason)), vutil.B(p.Result.IsFiltered), vutil.Hex(p.Result.ServiceName))
		if p.OrigAnswer == nil {
			obs = append(obs, "0", "0")
		} else {
			obs = append(obs, "1", strconv.Itoa(len(p.OrigAnswer.Answer)))
			for _, rr := range p.OrigAnswer.Answer {
				obs = append(obs, c01RRTok(rr, false))
			}
		}
	}

	return obs
}

// configure applies a case and points the mock upstream at its script.
func (e *c01Env) configure(c *c01Case) {
	if e.wedged {
		// abandon the wedged server (its goroutines stay blocked) and start over
		fresh := c01NewEnv(e.t, e.cacheSize)
		*e = *fresh
	}
	e.stopReload()
	e.concurrent = false
	e.apply(c)
	e.ups.rcode, e.ups.answer, e.ups.ns = c.urcode, c.uans, c.uns
	e.cur = c
}

// c01Filler is the bulk list of the reload mode; the driver generates the same lines.
func c01Filler(n int) (lines []string) {
	lines = make([]string, n)
	for i := range lines {
		lines[i] = "||f" + strconv.Itoa(i) + ".bulk-filler.test^"
	}

	return lines
}

func (e *c01Env) stopReload() {
	if e.reloadStop != nil {
		close(e.reloadStop)
		<-e.reloadDone
		e.reloadStop, e.reloadDone = nil, nil
	}
}

// startReload rebuilds the engines of the unchanged rule set in a loop through
// the entry point every settings / refresh / custom-rules handler ends in.
func (e *c01Env) startReload() {
	e.reloadStop, e.reloadDone = make(chan struct{}), make(chan struct{})
	go func(stop, done chan struct{}) {
		defer close(done)
		for {
			select {
			case <-stop:
				return
			default:
				e.f.EnableFilters(false)
			}
		}
	}(e.reloadStop, e.reloadDone)
}

func c01MinTTL(rrs []dns.RR) (ttl uint32) {
	for i, rr := range rrs {
		if t := rr.Header().Ttl; i == 0 || t < ttl {
			ttl = t
		}
	}

	return ttl
}

func (e *c01Env) run(fields []string) (obs []string) {
	switch fields[0] {
	case "C01.q", "C02.q":
		c := c01Decode(fields)
		e.configure(c)

		return e.query(c.cip, c.qname, c.qtype)
	case "C02.sreset":
		// sequence mode: one configuration, then C02.sq queries against a proxy with the cache on
		// (fields[1..] are the "cache form" oracle for the driver: flag, n, n records)
		skip := 3 + vutil.Atoi(fields[2])
		c := c01Decode(append([]string{fields[0]}, fields[skip:]...))
		e.configure(c)
		e.s.dnsProxy.ClearCache()

		return []string{"reset"}
	case "C02.sq":
		c01TTLNorm = c01MinTTL(e.cur.uans)
		if e.cur.urcode == dns.RcodeServerFailure && (c01TTLNorm > 30 || len(e.cur.uans) == 0) {
			// dnsproxy caches SERVFAIL for at most 30 s
			c01TTLNorm = 30
		}
		defer func() { c01TTLNorm = 0 }()

		return e.query(e.cur.cip, vutil.Unhex(fields[1]), uint16(vutil.Atoi(fields[2])))
	case "C01.rl":
		// reload mode: the case plus a bulk list, engines rebuilt in a loop while C01.rq lines query
		n := vutil.Atoi(fields[1])
		c := c01Decode(append([]string{fields[0]}, fields[2:]...))
		c.block = append(c.block, c01List{enabled: true, lines: c01Filler(n)})
		e.configure(c)
		e.concurrent = true
		e.startReload()

		return []string{"started"}
	case "C01.rq":
		qname, qtype := vutil.Unhex(fields[1]), uint16(vutil.Atoi(fields[2]))
		par, reps := vutil.Atoi(fields[3]), vutil.Atoi(fields[4])
		var mu sync.Mutex
		seen := map[string]bool{}
		var wg sync.WaitGroup
		for g := 0; g < par; g++ {
			wg.Add(1)
			go func() {
				defer wg.Done()
				for i := 0; i < reps; i++ {
					o := strings.Join(e.query(e.cur.cip, qname, qtype), "\t")
					mu.Lock()
					seen[o] = true
					mu.Unlock()
				}
			}()
		}
		wg.Wait()
		var all []string
		for o := range seen {
			all = append(all, o)
		}
		sort.Strings(all)
		obs = []string{strconv.Itoa(len(all))}
		for _, o := range all {
			obs = append(obs, strings.Split(o, "\t")...)
		}

		return obs
	default:
		if strings.HasPrefix(fields[0], "C01.c") || strings.HasPrefix(fields[0], "C02.c") {
			return e.cfgRun(fields)
		}
		panic("unknown op " + fields[0])
	}
}

// ---------------------------------------------------------------- configuration-sequence mode

const c01CfgSources = 6

func (e *c01Env) srcPath(i int) string { return filepath.Join(e.srcDir, "src"+strconv.Itoa(i)+".txt") }

func (e *c01Env) srcIndex(url string) string {
	b := strings.TrimSuffix(strings.TrimPrefix(filepath.Base(url), "src"), ".txt")

	return b
}

// call invokes a registered admin handler the way the HTTP server would and
// then runs the pending asynchronous engine rebuild (what updatesLoop does).
func (e *c01Env) call(h http.HandlerFunc, method, url string, body any) (status int) {
	buf := &bytes.Buffer{}
	if body != nil {
		_ = json.NewEncoder(buf).Encode(body)
	}
	r := httptest.NewRequest(method, url, buf)
	r.Header.Set("Content-Type", "application/json")
	w := httptest.NewRecorder()
	h(w, r)
	if !e.hold && e.stalled == nil {
		e.drain()
	}

	return w.Code
}

// drain is the body of updatesLoop for pending rebuild tasks: receive one task,
// run initFiltering, until the channel is empty.
func (e *c01Env) drain() {
	for e.f.VerifRunPendingRebuild() {
	}
}

// listFile returns the stored file of the enabled list whose URL is source i.
func (e *c01Env) listFile(i int) (path string, ok bool) {
	r := httptest.NewRequest(http.MethodGet, "/control/filtering/status", nil)
	w := httptest.NewRecorder()
	e.handlers["/control/filtering/status"](w, r)
	type fj struct {
		URL     string `json:"url"`
		ID      int64  `json:"id"`
		Enabled bool   `json:"enabled"`
	}
	var st struct {
		F []fj `json:"filters"`
		W []fj `json:"whitelist_filters"`
	}
	if err := json.Unmarshal(w.Body.Bytes(), &st); err != nil {
		panic(err)
	}
	for _, f := range append(st.F, st.W...) {
		if f.URL == e.srcPath(i) && f.Enabled {
			return filepath.Join(e.dataDir, "filters", strconv.FormatInt(f.ID, 10)+".txt"), true
		}
	}

	return "", false
}

// restoreList puts the regular file back and completes a rebuild.
func (e *c01Env) restoreList() {
	_ = os.Remove(e.brokenAt)
	if err := os.WriteFile(e.brokenAt, e.backup, 0o644); err != nil {
		panic(err)
	}
	e.brokenAt, e.backup = "", nil
	e.drain()
	e.f.EnableFilters(false)
}

// cfgStatus renders what GET /control/filtering/status reports.
func (e *c01Env) cfgStatus(code int) (obs []string) {
	r := httptest.NewRequest(http.MethodGet, "/control/filtering/status", nil)
	w := httptest.NewRecorder()
	e.handlers["/control/filtering/status"](w, r)
	var st struct {
		Filters, WhitelistFilters []struct {
			URL        string `json:"url"`
			RulesCount int    `json:"rules_count"`
			Enabled    bool   `json:"enabled"`
		} `json:"-"`
		F []struct {
			URL        string `json:"url"`
			RulesCount int    `json:"rules_count"`
			Enabled    bool   `json:"enabled"`
		} `json:"filters"`
		W []struct {
			URL        string `json:"url"`
			RulesCount int    `json:"rules_count"`
			Enabled    bool   `json:"enabled"`
		} `json:"whitelist_filters"`
		UserRules []string `json:"user_rules"`
		Enabled   bool     `json:"enabled"`
	}
	if err := json.Unmarshal(w.Body.Bytes(), &st); err != nil {
		panic(err)
	}
	render := func(n int, get func(i int) (string, bool, int)) string {
		if n == 0 {
			return "-"
		}
		var ss []string
		for i := 0; i < n; i++ {
			u, en, c := get(i)
			ss = append(ss, e.srcIndex(u)+":"+vutil.B(en)+":"+strconv.Itoa(c))
		}

		return strings.Join(ss, ",")
	}

	return []string{strconv.Itoa(code),
		render(len(st.F), func(i int) (string, bool, int) { return st.F[i].URL, st.F[i].Enabled, st.F[i].RulesCount }),
		render(len(st.W), func(i int) (string, bool, int) { return st.W[i].URL, st.W[i].Enabled, st.W[i].RulesCount }),
		vutil.B(st.Enabled), strconv.Itoa(len(st.UserRules))}
}

func (e *c01Env) writeSrc(i int, lines []string) {
	if err := os.WriteFile(e.srcPath(i), []byte(strings.Join(lines, "\n")+"\n"), 0o644); err != nil {
		panic(err)
	}
}

func c01Unhexes(fs []string) (l []string) {
	for _, f := range fs {
		l = append(l, vutil.Unhex(f))
	}

	return l
}

// cfgRun executes one line of a configuration sequence against ONE long-lived
// DNSFilter + Server, through the real admin handlers.
// unstall feeds the pipe so that the stalled rebuild finishes, then puts the file back.
func (e *c01Env) unstall() {
	w, err := os.OpenFile(e.brokenAt, os.O_RDWR, 0)
	if err != nil {
		panic(err)
	}
	_, _ = w.Write(e.backup)
	_ = w.Close()
	select {
	case <-e.stalled:
	case <-time.After(5 * time.Second):
		panic("stalled rebuild did not finish")
	}
	e.stalled = nil
	e.restoreList()
}

func (e *c01Env) cfgRun(f []string) (obs []string) {
	if op := f[0][4:]; e.stalled != nil && op != "cq" && op != "cqa" && op != "cunstall" {
		// Any further configuration call would block on the pipe as well: let the
		// stalled rebuild finish first (the model does the same).
		e.unstall()
	}
	switch f[0][4:] {
	case "chold":
		e.hold = vutil.UnB(f[1])

		return []string{"ok"}
	case "cdrain":
		e.drain()

		return []string{"ok"}
	case "cbreak", "cstall":
		// lifecycle: the stored file of an enabled list becomes unopenable (a
		// symlink onto itself: ELOOP) or a named pipe (opening it blocks)
		path, ok := e.listFile(vutil.Atoi(f[1]))
		if !ok || e.brokenAt != "" {
			return []string{"skip"}
		}
		data, err := os.ReadFile(path)
		if err != nil {
			panic(err)
		}
		e.backup, e.brokenAt = data, path
		_ = os.Remove(path)
		if f[0][4:] == "cbreak" {
			if err = os.Symlink(path, path); err != nil {
				panic(err)
			}

			return []string{"ok"}
		}
		if err = syscall.Mkfifo(path, 0o644); err != nil {
			panic(err)
		}
		// a rebuild is requested through the API and the loop picks it up: it stalls opening the pipe
		e.hold = true
		rules := e.fconf.UserRules
		if rules == nil {
			rules = []string{}
		}
		e.call(e.handlers["/control/filtering/set_rules"], http.MethodPost, "/control/filtering/set_rules",
			map[string]any{"rules": rules})
		e.hold = false
		e.stalled = make(chan struct{})
		go func(done chan struct{}, flt *filtering.DNSFilter) {
			defer close(done)
			flt.VerifRunPendingRebuild()
		}(e.stalled, e.f)
		time.Sleep(20 * time.Millisecond)

		return []string{"ok"}
	case "cfix":
		if e.brokenAt != "" {
			e.restoreList()
		}

		return []string{"ok"}
	case "cunstall":
		if e.brokenAt == "" {
			return []string{"ok"}
		}
		if e.stalled != nil {
			e.unstall()
		} else {
			e.restoreList()
		}

		return []string{"ok"}
	case "cqa":
		if e.stalled == nil {
			// the rebuild loop gets to run before the query (unless a rebuild is stalled)
			e.drain()
		}
		qname, target := vutil.Unhex(f[1]), vutil.Unhex(f[3])
		hdr := func(n string, t uint16) dns.RR_Header {
			return dns.RR_Header{Name: n, Rrtype: t, Class: dns.ClassINET, Ttl: 60}
		}
		e.ups.rcode, e.ups.ns = dns.RcodeSuccess, nil
		e.ups.answer = []dns.RR{&dns.CNAME{Hdr: hdr(qname, dns.TypeCNAME), Target: target + "."},
			&dns.A{Hdr: hdr(target+".", dns.TypeA), A: net.IPv4(192, 0, 2, 1).To4()}}

		return e.query(e.cur.cip, qname, uint16(vutil.Atoi(f[2])))
	}
	switch "C01." + f[0][4:] {
	case "C01.creset":
		if e.wedged {
			*e = *c01NewEnv(e.t, e.cacheSize)
		}
		e.stopReload()
		e.concurrent = false
		e.storage = nil
		e.hold, e.backup, e.brokenAt, e.stalled = false, nil, "", nil
		e.srcDir = filepath.Join(e.dataDir, "sources")
		_ = os.RemoveAll(e.srcDir)
		_ = os.RemoveAll(filepath.Join(e.dataDir, "filters"))
		if err := os.MkdirAll(e.srcDir, 0o755); err != nil {
			panic(err)
		}
		n := vutil.Atoi(f[1])
		k := 2
		for i := 0; i < n; i++ {
			m := vutil.Atoi(f[k])
			e.writeSrc(i, c01Unhexes(f[k+1:k+1+m]))
			k += 1 + m
		}
		fc := e.newFilterConf()
		e.handlers = map[string]http.HandlerFunc{}
		fc.HTTPRegister = func(_, url string, h http.HandlerFunc) { e.handlers[url] = h }
		fc.SafeFSPatterns = []string{filepath.Join(e.srcDir, "*")}
		fc.BlockedResponseTTL = 10
		hs, _ := hostsfile.NewDefaultStorage()
		fc.EtcHosts = hs
		flt, err := filtering.New(fc, nil)
		if err != nil {
			panic(err)
		}
		flt.VerifInitRebuildChan()
		flt.RegisterFilteringHandlers()
		e.s.serverLock.Lock()
		old := e.s.dnsFilter
		e.s.dnsFilter = flt
		e.s.serverLock.Unlock()
		old.Close()
		e.f, e.fconf = flt, fc
		e.s.conf.AAAADisabled = false
		flt.EnableFilters(false)
		e.cur = &c01Case{cip: netip.MustParseAddr("10.0.0.1")}

		return []string{"reset"}
	case "C01.csrc":
		e.writeSrc(vutil.Atoi(f[1]), c01Unhexes(f[2:]))

		return []string{"ok"}
	case "C01.cadd":
		code := e.call(e.handlers["/control/filtering/add_url"], http.MethodPost, "/control/filtering/add_url",
			map[string]any{"name": "list " + f[1], "url": e.srcPath(vutil.Atoi(f[1])), "whitelist": vutil.UnB(f[2])})

		return e.cfgStatus(code)
	case "C01.cset":
		code := e.call(e.handlers["/control/filtering/set_url"], http.MethodPost, "/control/filtering/set_url",
			map[string]any{"url": e.srcPath(vutil.Atoi(f[1])), "whitelist": vutil.UnB(f[2]),
				"data": map[string]any{"name": "list " + f[3], "url": e.srcPath(vutil.Atoi(f[3])), "enabled": vutil.UnB(f[4])}})

		return e.cfgStatus(code)
	case "C01.cremove":
		code := e.call(e.handlers["/control/filtering/remove_url"], http.MethodPost, "/control/filtering/remove_url",
			map[string]any{"url": e.srcPath(vutil.Atoi(f[1])), "whitelist": vutil.UnB(f[2])})

		return e.cfgStatus(code)
	case "C01.crefresh":
		code := e.call(e.handlers["/control/filtering/refresh"], http.MethodPost, "/control/filtering/refresh",
			map[string]any{"whitelist": vutil.UnB(f[1])})

		return e.cfgStatus(code)
	case "C01.crules":
		rules := c01Unhexes(f[1:])
		if rules == nil {
			rules = []string{}
		}
		code := e.call(e.handlers["/control/filtering/set_rules"], http.MethodPost, "/control/filtering/set_rules",
			map[string]any{"rules": rules})

		return e.cfgStatus(code)
	case "C01.cfilt":
		code := e.call(e.handlers["/control/filtering/config"], http.MethodPost, "/control/filtering/config",
			map[string]any{"enabled": vutil.UnB(f[1]), "interval": 0})

		return e.cfgStatus(code)
	case "C01.cprot":
		// POST /control/protection through the real handler; duration absent ("-" or no field), 0 or positive (ms)
		body := map[string]any{"enabled": vutil.UnB(f[1])}
		if len(f) > 2 && f[2] != "-" {
			body["duration"] = vutil.Atoi(f[2])
		}
		code := e.call(e.s.handleSetProtection, http.MethodPost, "/control/protection", body)

		return e.cfgStatus(code)
	case "C01.cprotlegacy":
		// the legacy switch: POST /control/dns_config {"protection_enabled": b}
		code := e.call(e.s.handleSetConfig, http.MethodPost, "/control/dns_config", map[string]any{"protection_enabled": vutil.UnB(f[1])})

		return e.cfgStatus(code)
	case "C01.cwait":
		time.Sleep(time.Duration(vutil.Atoi(f[1])) * time.Millisecond)

		return []string{"ok"}
	case "C01.cq":
		if e.stalled == nil {
			// the rebuild loop gets to run before the query (unless a rebuild is stalled)
			e.drain()
		}
		qname := vutil.Unhex(f[1])
		e.ups.rcode, e.ups.ns = dns.RcodeSuccess, nil
		e.ups.answer = []dns.RR{&dns.TXT{Hdr: dns.RR_Header{Name: qname, Rrtype: dns.TypeTXT, Class: dns.ClassINET, Ttl: 60}, Txt: []string{"up"}}}

		return e.query(e.cur.cip, qname, uint16(vutil.Atoi(f[2])))
	default:
		panic("unknown op " + f[0])
	}
}

var c01CfgDomains = []string{"ads.example.org", "tracker.net", "example.com", "cdn.tracker.net", "shop.example.com", "metrics.io"}

// c01RsvSeq numbers the reserve domains: every generated list content carries one
// rule for a domain nobody asks about until a lifecycle step needs a rule that
// urlfilter has not fetched from the list file (and cached) before.
var c01RsvSeq int

func c01CfgContent(r *rand.Rand) (lines []string) {
	switch r.IntN(7) {
	case 0:
		// an empty download
		return nil
	case 1:
		// comments only: no rule either
		return []string{"! Title: nothing here", "# no rules"}
	}
	for n := 1 + r.IntN(3); n > 0; n-- {
		d := vutil.Pick(r, c01CfgDomains)
		lines = append(lines, vutil.Pick(r, []string{"||" + d + "^", "||" + d + "^", "0.0.0.0 " + d, "||" + d + "^$important", "@@||" + d + "^", d}))
	}
	c01RsvSeq++
	lines = append(lines, "||rsv-"+strconv.Itoa(c01RsvSeq)+".example^")
	if r.IntN(3) == 0 {
		lines = append([]string{"! Title: generated", "# comment"}, lines...)
	}

	return lines
}

func c01Hexes(ls []string) (f []string) {
	for _, l := range ls {
		f = append(f, vutil.Hex(l))
	}

	return f
}

// c01ConfigGenFor: per block a fresh filter, then a random walk over the admin
// API (add / set_url enable-disable-change / remove / forced refresh with same,
// changed or empty contents / custom rules / filtering and protection
// switches), single calls or BURSTS of 2-4 calls before the rebuild loop runs,
// and lifecycle steps (a rebuild that fails on an unopenable list file, a
// rebuild stalled on a pipe), each followed by queries.  pfx is "C01" (request
// stage: plain queries) or "C02" (response stage: the upstream answer reveals
// the name via a CNAME).
func c01ConfigGenFor(pfx string) func(r *rand.Rand, emit vutil.Emit) {
	return func(r *rand.Rand, emit vutil.Emit) {
		blocks := vutil.N(150)
		op := func(name string, args ...string) { emit(append([]string{pfx + "." + name}, args...)...) }
		for b := 0; b < blocks; b++ {
			line := []string{strconv.Itoa(c01CfgSources)}
			content := make([][]string, c01CfgSources)
			for i := 0; i < c01CfgSources; i++ {
				content[i] = c01CfgContent(r)
				line = append(line, strconv.Itoa(len(content[i])))
				line = append(line, c01Hexes(content[i])...)
			}
			op("creset", line...)
			// a rough mirror of the configuration, only to aim the random walk
			added := map[int]bool{} // source -> is allow list
			stored := map[int][]string{}
			present := func() (l []int) {
				for i := 0; i < c01CfgSources; i++ {
					if _, ok := added[i]; ok {
						l = append(l, i)
					}
				}

				return l
			}
			src := func() int { return r.IntN(c01CfgSources) }
			known := func() int {
				if p := present(); len(p) > 0 && r.IntN(8) > 0 {
					return vutil.Pick(r, p)
				}

				return src()
			}
			kind := func(i int) string {
				if w, ok := added[i]; ok && r.IntN(10) > 0 {
					return vutil.B(w)
				}

				return vutil.B(r.IntN(4) == 0)
			}
			// domains a list content is about (reserve domains only when asked)
			about := func(lines []string, reserve bool) (ds []string) {
				for _, l := range lines {
					for _, d := range c01CfgDomains {
						if strings.Contains(l, d) {
							ds = append(ds, d)
						}
					}
					if k := strings.Index(l, "rsv-"); reserve && k >= 0 {
						ds = append(ds, strings.TrimSuffix(l[k:], "^"))
					}
				}

				return ds
			}
			query := func(d string) {
				if r.IntN(4) == 0 {
					d = "www." + d
				}
				if r.IntN(2) == 0 {
					d = c01MixCase(r, d)
				}
				if pfx == "C02" {
					// the name itself is clean; the upstream answer reveals d through a CNAME
					op("cqa", vutil.Hex(c01MixCase(r, "site-"+strconv.Itoa(r.IntN(50))+".clean.example.")), strconv.Itoa(int(vutil.Pick(r, []uint16{dns.TypeA, dns.TypeA, dns.TypeAAAA}))), vutil.Hex(d))

					return
				}
				op("cq", vutil.Hex(d+"."), strconv.Itoa(int(vutil.Pick(r, []uint16{dns.TypeA, dns.TypeA, dns.TypeAAAA, dns.TypeTXT}))))
			}
			// one API call; returns the source it was about (or -1)
			apiCall := func(early bool) (focus int) {
				focus = -1
				switch k := r.IntN(20); {
				case k < 4 || early:
					i := src()
					w := r.IntN(4) == 0
					if _, ok := added[i]; !ok {
						added[i] = w
						stored[i] = content[i]
					}
					focus = i
					op("cadd", strconv.Itoa(i), vutil.B(w))
				case k == 4:
					// flip-flop: the source of a list changes and is refreshed, then changes BACK to
					// the earlier contents and is refreshed again; the second refresh must notice
					// the way back (a refresh that compares with a stale checksum keeps the
					// in-between rules: seed C01-19)
					i := known()
					w := kind(i)
					old := content[i]
					content[i] = c01CfgContent(r)
					focus = i
					op("csrc", append([]string{strconv.Itoa(i)}, c01Hexes(content[i])...)...)
					op("crefresh", w)
					if ds := about(content[i], false); len(ds) > 0 {
						query(vutil.Pick(r, ds))
					}
					content[i] = old
					op("csrc", append([]string{strconv.Itoa(i)}, c01Hexes(content[i])...)...)
					op("crefresh", w)
					if _, ok := added[i]; ok {
						stored[i] = content[i]
					}
				case k < 12:
					i := known()
					j := i
					if r.IntN(6) == 0 {
						j = src()
					}
					focus = j
					op("cset", strconv.Itoa(i), kind(i), strconv.Itoa(j), vutil.B(r.IntN(2) == 0))
					if w, ok := added[i]; ok && j != i {
						if _, taken := added[j]; !taken {
							delete(added, i)
							added[j] = w
						}
					}
					if _, ok := added[j]; ok {
						stored[j] = content[j]
					}
				case k < 13:
					i := known()
					op("cremove", strconv.Itoa(i), kind(i))
					delete(added, i)
				case k < 15:
					op("crefresh", vutil.B(r.IntN(4) == 0))
					for _, i := range present() {
						stored[i] = content[i]
					}
				case k < 16:
					i := known()
					if r.IntN(3) > 0 {
						content[i] = c01CfgContent(r)
					}
					focus = i
					op("csrc", append([]string{strconv.Itoa(i)}, c01Hexes(content[i])...)...)
				case k < 17:
					var rules []string
					if r.IntN(3) > 0 {
						rules = c01CfgContent(r)
					}
					op("crules", c01Hexes(rules)...)
				case k < 18:
					op("cfilt", vutil.B(r.IntN(4) > 0))
				default:
					// protection through the real handlers: on / off, a long pause (never runs out during
					// the block), a short pause that is waited out at once, re-enabling (with the duration
					// field absent or 0) while a pause is pending, a rejected request, the legacy switch
					switch r.IntN(9) {
					case 0, 1:
						op("cprot", "1", vutil.Pick(r, []string{"-", "0"}))
					case 2:
						op("cprot", "0", vutil.Pick(r, []string{"-", "0"}))
					case 3, 4:
						op("cprot", "0", vutil.Pick(r, []string{"3600000", "7200000"}))
					case 5:
						op("cprot", "0", "15")
						op("cwait", "60")
					case 6:
						op("cprot", "1", "5000") // 400
					case 7:
						op("cprotlegacy", vutil.B(r.IntN(2) == 0))
					default:
						// pause, then a second request before it runs out
						op("cprot", "0", "3600000")
						op("cprot", vutil.B(r.IntN(3) > 0), vutil.Pick(r, []string{"-", "0", "7200000", "1800000"}))
					}
				}

				return focus
			}
			ask := func(focus int) {
				for n := 1 + r.IntN(2); n > 0; n-- {
					d := vutil.Pick(r, c01CfgDomains)
					if focus >= 0 {
						if ds := about(content[focus], false); len(ds) > 0 && r.IntN(4) > 0 {
							d = vutil.Pick(r, ds)
						}
					}
					query(d)
				}
			}
			for step := 0; step < 20; step++ {
				switch k := r.IntN(12); {
				case k < 7 || step < 3:
					ask(apiCall(step < 3))
				case k < 10:
					// a burst: several accepted changes before the rebuild loop gets to run
					op("chold", "1")
					focus := -1
					for n := 2 + r.IntN(3); n > 0; n-- {
						if f := apiCall(false); f >= 0 {
							focus = f
						}
					}
					op("cdrain")
					op("chold", "0")
					ask(focus)
				default:
					// lifecycle: the file of one enabled list becomes unopenable (the next rebuild
					// fails) or a pipe (the next rebuild stalls); the rules of the last completed
					// rebuild must stay in force, including rules never fetched from the files yet
					p := present()
					if len(p) == 0 {
						ask(apiCall(false))

						continue
					}
					victim := vutil.Pick(r, p)
					stall := r.IntN(2) == 0
					if stall {
						op("cstall", strconv.Itoa(victim))
					} else {
						op("cbreak", strconv.Itoa(victim))
						// a change that asks for a rebuild, which fails on the broken file
						op("crules", c01Hexes(c01CfgContent(r))...)
					}
					for _, i := range p {
						for _, d := range about(stored[i], true) {
							if strings.HasPrefix(d, "rsv-") || r.IntN(3) == 0 {
								query(d)
							}
						}
					}
					if stall {
						op("cunstall")
					} else {
						op("cfix")
					}
					ask(victim)
				}
			}
		}
	}
}

func c01ConfigGen(r *rand.Rand, emit vutil.Emit) { c01ConfigGenFor("C01")(r, emit) }

func TestVerifC01Config(t *testing.T) {
	e := c01NewEnv(t, 0)
	vutil.Main(t, c01ConfigGen, e.run)
}

// ---------------------------------------------------------------- generator

var c01Domains = []string{
	"example.org", "ads.example.org", "sub.ads.example.org", "example.com", "tracker.net", "cdn.tracker.net",
	"9gag.com", "www.9gag.com", "500px.org", "xample.org", "notexample.org", "example.org.evil.com", "org",
	"a-b.example.org", "test.local", "_srv.example.org", "a_b.example.org", "7.example.org", "x.example.123", "xn--e1afmkfd.xn--p1ai", "www.xn--80ak6aa92e.com",
}

var c01ServicePool = []string{"9gag", "500px", "discord", "dailymotion", "box"}

var c01SvcRules map[string][]string

func c01LoadServices(e *c01Env) {
	c01SvcRules = map[string][]string{}
	for _, id := range c01ServicePool {
		setts := &filtering.Settings{}
		e.f.ApplyBlockedServicesList(setts, []string{id})
		for _, se := range setts.ServicesRules {
			for _, r := range se.Rules {
				c01SvcRules[id] = append(c01SvcRules[id], r.Text())
			}
		}
	}
}

func c01MixCase(r *rand.Rand, s string) string {
	b := []byte(s)
	for i := range b {
		if r.IntN(3) == 0 && b[i] >= 'a' && b[i] <= 'z' {
			b[i] -= 32
		}
	}

	return string(b)
}

var c01RuleIPs = []string{"0.0.0.0", "127.0.0.1", "10.1.2.3", "192.168.1.50", "::", "::1", "2001:db8::5", "::ffff:1.2.3.4"}

// c01GenRule makes one rule line aimed at domain d.
func c01GenRule(r *rand.Rand, d string, c *c01Case) string {
	if r.IntN(6) == 0 {
		d = c01MixCase(r, d)
	}
	dnstypes := []string{"A", "AAAA", "~A", "~AAAA", "A|AAAA", "HTTPS", "~HTTPS", "MX|TXT", "CNAME", "~CNAME", "a", "PTR"}
	clientsV := []string{"other", "~other", c.cip.String(), "~" + c.cip.String(),
		"10.0.0.0/8", "~10.0.0.0/8", "192.168.0.0/16", "fe80::/10", "2001:db8::/32", "~other|~" + c.cip.String(),
		"10.0.0.1", "2001:DB8::99", "2001:db8:0:0:0:0:0:99", "::ffff:10.0.0.1", "10.0.0.1/32", "127.0.0.0/8|10.0.0.0/24",
		"2001:db8::/129", "10.0.0.0/08", "1.2.3", "0.0.0.0/0", "::/0", "010.0.0.1"}
	if c.cname != "" {
		clientsV = append(clientsV, c.cname, "~"+c.cname, "'"+c.cname+"'", "other|"+c.cname, "\""+c.cname+"\"", "~'"+c.cname+"'")
	}
	pat := func() string {
		switch r.IntN(14) {
		case 0, 1, 2, 3, 4:
			return "||" + d + "^"
		case 5:
			return "|" + d + "^"
		case 6:
			return "*." + d
		case 7:
			return "||*." + d + "^"
		case 8:
			return "||" + d
		case 9:
			return d + "^"
		case 10:
			return "|" + d + "|"
		case 11:
			if i := strings.IndexByte(d, '.'); i > 0 {
				return "||" + d[:i] + ".*^"
			}

			return "||" + d + "^"
		case 12:
			return vutil.Pick(r, []string{"://" + d, "http://" + d, "|http://" + d + "^", d + "/*", "||" + d + "/*", "|" + d})
		default:
			return "||" + d + "^|"
		}
	}
	mods := func() string {
		var ms []string
		if r.IntN(4) == 0 {
			ms = append(ms, "important")
		}
		if r.IntN(4) == 0 {
			ms = append(ms, "dnstype="+vutil.Pick(r, dnstypes))
		}
		if r.IntN(5) == 0 {
			ms = append(ms, "client="+vutil.Pick(r, clientsV))
		}
		if r.IntN(6) == 0 {
			ms = append(ms, "denyallow="+vutil.Pick(r, []string{d, "sub." + d, "example.org", "ads.example.org|tracker.net", "org"}))
		}
		r.Shuffle(len(ms), func(i, j int) { ms[i], ms[j] = ms[j], ms[i] })
		if len(ms) == 0 {
			return ""
		}

		return "$" + strings.Join(ms, ",")
	}
	switch r.IntN(20) {
	case 0, 1, 2, 3, 4, 5, 6:
		return pat() + mods()
	case 7, 8, 9:
		return "@@" + pat() + mods()
	case 10, 11:
		return vutil.Pick(r, c01RuleIPs) + " " + d
	case 12:
		return vutil.Pick(r, c01RuleIPs) + "\t" + d + " " + vutil.Pick(r, c01Domains) + "  # comment"
	case 13:
		return d
	case 14:
		return vutil.Pick(r, []string{"", "! comment " + d, "# " + d, "||" + d + "^$unknownmod", "||" + d + "^$dnstype=NOPE",
			"||" + d + "^$denyallow=~" + d, "  ||" + d + "^  ", "@@", "||" + d + "^$client=", "999.1.1.1 " + d})
	case 15:
		return "||" + d + "^$important"
	case 16:
		return "@@||" + d + "^$important"
	case 17:
		return "@@||" + d + "^"
	default:
		return "||" + d + "^"
	}
}

func c01Related(r *rand.Rand, d string) string {
	switch r.IntN(10) {
	case 0, 1, 2, 3:
		return d
	case 4, 5:
		return vutil.Pick(r, []string{"www", "x", "a.b", "ads"}) + "." + d
	case 6:
		if i := strings.IndexByte(d, '.'); i > 0 {
			return d[i+1:]
		}

		return d
	case 7:
		return "not" + d
	case 8:
		return d + ".evil.com"
	default:
		return vutil.Pick(r, c01Domains)
	}
}

func c01GenLists(r *rand.Rand, c *c01Case, target string) {
	nrules := func() int { return []int{0, 0, 1, 1, 1, 2, 3}[r.IntN(7)] }
	gen := func(n int) (ls []string) {
		for i := 0; i < n; i++ {
			ls = append(ls, c01GenRule(r, c01Related(r, target), c))
		}

		return ls
	}
	c.custom = gen(nrules())
	for i := r.IntN(3); i > 0; i-- {
		c.block = append(c.block, c01List{enabled: r.IntN(5) > 0, lines: gen(1 + nrules())})
	}
	if r.IntN(5) < 2 {
		for i := 1 + r.IntN(2); i > 0; i-- {
			c.allow = append(c.allow, c01List{enabled: r.IntN(5) > 0, lines: gen(1 + r.IntN(2))})
		}
	}
}

func c01PickSvcs(r *rand.Rand) (l []c01Service) {
	for _, id := range c01ServicePool {
		if r.IntN(4) == 0 {
			l = append(l, c01Service{id: id, rules: c01SvcRules[id]})
		}
	}

	return l
}

var c01Qtypes = []uint16{dns.TypeA, dns.TypeA, dns.TypeA, dns.TypeAAAA, dns.TypeAAAA, dns.TypeHTTPS, dns.TypeMX, dns.TypeTXT,
	dns.TypePTR, dns.TypeCNAME}

func c01GenConf(r *rand.Rand, c *c01Case) {
	c.mode = vutil.Pick(r, []string{"default", "default", "null_ip", "custom_ip", "nxdomain", "refused"})
	c.bip4, c.bip6 = netip.MustParseAddr("198.51.100.7"), netip.MustParseAddr("2001:db8::b10c")
	if r.IntN(12) == 0 {
		c.bip4 = netip.Addr{}
	}
	if r.IntN(12) == 0 {
		c.bip6 = netip.Addr{}
	}
	c.ttl = vutil.Pick(r, []int{0, 10, 3600})
	c.prot = r.IntN(8) > 0
	c.pause = vutil.Pick(r, []string{"none", "none", "none", "none", "none", "none", "none", "none", "past", "future"})
	c.gfilt = r.IntN(9) > 0
	c.gSched = r.IntN(4) == 0
	c.gSvc = c01PickSvcs(r)
	c.cip = netip.MustParseAddr(vutil.Pick(r, []string{"10.0.0.1", "192.168.1.2", "2001:db8::99", "127.0.0.1"}))
	c.cname = vutil.Pick(r, []string{"laptop", "kid phone", "tv"})
	c.hasClient = r.IntN(3) == 0
	c.useOwn = r.IntN(2) == 0
	c.cfilt = r.IntN(2) == 0
	c.useOwnBS = r.IntN(2) == 0
	c.cSched = r.IntN(3) == 0
	c.cSvc = c01PickSvcs(r)
	if !c.hasClient {
		c.cname, c.useOwn, c.cfilt, c.useOwnBS, c.cSched, c.cSvc = "", false, false, false, false, nil
	}
}

func c01CleanAnswer(r *rand.Rand, c *c01Case) {
	hdr := func(t uint16) dns.RR_Header {
		return dns.RR_Header{Name: c.qname, Rrtype: t, Class: dns.ClassINET, Ttl: uint32(30 + r.IntN(300))}
	}
	c.urcode = dns.RcodeSuccess
	switch r.IntN(8) {
	case 0:
		c.urcode = dns.RcodeNameError

		return
	case 1:
		return
	}
	if r.IntN(4) == 0 {
		c.uans = append(c.uans, &dns.CNAME{Hdr: hdr(dns.TypeCNAME), Target: "edge.cdn-host.test."})
	}
	for i := 1 + r.IntN(2); i > 0; i-- {
		switch c.qtype {
		case dns.TypeA:
			c.uans = append(c.uans, &dns.A{Hdr: hdr(dns.TypeA), A: net.IPv4(93, 184, 216, byte(1+r.IntN(250))).To4()})
		case dns.TypeAAAA:
			ip := net.ParseIP("2606:2800:220:1::")
			ip[15] = byte(1 + r.IntN(250))
			c.uans = append(c.uans, &dns.AAAA{Hdr: hdr(dns.TypeAAAA), AAAA: ip})
		case dns.TypeHTTPS:
			c.uans = append(c.uans, &dns.HTTPS{SVCB: dns.SVCB{Hdr: hdr(dns.TypeHTTPS), Priority: 1, Target: ".",
				Value: []dns.SVCBKeyValue{&dns.SVCBAlpn{Alpn: []string{"h2"}},
					&dns.SVCBIPv4Hint{Hint: []net.IP{net.IPv4(93, 184, 216, 34).To4()}}}}})
		case dns.TypeMX:
			c.uans = append(c.uans, &dns.MX{Hdr: hdr(dns.TypeMX), Preference: 10, Mx: "mail.mx-host.test."})
		default:
			c.uans = append(c.uans, &dns.TXT{Hdr: hdr(dns.TypeTXT), Txt: []string{"v=spf1", "-all"}})
		}
	}
}

func c01GenCase(r *rand.Rand) (c *c01Case) {
	c = &c01Case{}
	c01GenConf(r, c)
	target := vutil.Pick(r, c01Domains)
	if svcs := append(append([]c01Service{}, c.gSvc...), c.cSvc...); len(svcs) > 0 && r.IntN(3) == 0 {
		// aim at a domain of a configured blocked service
		rule := vutil.Pick(r, vutil.Pick(r, svcs).rules)
		if d := strings.Trim(rule, "|^"); !strings.ContainsAny(d, "*/$") {
			target = d
		}
	}
	c.qtype = vutil.Pick(r, c01Qtypes)
	name := c01Related(r, target)
	switch r.IntN(40) {
	case 0:
		name = "use-application-dns.net"
	case 1:
		name = "healthcheck.adguardhome.test"
	case 2:
		name = ""
	}
	c01GenDHCP(r, c, &name)
	if r.IntN(2) == 0 {
		// the client's own spelling: any letter may be in either case
		name = c01MixCase(r, name)
	}
	c.qname = name + "."
	c01GenLists(r, c, target)
	host := strings.ToLower(name)
	if host != "" {
		parent := host
		if i := strings.IndexByte(host, '.'); i > 0 && r.IntN(3) == 0 {
			parent = host[i+1:]
		}
		if r.IntN(10) < 8 {
			direct := vutil.Pick(r, []string{"||" + parent + "^", "||" + parent + "^", "||" + parent + "^$important", vutil.Pick(r, c01RuleIPs) + " " + host,
				host, "|" + host + "^", "||" + parent + "^$dnstype=" + dns.TypeToString[c.qtype]})
			if len(c.block) > 0 && r.IntN(2) == 0 {
				c.block[0].lines = append(c.block[0].lines, direct)
			} else {
				c.custom = append(c.custom, direct)
			}
		}
		if r.IntN(6) == 0 {
			ex := vutil.Pick(r, []string{"@@||" + parent + "^", "@@||" + host + "^$important", "@@|" + host + "^"})
			if r.IntN(2) == 0 {
				c.custom = append(c.custom, ex)
			} else {
				c.allow = append(c.allow, c01List{enabled: r.IntN(8) > 0, lines: []string{vutil.Pick(r, []string{"||" + parent + "^", ex, host})}})
			}
		}
	}
	c01GenExt(r, c)
	c01CleanAnswer(r, c)
	if c.urcode == dns.RcodeSuccess && r.IntN(4) == 0 {
		// The upstream answer reveals a name / address that a block rule matches.  For an
		// allow-listed query (or protection / filtering off) it must still arrive intact;
		// for an unmatched query the replacement is C02's claim.
		hdr := func(n string, t uint16) dns.RR_Header {
			return dns.RR_Header{Name: n, Rrtype: t, Class: dns.ClassINET, Ttl: uint32(30 + r.IntN(300))}
		}
		t := vutil.Pick(r, []string{"tracker.net", "cdn.tracker.net", "ads.example.org", "_dmarc.tracker.net"})
		ip := vutil.Pick(r, []string{"1.2.3.4", "10.0.0.5"})
		var bad []dns.RR
		var aim string
		switch r.IntN(3) {
		case 0:
			bad = []dns.RR{&dns.CNAME{Hdr: hdr(c.qname, dns.TypeCNAME), Target: t + "."}}
			aim = t
		case 1:
			bad = []dns.RR{&dns.A{Hdr: hdr(c.qname, dns.TypeA), A: net.IP(netip.MustParseAddr(ip).AsSlice())}}
			aim = ip
		default:
			bad = []dns.RR{&dns.HTTPS{SVCB: dns.SVCB{Hdr: hdr(c.qname, dns.TypeHTTPS), Priority: 1, Target: ".",
				Value: []dns.SVCBKeyValue{&dns.SVCBIPv4Hint{Hint: []net.IP{net.IP(netip.MustParseAddr(ip).AsSlice())}}}}}}
			aim = ip
		}
		k := r.IntN(len(c.uans) + 1)
		c.uans = append(c.uans[:k:k], append(bad, c.uans[k:]...)...)
		rule := vutil.Pick(r, []string{"||" + aim + "^", "||" + aim + "^$important", "0.0.0.0 " + aim})
		if len(c.block) > 0 && r.IntN(2) == 0 {
			c.block[0].lines = append(c.block[0].lines, rule)
		} else {
			c.custom = append(c.custom, rule)
		}
	}
	c01ExtraProbes(r, c, target)

	return c
}

// c01GenDHCP switches the built-in DHCP server on in a third of the cases (a
// couple of leases, local domain "lan") and then sometimes asks for a DHCP-client
// name: leased, not leased, not an immediate sub-domain.
func c01GenDHCP(r *rand.Rand, c *c01Case, name *string) {
	if r.IntN(3) != 0 {
		return
	}
	c.dhcpOn = true
	all := []c01Lease{{"printer", netip.MustParseAddr("192.168.10.5")}, {"nas", netip.MustParseAddr("192.168.10.6")},
		{"tv-2", netip.MustParseAddr("10.0.0.77")}}
	for _, l := range all {
		if r.IntN(2) == 0 {
			c.leases = append(c.leases, l)
		}
	}
	if r.IntN(4) == 0 {
		*name = vutil.Pick(r, []string{"printer.lan", "nas.lan", "tv-2.lan", "ghost.lan", "ghost.lan", "deep.ghost.lan", "lan", "printer.lan.example.org", "printerlan"})
		if r.IntN(4) > 0 {
			c.qtype = vutil.Pick(r, []uint16{dns.TypeA, dns.TypeA, dns.TypeAAAA})
		}
	}
}

var c01BlockHosts = []string{"", "198.51.100.66", "2001:db8::bad", "standard-block.dns.adguard.com", "family-block.dns.adguard.com"}

// c01GenExt adds, at moderate rates, what sits around the rule engines in the
// checker chain: legacy rewrites, hosts-container records, safe browsing /
// parental with scripted verdicts.
func c01GenExt(r *rand.Rand, c *c01Case) {
	host := strings.ToLower(strings.TrimSuffix(c.qname, "."))
	parent := host
	if i := strings.IndexByte(host, '.'); i > 0 {
		parent = host[i+1:]
	}
	if host != "" && r.IntN(8) == 0 {
		for n := 1 + r.IntN(3); n > 0; n-- {
			c.rewrites = append(c.rewrites, c01Rewrite{
				domain: vutil.Pick(r, []string{host, host, "*." + parent, "*." + host, c01MixCase(r, host), vutil.Pick(r, c01Domains), parent}),
				answer: vutil.Pick(r, []string{"1.2.3.4", "10.9.8.7", "::1", "2001:db8::77", "::ffff:1.2.3.4", "A", "AAAA",
					"canon.example.net", "Other.Example.NET", host, "tracker.net", "ads.example.org", "0:0:0:0:0:0:0:1"}),
			})
		}
	}
	if host != "" && r.IntN(10) == 0 {
		ips := []string{"192.168.7.7", "10.20.30.40", "fd00::7", "::ffff:10.1.1.1", "192.168.7.8"}
		for n := 1 + r.IntN(3); n > 0; n-- {
			rec := c01HostsRec{addr: netip.MustParseAddr(vutil.Pick(r, ips))}
			for k := r.IntN(3); k >= 0; k-- {
				rec.names = append(rec.names, vutil.Pick(r, []string{host, host, c01MixCase(r, host), "printer.lan", "nas.lan", parent}))
			}
			if r.IntN(10) == 0 {
				rec.names = nil
			}
			c.hosts = append(c.hosts, rec)
		}
		if r.IntN(3) == 0 {
			// a reverse query for one of the addresses (or a neighbour)
			a := vutil.Pick(r, c.hosts).addr
			if r.IntN(4) == 0 {
				a = netip.MustParseAddr(vutil.Pick(r, ips))
			}
			if rev, err := netutil.IPToReversedAddr(a.AsSlice()); err == nil {
				c.qname, c.qtype = rev+".", dns.TypePTR
				if r.IntN(5) == 0 {
					c.qtype = dns.TypeA
				}
			}
		}
	}
	if r.IntN(5) == 0 {
		c.sbOn, c.parOn = r.IntN(3) > 0, r.IntN(3) > 0
		c.sbHost, c.parHost = vutil.Pick(r, c01BlockHosts), vutil.Pick(r, c01BlockHosts)
		// An expired pause + a host-name block host used to deadlock the server (recursive
		// serverLock.RLock in genBlockedHost against the pending writer
		// enableProtectionAfterPause, C05 R4, repaired by c4d7229): generated since then;
		// corpus/C01/finding-deadlock.txt is the regression case.
		if c.hasClient {
			c.csb, c.cpar = r.IntN(2) == 0, r.IntN(2) == 0
		}
		for _, set := range []*[]string{&c.sbSet, &c.parSet} {
			if r.IntN(2) == 0 && host != "" {
				*set = append(*set, host)
			}
			if r.IntN(3) == 0 {
				*set = append(*set, vutil.Pick(r, c01Domains))
			}
		}
	}
}

// c01ExtraProbes adds host names the pipeline does not look at in this case;
// they only widen the comparison of the rule-semantics model with urlfilter.
func c01ExtraProbes(r *rand.Rand, c *c01Case, target string) {
	for i := 0; i < 3; i++ {
		h := strings.ToLower(c01Related(r, target))
		if r.IntN(5) == 0 {
			h = vutil.Pick(r, []string{"1.2.3.4", "2001:db8::1", "example.organic", "xn--e1afmkfd.xn--p1ai", "a_b.example.org", "localhost"})
		}
		c.extraProbes = append(c.extraProbes, [2]string{h, strconv.Itoa(int(vutil.Pick(r, c01Qtypes)))})
	}
}

// c01Exhaustive enumerates every pair of rule kinds x placement x blocking mode
// x protection state x query type around one domain (thorough tier).
func c01Exhaustive(emit vutil.Emit) {
	const d = "ads.example.org"
	kinds := []string{"", "||" + d + "^", "||" + d + "^$important", "@@||" + d + "^", "@@||" + d + "^$important",
		"127.0.0.1 " + d, "::1 " + d, d, "||" + d + "^$dnstype=A", "*." + d}
	modes := []string{"default", "null_ip", "custom_ip", "nxdomain", "refused"}
	prots := [][2]string{{"1", "none"}, {"0", "none"}, {"1", "future"}}
	qtypes := []uint16{dns.TypeA, dns.TypeAAAA, dns.TypeHTTPS, dns.TypeMX, dns.TypeTXT, dns.TypePTR, dns.TypeCNAME}
	i := 0
	for _, k1 := range kinds {
		for _, k2 := range kinds {
			for place := 0; place < 3; place++ {
				for _, m := range modes {
					for _, p := range prots {
						for _, qt := range qtypes {
							i++
							c := &c01Case{mode: m, bip4: netip.MustParseAddr("198.51.100.7"), bip6: netip.MustParseAddr("2001:db8::b10c"),
								ttl: 10, prot: p[0] == "1", pause: p[1], gfilt: true, cip: netip.MustParseAddr("10.0.0.1"), qtype: qt}
							c.qname = []string{d + ".", "x." + d + "."}[i%2]
							if k1 != "" {
								c.custom = append(c.custom, k1)
							}
							if k2 != "" {
								switch place {
								case 0:
									c.custom = append(c.custom, k2)
								case 1:
									c.block = append(c.block, c01List{enabled: true, lines: []string{k2}})
								default:
									c.allow = append(c.allow, c01List{enabled: true, lines: []string{k2}})
								}
							}
							c.urcode = dns.RcodeSuccess
							c.uans = []dns.RR{&dns.TXT{Hdr: dns.RR_Header{Name: c.qname, Rrtype: dns.TypeTXT, Class: dns.ClassINET, Ttl: 60}, Txt: []string{"up"}}}
							emit(append(c.fields("C01.q"), c.oracleFields()...)...)
						}
					}
				}
			}
		}
	}
}

func c01Gen(r *rand.Rand, emit vutil.Emit) {
	n := vutil.N(20000)
	for i := 0; i < n; i++ {
		c := c01GenCase(r)
		emit(append(c.fields("C01.q"), c.oracleFields()...)...)
	}
	if vutil.Thorough() {
		c01Exhaustive(emit)
	}
}

func TestVerifC01(t *testing.T) {
	e := c01NewEnv(t, 0)
	c01LoadServices(e)
	vutil.Main(t, c01Gen, e.run)
}

// c01ReloadGen: per block one configuration with protection and filtering on
// plus a bulk list of nfill rules, then query lines (each sent par x reps times
// concurrently with the engine rebuild loop) for the case's name and related names.
func c01ReloadGen(r *rand.Rand, emit vutil.Emit) {
	blocks := vutil.N(3)
	nfill := 30000
	for b := 0; b < blocks; b++ {
		c := c01GenCase(r)
		c.prot, c.pause, c.gfilt = true, "none", true
		if c.hasClient && c.useOwn {
			c.cfilt = true
		}
		c.extraProbes = nil
		// the reload mode is about the rule engines only
		c.rewrites, c.hosts, c.sbOn, c.parOn, c.sbSet, c.parSet, c.sbHost, c.parHost, c.csb, c.cpar =
			nil, nil, false, false, nil, nil, "", "", false, false
		if c.qtype == dns.TypePTR {
			c.qtype = dns.TypeA
		}
		base0 := strings.TrimSuffix(strings.ToLower(c.qname), ".")
		if base0 == "" || strings.HasPrefix(base0, ".") {
			base0 = "example.org"
			c.qname = base0 + "."
		}
		// names with a known constant verdict: blocked by a list rule, by a custom rule,
		// by a hosts-style line, and allow-listed although a rule blocks them
		c.custom = append(c.custom, "||blk."+base0+"^", "10.1.2.3 hst."+base0, "||alw."+base0+"^")
		c.block = append(c.block, c01List{enabled: true, lines: []string{"||lst." + base0 + "^$important"}})
		c.allow = append(c.allow, c01List{enabled: true, lines: []string{"||alw." + base0 + "^"}})
		f := c.fields("C01.rl")
		line := append([]string{f[0], strconv.Itoa(nfill)}, f[1:]...)
		emit(append(line, "0", "0")...)
		base := base0
		names := []string{c.qname, "blk." + base + ".", "x.BLK." + base + ".", "hst." + base + ".", "lst." + base + ".", "alw." + base + "."}
		for i := 0; i < 2; i++ {
			names = append(names, c01Related(r, base)+".")
		}
		for i := 0; i < 24; i++ {
			n := names[i%len(names)]
			if n == "." || strings.HasPrefix(n, ".") {
				n = c.qname
			}
			qt := c.qtype
			if i >= len(names) {
				qt = vutil.Pick(r, c01Qtypes)
			}
			if r.IntN(2) == 0 {
				n = c01MixCase(r, n)
			}
			emit("C01.rq", vutil.Hex(n), strconv.Itoa(int(qt)), "8", "3")
		}
	}
}

func TestVerifC01Reload(t *testing.T) {
	e := c01NewEnv(t, 0)
	c01LoadServices(e)
	vutil.Main(t, c01ReloadGen, e.run)
}
