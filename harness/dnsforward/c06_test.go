//go:build verif

package dnsforward

import (
	"math/rand/v2"
	"net"
	"net/netip"
	"strings"
	"sync"
	"testing"

	"github.com/AdguardTeam/AdGuardHome/internal/aghtest"
	"github.com/AdguardTeam/AdGuardHome/internal/filtering"
	"github.com/AdguardTeam/AdGuardHome/internal/vutil"
	"github.com/AdguardTeam/dnsproxy/proxy"
	"github.com/AdguardTeam/dnsproxy/upstream"
	"github.com/AdguardTeam/golibs/logutil/slogutil"
	"github.com/AdguardTeam/golibs/netutil"
	"github.com/miekg/dns"
	"github.com/stretchr/testify/require"
)

// C06 harness, DNS level: one case = (rewrite table, question); the request
// goes through the real (*Server).handleDNSRequest (filterDNSRequest,
// processUpstream, processFilteringAfterResponse) with a recording upstream
// that answers, per case, either NOERROR (A with 9.9.9.9, AAAA with 9::9,
// anything else empty) or an empty NXDOMAIN / SERVFAIL / REFUSED.  Observation: the names the upstream was asked for, and the reply
// the client gets (rcode, question name, answer records).

var (
	c06S     *Server
	c06Mu    sync.Mutex
	c06Asked []string
	// c06UpsRcode is what the recording upstream answers with in this case.
	c06UpsRcode int
)

const (
	c06Ups4 = "9.9.9.9"
	c06Ups6 = "9::9"
)

func c06Strip(name string) string { return strings.TrimSuffix(name, ".") }

func c06OnExchange(req *dns.Msg) (resp *dns.Msg, err error) {
	q := req.Question[0]
	c06Mu.Lock()
	c06Asked = append(c06Asked, q.Name)
	rc := c06UpsRcode
	c06Mu.Unlock()

	if rc != dns.RcodeSuccess {
		// NXDOMAIN / SERVFAIL / REFUSED: an empty reply with that rcode.
		return new(dns.Msg).SetRcode(req, rc), nil
	}

	resp = new(dns.Msg).SetReply(req)
	hdr := dns.RR_Header{Name: q.Name, Rrtype: q.Qtype, Class: dns.ClassINET, Ttl: 10}
	switch q.Qtype {
	case dns.TypeA:
		resp.Answer = []dns.RR{&dns.A{Hdr: hdr, A: net.ParseIP(c06Ups4).To4()}}
	case dns.TypeAAAA:
		resp.Answer = []dns.RR{&dns.AAAA{Hdr: hdr, AAAA: net.ParseIP(c06Ups6)}}
	}

	return resp, nil
}

func c06NewFilter(rws []*filtering.LegacyRewrite) (f *filtering.DNSFilter, err error) {
	f, err = filtering.New(&filtering.Config{
		ProtectionEnabled:    true,
		ApplyClientFiltering: applyEmptyClientFiltering,
		BlockedServices:      emptyFilteringBlockedServices(),
		BlockingMode:         filtering.BlockingModeDefault,
		Rewrites:             rws,
	}, nil)
	if err != nil {
		return nil, err
	}
	f.SetEnabled(true)

	return f, nil
}

// c06DNSRun executes one case:  C06.dns  n  (domain answer kind ip)×n  host  qtype  upstream-rcode
func c06DNSRun(f []string) []string {
	if f[0] != "C06.dns" {
		panic("unknown op " + f[0])
	}
	n := vutil.Atoi(f[1])
	rws := make([]*filtering.LegacyRewrite, n)
	for i := range rws {
		rws[i] = &filtering.LegacyRewrite{Domain: vutil.Unhex(f[2+4*i]), Answer: vutil.Unhex(f[3+4*i])}
	}
	host := vutil.Unhex(f[2+4*n])
	qt := uint16(vutil.Atoi(f[3+4*n]))
	rc := vutil.Atoi(f[4+4*n])

	// filtering.New runs the real prepareRewrites/normalize on the table.
	flt, err := c06NewFilter(rws)
	if err != nil {
		return []string{"E", vutil.Hex(err.Error())}
	}
	s := c06S
	s.serverLock.Lock()
	old := s.dnsFilter
	s.dnsFilter = flt
	s.serverLock.Unlock()
	old.Close()

	c06Mu.Lock()
	c06Asked = nil
	c06UpsRcode = rc
	c06Mu.Unlock()

	req := createTestMessageWithType(dns.Fqdn(host), qt)
	pctx := &proxy.DNSContext{Proto: proxy.ProtoUDP, Req: req, Addr: testClientAddrPort}
	if err = s.handleDNSRequest(s.dnsProxy, pctx); err != nil {
		return []string{"E", vutil.Hex(err.Error())}
	}
	if pctx.Res == nil {
		return []string{"E", vutil.Hex("nil response")}
	}

	c06Mu.Lock()
	asked := append([]string(nil), c06Asked...)
	c06Mu.Unlock()

	out := []string{vutil.Itoa(len(asked))}
	for _, a := range asked {
		out = append(out, vutil.Hex(c06Strip(a)))
	}
	res := pctx.Res
	qname := "?"
	if len(res.Question) == 1 {
		qname = c06Strip(res.Question[0].Name)
	}
	out = append(out, vutil.Itoa(res.Rcode), vutil.Hex(qname), vutil.Itoa(len(res.Answer)))
	for _, rr := range res.Answer {
		owner := vutil.Hex(c06Strip(rr.Header().Name))
		switch v := rr.(type) {
		case *dns.A:
			ip, _ := netip.AddrFromSlice(v.A)
			out = append(out, "1", owner, vutil.Hex(ip.Unmap().String()))
		case *dns.AAAA:
			ip, _ := netip.AddrFromSlice(v.AAAA.To16())
			out = append(out, "28", owner, vutil.Hex(ip.String()))
		case *dns.CNAME:
			out = append(out, "5", owner, vutil.Hex(c06Strip(v.Target)))
		default:
			out = append(out, vutil.Itoa(int(rr.Header().Rrtype)), owner, vutil.Hex(rr.String()))
		}
	}

	return out
}

var (
	c06DV4 = []string{"1.1.1.1", "1.1.1.2", "0.0.0.0"}
	c06DV6 = []string{"::1", "2001:db8::1", "::ffff:1.2.3.4", "0:0:0:0:0:0:0:1"}
)

// c06DNSGen: well-formed names only (the wire format would reject the odd
// ones); dense small universes as in the filtering-level harness.
func c06DNSGen(r *rand.Rand, emit vutil.Emit) {
	n := vutil.N(3000)
	for i := 0; i < n; i++ {
		base := vutil.Pick(r, []string{"x", "y"}) + "." + vutil.Pick(r, []string{"com", "net"})
		all := []string{base, "a." + base, "b." + base, "a.b." + base, "c.a.b." + base, "y.org", "a.y.org", "zzz.org"}
		wilds := []string{"*." + base, "*.b." + base, "*.a.b." + base, "*.org", "*.y.org"}
		r.Shuffle(len(all), func(a, b int) { all[a], all[b] = all[b], all[a] })
		r.Shuffle(len(wilds), func(a, b int) { wilds[a], wilds[b] = wilds[b], wilds[a] })
		names := all[:1+r.IntN(5)]
		ws := wilds[:r.IntN(3)]
		pWild := vutil.Pick(r, []int{0, 20, 50})
		pName := vutil.Pick(r, []int{0, 20, 45, 80})
		pSelf := vutil.Pick(r, []int{0, 0, 5, 15})
		pExc := vutil.Pick(r, []int{0, 0, 10, 25})

		host := vutil.Pick(r, names)
		switch r.IntN(10) {
		case 0, 1:
			host = vutil.Pick(r, []string{"q.", "a.", "q.r."}) + host
		case 2:
			host = strings.ToUpper(host[:1]) + host[1:]
		case 3:
			host = "unrelated.example"
		}

		size := 1 + r.IntN(8)
		if r.IntN(12) == 0 {
			size = 13 + r.IntN(10)
		}
		tbl := make([][2]string, size)
		for k := range tbl {
			dom := vutil.Pick(r, names)
			if len(ws) > 0 && r.IntN(100) < pWild {
				dom = vutil.Pick(r, ws)
			}
			if k == 0 && r.IntN(100) < 60 {
				dom = strings.ToLower(host)
			}
			var ans string
			switch {
			case r.IntN(100) < pSelf:
				ans = vutil.Pick(r, []string{dom, host})
			case r.IntN(100) < pExc:
				ans = vutil.Pick(r, []string{"A", "AAAA"})
			case r.IntN(100) < pName:
				ans = vutil.Pick(r, names)
				if r.IntN(8) == 0 {
					ans = "q." + ans
				}
			case r.IntN(100) < 55:
				ans = vutil.Pick(r, c06DV4)
			default:
				ans = vutil.Pick(r, c06DV6)
			}
			if strings.HasPrefix(ans, "*") {
				ans = "w" + ans[1:] // a CNAME target must be packable
			}
			tbl[k] = [2]string{dom, ans}
		}

		qt := 1
		switch p := r.IntN(100); {
		case p < 40:
		case p < 72:
			qt = 28
		default:
			// TXT, HTTPS, MX, ANY and the DNSSEC / meta / infrastructure types: DS,
			// DNSKEY, RRSIG, NSEC, NSEC3, CDS, CDNSKEY, SVCB, PTR, SRV, NS, SOA, CNAME
			qt = vutil.Pick(r, []int{16, 65, 15, 255, 43, 48, 46, 47, 50, 59, 60, 64, 12, 33, 2, 6, 5, 43, 48})
		}

		f := []string{"C06.dns", vutil.Itoa(len(tbl))}
		for _, e := range tbl {
			kind, ips := "0", ""
			if ip, err := netip.ParseAddr(e[1]); err == nil {
				kind = "6"
				if ip.Is4() {
					kind = "4"
				}
				ips = ip.String()
			}
			f = append(f, vutil.Hex(e[0]), vutil.Hex(e[1]), kind, vutil.Hex(ips))
		}
		// the upstream's rcode: NOERROR, NXDOMAIN, SERVFAIL, REFUSED
		rc := 0
		if r.IntN(100) < 40 {
			rc = vutil.Pick(r, []int{dns.RcodeNameError, dns.RcodeNameError, dns.RcodeServerFailure, dns.RcodeRefused})
		}
		f = append(f, vutil.Hex(host), vutil.Itoa(qt), vutil.Itoa(rc))
		emit(f...)
	}
}

func TestVerifC06DNS(t *testing.T) {
	flt, err := c06NewFilter(nil)
	require.NoError(t, err)

	s, err := NewServer(DNSCreateParams{
		DHCPServer: &testDHCP{
			OnEnabled:  func() (ok bool) { return false },
			OnHostByIP: func(ip netip.Addr) (host string) { return "" },
			OnIPByHost: func(host string) (ip netip.Addr) { return netip.Addr{} },
		},
		DNSFilter:   flt,
		PrivateNets: netutil.SubnetSetFunc(netutil.IsLocallyServed),
		Logger:      slogutil.NewDiscardLogger(),
	})
	require.NoError(t, err)

	err = s.Prepare(&ServerConfig{
		UDPListenAddrs: []*net.UDPAddr{{IP: net.IP{127, 0, 0, 1}}},
		TCPListenAddrs: []*net.TCPAddr{{IP: net.IP{127, 0, 0, 1}}},
		TLSConf:        &TLSConfig{},
		Config: Config{
			UpstreamDNS:      []string{"8.8.8.8:53"},
			UpstreamMode:     UpstreamModeLoadBalance,
			EDNSClientSubnet: &EDNSClientSubnet{Enabled: false},
			ClientsContainer: EmptyClientsContainer{},
		},
		ServePlainDNS: true,
	})
	require.NoError(t, err)

	s.conf.UpstreamConfig.Upstreams = []upstream.Upstream{aghtest.NewUpstreamMock(c06OnExchange)}
	startDeferStop(t, s)
	c06S = s

	vutil.Main(t, c06DNSGen, c06DNSRun)
}
