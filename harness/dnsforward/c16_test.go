//go:build verif

package dnsforward

import (
	"crypto/tls"
	"math/rand/v2"
	"net"
	"net/http"
	"net/url"
	"path"
	"strings"
	"testing"

	"github.com/AdguardTeam/AdGuardHome/internal/vutil"
	"github.com/AdguardTeam/dnsproxy/proxy"
	"github.com/AdguardTeam/golibs/netutil"
	"github.com/quic-go/quic-go"
)

// c16ErrKind maps the implementation's error text to the model's small enum.
func c16ErrKind(err error) string {
	msg := err.Error()
	switch {
	case strings.Contains(msg, "extra parts"):
		return "extraParts"
	case strings.Contains(msg, "invalid path"):
		return "badPath"
	case strings.Contains(msg, "invalid clientid"):
		return "badLabel"
	case strings.Contains(msg, "doesn't match host server name"):
		return "sniMismatch"
	case strings.Contains(msg, "http request of proto"):
		return "nilRequest"
	case strings.Contains(msg, "parsing host"):
		return "badHost"
	case strings.Contains(msg, ", want "):
		return "badConn"
	default:
		return "other:" + vutil.Hex(msg)
	}
}

var c16Protos = map[string]proxy.Proto{
	"udp": proxy.ProtoUDP, "tcp": proxy.ProtoTCP, "tls": proxy.ProtoTLS,
	"https": proxy.ProtoHTTPS, "quic": proxy.ProtoQUIC, "dnscrypt": proxy.ProtoDNSCrypt,
}

// c16Run executes one case on the real clientIDFromDNSContext.
func c16Run(f []string) []string {
	switch f[0] {
	case "C16.clean":
		return []string{vutil.Hex(path.Clean(vutil.Unhex(f[1])))}
	case "C16.ctx":
	default:
		panic("unknown op " + f[0])
	}

	proto := c16Protos[f[1]]
	hasPath, p := vutil.UnB(f[2]), vutil.Unhex(f[3])
	hasTLS, tlsName := vutil.UnB(f[4]), vutil.Unhex(f[5])
	hostHdr := vutil.Unhex(f[6])
	connOK, connSNI := vutil.UnB(f[9]), vutil.Unhex(f[10])
	hostSrv, strict := vutil.Unhex(f[11]), vutil.UnB(f[12])

	srv := &Server{conf: ServerConfig{TLSConf: &TLSConfig{ServerName: hostSrv, StrictSNICheck: strict}}}
	pctx := &proxy.DNSContext{Proto: proto}
	if hasPath {
		pctx.HTTPRequest = &http.Request{ProtoMajor: 1, ProtoMinor: 1, URL: &url.URL{Path: p}, Host: hostHdr}
		if hasTLS {
			pctx.HTTPRequest.TLS = &tls.ConnectionState{ServerName: tlsName}
		}
	}
	if connOK {
		pctx.Conn = testTLSConn{serverName: connSNI}
		pctx.QUICConnection = testQUICConnection{serverName: connSNI}
	} else {
		pctx.Conn = &net.TCPConn{}
		var qc quic.Connection
		pctx.QUICConnection = qc
	}

	id, err := srv.clientIDFromDNSContext(pctx)
	if err != nil {
		return []string{"err", c16ErrKind(err)}
	}

	return []string{"ok", vutil.Hex(id)}
}

var c16Labels = []string{
	"cli", "CLI", "Client-1", "a", "Z", "0", "a-b", "-a", "a-", "-", "a_b", "a b", "caf\xc3\xa9", "\xff",
	"x\x00y", "a.b", "", strings.Repeat("a", 63), strings.Repeat("a", 64), strings.Repeat("B", 62) + "-",
	"dns-query", "..", ".", "%41", "a/b", "*", "a--b", "1-2-3",
	// runes whose Unicode lower-case form is ASCII or that change length when
	// case-mapped: Kelvin sign, long s, dotted capital I, Angstrom sign
	"\u212aid", "a\u212a", "\u212a", "\u017fa", "\u0130d", "x\u212bx", "KID",
}

var c16Hosts = []string{"example.org", "dns.example.org", "org", "Example.Org", "a.b.c.d", "", "example.org.", "xn--e1afmkfd.xn--p1ai"}

func c16GenSNI(r *rand.Rand, host string) string {
	l := vutil.Pick(r, c16Labels)
	switch r.IntN(14) {
	case 0:
		return host
	case 1, 2, 3, 4:
		return l + "." + host
	case 5:
		return l + "." + vutil.Pick(r, c16Labels) + "." + host
	case 6:
		return l + host // suffix look-alike
	case 7:
		return l + "." + vutil.Pick(r, c16Hosts) // sibling / other domain
	case 8:
		return host + "." + l
	case 9:
		return strings.ToUpper(l + "." + host)
	case 10:
		return ""
	case 11:
		return "." + host
	case 12:
		return l + ".." + host
	default:
		return l + "." + host + "."
	}
}

func c16GenPath(r *rand.Rand) string {
	l := vutil.Pick(r, c16Labels)
	switch r.IntN(20) {
	case 0:
		return "/dns-query"
	case 1:
		return "/dns-query/"
	case 2, 3, 4, 5:
		return "/dns-query/" + l
	case 6:
		return "/dns-query/" + l + "/"
	case 7:
		return "//dns-query//" + l
	case 8:
		return "/dns-query/./" + l
	case 9:
		return "/dns-query/x/../" + l
	case 10:
		return "/dns-query/" + l + "/" + vutil.Pick(r, c16Labels)
	case 11:
		return "/other/" + l
	case 12:
		return "dns-query/" + l
	case 13:
		return ""
	case 14:
		return "/"
	case 15:
		return "/../dns-query/" + l
	case 16:
		return "/dns-query/" + l + "/.."
	case 17:
		return "/DNS-QUERY/" + l
	case 18:
		return "/dns-query" + l
	default:
		// random soup of segments
		segs := []string{"", ".", "..", "dns-query", l, "x"}
		n := r.IntN(6)
		s := ""
		if r.IntN(4) > 0 {
			s = "/"
		}
		for i := 0; i < n; i++ {
			s += vutil.Pick(r, segs) + "/"
		}

		return s + vutil.Pick(r, segs)
	}
}

func c16Gen(r *rand.Rand, emit vutil.Emit) {
	n := vutil.N(20000)
	protos := []string{"udp", "tcp", "tls", "https", "https", "https", "quic", "dnscrypt", "tls"}
	for i := 0; i < n; i++ {
		if i%10 == 9 {
			emit("C16.clean", vutil.Hex(c16GenPath(r)))

			continue
		}
		proto := vutil.Pick(r, protos)
		host := vutil.Pick(r, c16Hosts)
		if r.IntN(8) == 0 {
			host = ""
		}
		sni := c16GenSNI(r, host)
		hasPath := proto == "https" && r.IntN(30) > 0
		p := ""
		if hasPath {
			p = c16GenPath(r)
		}
		hasTLS := hasPath && r.IntN(2) == 0
		hostHdr := ""
		if hasPath {
			switch r.IntN(6) {
			case 0:
				hostHdr = ""
			case 1:
				hostHdr = sni + ":443"
			case 2:
				hostHdr = "[::1]:443"
			case 3:
				hostHdr = sni + ":bad:port"
			default:
				hostHdr = sni
			}
		}
		splitHost, serr := netutil.SplitHost(hostHdr)
		connOK := r.IntN(25) > 0
		emit("C16.ctx", proto, vutil.B(hasPath), vutil.Hex(p), vutil.B(hasTLS), vutil.Hex(sni),
			vutil.Hex(hostHdr), vutil.B(serr == nil), vutil.Hex(splitHost),
			vutil.B(connOK), vutil.Hex(sni), vutil.Hex(host), vutil.B(r.IntN(2) == 0))
	}
}

func TestVerifC16(t *testing.T) { vutil.Main(t, c16Gen, c16Run) }
