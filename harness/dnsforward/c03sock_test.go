//go:build verif

package dnsforward

import (
	"bytes"
	"context"
	"crypto/tls"
	"encoding/binary"
	"encoding/hex"
	"fmt"
	"io"
	"math/rand/v2"
	"net"
	"net/http"
	"net/http/httptest"
	"net/netip"
	"net/url"
	"strings"
	"sync"
	"sync/atomic"
	"testing"
	"time"

	"github.com/AdguardTeam/AdGuardHome/internal/aghtest"
	"github.com/AdguardTeam/AdGuardHome/internal/filtering"
	"github.com/AdguardTeam/AdGuardHome/internal/querylog"
	"github.com/AdguardTeam/AdGuardHome/internal/stats"
	"github.com/AdguardTeam/AdGuardHome/internal/vutil"
	"github.com/AdguardTeam/dnsproxy/proxy"
	"github.com/AdguardTeam/dnsproxy/upstream"
	"github.com/AdguardTeam/golibs/logutil/slogutil"
	"github.com/AdguardTeam/golibs/netutil"
	"github.com/ameshkov/dnscrypt/v2"
	"github.com/miekg/dns"
	"github.com/quic-go/quic-go"
)

// Socket run of C03: a real dnsforward.Server (UDP, TCP and DoT listeners on
// the loopback and the other local addresses of the sandbox), real packets,
// and counting doubles for the upstream, the query log, the statistics and the
// per-request filtering settings hook.  One line is one configuration plus K
// concurrent requests:
//
//	C03.sblock conf-fields… reconf K (proto ipkind addr zone sni hostBlocked qname qtype path qclass)*K
//	   =>  (reply upstream logged counted)*K filtered H n reported-blocked-host*n
//
// reply ∈ none | refused | servfail | processed.

// c03sCounters attributes effects to requests by the (unique) query name.
type c03sCounters struct {
	mu       sync.Mutex
	upstream map[string]int
	logged   map[string]int
	counted  map[string]int
	filtered atomic.Int64
}

func newC03sCounters() *c03sCounters {
	return &c03sCounters{upstream: map[string]int{}, logged: map[string]int{}, counted: map[string]int{}}
}

func (c *c03sCounters) inc(m map[string]int, name string) {
	c.mu.Lock()
	defer c.mu.Unlock()
	m[strings.ToLower(strings.TrimSuffix(name, "."))]++
}

func (c *c03sCounters) get(m map[string]int, name string) int {
	c.mu.Lock()
	defer c.mu.Unlock()

	return m[strings.ToLower(strings.TrimSuffix(name, "."))]
}

type c03sQueryLog struct {
	querylog.QueryLog
	c *c03sCounters
}

func (l *c03sQueryLog) Add(p *querylog.AddParams) {
	if p.Question != nil && len(p.Question.Question) > 0 {
		l.c.inc(l.c.logged, p.Question.Question[0].Name)
	}
}
func (l *c03sQueryLog) ShouldLog(string, uint16, uint16, []string) bool { return true }

type c03sStats struct {
	stats.Interface
	c *c03sCounters
}

func (s *c03sStats) Update(e *stats.Entry)                             { s.c.inc(s.c.counted, e.Domain) }
func (s *c03sStats) ShouldCount(string, uint16, uint16, []string) bool { return true }

var (
	c03sT        *testing.T
	c03sCertOnce sync.Once
	c03sCert     tls.Certificate
)

const (
	c03sSrvName  = "dns.example.org"
	c03sProvider = "2.dnscrypt-cert.c03.example"
)

var (
	c03sUps          []upstream.Upstream
	c03sHTTPPort     uint16
	c03sResolver     dnscrypt.ResolverConfig
	c03sDNSCryptCert *dnscrypt.Cert
)

// c03sStart builds and starts a real server with the given access lists.
func c03sStart(srvName string, strict bool, allowed, blocked, hosts []string) (s *Server, hs *httptest.Server, cnt *c03sCounters, err error) {
	c03sCertOnce.Do(func() {
		_, certPem, keyPem := createServerTLSConfig(c03sT)
		c03sCert, err = tls.X509KeyPair(certPem, keyPem)
		if err != nil {
			panic(err)
		}
		c03sResolver, err = dnscrypt.GenerateResolverConfig(c03sProvider, nil)
		if err != nil {
			panic(err)
		}
		c03sDNSCryptCert, err = c03sResolver.CreateCert()
		if err != nil {
			panic(err)
		}
	})

	cnt = newC03sCounters()
	flt, err := filtering.New(&filtering.Config{
		BlockingMode:    filtering.BlockingModeDefault,
		BlockedServices: emptyFilteringBlockedServices(),
		ApplyClientFiltering: func(_ string, _ netip.Addr, _ *filtering.Settings) {
			cnt.filtered.Add(1)
		},
	}, nil)
	if err != nil {
		return nil, nil, nil, err
	}
	flt.SetEnabled(true)

	s, err = NewServer(DNSCreateParams{
		DHCPServer: &testDHCP{
			OnEnabled:  func() (ok bool) { return false },
			OnHostByIP: func(ip netip.Addr) (host string) { return "" },
			OnIPByHost: func(host string) (ip netip.Addr) { return netip.Addr{} },
		},
		DNSFilter:   flt,
		PrivateNets: netutil.SubnetSetFunc(netutil.IsLocallyServed),
		Logger:      slogutil.NewDiscardLogger(),
		QueryLog:    &c03sQueryLog{c: cnt},
		Stats:       &c03sStats{c: cnt},
	})
	if err != nil {
		return nil, nil, nil, err
	}

	cert := c03sCert
	err = s.Prepare(&ServerConfig{
		UDPListenAddrs: []*net.UDPAddr{{}},
		TCPListenAddrs: []*net.TCPAddr{{}},
		TLSConf: &TLSConfig{
			TLSListenAddrs:  []*net.TCPAddr{{}},
			QUICListenAddrs: []*net.UDPAddr{{}},
			ServerName:      srvName,
			StrictSNICheck:  strict,
			Cert:            &cert,
		},
		DNSCryptConfig: DNSCryptConfig{
			Enabled:        true,
			ResolverCert:   c03sDNSCryptCert,
			ProviderName:   c03sProvider,
			UDPListenAddrs: []*net.UDPAddr{{}},
		},
		Config: Config{
			AllowedClients:    allowed,
			DisallowedClients: blocked,
			BlockedHosts:      hosts,
			UpstreamMode:      UpstreamModeLoadBalance,
			EDNSClientSubnet:  &EDNSClientSubnet{Enabled: false},
			ClientsContainer:  EmptyClientsContainer{},
		},
		ServePlainDNS: true,
	})
	if err != nil {
		return nil, nil, nil, err
	}

	c03sUps = []upstream.Upstream{&aghtest.UpstreamMock{
		OnAddress: func() (addr string) { return "c03.upstream.example" },
		OnExchange: func(req *dns.Msg) (resp *dns.Msg, err error) {
			cnt.inc(cnt.upstream, req.Question[0].Name)
			resp = new(dns.Msg).SetReply(req)
			if req.Question[0].Qtype == dns.TypeA {
				resp.Answer = []dns.RR{&dns.A{
					Hdr: dns.RR_Header{Name: req.Question[0].Name, Rrtype: dns.TypeA, Class: dns.ClassINET, Ttl: 60},
					A:   net.IP{1, 2, 3, 4},
				}}
			}

			return resp, nil
		},
		OnClose: func() (err error) { return nil },
	}}
	s.conf.UpstreamConfig.Upstreams = c03sUps

	err = s.Start()
	if err != nil {
		return nil, nil, nil, err
	}

	// DoH reaches the DNS server through AdGuard Home's web server, which hands
	// /dns-query to Server.ServeHTTP (home/web.go); a TLS web server on all
	// local addresses, HTTP/1.1 and HTTP/2, stands for it here.
	hs = httptest.NewUnstartedServer(http.HandlerFunc(s.ServeHTTP))
	l, err := net.Listen("tcp", ":0")
	if err != nil {
		return nil, nil, nil, err
	}
	_ = hs.Listener.Close()
	hs.Listener = l
	hs.EnableHTTP2 = true
	hs.TLS = &tls.Config{Certificates: []tls.Certificate{cert}}
	hs.StartTLS()

	return s, hs, cnt, nil
}

const (
	c03sUDPTimeout = 600 * time.Millisecond
	c03sTCPTimeout = 2 * time.Second
)

// c03sQuery sends one real request and classifies what came back.
func c03sQuery(s *Server, proto string, ip netip.Addr, sni, path, qname string, qtype, qclass uint16) (reply string) {
	switch proto {
	case "https", "quic", "dnscrypt":
		return c03sClassify(c03sQueryOther(s, proto, ip, sni, path, qname, qtype, qclass))
	}

	var pp proxy.Proto
	c := &dns.Client{}
	d := &net.Dialer{}
	switch proto {
	case "udp":
		pp, c.Net, c.Timeout = proxy.ProtoUDP, "udp", c03sUDPTimeout
		d.LocalAddr = &net.UDPAddr{IP: ip.AsSlice(), Zone: ip.Zone()}
	case "tcp":
		pp, c.Net, c.Timeout = proxy.ProtoTCP, "tcp", c03sTCPTimeout
		d.LocalAddr = &net.TCPAddr{IP: ip.AsSlice(), Zone: ip.Zone()}
	case "tls":
		pp, c.Net, c.Timeout = proxy.ProtoTLS, "tcp-tls", c03sTCPTimeout
		d.LocalAddr = &net.TCPAddr{IP: ip.AsSlice(), Zone: ip.Zone()}
		c.TLSConfig = &tls.Config{InsecureSkipVerify: true, ServerName: sni}
	default:
		panic("bad proto " + proto)
	}
	c.Dialer = d

	port := netutil.NetAddrToAddrPort(s.dnsProxy.Addr(pp)).Port()
	dst := ip
	if ip.Is4() && ip.IsLoopback() {
		dst = netip.MustParseAddr("127.0.0.1")
	}
	req := &dns.Msg{
		MsgHdr:   dns.MsgHdr{Id: dns.Id(), RecursionDesired: true},
		Question: []dns.Question{{Name: qname, Qtype: qtype, Qclass: qclass}},
	}

	resp, _, err := c.Exchange(req, netip.AddrPortFrom(dst, port).String())
	if err != nil {
		var ne net.Error
		if proto == "udp" && errorsAs(err, &ne) && ne.Timeout() {
			return "none"
		}

		return "err:" + vutil.Hex(err.Error())
	}

	return c03sClassify(resp, false, nil)
}

// c03sClassify names what came back.
func c03sClassify(resp *dns.Msg, silent bool, err error) (reply string) {
	switch {
	case silent:
		return "none"
	case err != nil:
		return "err:" + vutil.Hex(err.Error())
	}
	switch {
	case resp.Rcode == dns.RcodeRefused && len(resp.Answer) == 0:
		return "refused"
	case resp.Rcode == dns.RcodeServerFailure && len(resp.Answer) == 0:
		return "servfail"
	case resp.Rcode == dns.RcodeSuccess:
		return "processed"
	default:
		return "rcode" + vutil.Itoa(resp.Rcode)
	}
}

func c03sDst(ip netip.Addr) netip.Addr {
	if ip.Is4() && ip.IsLoopback() {
		return netip.MustParseAddr("127.0.0.1")
	}

	return ip
}

// c03sQueryOther sends one request over DoH, DoQ or DNSCrypt from the given
// source address.  silent = the server let the request time out.
func c03sQueryOther(
	s *Server,
	proto string,
	ip netip.Addr,
	sni, path, qname string,
	qtype, qclass uint16,
) (resp *dns.Msg, silent bool, err error) {
	req := &dns.Msg{
		MsgHdr:   dns.MsgHdr{Id: dns.Id(), RecursionDesired: true},
		Question: []dns.Question{{Name: qname, Qtype: qtype, Qclass: qclass}},
	}
	ctx, cancel := context.WithTimeout(context.Background(), c03sTCPTimeout)
	defer cancel()

	switch proto {
	case "https":
		port := c03sHTTPPort
		d := &net.Dialer{LocalAddr: &net.TCPAddr{IP: ip.AsSlice(), Zone: ip.Zone()}}
		tr := &http.Transport{
			TLSClientConfig:   &tls.Config{InsecureSkipVerify: true, ServerName: sni},
			DialContext:       d.DialContext,
			DisableKeepAlives: true,
			// HTTP/2 for AAAA questions, HTTP/1.1 for the others
			ForceAttemptHTTP2: qtype == dns.TypeAAAA,
		}
		defer tr.CloseIdleConnections()
		var body []byte
		body, err = req.Pack()
		if err != nil {
			return nil, false, err
		}
		u := &url.URL{Scheme: "https", Host: netip.AddrPortFrom(c03sDst(ip), port).String(), Path: path}
		var hreq *http.Request
		hreq, err = http.NewRequestWithContext(ctx, http.MethodPost, u.String(), bytes.NewReader(body))
		if err != nil {
			return nil, false, err
		}
		hreq.Header.Set("Content-Type", "application/dns-message")
		hreq.Header.Set("Accept", "application/dns-message")
		var hresp *http.Response
		hresp, err = (&http.Client{Transport: tr}).Do(hreq)
		if err != nil {
			return nil, false, err
		}
		defer func() { _ = hresp.Body.Close() }()
		var b []byte
		b, err = io.ReadAll(hresp.Body)
		if err != nil {
			return nil, false, err
		}
		if hresp.StatusCode != http.StatusOK {
			return nil, false, fmt.Errorf("http status %d", hresp.StatusCode)
		}
		resp = &dns.Msg{}

		return resp, false, resp.Unpack(b)
	case "quic":
		port := netutil.NetAddrToAddrPort(s.dnsProxy.Addr(proxy.ProtoQUIC)).Port()
		var pc *net.UDPConn
		pc, err = net.ListenUDP("udp", &net.UDPAddr{IP: ip.AsSlice(), Zone: ip.Zone()})
		if err != nil {
			return nil, false, err
		}
		defer func() { _ = pc.Close() }()
		dst := net.UDPAddrFromAddrPort(netip.AddrPortFrom(c03sDst(ip), port))
		var conn quic.Connection
		conn, err = quic.Dial(ctx, pc, dst, &tls.Config{
			InsecureSkipVerify: true, ServerName: sni, NextProtos: []string{proxy.NextProtoDQ},
		}, &quic.Config{})
		if err != nil {
			return nil, false, err
		}
		defer func() { _ = conn.CloseWithError(0, "") }()
		var st quic.Stream
		st, err = conn.OpenStreamSync(ctx)
		if err != nil {
			return nil, false, err
		}
		req.Id = 0
		var body []byte
		body, err = req.Pack()
		if err != nil {
			return nil, false, err
		}
		buf := make([]byte, 2+len(body))
		binary.BigEndian.PutUint16(buf, uint16(len(body)))
		copy(buf[2:], body)
		if _, err = st.Write(buf); err != nil {
			return nil, false, err
		}
		_ = st.Close()
		_ = st.SetReadDeadline(time.Now().Add(c03sTCPTimeout))
		var b []byte
		b, err = io.ReadAll(st)
		if len(b) < 2 {
			if err == nil {
				err = fmt.Errorf("short doq reply")
			}

			return nil, false, err
		}
		resp = &dns.Msg{}

		return resp, false, resp.Unpack(b[2:])
	default:
		// DNSCrypt over UDP: the certificate is fetched first (answered by the
		// DNSCrypt layer itself), then the encrypted query is sent.
		port := netutil.NetAddrToAddrPort(s.dnsProxy.Addr(proxy.ProtoDNSCrypt)).Port()
		dstS := netip.AddrPortFrom(c03sDst(ip), port).String()
		// (the stamp's type lives in a module go.mod only requires indirectly:
		// it is never named here)
		stamp, serr := c03sResolver.CreateStamp(dstS)
		if serr != nil {
			return nil, false, serr
		}
		cl := &dnscrypt.Client{Net: "udp", Timeout: c03sTCPTimeout}
		var ri *dnscrypt.ResolverInfo
		ri, err = cl.DialStamp(stamp)
		if err != nil {
			return nil, false, fmt.Errorf("dnscrypt dial: %w", err)
		}
		d := &net.Dialer{LocalAddr: &net.UDPAddr{IP: ip.AsSlice(), Zone: ip.Zone()}}
		var conn net.Conn
		conn, err = d.DialContext(ctx, "udp", dstS)
		if err != nil {
			return nil, false, err
		}
		defer func() { _ = conn.Close() }()
		_ = conn.SetDeadline(time.Now().Add(c03sUDPTimeout))
		resp, err = cl.ExchangeConn(conn, req, ri)
		var ne net.Error
		if err != nil && errorsAs(err, &ne) && ne.Timeout() {
			return nil, true, nil
		}

		return resp, false, err
	}
}

func errorsAs(err error, target *net.Error) bool {
	for err != nil {
		if ne, ok := err.(net.Error); ok {
			*target = ne

			return true
		}
		u, ok := err.(interface{ Unwrap() error })
		if !ok {
			return false
		}
		err = u.Unwrap()
	}

	return false
}

type c03sReq struct {
	proto, sni, path, qname string
	ip                      netip.Addr
	qtype, qclass           uint16
}

func c03sRun(f []string) []string {
	if f[0] != "C03.sblock" {
		panic("unknown op " + f[0])
	}
	srvName, strict := vutil.Unhex(f[1]), vutil.UnB(f[2])
	allowed, i := c03TakeList(f, 3, 5)
	blocked, i := c03TakeList(f, i, 5)
	hosts, i := c03TakeList(f, i, 1)
	reconf := vutil.UnB(f[i])
	k := vutil.Atoi(f[i+1])
	i += 2
	reqs := make([]c03sReq, k)
	for j := range reqs {
		g := f[i : i+10]
		i += 10
		reqs[j] = c03sReq{
			proto: g[0], ip: c03ParseIP(g[1], g[2], g[3]), sni: vutil.Unhex(g[4]),
			qname: vutil.Unhex(g[6]), qtype: uint16(vutil.Atoi(g[7])), path: vutil.Unhex(g[8]),
			qclass: uint16(vutil.Atoi(g[9])),
		}
	}

	s, hs, cnt, err := c03sStart(srvName, strict, allowed, blocked, hosts)
	if err != nil {
		return []string{"starterr", vutil.Hex(err.Error())}
	}
	c03sHTTPPort = uint16(hs.Listener.Addr().(*net.TCPAddr).Port)
	if reconf {
		// Reconfigure(nil): stop, Prepare once more on the stored configuration, start.
		if err = s.Reconfigure(nil); err != nil {
			return []string{"starterr", vutil.Hex(err.Error())}
		}
		// Prepare parsed the upstream addresses again: put the counting one back.
		s.conf.UpstreamConfig.Upstreams = c03sUps
	}
	defer func() {
		hs.Close()
		_ = s.Stop()
		s.Close()
	}()

	replies := make([]string, k)
	wg := &sync.WaitGroup{}
	for j := range reqs {
		wg.Add(1)
		go func() {
			defer wg.Done()
			r := reqs[j]
			replies[j] = c03sQuery(s, r.proto, r.ip, r.sni, r.path, r.qname, r.qtype, r.qclass)
		}()
	}
	wg.Wait()
	// Let the server finish whatever a dropped packet may still be causing.
	time.Sleep(20 * time.Millisecond)

	var out []string
	for j, r := range reqs {
		out = append(out, replies[j],
			vutil.Itoa(cnt.get(cnt.upstream, r.qname)),
			vutil.Itoa(cnt.get(cnt.logged, r.qname)),
			vutil.Itoa(cnt.get(cnt.counted, r.qname)))
	}

	out = append(out, vutil.Itoa(int(cnt.filtered.Load())))
	// what GET /control/access/list reports as blocked hosts
	reported := s.accessListJSON().BlockedHosts
	out = append(out, "H", vutil.Itoa(len(reported)))
	for _, h := range reported {
		out = append(out, vutil.Hex(h))
	}

	return out
}

// c03sLocalAddrs returns the source addresses requests can be sent from.
func c03sLocalAddrs() (ips []netip.Addr) {
	ips = []netip.Addr{
		netip.MustParseAddr("127.0.0.1"), netip.MustParseAddr("127.0.0.2"), netip.MustParseAddr("127.0.0.3"),
		netip.MustParseAddr("127.1.2.3"), netip.MustParseAddr("127.128.0.1"),
	}
	ifaces, _ := net.Interfaces()
	for _, ifc := range ifaces {
		addrs, _ := ifc.Addrs()
		for _, a := range addrs {
			ipn, ok := a.(*net.IPNet)
			if !ok {
				continue
			}
			ip, ok := netip.AddrFromSlice(ipn.IP)
			if !ok {
				continue
			}
			ip = ip.Unmap()
			if ip.Is4() && ip.IsLoopback() {
				continue
			}
			if ip.IsLinkLocalUnicast() && ip.Is6() {
				ip = ip.WithZone(ifc.Name)
			}
			ips = append(ips, ip)
		}
	}

	return ips
}

func c03sGen(r *rand.Rand, emit vutil.Emit) {
	n := vutil.N(30)
	local := c03sLocalAddrs()
	ids := []string{"cli", "other", "a-b"}
	hostRules := []string{"||blocked.example^", "*.wild.example", "||*^$dnstype=AAAA", "UPPER.example", "||version.bind^"}
	bases := []string{"blocked.example.", "wild.example.", "ok.example.", "fine.org.", "Blocked.Example.", "Version.Bind.", "id.server.",
		"hostname.bind."}
	for b := 0; b < n; b++ {
		// entries: the local addresses, nets around them, ids
		var pool []string
		for _, ip := range local {
			pool = append(pool, ip.String(), ip.WithZone("").String())
			w := ip.BitLen()
			for _, l := range []int{0, 1, 8, 9, 24, 30, 31, 32, 64, 127, 128} {
				if l <= w {
					pool = append(pool, ip.WithZone("").String()+"/"+vutil.Itoa(l),
						netip.PrefixFrom(ip.WithZone(""), l).Masked().String())
				}
			}
			if ip.Is4() {
				pool = append(pool, netip.AddrFrom16(ip.As16()).String())
			}
		}
		pool = append(pool, "::ffff:0:0/96", "10.0.0.0/8", "2001:db8::/32", "1.2.3.4")
		pick := func() (l []string) {
			for k := []int{0, 1, 1, 2, 3}[r.IntN(5)]; k > 0; k-- {
				if r.IntN(4) == 0 {
					l = append(l, vutil.Pick(r, ids))
				} else {
					l = append(l, vutil.Pick(r, pool))
				}
			}

			return l
		}
		var allowed, blocked, hosts []string
		if r.IntN(2) == 0 {
			allowed = pick()
		}
		blocked = pick()
		for k := r.IntN(3); k > 0; k-- {
			hosts = append(hosts, vutil.Pick(r, hostRules))
		}
		// An empty configured list means the default names are blocked (and
		// reported as blocked): the oracle engine is built from what the access
		// settings say, never from what the server built.
		effective := hosts
		if len(effective) == 0 {
			effective = []string{"version.bind", "id.server", "hostname.bind"}
		}
		oracle := c03NewOracle(effective)
		// Strict SNI checking is also enforced inside the TLS handshake
		// (onGetCertificate), a different mechanism; the socket run keeps it off
		// so that every generated server name reaches HandleBefore.
		strict := false

		f := []string{"C03.sblock", vutil.Hex(c03sSrvName), vutil.B(strict), vutil.Itoa(len(allowed))}
		for _, e := range allowed {
			f = append(f, c03EntryFields(e)...)
		}
		f = append(f, vutil.Itoa(len(blocked)))
		for _, e := range blocked {
			f = append(f, c03EntryFields(e)...)
		}
		f = append(f, vutil.Itoa(len(hosts)))
		for _, h := range hosts {
			f = append(f, vutil.Hex(h))
		}

		const k = 12
		f = append(f, vutil.B(r.IntN(4) == 0), vutil.Itoa(k))
		for j := 0; j < k; j++ {
			ip := vutil.Pick(r, local)
			proto := []string{"udp", "udp", "tcp", "tls", "https", "quic", "dnscrypt", "https"}[r.IntN(8)]
			sni := c03sSrvName
			switch r.IntN(6) {
			case 0, 1, 2:
				sni = vutil.Pick(r, ids) + "." + c03sSrvName
			case 3:
				// a malformed ClientID that still gets through a real TLS handshake
				sni = vutil.Pick(r, []string{"-a.", "a-.", strings.Repeat("a", 64) + ".", "x.y."}) + c03sSrvName
			case 4:
				sni = "other.example.net"
			}
			path := ""
			if proto == "https" {
				// the ClientID of a DoH request is in its path (first) or its server name
				switch r.IntN(5) {
				case 0:
					path = "/dns-query"
				case 1:
					path, sni = "/dns-query/"+vutil.Pick(r, ids), c03sSrvName
				case 2:
					path = "/dns-query/" + vutil.Pick(r, ids)
				case 3:
					path = "/dns-query/-a"
				default:
					path = "/dns-query/" + vutil.Pick(r, ids) + "/"
				}
			}
			qname := fmt.Sprintf("q%d-%d.%s", b, j, vutil.Pick(r, bases))
			qtype := []uint16{dns.TypeA, dns.TypeA, dns.TypeAAAA, dns.TypeTXT}[r.IntN(4)]
			qclass := []uint16{dns.ClassINET, dns.ClassINET, dns.ClassCHAOS, dns.ClassHESIOD, dns.ClassANY}[r.IntN(5)]
			f = append(f, proto, map[bool]string{true: "4", false: "6"}[ip.Is4()], hex.EncodeToString(ip.AsSlice()),
				vutil.Hex(ip.Zone()), vutil.Hex(sni), vutil.B(oracle.blocked(qname, qtype)), vutil.Hex(qname),
				vutil.Itoa(int(qtype)), vutil.Hex(path), vutil.Itoa(int(qclass)))
		}
		emit(f...)
	}
}

func TestVerifC03Sock(t *testing.T) {
	c03sT = t
	vutil.Main(t, c03sGen, c03sRun)
}
