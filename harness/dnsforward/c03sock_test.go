//go:build verif

package dnsforward

import (
	"crypto/tls"
	"encoding/hex"
	"fmt"
	"math/rand/v2"
	"net"
	"net/netip"
	"strings"
	"sync"
	"sync/atomic"
	"testing"
	"time"

	"github.com/AdguardTeam/AdGuardHome/internal/aghtest"
	"github.com/AdguardTeam/AdGuardHome/internal/filtering"
	"github.com/AdguardTeam/AdGuardHome/internal/querylog"
	"github.com/AdguardTeam/AdGuardHome/internal/stats"
	"github.com/AdguardTeam/AdGuardHome/internal/vutil"
	"github.com/AdguardTeam/dnsproxy/proxy"
	"github.com/AdguardTeam/dnsproxy/upstream"
	"github.com/AdguardTeam/golibs/logutil/slogutil"
	"github.com/AdguardTeam/golibs/netutil"
	"github.com/miekg/dns"
)

// Socket run of C03: a real dnsforward.Server (UDP, TCP and DoT listeners on
// the loopback and the other local addresses of the sandbox), real packets,
// and counting doubles for the upstream, the query log, the statistics and the
// per-request filtering settings hook.  One line is one configuration plus K
// concurrent requests:
//
//	C03.sblock conf-fields… K (proto ipkind addr zone sni hostBlocked qname qtype)*K
//	   =>  (reply upstream logged counted)*K filtered
//
// reply ∈ none | refused | servfail | processed.

// c03sCounters attributes effects to requests by the (unique) query name.
type c03sCounters struct {
	mu       sync.Mutex
	upstream map[string]int
	logged   map[string]int
	counted  map[string]int
	filtered atomic.Int64
}

func newC03sCounters() *c03sCounters {
	return &c03sCounters{upstream: map[string]int{}, logged: map[string]int{}, counted: map[string]int{}}
}

func (c *c03sCounters) inc(m map[string]int, name string) {
	c.mu.Lock()
	defer c.mu.Unlock()
	m[strings.ToLower(strings.TrimSuffix(name, "."))]++
}

func (c *c03sCounters) get(m map[string]int, name string) int {
	c.mu.Lock()
	defer c.mu.Unlock()

	return m[strings.ToLower(strings.TrimSuffix(name, "."))]
}

type c03sQueryLog struct {
	querylog.QueryLog
	c *c03sCounters
}

func (l *c03sQueryLog) Add(p *querylog.AddParams) {
	if p.Question != nil && len(p.Question.Question) > 0 {
		l.c.inc(l.c.logged, p.Question.Question[0].Name)
	}
}
func (l *c03sQueryLog) ShouldLog(string, uint16, uint16, []string) bool { return true }

type c03sStats struct {
	stats.Interface
	c *c03sCounters
}

func (s *c03sStats) Update(e *stats.Entry)                                { s.c.inc(s.c.counted, e.Domain) }
func (s *c03sStats) ShouldCount(string, uint16, uint16, []string) bool { return true }

var (
	c03sT        *testing.T
	c03sCertOnce sync.Once
	c03sCert     tls.Certificate
)

const c03sSrvName = "dns.example.org"

// c03sStart builds and starts a real server with the given access lists.
func c03sStart(srvName string, strict bool, allowed, blocked, hosts []string) (s *Server, cnt *c03sCounters, err error) {
	c03sCertOnce.Do(func() {
		_, certPem, keyPem := createServerTLSConfig(c03sT)
		c03sCert, err = tls.X509KeyPair(certPem, keyPem)
		if err != nil {
			panic(err)
		}
	})

	cnt = newC03sCounters()
	flt, err := filtering.New(&filtering.Config{
		BlockingMode:    filtering.BlockingModeDefault,
		BlockedServices: emptyFilteringBlockedServices(),
		ApplyClientFiltering: func(_ string, _ netip.Addr, _ *filtering.Settings) {
			cnt.filtered.Add(1)
		},
	}, nil)
	if err != nil {
		return nil, nil, err
	}
	flt.SetEnabled(true)

	s, err = NewServer(DNSCreateParams{
		DHCPServer: &testDHCP{
			OnEnabled:  func() (ok bool) { return false },
			OnHostByIP: func(ip netip.Addr) (host string) { return "" },
			OnIPByHost: func(host string) (ip netip.Addr) { return netip.Addr{} },
		},
		DNSFilter:   flt,
		PrivateNets: netutil.SubnetSetFunc(netutil.IsLocallyServed),
		Logger:      slogutil.NewDiscardLogger(),
		QueryLog:    &c03sQueryLog{c: cnt},
		Stats:       &c03sStats{c: cnt},
	})
	if err != nil {
		return nil, nil, err
	}

	cert := c03sCert
	err = s.Prepare(&ServerConfig{
		UDPListenAddrs: []*net.UDPAddr{{}},
		TCPListenAddrs: []*net.TCPAddr{{}},
		TLSConf: &TLSConfig{
			TLSListenAddrs: []*net.TCPAddr{{}},
			ServerName:     srvName,
			StrictSNICheck: strict,
			Cert:           &cert,
		},
		Config: Config{
			AllowedClients:    allowed,
			DisallowedClients: blocked,
			BlockedHosts:      hosts,
			UpstreamMode:      UpstreamModeLoadBalance,
			EDNSClientSubnet:  &EDNSClientSubnet{Enabled: false},
			ClientsContainer:  EmptyClientsContainer{},
		},
		ServePlainDNS: true,
	})
	if err != nil {
		return nil, nil, err
	}

	s.conf.UpstreamConfig.Upstreams = []upstream.Upstream{&aghtest.UpstreamMock{
		OnAddress: func() (addr string) { return "c03.upstream.example" },
		OnExchange: func(req *dns.Msg) (resp *dns.Msg, err error) {
			cnt.inc(cnt.upstream, req.Question[0].Name)
			resp = new(dns.Msg).SetReply(req)
			if req.Question[0].Qtype == dns.TypeA {
				resp.Answer = []dns.RR{&dns.A{
					Hdr: dns.RR_Header{Name: req.Question[0].Name, Rrtype: dns.TypeA, Class: dns.ClassINET, Ttl: 60},
					A:   net.IP{1, 2, 3, 4},
				}}
			}

			return resp, nil
		},
		OnClose: func() (err error) { return nil },
	}}

	err = s.Start()
	if err != nil {
		return nil, nil, err
	}

	return s, cnt, nil
}

const (
	c03sUDPTimeout = 250 * time.Millisecond
	c03sTCPTimeout = 2 * time.Second
)

// c03sQuery sends one real request and classifies what came back.
func c03sQuery(s *Server, proto string, ip netip.Addr, sni, qname string, qtype uint16) (reply string) {
	var pp proxy.Proto
	c := &dns.Client{}
	d := &net.Dialer{}
	switch proto {
	case "udp":
		pp, c.Net, c.Timeout = proxy.ProtoUDP, "udp", c03sUDPTimeout
		d.LocalAddr = &net.UDPAddr{IP: ip.AsSlice(), Zone: ip.Zone()}
	case "tcp":
		pp, c.Net, c.Timeout = proxy.ProtoTCP, "tcp", c03sTCPTimeout
		d.LocalAddr = &net.TCPAddr{IP: ip.AsSlice(), Zone: ip.Zone()}
	case "tls":
		pp, c.Net, c.Timeout = proxy.ProtoTLS, "tcp-tls", c03sTCPTimeout
		d.LocalAddr = &net.TCPAddr{IP: ip.AsSlice(), Zone: ip.Zone()}
		c.TLSConfig = &tls.Config{InsecureSkipVerify: true, ServerName: sni}
	default:
		panic("bad proto " + proto)
	}
	c.Dialer = d

	port := netutil.NetAddrToAddrPort(s.dnsProxy.Addr(pp)).Port()
	dst := ip
	if ip.Is4() && ip.IsLoopback() {
		dst = netip.MustParseAddr("127.0.0.1")
	}
	req := &dns.Msg{
		MsgHdr:   dns.MsgHdr{Id: dns.Id(), RecursionDesired: true},
		Question: []dns.Question{{Name: qname, Qtype: qtype, Qclass: dns.ClassINET}},
	}

	resp, _, err := c.Exchange(req, netip.AddrPortFrom(dst, port).String())
	if err != nil {
		var ne net.Error
		if proto == "udp" && errorsAs(err, &ne) && ne.Timeout() {
			return "none"
		}

		return "err:" + vutil.Hex(err.Error())
	}
	switch {
	case resp.Rcode == dns.RcodeRefused && len(resp.Answer) == 0:
		return "refused"
	case resp.Rcode == dns.RcodeServerFailure && len(resp.Answer) == 0:
		return "servfail"
	case resp.Rcode == dns.RcodeSuccess:
		return "processed"
	default:
		return "rcode" + vutil.Itoa(resp.Rcode)
	}
}

func errorsAs(err error, target *net.Error) bool {
	for err != nil {
		if ne, ok := err.(net.Error); ok {
			*target = ne

			return true
		}
		u, ok := err.(interface{ Unwrap() error })
		if !ok {
			return false
		}
		err = u.Unwrap()
	}

	return false
}

type c03sReq struct {
	proto, sni, qname string
	ip                netip.Addr
	qtype             uint16
}

func c03sRun(f []string) []string {
	if f[0] != "C03.sblock" {
		panic("unknown op " + f[0])
	}
	srvName, strict := vutil.Unhex(f[1]), vutil.UnB(f[2])
	allowed, i := c03TakeList(f, 3, 5)
	blocked, i := c03TakeList(f, i, 5)
	hosts, i := c03TakeList(f, i, 1)
	k := vutil.Atoi(f[i])
	i++
	reqs := make([]c03sReq, k)
	for j := range reqs {
		g := f[i : i+8]
		i += 8
		reqs[j] = c03sReq{
			proto: g[0], ip: c03ParseIP(g[1], g[2], g[3]), sni: vutil.Unhex(g[4]),
			qname: vutil.Unhex(g[6]), qtype: uint16(vutil.Atoi(g[7])),
		}
	}

	s, cnt, err := c03sStart(srvName, strict, allowed, blocked, hosts)
	if err != nil {
		return []string{"starterr", vutil.Hex(err.Error())}
	}
	defer func() {
		_ = s.Stop()
		s.Close()
	}()

	replies := make([]string, k)
	wg := &sync.WaitGroup{}
	for j := range reqs {
		wg.Add(1)
		go func() {
			defer wg.Done()
			r := reqs[j]
			replies[j] = c03sQuery(s, r.proto, r.ip, r.sni, r.qname, r.qtype)
		}()
	}
	wg.Wait()
	// Let the server finish whatever a dropped packet may still be causing.
	time.Sleep(20 * time.Millisecond)

	var out []string
	for j, r := range reqs {
		out = append(out, replies[j],
			vutil.Itoa(cnt.get(cnt.upstream, r.qname)),
			vutil.Itoa(cnt.get(cnt.logged, r.qname)),
			vutil.Itoa(cnt.get(cnt.counted, r.qname)))
	}

	return append(out, vutil.Itoa(int(cnt.filtered.Load())))
}

// c03sLocalAddrs returns the source addresses requests can be sent from.
func c03sLocalAddrs() (ips []netip.Addr) {
	ips = []netip.Addr{
		netip.MustParseAddr("127.0.0.1"), netip.MustParseAddr("127.0.0.2"), netip.MustParseAddr("127.0.0.3"),
		netip.MustParseAddr("127.1.2.3"), netip.MustParseAddr("127.128.0.1"),
	}
	ifaces, _ := net.Interfaces()
	for _, ifc := range ifaces {
		addrs, _ := ifc.Addrs()
		for _, a := range addrs {
			ipn, ok := a.(*net.IPNet)
			if !ok {
				continue
			}
			ip, ok := netip.AddrFromSlice(ipn.IP)
			if !ok {
				continue
			}
			ip = ip.Unmap()
			if ip.Is4() && ip.IsLoopback() {
				continue
			}
			if ip.IsLinkLocalUnicast() && ip.Is6() {
				ip = ip.WithZone(ifc.Name)
			}
			ips = append(ips, ip)
		}
	}

	return ips
}

func c03sGen(r *rand.Rand, emit vutil.Emit) {
	n := vutil.N(30)
	local := c03sLocalAddrs()
	ids := []string{"cli", "other", "a-b"}
	hostRules := []string{"||blocked.example^", "*.wild.example", "||*^$dnstype=AAAA", "UPPER.example"}
	bases := []string{"blocked.example.", "wild.example.", "ok.example.", "fine.org.", "Blocked.Example."}
	for b := 0; b < n; b++ {
		// entries: the local addresses, nets around them, ids
		var pool []string
		for _, ip := range local {
			pool = append(pool, ip.String(), ip.WithZone("").String())
			w := ip.BitLen()
			for _, l := range []int{0, 1, 8, 9, 24, 30, 31, 32, 64, 127, 128} {
				if l <= w {
					pool = append(pool, ip.WithZone("").String()+"/"+vutil.Itoa(l),
						netip.PrefixFrom(ip.WithZone(""), l).Masked().String())
				}
			}
			if ip.Is4() {
				pool = append(pool, netip.AddrFrom16(ip.As16()).String())
			}
		}
		pool = append(pool, "::ffff:0:0/96", "10.0.0.0/8", "2001:db8::/32", "1.2.3.4")
		pick := func() (l []string) {
			for k := []int{0, 1, 1, 2, 3}[r.IntN(5)]; k > 0; k-- {
				if r.IntN(4) == 0 {
					l = append(l, vutil.Pick(r, ids))
				} else {
					l = append(l, vutil.Pick(r, pool))
				}
			}

			return l
		}
		var allowed, blocked, hosts []string
		if r.IntN(2) == 0 {
			allowed = pick()
		}
		blocked = pick()
		for k := r.IntN(3); k > 0; k-- {
			hosts = append(hosts, vutil.Pick(r, hostRules))
		}
		oracle := c03NewOracle(hosts)
		// Strict SNI checking is also enforced inside the TLS handshake
		// (onGetCertificate), a different mechanism; the socket run keeps it off
		// so that every generated server name reaches HandleBefore.
		strict := false

		f := []string{"C03.sblock", vutil.Hex(c03sSrvName), vutil.B(strict), vutil.Itoa(len(allowed))}
		for _, e := range allowed {
			f = append(f, c03EntryFields(e)...)
		}
		f = append(f, vutil.Itoa(len(blocked)))
		for _, e := range blocked {
			f = append(f, c03EntryFields(e)...)
		}
		f = append(f, vutil.Itoa(len(hosts)))
		for _, h := range hosts {
			f = append(f, vutil.Hex(h))
		}

		const k = 12
		f = append(f, vutil.Itoa(k))
		for j := 0; j < k; j++ {
			ip := vutil.Pick(r, local)
			proto := []string{"udp", "udp", "tcp", "tls"}[r.IntN(4)]
			sni := c03sSrvName
			switch r.IntN(6) {
			case 0, 1, 2:
				sni = vutil.Pick(r, ids) + "." + c03sSrvName
			case 3:
				// a malformed ClientID that still gets through a real TLS handshake
				sni = vutil.Pick(r, []string{"-a.", "a-.", strings.Repeat("a", 64) + ".", "x.y."}) + c03sSrvName
			case 4:
				sni = "other.example.net"
			}
			qname := fmt.Sprintf("q%d-%d.%s", b, j, vutil.Pick(r, bases))
			qtype := []uint16{dns.TypeA, dns.TypeA, dns.TypeAAAA}[r.IntN(3)]
			f = append(f, proto, map[bool]string{true: "4", false: "6"}[ip.Is4()], hex.EncodeToString(ip.AsSlice()),
				vutil.Hex(ip.Zone()), vutil.Hex(sni), vutil.B(oracle.blocked(qname, qtype)), vutil.Hex(qname),
				vutil.Itoa(int(qtype)))
		}
		emit(f...)
	}
}

func TestVerifC03Sock(t *testing.T) {
	c03sT = t
	vutil.Main(t, c03sGen, c03sRun)
}
