//go:build verif

package dnsforward

import (
	"net/netip"
	"time"

	"github.com/AdguardTeam/AdGuardHome/internal/filtering"
	"github.com/AdguardTeam/dnsproxy/proxy"
	"github.com/miekg/dns"
)

// VerifC08Process is the C08 harness's door to the unexported
// (*Server).processQueryLogsAndStats.  It is compiled into the package only by
// the verification overlay (build tag verif) and does nothing but build the
// request context the real method reads and call it.
func VerifC08Process(
	s *Server,
	name string,
	qtype uint16,
	addr netip.AddrPort,
	clientID string,
	refuseAny bool,
) {
	s.conf.RefuseAny = refuseAny

	req := &dns.Msg{}
	req.Id = 1
	req.RecursionDesired = true
	req.Question = []dns.Question{{Name: name, Qtype: qtype, Qclass: dns.ClassINET}}

	dctx := &dnsContext{
		proxyCtx: &proxy.DNSContext{
			Proto: proxy.ProtoUDP,
			Req:   req,
			Addr:  addr,
		},
		result:    &filtering.Result{},
		startTime: time.Now(),
		clientID:  clientID,
	}

	_ = s.processQueryLogsAndStats(dctx)
}

// VerifC08SetAccess gives s an access manager with the given disallowed
// clients (addresses, CIDRs, ClientIDs), built by the real newAccessCtx, as
// Prepare does from the configuration.
func VerifC08SetAccess(s *Server, disallowed []string) (err error) {
	a, err := newAccessCtx(nil, disallowed, nil)
	if err != nil {
		return err
	}

	s.serverLock.Lock()
	defer s.serverLock.Unlock()

	s.access = a

	return nil
}
