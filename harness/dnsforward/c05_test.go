//go:build verif

package dnsforward

// C05 harness (DESIGN §2 C05).  Three kinds of cases:
//
//	C05.sched  a random goroutine program over a few locks and variables and a
//	           schedule, executed step by step on REAL sync.Mutex/sync.RWMutex
//	           objects (TryLock/TryRLock decide whether a step is granted); the
//	           driver runs the same schedule on the Lean machine.
//	C05.pend   the pending-writer rule of sync.RWMutex on the real runtime.
//	C05.run    a stress run of the real server in a CHILD process of this test
//	           binary (built with -race): DNS queries against concurrent admin
//	           operations and background workers.  The parent parses the race
//	           detector's log, the exit status (panic / fatal error) and the
//	           watchdog (deadlock), so that a crashing or hanging run is an
//	           observation, not a harness failure.

import (
	"context"
	"encoding/json"
	"fmt"
	"hash/fnv"
	"math/rand/v2"
	"net"
	"net/http"
	"net/http/httptest"
	"net/netip"
	"os"
	"path/filepath"
	"runtime"
	"sort"
	"strings"
	"sync"
	"sync/atomic"
	"testing"
	"time"

	"github.com/AdguardTeam/AdGuardHome/internal/aghnet"
	"github.com/AdguardTeam/AdGuardHome/internal/c05util"
	"github.com/AdguardTeam/AdGuardHome/internal/client"
	"github.com/AdguardTeam/AdGuardHome/internal/dhcpsvc"
	"github.com/AdguardTeam/AdGuardHome/internal/filtering"
	"github.com/AdguardTeam/AdGuardHome/internal/filtering/safesearch"
	"github.com/AdguardTeam/AdGuardHome/internal/querylog"
	"github.com/AdguardTeam/AdGuardHome/internal/stats"
	"github.com/AdguardTeam/AdGuardHome/internal/vutil"
	"github.com/AdguardTeam/AdGuardHome/internal/whois"
	"github.com/AdguardTeam/dnsproxy/proxy"
	"github.com/AdguardTeam/golibs/logutil/slogutil"
	"github.com/AdguardTeam/golibs/netutil"
	"github.com/AdguardTeam/golibs/timeutil"
	"github.com/miekg/dns"
)

// ---------------------------------------------------------------- C05.sched

const (
	c05Locks   = 4 // lock ids 0..3; ids 0,1 are RWMutex, 2,3 are Mutex
	c05RWLocks = 2
	c05Vars    = 3
)

// c05Event is one event token: aS<l> aX<l> rS<l> rX<l> R<x> W<x>.
func c05GenThread(r *rand.Rand, disciplined bool, guard []int) []string {
	var evs []string
	type hold struct {
		l    int
		excl bool
	}
	var held []hold
	n := 1 + r.IntN(7)
	for i := 0; i < n; i++ {
		switch k := r.IntN(10); {
		case k < 4:
			l := r.IntN(c05Locks)
			if disciplined {
				// ranked: only locks above everything held
				top := -1
				for _, h := range held {
					if h.l > top {
						top = h.l
					}
				}
				if top+1 >= c05Locks {
					continue
				}
				l = top + 1 + r.IntN(c05Locks-top-1)
			}
			excl := l >= c05RWLocks || r.IntN(2) == 0
			held = append(held, hold{l, excl})
			evs = append(evs, "a"+c05Mode(excl)+vutil.Itoa(l))
		case k < 6:
			if len(held) == 0 {
				continue
			}
			j := r.IntN(len(held))
			h := held[j]
			held = append(held[:j], held[j+1:]...)
			evs = append(evs, "r"+c05Mode(h.excl)+vutil.Itoa(h.l))
		default:
			x := r.IntN(c05Vars)
			write := r.IntN(2) == 0
			if disciplined {
				ok := false
				for _, h := range held {
					if h.l == guard[x] && (h.excl || !write) {
						ok = true
					}
				}
				if !ok {
					continue
				}
			}
			if write {
				evs = append(evs, "W"+vutil.Itoa(x))
			} else {
				evs = append(evs, "R"+vutil.Itoa(x))
			}
		}
	}
	if disciplined || r.IntN(3) > 0 {
		for j := len(held) - 1; j >= 0; j-- {
			evs = append(evs, "r"+c05Mode(held[j].excl)+vutil.Itoa(held[j].l))
		}
	} else if r.IntN(4) == 0 {
		// a release of something not held
		evs = append(evs, "r"+c05Mode(r.IntN(2) == 0)+vutil.Itoa(r.IntN(c05RWLocks)))
	}

	return evs
}

func c05Mode(excl bool) string {
	if excl {
		return "X"
	}

	return "S"
}

func c05GenSched(r *rand.Rand, emit vutil.Emit) {
	guard := make([]int, c05Vars)
	for i := range guard {
		guard[i] = r.IntN(c05Locks)
	}
	disciplined := r.IntN(3) > 0
	nThreads := 1 + r.IntN(4)
	fields := []string{"C05.sched", vutil.Itoa(nThreads)}
	total := 0
	for t := 0; t < nThreads; t++ {
		// a disciplined program may still contain one sloppy thread
		evs := c05GenThread(r, disciplined && r.IntN(12) > 0, guard)
		total += len(evs)
		fields = append(fields, vutil.Itoa(len(evs)))
		fields = append(fields, evs...)
	}
	n := total + r.IntN(total+3)
	fields = append(fields, vutil.Itoa(n))
	for i := 0; i < n; i++ {
		fields = append(fields, vutil.Itoa(r.IntN(nThreads+1))) // sometimes an index out of range
	}
	fields = append(fields, vutil.Itoa(c05Vars))
	for _, g := range guard {
		fields = append(fields, vutil.Itoa(g))
	}
	fields = append(fields, vutil.Itoa(c05Locks))
	for l := 0; l < c05Locks; l++ {
		fields = append(fields, vutil.Itoa(l)) // rank = id
	}
	fields = append(fields, vutil.Itoa(c05RWLocks))
	emit(fields...)
}

// c05RunSched executes the schedule on real locks.
func c05RunSched(f []string) []string {
	p := 1
	next := func() string { s := f[p]; p++; return s }
	nThreads := vutil.Atoi(next())
	threads := make([][]string, nThreads)
	for t := range threads {
		n := vutil.Atoi(next())
		for i := 0; i < n; i++ {
			threads[t] = append(threads[t], next())
		}
	}
	nSched := vutil.Atoi(next())
	sched := make([]int, nSched)
	for i := range sched {
		sched[i] = vutil.Atoi(next())
	}

	rw := make([]*sync.RWMutex, c05Locks)
	mu := make([]*sync.Mutex, c05Locks)
	for l := 0; l < c05Locks; l++ {
		if l < c05RWLocks {
			rw[l] = &sync.RWMutex{}
		} else {
			mu[l] = &sync.Mutex{}
		}
	}
	type hold struct {
		l    int
		excl bool
	}
	held := make([][]hold, nThreads)
	pc := make([]int, nThreads)
	var grants strings.Builder
	for _, t := range sched {
		if t >= nThreads || pc[t] >= len(threads[t]) {
			grants.WriteByte('0')

			continue
		}
		ev := threads[t][pc[t]]
		ok := false
		switch ev[0] {
		case 'R', 'W':
			ok = true
		case 'a':
			l := vutil.Atoi(ev[2:])
			excl := ev[1] == 'X'
			switch {
			case l < c05RWLocks && excl:
				ok = rw[l].TryLock()
			case l < c05RWLocks:
				ok = rw[l].TryRLock()
			case excl:
				ok = mu[l].TryLock()
			default:
				panic("shared acquisition of a sync.Mutex")
			}
			if ok {
				held[t] = append(held[t], hold{l, excl})
			}
		case 'r':
			l := vutil.Atoi(ev[2:])
			excl := ev[1] == 'X'
			for j := len(held[t]) - 1; j >= 0; j-- {
				if held[t][j] == (hold{l, excl}) {
					held[t] = append(held[t][:j], held[t][j+1:]...)
					switch {
					case l < c05RWLocks && excl:
						rw[l].Unlock()
					case l < c05RWLocks:
						rw[l].RUnlock()
					default:
						mu[l].Unlock()
					}
					ok = true

					break
				}
			}
		}
		if ok {
			pc[t]++
			grants.WriteByte('1')
		} else {
			grants.WriteByte('0')
		}
	}
	// final state of every lock as the runtime sees it
	var probe strings.Builder
	for l := 0; l < c05Locks; l++ {
		switch {
		case l < c05RWLocks && rw[l].TryLock():
			rw[l].Unlock()
			probe.WriteByte('F')
		case l < c05RWLocks && rw[l].TryRLock():
			rw[l].RUnlock()
			probe.WriteByte('S')
		case l < c05RWLocks:
			probe.WriteByte('X')
		case mu[l].TryLock():
			mu[l].Unlock()
			probe.WriteByte('F')
		default:
			probe.WriteByte('X')
		}
	}
	g := grants.String()
	if g == "" {
		g = "-"
	}

	return []string{g, probe.String()}
}

// c05RunPend checks the pending-writer rule: with n read locks held and a
// goroutine blocked in Lock, a further RLock is refused.
func c05RunPend(f []string) []string {
	n := vutil.Atoi(f[1])
	var l sync.RWMutex
	for i := 0; i < n; i++ {
		l.RLock()
	}
	acquired := make(chan struct{})
	go func() {
		l.Lock()
		close(acquired)
	}()
	refused := false
	deadline := time.Now().Add(5 * time.Second)
	for time.Now().Before(deadline) {
		if l.TryRLock() {
			l.RUnlock()
			runtime.Gosched()

			continue
		}
		refused = true

		break
	}
	if n == 0 {
		// nothing held: the writer simply gets the lock; readers are refused
		// because it HOLDS it.
		<-acquired
		l.Unlock()

		return []string{vutil.B(refused)}
	}
	for i := 0; i < n; i++ {
		l.RUnlock()
	}
	<-acquired
	l.Unlock()

	return []string{vutil.B(refused)}
}

// ---------------------------------------------------------------- C05.run (parent side)

var c05DNSKinds = []string{"plain", "blocked", "rewrite", "safebrowsing", "parental", "safesearch", "mixed"}

var c05AdminOps = []string{
	"access_set", "clients", "set_rules", "filter_add_remove", "filtering_config", "refresh",
	"rewrites", "blocked_services", "protection_pause", "safesearch", "safebrowsing_parental",
	"querylog_config", "querylog_read", "stats_config", "stats_read", "dns_config", "stats_reset", "querylog_clear", "clients_list", "mixed",
}

func c05GenRun(r *rand.Rand, emit vutil.Emit, n int) {
	// systematic sweep first: every admin op against the mixed query load in
	// the wiring of internal/home, then the ops that write under serverLock or
	// filtersMu in the wiring without the recursive read locks, then the query
	// kinds with their own lock paths; random triples after that.
	var scn [][3]string
	for _, op := range c05AdminOps {
		scn = append(scn, [3]string{"mixed", op, "home"})
	}
	for _, op := range []string{
		"access_set", "dns_config", "protection_pause", "set_rules", "filter_add_remove",
		"filtering_config", "querylog_config", "mixed",
	} {
		scn = append(scn, [3]string{"mixed", op, "norecurse"})
	}
	for _, k := range []string{"safebrowsing", "plain"} {
		scn = append(scn, [3]string{k, "access_set", "home"})
	}
	scn = append(scn, [3]string{"safebrowsing", "access_set", "blockhost"}, [3]string{"parental", "dns_config", "blockhost"})
	// statistics readers and writers against continuous unit rotation
	// query-log clears under Add load with a tiny memory buffer
	scn = append(scn, [3]string{"plain", "querylog_clear", "smallqlog"}, [3]string{"mixed", "mixed", "smallqlog"})
	// reload bursts during a gated refresh download (about 6 s: the first
	// refresh of the updates loop happens 5 s after the start)
	scn = append(scn, [3]string{"plain", "enable_burst", "gated"})
	scn = append(scn, [3]string{"mixed", "stats_read", "rotate"}, [3]string{"plain", "stats_config", "rotate"},
		[3]string{"mixed", "mixed", "rotate"})
	for i := 0; i < n; i++ {
		var sc [3]string
		if i < len(scn) {
			sc = scn[i]
		} else {
			sc = [3]string{vutil.Pick(r, c05DNSKinds), vutil.Pick(r, c05AdminOps), vutil.Pick(r, []string{"home", "norecurse", "norecurse", "blockhost", "rotate", "smallqlog"})}
		}
		emit("C05.run", sc[0], sc[1], vutil.Itoa(2+r.IntN(2)), vutil.Itoa(120+r.IntN(120)), "2",
			vutil.Itoa(int(r.Uint32()>>1)), sc[2])
	}
}

// TestVerifC05 is the entry point used by bin/check.
func TestVerifC05(t *testing.T) {
	nRun := vutil.N(26)
	nSched := 20000
	if vutil.Thorough() {
		nSched = 300000
	}
	if v := os.Getenv("C05_NSCHED"); v != "" {
		nSched = vutil.Atoi(v)
	}
	gen := func(r *rand.Rand, emit vutil.Emit) {
		// the findings still excluded from the per-program theorems, as the
		// regenerated tables list them
		var ids []string
		for id := range c05util.StaticKnown() {
			ids = append(ids, id)
		}
		sort.Strings(ids)
		for _, id := range ids {
			emit("C05.static", id)
		}
		for _, n := range []int{0, 1, 2, 5} {
			emit("C05.pend", vutil.Itoa(n))
		}
		for i := 0; i < nSched; i++ {
			c05GenSched(r, emit)
		}
		c05GenRun(r, emit, nRun)
	}
	run := func(f []string) []string {
		switch f[0] {
		case "C05.sched":
			return c05RunSched(f)
		case "C05.pend":
			return c05RunPend(f)
		case "C05.run":
			return c05util.RunStress("TestVerifC05Child", f)
		case "C05.static":
			return c05Static(f[1])
		default:
			panic("unknown op " + f[0])
		}
	}
	vutil.Main(t, gen, run)
}

// ---------------------------------------------------------------- C05.run (child side)

type c05Checker struct{ prefix string }

// Check implements the [filtering.Checker] interface: names starting with the
// prefix are blocked.  The short sleep stands for the hash-prefix lookup the
// real checker makes over the network.
func (c c05Checker) Check(host string) (block bool, err error) {
	if strings.HasPrefix(host, c.prefix) {
		time.Sleep(50 * time.Microsecond)

		return true, nil
	}

	return false, nil
}

// c05DHCP is a [client.DHCP] with leases, with hostnames, for the addresses
// the stress queries come from.  Every other call the lease of 127.0.0.1 has
// another hostname, like a client that renews with a changed name.
type c05DHCP struct{ n atomic.Uint64 }

var c05ClientAddrs = []netip.Addr{netip.MustParseAddr("127.0.0.1"), netip.MustParseAddr("::1")}

func (d *c05DHCP) host(ip netip.Addr) (host string) {
	for i, a := range c05ClientAddrs {
		if a == ip {
			return fmt.Sprintf("laptop%d-%d", i, d.n.Add(1)/64%2)
		}
	}

	return ""
}

// Leases implements the [client.DHCP] interface for *c05DHCP.
func (d *c05DHCP) Leases() (leases []*dhcpsvc.Lease) {
	for i, a := range c05ClientAddrs {
		leases = append(leases, &dhcpsvc.Lease{
			IP: a, Hostname: d.host(a), HWAddr: net.HardwareAddr{2, 0, 0, 0, 0, byte(i + 1)},
		})
	}

	return leases
}

// HostByIP implements the [client.DHCP] interface for *c05DHCP.
func (d *c05DHCP) HostByIP(ip netip.Addr) (host string) { return d.host(ip) }

// MACByIP implements the [client.DHCP] interface for *c05DHCP.
func (d *c05DHCP) MACByIP(_ netip.Addr) (mac net.HardwareAddr) { return nil }

// clientsList does what GET /control/clients (home.handleGetClients) does with
// the client storage.
func (w *c05World) clientsList() {
	n := 0
	w.storage.RangeByName(func(c *client.Persistent) (cont bool) { n += len(c.Name); return true })
	w.storage.UpdateDHCP(context.Background())
	w.storage.RangeRuntime(func(rc *client.Runtime) (cont bool) {
		_, host := rc.Info()
		if wi := rc.WHOIS(); wi != nil {
			n += len(wi.City)
		}
		n += len(host) + rc.Addr().BitLen()

		return true
	})
	_ = w.storage.AllowedTags()
}

// addrUpdate is what the rDNS and WHOIS workers of the address processor do
// with their results for the addresses of the clients.
func (w *c05World) addrUpdate(i int) {
	ip := c05ClientAddrs[i%len(c05ClientAddrs)]
	var wi *whois.Info
	if i%2 == 0 {
		wi = &whois.Info{City: []string{"Ayton", "Beeford"}[i/2%2], Country: "AU", Orgname: "org"}
	}
	host := ""
	if i%3 != 2 {
		host = fmt.Sprintf("client%d.rdns.example", i%2)
	}
	w.storage.UpdateAddress(context.Background(), ip, host, wi)
}

type c05World struct {
	// norecurse: a configuration that avoids the two recursive read locks of
	// serverLock (block hosts given as addresses; the query log's client
	// finder does not ask the server whether the client is blocked), so that
	// the other observations are not cut short by that deadlock.
	norecurse bool
	// blockhost: as norecurse, but the safe-browsing / parental block hosts are
	// host names (the defaults), so that only the recursive read lock inside
	// package dnsforward (genBlockedHost > proxy) remains.
	blockhost bool
	// rotate: as norecurse, and the statistics unit ID changes on every call
	// (about every 2 ms), so that the flush worker rotates the unit and writes
	// the database all the time, like at every hour boundary.
	rotate bool
	// gated: as norecurse, with one outdated filter list whose download (the
	// periodic refresh of the updates loop, 5 s after the start) is held back
	// by a local HTTP server until release is closed.
	gated bool
	// smallqlog: as norecurse, with a query-log memory buffer of 3 entries, so
	// that Add spawns a size-triggered flush goroutine every few queries.
	smallqlog bool
	entered   chan struct{}
	release chan struct{}
	t       *testing.T
	srv      *Server
	flt      *filtering.DNSFilter
	st       *stats.StatsCtx
	ql       querylog.QueryLog
	storage  *client.Storage
	handlers map[string]http.HandlerFunc
	hmu      sync.Mutex
	addr     string
	addrTCP  string
	dir      string
	panics   atomic.Int64
	panicMsg atomic.Value
}

func (w *c05World) register(method, url string, h http.HandlerFunc) {
	w.hmu.Lock()
	defer w.hmu.Unlock()
	w.handlers[method+" "+url] = h
}

// configModified does what home.onConfigModified > configuration.write does
// with the modules: it collects their current configuration.
func (w *c05World) configModified() {
	if w.srv != nil {
		c := &Config{}
		w.srv.WriteDiskConfig(c)
	}
	if w.flt != nil {
		fc := &filtering.Config{}
		w.flt.WriteDiskConfig(fc)
	}
	if w.st != nil {
		sc := &stats.Config{}
		w.st.WriteDiskConfig(sc)
	}
	if w.ql != nil {
		qc := &querylog.Config{}
		w.ql.WriteDiskConfig(qc)
	}
}

// findClient is home's clientsContainer.findMultiple/clientOrArtificial: the
// persistent client if there is one, plus whether the access settings block it.
func (w *c05World) findClient(ids []string) (c *querylog.Client, err error) {
	for _, id := range ids {
		ip, _ := netip.ParseAddr(id)
		c = &querylog.Client{}
		if cli, ok := w.storage.FindLoose(ip, id); ok {
			c.Name = cli.Name
			c.IgnoreQueryLog = cli.IgnoreQueryLog
		} else if rc := w.storage.ClientRuntime(ip); rc != nil {
			// the runtime client: read after the storage lock is released
			_, c.Name = rc.Info()
			c.WHOIS = rc.WHOIS()
		}
		if !w.norecurse {
			c.Disallowed, c.DisallowedRule = w.srv.IsBlockedClient(ip, id)
		}

		return c, nil
	}

	return nil, nil
}

func (w *c05World) shouldCountClient(ids []string) (y bool) {
	for _, id := range ids {
		if cli, ok := w.storage.Find(id); ok {
			return !cli.IgnoreStatistics
		}
	}

	return true
}

func (w *c05World) call(method, url, body string) int {
	path := url
	if i := strings.IndexByte(path, '?'); i >= 0 {
		path = path[:i]
	}
	w.hmu.Lock()
	h := w.handlers[method+" "+path]
	w.hmu.Unlock()
	if h == nil {
		panic("c05: no handler for " + method + " " + url)
	}
	defer func() {
		if v := recover(); v != nil {
			w.panics.Add(1)
			w.panicMsg.Store(fmt.Sprintf("%s %s: %v", method, url, v))
		}
	}()
	r := httptest.NewRequest(method, url, strings.NewReader(body))
	r.Header.Set("Content-Type", "application/json")
	rec := httptest.NewRecorder()
	h(rec, r)

	return rec.Code
}

func c05MemSize(small bool) uint {
	if small {
		return 3
	}

	return 20
}

func c05StartUpstream(t *testing.T) (addr string) {
	pc, err := net.ListenPacket("udp", "127.0.0.1:0")
	if err != nil {
		t.Fatal(err)
	}
	srv := &dns.Server{PacketConn: pc, Handler: dns.HandlerFunc(func(w dns.ResponseWriter, req *dns.Msg) {
		resp := (&dns.Msg{}).SetReply(req)
		if len(req.Question) == 1 && req.Question[0].Qtype == dns.TypeA {
			// several records: every one of them is checked by the response filter
			for k := byte(1); k <= 6; k++ {
				resp.Answer = append(resp.Answer, &dns.A{
					Hdr: dns.RR_Header{Name: req.Question[0].Name, Rrtype: dns.TypeA, Class: dns.ClassINET, Ttl: 1},
					A:   net.IP{192, 0, 2, k},
				})
			}
		}
		_ = w.WriteMsg(resp)
	})}
	go func() { _ = srv.ActivateAndServe() }()
	t.Cleanup(func() { _ = srv.Shutdown() })

	return pc.LocalAddr().String()
}

func c05NewWorld(t *testing.T, dir string, wiring string) (w *c05World) {
	norecurse := wiring == "norecurse" || wiring == "blockhost" || wiring == "rotate" || wiring == "gated" || wiring == "smallqlog"
	w = &c05World{
		t: t, handlers: map[string]http.HandlerFunc{}, dir: dir, norecurse: norecurse,
		blockhost: wiring == "blockhost", rotate: wiring == "rotate", gated: wiring == "gated", smallqlog: wiring == "smallqlog",
		entered: make(chan struct{}), release: make(chan struct{}),
	}
	ctx := context.Background()
	logger := slogutil.NewDiscardLogger()
	var err error

	// The DHCP server is a source of runtime clients and has leases with
	// hostnames for the addresses the queries come from (the defaults of
	// home/config.go: clients.runtime_sources.dhcp is on).
	w.storage, err = client.NewStorage(ctx, &client.StorageConfig{
		Logger: logger, Clock: timeutil.SystemClock{}, DHCP: &c05DHCP{}, RuntimeSourceDHCP: true,
	})
	if err != nil {
		t.Fatal(err)
	}

	ss, err := safesearch.NewDefault(ctx, &safesearch.DefaultConfig{
		Logger: logger, CacheSize: 1000, CacheTTL: time.Minute,
		ServicesConfig: filtering.SafeSearchConfig{Enabled: true, Google: true, Bing: true, YouTube: true},
	})
	if err != nil {
		t.Fatal(err)
	}

	listFile := filepath.Join(dir, "list1.txt")
	if err = os.WriteFile(listFile, []byte("||fromlist.example^\n"), 0o644); err != nil {
		t.Fatal(err)
	}
	fconf := &filtering.Config{
		SafeBrowsingChecker:    c05Checker{"sb."},
		ParentalControlChecker: c05Checker{"adult."},
		SafeSearch:             ss,
		ApplyClientFiltering:   w.storage.ApplyClientFiltering,
		BlockedServices:        emptyFilteringBlockedServices(),
		ConfigModified:         w.configModified,
		HTTPRegister:           w.register,
		DataDir:                dir,
		SafeFSPatterns:         []string{filepath.Join(dir, "*")},
		// the defaults of home/config.go: block hosts given as host names
		SafeBrowsingBlockHost: "standard-block.dns.adguard.com",
		ParentalBlockHost:     "family-block.dns.adguard.com",
		SafeBrowsingEnabled:   true,
		ParentalEnabled:       true,
		SafeSearchConf:        filtering.SafeSearchConfig{Enabled: true, Google: true, Bing: true, YouTube: true},
		ProtectionEnabled:     true,
		FilteringEnabled:      true,
		BlockingMode:          filtering.BlockingModeDefault,
		BlockedResponseTTL:    10,
		CacheTime:             30,
		FiltersUpdateIntervalHours: 24,
		Rewrites: []*filtering.LegacyRewrite{{Domain: "rewritten.example", Answer: "10.1.1.1"}},
		UserRules: []string{"||user-blocked.example^"},
	}
	if w.gated {
		var once sync.Once
		srv := httptest.NewServer(http.HandlerFunc(func(rw http.ResponseWriter, _ *http.Request) {
			once.Do(func() { close(w.entered) })
			<-w.release
			_, _ = rw.Write([]byte("||refreshed.example^\n||another.example^\n"))
		}))
		t.Cleanup(srv.Close)
		fconf.HTTPClient = &http.Client{Timeout: time.Minute}
		fconf.FiltersUpdateIntervalHours = 1
		fconf.Filters = []filtering.FilterYAML{{
			Enabled: true, URL: srv.URL + "/list.txt", Name: "gated list", Filter: filtering.Filter{ID: 1},
		}}
	}
	if norecurse && !w.blockhost {
		fconf.SafeBrowsingBlockHost, fconf.ParentalBlockHost = "192.0.2.10", "192.0.2.11"
	}
	rules := "||blocked.example^\n||nxdomain.example.org\n127.0.0.1\thost.example.org\n@@||whitelist.example.org^\n"
	w.flt, err = filtering.New(fconf, []filtering.Filter{{ID: 0, Data: []byte(rules)}})
	if err != nil {
		t.Fatal(err)
	}
	w.flt.SetEnabled(true)

	statsIgn, _ := aghnet.NewIgnoreEngine(nil)
	var unitID stats.UnitIDGenFunc
	if w.rotate {
		var ctr atomic.Uint32
		ctr.Store(uint32(time.Now().Unix() / 3600))
		unitID = func() (id uint32) {
			time.Sleep(2 * time.Millisecond)

			return ctr.Add(1)
		}
	}
	w.st, err = stats.New(stats.Config{
		UnitID: unitID,
		Logger: logger, Filename: filepath.Join(dir, "stats.db"), Limit: 24 * time.Hour,
		ConfigModified: w.configModified, HTTPRegister: w.register, Enabled: true,
		ShouldCountClient: w.shouldCountClient, Ignored: statsIgn,
	})
	if err != nil {
		t.Fatal(err)
	}

	qlIgn, _ := aghnet.NewIgnoreEngine([]string{"ignored.example"})
	w.ql, err = querylog.New(querylog.Config{
		Logger: logger, Anonymizer: aghnet.NewIPMut(nil), ConfigModified: w.configModified,
		HTTPRegister: w.register, FindClient: w.findClient, BaseDir: dir, RotationIvl: 24 * time.Hour,
		// a small memory buffer: the flush-to-file worker runs all the time
		MemSize: c05MemSize(w.smallqlog), Enabled: true, FileEnabled: true, Ignored: qlIgn,
	})
	if err != nil {
		t.Fatal(err)
	}

	w.srv, err = NewServer(DNSCreateParams{
		DNSFilter: w.flt, Stats: w.st, QueryLog: w.ql,
		DHCPServer: &testDHCP{
			OnEnabled:  func() (ok bool) { return false },
			OnHostByIP: func(ip netip.Addr) (host string) { return "" },
			OnIPByHost: func(host string) (ip netip.Addr) { return netip.Addr{} },
		},
		PrivateNets: netutil.SubnetSetFunc(netutil.IsLocallyServed),
		Logger:      logger,
	})
	if err != nil {
		t.Fatal(err)
	}
	up := c05StartUpstream(t)
	webRegistered = false
	err = w.srv.Prepare(&ServerConfig{
		UDPListenAddrs: []*net.UDPAddr{{IP: net.IP{127, 0, 0, 1}}},
		TCPListenAddrs: []*net.TCPAddr{{IP: net.IP{127, 0, 0, 1}}},
		Config: Config{
			UpstreamMode:     UpstreamModeLoadBalance,
			UpstreamDNS:      []string{up},
			EDNSClientSubnet: &EDNSClientSubnet{Enabled: false},
			ClientsContainer: w.storage,
			CacheSize:        0,
			RatelimitSubnetLenIPv4: 24,
			RatelimitSubnetLenIPv6: 56,
		},
		TLSConf:        &TLSConfig{},
		ConfigModified: w.configModified,
		HTTPRegister:   w.register,
		ServePlainDNS:  true,
	})
	if err != nil {
		t.Fatal(err)
	}
	if err = w.srv.Start(); err != nil {
		t.Fatal(err)
	}
	w.st.Start()
	if err = w.ql.Start(ctx); err != nil {
		t.Fatal(err)
	}
	w.flt.Start()
	if err = w.storage.Start(ctx); err != nil {
		t.Fatal(err)
	}
	w.addr = w.srv.dnsProxy.Addr(proxy.ProtoUDP).String()
	w.addrTCP = w.srv.dnsProxy.Addr(proxy.ProtoTCP).String()

	return w
}

var c05Names = map[string][]string{
	"plain":        {"plain1.example.", "plain2.example.", "whitelist.example.org.", "ignored.example."},
	"blocked":      {"blocked.example.", "nxdomain.example.org.", "user-blocked.example.", "host.example.org."},
	"rewrite":      {"rewritten.example.", "added.rewrite.example."},
	"safebrowsing": {"sb.bad.example."},
	"parental":     {"adult.bad.example."},
	"safesearch":   {"www.google.com.", "www.bing.com.", "www.youtube.com."},
}

func (w *c05World) names(kind string) []string {
	if kind == "mixed" {
		var all []string
		for _, k := range []string{"plain", "blocked", "rewrite", "safebrowsing", "parental", "safesearch"} {
			all = append(all, c05Names[k]...)
		}

		return all
	}

	return c05Names[kind]
}

// adminOp performs one admin operation of the given kind; i alternates.
func (w *c05World) adminOp(kind string, i int, r *rand.Rand) {
	on := i%2 == 0
	switch kind {
	case "mixed":
		w.adminOp(c05AdminOps[r.IntN(len(c05AdminOps)-1)], i, r)
	case "access_set":
		body := fmt.Sprintf(`{"allowed_clients":[],"disallowed_clients":["10.9.%d.1","bad-client-%d"],"blocked_hosts":["blockedhost%d.example","version.bind"]}`, i%200, i%7, i%5)
		switch i % 4 {
		case 1:
			// the minimal valid bodies: optional fields left out / null
			body = `{}`
		case 3:
			body = fmt.Sprintf(`{"disallowed_clients":["10.8.%d.1"],"blocked_hosts":null}`, i%200)
		}
		w.call("POST", "/control/access/set", body)
		if i%5 == 0 {
			w.call("GET", "/control/access/list", "")
		}
	case "clients":
		name := fmt.Sprintf("cli%d", i%3)
		if on {
			_ = w.storage.Add(context.Background(), &client.Persistent{
				Name: name, UID: client.MustNewUID(), IPs: []netip.Addr{netip.MustParseAddr("127.0.0.1")},
				ClientIDs:             []string{fmt.Sprintf("cid%d", i%3)},
				UseOwnSettings:        true,
				FilteringEnabled:      true,
				SafeBrowsingEnabled:   i%4 == 0,
				UseOwnBlockedServices: true,
				BlockedServices:       emptyFilteringBlockedServices(),
			})
		} else {
			w.storage.RemoveByName(context.Background(), name)
		}
	case "clients_list":
		w.clientsList()
		w.addrUpdate(i)
		if i%8 == 0 {
			time.Sleep(200 * time.Microsecond)
		}
	case "set_rules":
		switch i % 5 {
		case 1:
			w.call("POST", "/control/filtering/set_rules", `{}`)
		case 3:
			w.call("POST", "/control/filtering/set_rules", `{"rules":[]}`)
		default:
			w.call("POST", "/control/filtering/set_rules", fmt.Sprintf(`{"rules":["||user-blocked.example^","||r%d.example^","@@||ok%d.example^"]}`, i, i))
		}
		if i%3 == 0 {
			w.call("GET", "/control/filtering/status", "")
		}
	case "filter_add_remove":
		url := filepath.Join(w.dir, "list1.txt")
		if on {
			w.call("POST", "/control/filtering/add_url", fmt.Sprintf(`{"name":"l%d","url":%q,"whitelist":false}`, i, url))
		} else {
			w.call("POST", "/control/filtering/remove_url", fmt.Sprintf(`{"url":%q,"whitelist":false}`, url))
		}
		w.call("GET", "/control/filtering/status", "")
	case "filtering_config":
		w.call("POST", "/control/filtering/config", fmt.Sprintf(`{"enabled":%v,"interval":%d}`, on || i%4 != 1, []int{1, 12, 24}[i%3]))
	case "refresh":
		w.call("POST", "/control/filtering/refresh", `{"whitelist":false}`)
	case "rewrites":
		if on {
			w.call("POST", "/control/rewrite/add", `{"domain":"added.rewrite.example","answer":"10.2.2.2"}`)
		} else {
			w.call("POST", "/control/rewrite/delete", `{"domain":"added.rewrite.example","answer":"10.2.2.2"}`)
		}
		w.call("GET", "/control/rewrite/list", "")
	case "blocked_services":
		ids := `[]`
		if on {
			ids = `["youtube","facebook"]`
		}
		// the body varies: schedule present / absent / null / with a range,
		// ids empty / non-empty / absent; and the legacy endpoint
		switch i % 6 {
		case 0:
			w.call("PUT", "/control/blocked_services/update", `{"ids":`+ids+`,"schedule":{"time_zone":"UTC"}}`)
		case 1:
			w.call("PUT", "/control/blocked_services/update", `{"ids":`+ids+`}`)
		case 2:
			w.call("PUT", "/control/blocked_services/update", `{"ids":`+ids+`,"schedule":null}`)
		case 3:
			w.call("PUT", "/control/blocked_services/update", `{"schedule":{"time_zone":"UTC","mon":{"start":0,"end":3600000}}}`)
		case 4:
			w.call("PUT", "/control/blocked_services/update", `{}`)
		default:
			w.call("POST", "/control/blocked_services/set", ids)
		}
		w.call("GET", "/control/blocked_services/get", "")
	case "protection_pause":
		if on {
			// pause for 1 ms: the re-enable timer worker fires right away
			w.call("POST", "/control/protection", `{"enabled":false,"duration":1}`)
		} else {
			if i%4 == 1 {
				w.call("POST", "/control/protection", `{"enabled":true}`)
			} else {
				w.call("POST", "/control/protection", `{"enabled":true,"duration":0}`)
			}
		}
		w.call("GET", "/control/dns_info", "")
	case "safesearch":
		if i%3 == 1 {
			w.call("PUT", "/control/safesearch/settings", fmt.Sprintf(`{"enabled":%v}`, on))
		} else {
			w.call("PUT", "/control/safesearch/settings", fmt.Sprintf(`{"enabled":%v,"bing":true,"duckduckgo":true,"ecosia":true,"google":%v,"pixabay":true,"yandex":true,"youtube":true}`, on || i%4 != 1, on))
		}
		w.call("GET", "/control/safesearch/status", "")
	case "safebrowsing_parental":
		if on {
			w.call("POST", "/control/safebrowsing/disable", "")
			w.call("POST", "/control/parental/disable", "")
		} else {
			w.call("POST", "/control/safebrowsing/enable", "")
			w.call("POST", "/control/parental/enable", "")
		}
		w.call("GET", "/control/safebrowsing/status", "")
	case "querylog_config":
		if i%3 == 1 {
			w.call("PUT", "/control/querylog/config/update", fmt.Sprintf(`{"enabled":true,"anonymize_client_ip":%v}`, on))
		} else {
			w.call("PUT", "/control/querylog/config/update", fmt.Sprintf(`{"enabled":true,"anonymize_client_ip":%v,"interval":%d,"ignored":["ignored.example","ign%d.example"]}`, on, 24*3600*1000, i%3))
		}
		if i%4 == 0 {
			w.call("POST", "/control/querylog_clear", "")
		}
	case "querylog_clear":
		// clearing, reconfiguring and reading the log while Add keeps spawning
		// flush goroutines
		w.call("POST", "/control/querylog_clear", "")
		if i%3 == 0 {
			w.call("PUT", "/control/querylog/config/update", fmt.Sprintf(`{"enabled":true,"anonymize_client_ip":%v,"interval":%d,"ignored":[]}`, on, 24*3600*1000))
		}
		if i%5 == 0 {
			w.call("GET", "/control/querylog?limit=10", "")
		}
	case "querylog_read":
		w.call("GET", "/control/querylog?limit=20", "")
	case "stats_config":
		if i%3 == 1 {
			w.call("PUT", "/control/stats/config/update", fmt.Sprintf(`{"enabled":true,"interval":%d}`, []int{24, 168}[i%2]*3600*1000))
		} else {
			w.call("PUT", "/control/stats/config/update", fmt.Sprintf(`{"enabled":true,"interval":%d,"ignored":["ign%d.example"]}`, []int{24, 168}[i%2]*3600*1000, i%3))
		}
		if i%4 == 0 {
			w.call("POST", "/control/stats_reset", "")
		}
	case "enable_burst":
		// the other admin goroutines of the burst scenario: readers of the
		// filter configuration
		w.call("GET", "/control/filtering/status", "")
	case "stats_reset":
		w.call("POST", "/control/stats_reset", "")
	case "stats_read":
		w.call("GET", "/control/stats", "")
		if i%4 == 0 {
			_ = w.st.TopClientsIP(10)
		}
	case "dns_config":
		// not on the property's list of operations, but also a setting changed
		// through the admin API while queries are served
		switch i % 4 {
		case 1:
			w.call("POST", "/control/dns_config", `{}`)
		case 3:
			w.call("POST", "/control/dns_config", fmt.Sprintf(`{"dnssec_enabled":%v}`, on))
		default:
			w.call("POST", "/control/dns_config", fmt.Sprintf(`{"dnssec_enabled":%v,"disable_ipv6":%v,"blocking_mode":"default"}`, on, !on))
		}
	default:
		panic("c05: unknown admin op " + kind)
	}
}

// c05Static reports the items of a finding that the regenerated tables still
// exclude from the per-program theorems: their number, a digest of the exact
// list (so that a different list is a different reason class), and the list.
func c05Static(finding string) []string {
	items := c05util.StaticKnown()[finding]
	h := fnv.New32a()
	_, _ = h.Write([]byte(strings.Join(items, "\n")))

	return []string{vutil.Itoa(len(items)), fmt.Sprintf("%08x", h.Sum32()), vutil.Hex(strings.Join(items, "\n"))}
}

// c05WellFormed checks a response the way a stub resolver does: it answers
// this query (ID, QR bit, opcode and the question echoed), has an rcode the
// server is allowed to produce, every record of the answer section is of the
// query's class, and the message can be packed again.  (That it could be
// parsed at all is checked by the client: a malformed packet is an error.)
func c05WellFormed(req, resp *dns.Msg) (ok bool) {
	if resp == nil || resp.Id != req.Id || !resp.Response || resp.Opcode != req.Opcode || len(resp.Question) != 1 {
		return false
	}
	q, rq := req.Question[0], resp.Question[0]
	if !strings.EqualFold(rq.Name, q.Name) || rq.Qtype != q.Qtype || rq.Qclass != q.Qclass {
		return false
	}
	switch resp.Rcode {
	case dns.RcodeSuccess, dns.RcodeNameError, dns.RcodeRefused, dns.RcodeServerFailure:
	default:
		return false
	}
	for _, rr := range resp.Answer {
		if rr == nil || rr.Header().Class != q.Qclass {
			return false
		}
	}
	_, err := resp.Pack()

	return err == nil
}

// enableBurst waits until the periodic refresh of the updates loop is
// downloading the gated list, makes batches of concurrent EnableFilters(true)
// calls (what set_rules, add_url, remove_url, set_url and filtering/config end
// with), then lets the download finish and waits for every reload to return.
func (w *c05World) enableBurst(ops *atomic.Int64) {
	select {
	case <-w.entered:
	case <-time.After(12 * time.Second):
		panic("c05: the periodic refresh has not started")
	}
	var all sync.WaitGroup
	for b := 0; b < 100; b++ {
		start := make(chan struct{})
		var batch sync.WaitGroup
		for k := 0; k < 16; k++ {
			batch.Add(1)
			all.Add(1)
			go func() {
				defer all.Done()
				defer batch.Done()
				<-start
				w.flt.EnableFilters(true)
				ops.Add(1)
			}()
		}
		close(start)
		done := make(chan struct{})
		go func() { batch.Wait(); close(done) }()
		stuck := false
		select {
		case <-done:
		case <-time.After(500 * time.Millisecond):
			stuck = true
		}
		if stuck {
			break
		}
	}
	close(w.release)
	all.Wait()
	// the refresh must be able to store its result
	for i := 0; i < 20; i++ {
		w.call("GET", "/control/filtering/status", "")
		ops.Add(1)
		time.Sleep(10 * time.Millisecond)
	}
}

// TestVerifC05Child runs one stress scenario; it only does something when
// started by c05util.RunStress.
func TestVerifC05Child(t *testing.T) {
	scn := os.Getenv("C05_SCN")
	dir := os.Getenv("C05_DIR")
	if scn == "" || dir == "" {
		t.Skip("only run as a child of TestVerifC05")
	}
	f := strings.Split(scn, "\t")
	kind, op := f[1], f[2]
	nDNS, nQ, nAdmin, seed := vutil.Atoi(f[3]), vutil.Atoi(f[4]), vutil.Atoi(f[5]), vutil.Atoi(f[6])

	res := &c05util.ChildResult{}
	write := func() {
		data, _ := json.Marshal(res)
		_ = os.WriteFile(filepath.Join(dir, "result.json"), data, 0o644)
	}

	wiring := "home"
	if len(f) > 7 {
		wiring = f[7]
	}
	w := c05NewWorld(t, dir, wiring)
	// Cross-check of the extractor: record the order in which the locks of
	// these objects are really acquired (see c05util/lockobs.go).
	c05util.ObserveLocks(w.srv, w.flt, w.st, w.ql, w.storage)

	var served, malformed, adminOps atomic.Int64
	var inflight sync.Map // goroutine id -> what it is doing
	stop := make(chan struct{})
	// enable_burst (gated wiring): queries go on until the burst is over
	burst := op == "enable_burst"
	burstDone := make(chan struct{})
	burstOver := func() bool {
		select {
		case <-burstDone:
			return true
		default:
			return false
		}
	}
	var dnsWG, adminWG sync.WaitGroup
	for g := 0; g < nDNS; g++ {
		dnsWG.Add(1)
		go func(g int) {
			defer dnsWG.Done()
			r := rand.New(rand.NewPCG(uint64(seed), uint64(g)))
			names := w.names(kind)
			cl := &dns.Client{Net: "udp", Timeout: 2 * time.Second}
			addr := w.addr
			if g%3 == 2 {
				cl.Net, addr = "tcp", w.addrTCP
			}
			for i := 0; i < nQ || (burst && !burstOver() && i < 200000); i++ {
				name := names[r.IntN(len(names))]
				req := (&dns.Msg{}).SetQuestion(name, dns.TypeA)
				inflight.Store(g, "query "+name)
				resp, _, err := cl.Exchange(req, addr)
				if err == nil && c05WellFormed(req, resp) {
					served.Add(1)
				} else {
					malformed.Add(1)
				}
			}
			inflight.Store(g, "done")
		}(g)
	}
	// the rDNS / WHOIS workers of the address processor: results for the
	// addresses of the clients arrive while they are being served
	adminWG.Add(1)
	go func() {
		defer adminWG.Done()
		for i := 0; ; i++ {
			select {
			case <-stop:
				return
			case <-time.After(300 * time.Microsecond):
			}
			w.addrUpdate(i)
		}
	}()
	for g := 0; g < nAdmin; g++ {
		adminWG.Add(1)
		go func(g int) {
			defer adminWG.Done()
			r := rand.New(rand.NewPCG(uint64(seed), uint64(1000+g)))
			if burst && g == 0 {
				inflight.Store(1000+g, "admin enable_burst")
				w.enableBurst(&adminOps)
				close(burstDone)
				inflight.Store(1000+g, "done")

				return
			}
			for i := 0; ; i++ {
				select {
				case <-stop:
					inflight.Store(1000+g, "done")

					return
				default:
				}
				inflight.Store(1000+g, fmt.Sprintf("admin %s #%d", op, i))
				w.adminOp(op, i, r)
				adminOps.Add(1)
			}
		}(g)
	}

	finished := make(chan struct{})
	var dnsFinished, adminFinished atomic.Bool
	go func() {
		dnsWG.Wait()
		dnsFinished.Store(true)
		close(stop)
		adminWG.Wait()
		adminFinished.Store(true)
		close(finished)
	}()
	stalled := make(chan struct{})
	go func() {
		// two detectors: the DNS side and the admin side must each keep making
		// progress for as long as they have work
		lastD, lastA := int64(-1), int64(-1)
		sinceD, sinceA := time.Now(), time.Now()
		for {
			time.Sleep(250 * time.Millisecond)
			if d := served.Load(); d != lastD || dnsFinished.Load() {
				lastD, sinceD = d, time.Now()
			}
			if a := adminOps.Load(); a != lastA || adminFinished.Load() {
				lastA, sinceA = a, time.Now()
			}
			if time.Since(sinceD) > 4*time.Second || time.Since(sinceA) > 4*time.Second {
				close(stalled)

				return
			}
		}
	}()
	select {
	case <-finished:
	case <-stalled:
		// watchdog: no query was answered, or no admin operation finished,
		// for 4 s although there was work
		var stuck []string
		inflight.Range(func(k, v any) bool {
			if v != "done" {
				stuck = append(stuck, fmt.Sprint(v))
			}

			return true
		})
		sort.Strings(stuck)
		buf := make([]byte, 1<<20)
		buf = buf[:runtime.Stack(buf, true)]
		_ = os.WriteFile(filepath.Join(dir, "stacks.txt"), buf, 0o644)
		res.Deadlock = true
		res.Stuck = c05util.StuckKey(string(buf))
		res.Served, res.Malformed, res.AdminOps = int(served.Load()), int(malformed.Load()), int(adminOps.Load())
		res.Edges, res.LockOps = c05util.ObservedEdges()
		write()
		os.Exit(3)
	}
	res.Served, res.Malformed, res.AdminOps = int(served.Load()), int(malformed.Load()), int(adminOps.Load())
	res.Panics = int(w.panics.Load())
	if m, ok := w.panicMsg.Load().(string); ok {
		res.PanicMsg = m
	}
	res.Done = true
	res.Edges, res.LockOps = c05util.ObservedEdges()
	write()
	// no orderly shutdown: the observation is complete, and the race log is
	// flushed as reports happen
	os.Exit(0)
}

