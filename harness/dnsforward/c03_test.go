//go:build verif

package dnsforward

import (
	"bytes"
	"crypto/tls"
	"encoding/binary"
	"encoding/hex"
	"encoding/json"
	"errors"
	"fmt"
	"math/rand/v2"
	"net"
	"net/http"
	"net/http/httptest"
	"net/netip"
	"net/url"
	"slices"
	"strings"
	"testing"

	"github.com/AdguardTeam/AdGuardHome/internal/vutil"
	"github.com/AdguardTeam/dnsproxy/proxy"
	"github.com/AdguardTeam/golibs/cache"
	"github.com/AdguardTeam/golibs/netutil"
	"github.com/AdguardTeam/urlfilter"
	"github.com/AdguardTeam/urlfilter/filterlist"
	"github.com/miekg/dns"
	"github.com/quic-go/quic-go"
)

// ---------------------------------------------------------------- implementation side

// c03State is the implementation state of the current block.
type c03State struct {
	srv   *Server
	reqID uint64
}

var c03Cur *c03State

var c03Protos = map[string]proxy.Proto{
	"udp": proxy.ProtoUDP, "tcp": proxy.ProtoTCP, "tls": proxy.ProtoTLS,
	"https": proxy.ProtoHTTPS, "quic": proxy.ProtoQUIC, "dnscrypt": proxy.ProtoDNSCrypt,
}

// c03TakeList reads "n item*n" (items of width w fields) starting at f[i] and
// returns the first field of every item decoded, and the next index.
func c03TakeList(f []string, i, w int) (items []string, next int) {
	n := vutil.Atoi(f[i])
	i++
	for k := 0; k < n; k++ {
		items = append(items, vutil.Unhex(f[i]))
		i += w
	}

	return items, i
}

// c03RunConf builds the access manager exactly as Prepare/handleAccessSet do.
func c03RunConf(f []string) []string {
	srvName, strict := vutil.Unhex(f[1]), vutil.UnB(f[2])
	allowed, i := c03TakeList(f, 3, 5)
	blocked, i := c03TakeList(f, i, 5)
	hosts, _ := c03TakeList(f, i, 1)

	c03Cur = nil
	a, err := newAccessCtx(allowed, blocked, hosts)
	if err != nil {
		msg := err.Error()
		tag := "errOther"
		switch {
		case strings.HasPrefix(msg, "adding allowed:"):
			tag = "errA"
		case strings.HasPrefix(msg, "adding blocked:"):
			tag = "errB"
		}
		idx := "?"
		if k := strings.Index(msg, "at index "); k >= 0 {
			rest := msg[k+len("at index "):]
			if c := strings.IndexByte(rest, ':'); c >= 0 {
				idx = rest[:c]
			}
		}

		return []string{tag, idx}
	}

	srv := &Server{
		conf: ServerConfig{
			TLSConf:        &TLSConfig{ServerName: srvName, StrictSNICheck: strict},
			ConfigModified: func() {},
		},
		clientIDCache: cache.New(cache.Config{
			EnableLRU: true,
			MaxCount:  defaultClientIDCacheCount,
		}),
	}
	srv.access = a
	c03Cur = &c03State{srv: srv}

	return []string{"ok"}
}

// c03RunSet posts the lists to the real /control/access/set handler of the
// live server.
func c03RunSet(f []string) []string {
	st := c03Cur
	if st == nil {
		return []string{"noconf"}
	}
	allowed, i := c03TakeList(f, 3, 5)
	blocked, i := c03TakeList(f, i, 5)
	hosts, _ := c03TakeList(f, i, 1)
	body, err := json.Marshal(accessListJSON{
		AllowedClients: allowed, DisallowedClients: blocked, BlockedHosts: hosts,
	})
	if err != nil {
		panic(err)
	}
	w := httptest.NewRecorder()
	r := httptest.NewRequest(http.MethodPost, "/control/access/set", bytes.NewReader(body))
	st.srv.handleAccessSet(w, r)
	msg := w.Body.String()
	idx := func() string {
		if k := strings.Index(msg, "at index "); k >= 0 {
			rest := msg[k+len("at index "):]
			if c := strings.IndexByte(rest, ':'); c >= 0 {
				return rest[:c]
			}
		}

		return "?"
	}
	switch {
	case w.Code == http.StatusOK:
		return []string{"ok"}
	case w.Code != http.StatusBadRequest:
		return []string{"status" + vutil.Itoa(w.Code)}
	case strings.Contains(msg, "validating allowed clients"):
		return []string{"dupA"}
	case strings.Contains(msg, "validating disallowed clients"):
		return []string{"dupB"}
	case strings.Contains(msg, "validating blocked hosts"):
		return []string{"dupH"}
	case strings.Contains(msg, "intersect"):
		return []string{"both"}
	case strings.Contains(msg, "adding allowed:"):
		return []string{"errA", idx()}
	case strings.Contains(msg, "adding blocked:"):
		return []string{"errB", idx()}
	default:
		return []string{"other:" + vutil.Hex(msg)}
	}
}

func c03ParseIP(kind, addrHex, zoneHex string) netip.Addr {
	if kind == "0" {
		return netip.Addr{}
	}
	b, err := hex.DecodeString(addrHex)
	if err != nil {
		panic(err)
	}
	ip, ok := netip.AddrFromSlice(b)
	if !ok {
		panic("bad ip bytes " + addrHex)
	}

	return ip.WithZone(vutil.Unhex(zoneHex))
}

// c03Pctx builds the DNS context of one request line.
func c03Pctx(f []string, reqID uint64) (pctx *proxy.DNSContext) {
	proto := c03Protos[f[1]]
	ip := c03ParseIP(f[2], f[3], f[4])
	hasPath, p := vutil.UnB(f[5]), vutil.Unhex(f[6])
	sni := vutil.Unhex(f[7])
	connOK := vutil.UnB(f[8])
	nq := vutil.Atoi(f[9])
	// f[10] is the oracle bit; f[11], f[12], f[13] are the query name, type and class.
	qname, qtype, qclass := vutil.Unhex(f[11]), uint16(vutil.Atoi(f[12])), uint16(vutil.Atoi(f[13]))

	req := &dns.Msg{MsgHdr: dns.MsgHdr{Id: uint16(reqID), RecursionDesired: true}}
	for k := 0; k < nq; k++ {
		req.Question = append(req.Question, dns.Question{Name: qname, Qtype: qtype, Qclass: qclass})
	}

	pctx = &proxy.DNSContext{Proto: proto, Req: req, RequestID: reqID}
	if ip.IsValid() {
		pctx.Addr = netip.AddrPortFrom(ip, 53535)
	}
	if hasPath {
		pctx.HTTPRequest = &http.Request{
			ProtoMajor: 1, ProtoMinor: 1, URL: &url.URL{Path: p},
			TLS: &tls.ConnectionState{ServerName: sni},
		}
	}
	if connOK {
		pctx.Conn = testTLSConn{serverName: sni}
		pctx.QUICConnection = testQUICConnection{serverName: sni}
	} else {
		pctx.Conn = &net.TCPConn{}
		var qc quic.Connection
		pctx.QUICConnection = qc
	}

	return pctx
}

func c03RunQ(f []string) []string {
	st := c03Cur
	if st == nil {
		return []string{"noconf"}
	}
	st.reqID++
	pctx := c03Pctx(f, st.reqID)
	srv := st.srv

	// (1) the decision function on its own
	id, iderr := srv.clientIDFromDNSContext(pctx)
	if iderr != nil {
		id = ""
	}
	ip := pctx.Addr.Addr()
	blocked, rule := srv.IsBlockedClient(ip, id)
	ruleKind := "ip"
	switch {
	case rule == "":
		ruleKind = "none"
	case ip.IsValid() && rule == ip.String():
		// Checked first: a zone may contain any byte, '/' included.
		ruleKind = "ip"
	case strings.Contains(rule, "/"):
		ruleKind = "net"
	case rule == id:
		ruleKind = "cid"
	default:
		ruleKind = "other:" + vutil.Hex(rule)
	}

	// (2) the hook dnsproxy calls
	err := srv.HandleBefore(nil, pctx)
	action := ""
	var bre *proxy.BeforeRequestError
	switch {
	case err == nil:
		action = "pass"
	case errors.As(err, &bre):
		resp := bre.Response
		switch {
		case resp == nil:
			action = "nilresp"
		case !resp.Response || resp.Id != pctx.Req.Id || len(resp.Answer)+len(resp.Ns)+len(resp.Extra) != 0:
			action = "malformed"
		case resp.Rcode == dns.RcodeRefused:
			action = "refused"
		case resp.Rcode == dns.RcodeServerFailure:
			action = "servfail"
		default:
			action = "rcode" + vutil.Itoa(resp.Rcode)
		}
	case errors.Is(err, errAccessBlocked):
		action = "drop"
	default:
		action = "err:" + vutil.Hex(err.Error())
	}
	if pctx.Res != nil {
		action += "+res"
	}

	key := [8]byte{}
	binary.BigEndian.PutUint64(key[:], pctx.RequestID)
	cached := string(srv.clientIDCache.Get(key[:]))

	return []string{vutil.B(blocked), ruleKind, action, vutil.Hex(cached)}
}

func c03Run(f []string) []string {
	switch f[0] {
	case "C03.conf":
		return c03RunConf(f)
	case "C03.q":
		return c03RunQ(f)
	case "C03.set":
		return c03RunSet(f)
	default:
		panic("unknown op " + f[0])
	}
}

// ---------------------------------------------------------------- generator

// c03Oracle answers "is this name on the blocked-hosts list": the rule engine
// itself, built here from the list (lower-cased, one rule per line) and asked
// with the normalised name.  It shares no code with newAccessCtx/isBlockedHost.
type c03Oracle struct{ eng *urlfilter.DNSEngine }

func c03NewOracle(hosts []string) c03Oracle {
	b := &strings.Builder{}
	for _, h := range hosts {
		b.WriteString(strings.ToLower(h))
		b.WriteString("\n")
	}
	strg, err := filterlist.NewRuleStorage([]filterlist.RuleList{
		&filterlist.StringRuleList{ID: 0, RulesText: b.String(), IgnoreCosmetic: true},
	})
	if err != nil {
		panic(err)
	}

	return c03Oracle{eng: urlfilter.NewDNSEngine(strg)}
}

func (o c03Oracle) blocked(qname string, qt uint16) bool {
	host := qname
	if host != "." {
		host = strings.ToLower(strings.TrimSuffix(host, "."))
	}
	_, ok := o.eng.MatchRequest(&urlfilter.DNSRequest{Hostname: host, DNSType: qt})

	return ok
}

var c03V4 = []string{
	"10.0.0.1", "10.0.0.2", "10.0.1.1", "10.1.0.1", "192.168.1.1", "127.0.0.1", "0.0.0.0",
	"255.255.255.255", "1.2.3.4", "1.2.3.5", "128.0.0.1", "127.255.255.255",
}

var c03V6 = []string{
	"::1", "fe80::1", "fe80::1%eth0", "fe80::1%eth1", "fe80::2%eth0", "2001:db8::1", "2001:db8::2",
	"2001:db8:1::1", "::ffff:1.2.3.4", "::ffff:10.0.0.1", "::", "ffff:ffff:ffff:ffff:ffff:ffff:ffff:ffff",
	"8000::", "::1.2.3.4",
}

var c03IDs = []string{"cli", "client-1", "a", "myphone", "MyPhone", "0", "a-b", "z9", strings.Repeat("a", 63)}

var c03BadEntries = []string{
	"", "a_b", "-a", "a-", "1.2.3.4/33", "1.2.3/24", "::1/129", "fe80::1%eth0/64", "1.2.3.4/024",
	strings.Repeat("a", 64), "a.b", "1.2.3.4/", "/24", "1.2.3.4:53", "[::1]", "caf\xc3\xa9", "1.2.3.4/-1",
	"01.2.3.4", "%eth0", "*",
}

var c03V4Lens = []int{0, 1, 7, 8, 9, 15, 16, 23, 24, 25, 30, 31, 32}
var c03V6Lens = []int{0, 1, 7, 8, 10, 32, 48, 63, 64, 65, 95, 96, 97, 104, 120, 127, 128}

// c03RandAddr returns an address of the universe, or one obtained from it by
// flipping one bit (dense coverage of prefix boundaries).
func c03RandAddr(r *rand.Rand) netip.Addr {
	var s string
	if r.IntN(2) == 0 {
		s = vutil.Pick(r, c03V4)
	} else {
		s = vutil.Pick(r, c03V6)
	}
	ip := netip.MustParseAddr(s)
	if r.IntN(3) == 0 {
		b := ip.AsSlice()
		bit := r.IntN(len(b) * 8)
		b[bit/8] ^= 0x80 >> (bit % 8)
		z := ip.Zone()
		ip, _ = netip.AddrFromSlice(b)
		ip = ip.WithZone(z)
	}

	return ip
}

// c03FlipAt flips bit number bit (0 = most significant) of ip.
func c03FlipAt(ip netip.Addr, bit int) netip.Addr {
	b := ip.AsSlice()
	if bit < 0 || bit >= len(b)*8 {
		return ip
	}
	b[bit/8] ^= 0x80 >> (bit % 8)
	z := ip.Zone()
	ip, _ = netip.AddrFromSlice(b)

	return ip.WithZone(z)
}

// c03GenEntry returns one list entry string.
func c03GenEntry(r *rand.Rand, bad bool) string {
	if bad {
		return vutil.Pick(r, c03BadEntries)
	}
	switch r.IntN(10) {
	case 0, 1, 2:
		return c03RandAddr(r).String()
	case 3, 4, 5, 6:
		ip := c03RandAddr(r).WithZone("")
		var l int
		if ip.Is4() {
			l = vutil.Pick(r, c03V4Lens)
			if r.IntN(4) == 0 {
				l = r.IntN(33)
			}
		} else {
			l = vutil.Pick(r, c03V6Lens)
			if r.IntN(4) == 0 {
				l = r.IntN(129)
			}
		}
		if r.IntN(2) == 0 {
			// masked form
			return netip.PrefixFrom(ip, l).Masked().String()
		}

		return ip.String() + "/" + vutil.Itoa(l)
	default:
		return vutil.Pick(r, c03IDs)
	}
}

func c03GenList(r *rand.Rand, bad bool) (l []string) {
	n := 0
	switch r.IntN(8) {
	case 0, 1, 2:
		n = 1
	case 3, 4:
		n = 2
	case 5:
		n = 3 + r.IntN(3)
	case 6:
		n = 1 + r.IntN(8)
	}
	for i := 0; i < n; i++ {
		l = append(l, c03GenEntry(r, false))
	}
	if bad {
		k := r.IntN(len(l) + 1)
		l = append(l[:k], append([]string{c03GenEntry(r, true)}, l[k:]...)...)
	}

	return l
}

// c03EntryFields encodes one entry with what netip makes of it.
func c03EntryFields(s string) []string {
	if ip, err := netip.ParseAddr(s); err == nil {
		kind := "a6"
		if ip.Is4() {
			kind = "a4"
		}

		return []string{vutil.Hex(s), kind, hex.EncodeToString(ip.AsSlice()), "0", vutil.Hex(ip.Zone())}
	} else if p, perr := netip.ParsePrefix(s); perr == nil {
		kind := "p6"
		if p.Addr().Is4() {
			kind = "p4"
		}

		return []string{vutil.Hex(s), kind, hex.EncodeToString(p.Addr().AsSlice()), vutil.Itoa(p.Bits()), "-"}
	}

	return []string{vutil.Hex(s), "x", "-", "0", "-"}
}

var c03HostRules = []string{
	"blocked.example", "*.wild.example", "||sub.example^", "||*^$dnstype=HTTPS", "|.^", "UPPER.Example",
	"1.2.3.4 hostsfile.example", "@@||exception.example^", "||tld^", "/regex[0-9]+\\.example/", "! comment",
	"part", "||a.b.c.example^$dnstype=AAAA",
	// the default blocked hosts of AdGuard Home, normally asked in class CH
	"version.bind", "id.server", "hostname.bind", "version.bind", "Hostname.Bind",
}

// Blocked-hosts entries in /etc/hosts syntax: an IPv4 or IPv6 address (any of
// the universe, zoned and IPv4-mapped included) followed by one to three
// names, separated by blanks or tabs, with or without a trailing comment.
// urlfilter files such a line under DNSResult.HostRulesV4 or HostRulesV6 (not
// NetworkRule); the line blocks exactly the names it lists, for every type.
var c03HostsNames = []string{
	"hostsfile.example", "v6sink.example", "tracker.example", "telemetry.example", "Tab.Example",
	"blocked.example", "exception.example", "x.tld", "sink.wild.example", "id.server",
}

func c03GenHostsLine(r *rand.Rand) string {
	var addr string
	switch r.IntN(8) {
	case 0:
		addr = "::"
	case 1:
		addr = "::1"
	case 2:
		addr = "0.0.0.0"
	case 3:
		addr = vutil.Pick(r, c03V4)
	default:
		addr = vutil.Pick(r, c03V6)
	}
	seps := []string{" ", " ", "\t", "   ", " \t"}
	b := &strings.Builder{}
	if r.IntN(12) == 0 {
		b.WriteString("# ") // the whole line is a comment: it blocks nothing
	}
	b.WriteString(addr)
	for k := []int{1, 1, 1, 2, 2, 3}[r.IntN(6)]; k > 0; k-- {
		b.WriteString(vutil.Pick(r, seps))
		b.WriteString(vutil.Pick(r, c03HostsNames))
	}
	switch r.IntN(8) {
	case 0:
		b.WriteString(" # sinkhole")
	case 1:
		b.WriteString(" #" + vutil.Pick(r, c03HostsNames)) // a name inside the comment is not listed
	}

	return b.String()
}

// c03GenHostRule draws one blocked-hosts entry: a rule shape of the fixed pool
// or (3/10) a generated hosts-syntax line.
func c03GenHostRule(r *rand.Rand) string {
	if r.IntN(10) < 3 {
		return c03GenHostsLine(r)
	}

	return vutil.Pick(r, c03HostRules)
}

// c03HostsLine is the harness's own reading of one blocked-hosts entry as a
// hosts-syntax line (comment cut at '#', first field an IP address, the other
// fields its names); ok is false for every other kind of entry.
func c03HostsLine(line string) (names []string, ok bool) {
	if k := strings.IndexByte(line, '#'); k >= 0 {
		line = line[:k]
	}
	f := strings.Fields(strings.ToLower(line))
	if len(f) < 2 {
		return nil, false
	} else if _, err := netip.ParseAddr(f[0]); err != nil {
		return nil, false
	}

	return f[1:], true
}

// c03CheckOracle cross-checks the oracle engine on hosts-syntax entries with
// c03HostsLine: a name listed by such a line must be reported as blocked, and
// when the list holds nothing but hosts-syntax lines and comments no other
// name may be.  A failure is a defect of the harness's trusted base (what it
// assumes of urlfilter), not of the code under test, hence a panic.
func c03CheckOracle(hosts []string, o c03Oracle, qname string, qt uint16) {
	host := qname
	if host != "." {
		host = strings.ToLower(strings.TrimSuffix(host, "."))
	}
	listed, only := false, true
	for _, h := range hosts {
		names, ok := c03HostsLine(h)
		switch {
		case ok:
			listed = listed || slices.Contains(names, host)
		case strings.HasPrefix(strings.TrimSpace(h), "#"), strings.HasPrefix(h, "!"):
			// comment
		default:
			only = false
		}
	}
	if got := o.blocked(qname, qt); (listed && !got) || (only && !listed && got) {
		panic(fmt.Sprintf("c03: oracle says blocked=%v for %q type %d on hosts-syntax list %q", got, qname, qt, hosts))
	}
}

var c03QNames = []string{
	"v6sink.example.", "V6Sink.Example.", "tracker.example.", "telemetry.example", "tab.example.", "x.tracker.example.",
	"sink.wild.example.", "sinkhole.",
	"blocked.example.", "Blocked.Example.", "x.blocked.example.", "x.wild.example.", "wild.example.",
	"sub.example.", "a.sub.example.", "notsub.example.", "other.org.", ".", "upper.example.", "UPPER.EXAMPLE.",
	"hostsfile.example.", "exception.example.", "x.tld.", "regex42.example.", "party.example.", "a.b.c.example.",
	"blocked.example", "",
	"version.bind.", "VERSION.BIND.", "version.bind", "Id.Server.", "hostname.bind.", "HostName.Bind", "x.version.bind.",
}

var c03QTypes = []uint16{
	dns.TypeA, dns.TypeA, dns.TypeAAAA, dns.TypeHTTPS, dns.TypeNS, dns.TypePTR, dns.TypeANY, dns.TypeTXT, dns.TypeTXT,
	dns.TypeSVCB, dns.TypeSOA, 65280,
}

// c03QClass draws the class of a question: the property holds for every class.
func c03QClass(r *rand.Rand) uint16 {
	switch r.IntN(10) {
	case 0, 1, 2, 3:
		return dns.ClassINET
	case 4, 5:
		return dns.ClassCHAOS
	case 6:
		return dns.ClassHESIOD
	case 7:
		return dns.ClassNONE
	case 8:
		return dns.ClassANY
	default:
		return uint16(r.IntN(65536))
	}
}

const c03QPerBlock = 16

func c03Gen(r *rand.Rand, emit vutil.Emit) {
	n := vutil.N(40000)
	protos := []string{"udp", "udp", "tcp", "tls", "tls", "https", "https", "quic", "dnscrypt"}
	for lines := 0; lines < n; {
		// ---- one configuration
		srvName := "dns.example.org"
		if r.IntN(10) == 0 {
			srvName = ""
		}
		strict := r.IntN(2) == 0
		// A block is a configuration followed by requests, then possibly one or
		// two POST /control/access/set with further requests against whatever
		// lists are live afterwards (a rejected set must change nothing).
		nPhases := 1
		if r.IntN(2) == 0 {
			nPhases += 1 + r.IntN(2)
		}
		live := false
		var curAllowed, curBlocked, curHosts []string
		var oracle c03Oracle
		for phase := 0; phase < nPhases; phase++ {
			badA, badB := r.IntN(25) == 0, r.IntN(25) == 0
			var allowed, blocked []string
			if r.IntN(2) == 0 || badA {
				allowed = c03GenList(r, badA)
			}
			blocked = c03GenList(r, badB)
			if r.IntN(6) == 0 {
				// the same entries on both lists: the disallowed one must be ignored
				// (by the configuration file path; the API rejects the intersection)
				blocked = append(blocked, allowed...)
			}
			var hosts []string
			for k := r.IntN(4); k > 0; k-- {
				hosts = append(hosts, c03GenHostRule(r))
			}
			if phase > 0 && r.IntN(3) > 0 {
				allowed, blocked, hosts = c03Dedup(allowed, nil), c03Dedup(blocked, allowed), c03Dedup(hosts, nil)
			}

			op := "C03.conf"
			accepted := c03EntriesValid(allowed) && c03EntriesValid(blocked)
			if phase > 0 {
				op = "C03.set"
				accepted = accepted && live && !c03HasDup(allowed, nil) && !c03HasDup(blocked, allowed) &&
					!c03HasDup(hosts, nil)
			}
			f := []string{op, vutil.Hex(srvName), vutil.B(strict), vutil.Itoa(len(allowed))}
			for _, e := range allowed {
				f = append(f, c03EntryFields(e)...)
			}
			f = append(f, vutil.Itoa(len(blocked)))
			for _, e := range blocked {
				f = append(f, c03EntryFields(e)...)
			}
			f = append(f, vutil.Itoa(len(hosts)))
			for _, h := range hosts {
				f = append(f, vutil.Hex(h))
			}
			cand := c03NewOracle(hosts)
			emit(f...)
			lines++
			if accepted {
				// (a prediction that only steers which lists the requests aim at and
				// which engine answers the oracle bit; a wrong one shows as a
				// disagreement on the set line itself)
				live, curAllowed, curBlocked, curHosts, oracle = true, allowed, blocked, hosts, cand
			}
			if !live {
				curHosts, oracle = nil, c03NewOracle(nil)
			}

			// ---- requests against it: addresses and ids drawn mostly from the lists
			var listAddrs []netip.Addr
			var listPfx []netip.Prefix
			var listIDs []string
			for _, e := range append(append(append([]string{}, curAllowed...), curBlocked...), allowed...) {
				if ip, err := netip.ParseAddr(e); err == nil {
					listAddrs = append(listAddrs, ip)
				} else if p, perr := netip.ParsePrefix(e); perr == nil {
					listPfx = append(listPfx, p)
				} else {
					listIDs = append(listIDs, e)
				}
			}
			nq := c03QPerBlock
			if !live {
				nq = 2
			} else if phase > 0 {
				nq = c03QPerBlock / 2
			}
			for q := 0; q < nq; q++ {
				var ip netip.Addr
				switch k := r.IntN(20); {
				case k == 0:
					// zero Addr
				case k < 5 && len(listAddrs) > 0:
					ip = vutil.Pick(r, listAddrs)
					switch r.IntN(6) {
					case 0:
						ip = ip.WithZone("eth0")
					case 1:
						ip = ip.WithZone("")
					case 2:
						if ip.Is4() {
							ip = netip.AddrFrom16(ip.As16())
						} else if ip.Is4In6() {
							ip = ip.Unmap()
						}
					}
				case k < 13 && len(listPfx) > 0:
					// inside / just outside a listed prefix
					p := vutil.Pick(r, listPfx)
					ip = p.Addr()
					w := ip.BitLen()
					switch r.IntN(5) {
					case 0:
						ip = c03FlipAt(ip, p.Bits()-1) // last network bit: outside
					case 1:
						ip = c03FlipAt(ip, p.Bits()) // first host bit: inside
					case 2:
						ip = c03FlipAt(ip, w-1)
					case 3:
						ip = c03FlipAt(ip, r.IntN(w))
					}
					if ip.Is6() && r.IntN(4) == 0 {
						ip = ip.WithZone("eth0")
					}
					if ip.Is4() && r.IntN(10) == 0 {
						ip = netip.AddrFrom16(ip.As16())
					}
				default:
					ip = c03RandAddr(r)
				}

				id := ""
				switch k := r.IntN(10); {
				case k < 4 && len(listIDs) > 0:
					id = vutil.Pick(r, listIDs)
				case k < 6:
					id = vutil.Pick(r, c03IDs)
				}
				proto := vutil.Pick(r, protos)
				sni := srvName
				if id != "" {
					sni = id + "." + srvName
				}
				switch r.IntN(14) {
				case 0:
					sni = "a_b." + srvName // malformed label
				case 1:
					sni = "other.example.net" // mismatch (error when strict)
				case 2:
					sni = ""
				}
				hasPath, p := false, ""
				if proto == "https" {
					hasPath = r.IntN(30) > 0
					switch r.IntN(6) {
					case 0:
						p = "/dns-query"
					case 1:
						p = "/dns-query/" + vutil.Pick(r, c03IDs)
					case 2:
						p = "/dns-query/" + id
					case 3:
						p = "/dns-query/a_b"
					case 4:
						p = "/other"
					default:
						p = "/dns-query/" + id
						sni = srvName
					}
				}
				connOK := r.IntN(25) > 0

				qname := vutil.Pick(r, c03QNames)
				qtype := vutil.Pick(r, c03QTypes)
				nQuestions := 1
				switch r.IntN(12) {
				case 0:
					nQuestions = 0
				case 1:
					nQuestions = 2
				}

				c03CheckOracle(curHosts, oracle, qname, qtype)

				kind, addrHex, zone := "0", "-", "-"
				if ip.IsValid() {
					kind = "6"
					if ip.Is4() {
						kind = "4"
					}
					addrHex, zone = hex.EncodeToString(ip.AsSlice()), vutil.Hex(ip.Zone())
				}
				emit("C03.q", proto, kind, addrHex, zone, vutil.B(hasPath), vutil.Hex(p), vutil.Hex(sni), vutil.B(connOK),
					vutil.Itoa(nQuestions), vutil.B(oracle.blocked(qname, qtype)), vutil.Hex(qname), vutil.Itoa(int(qtype)),
					vutil.Itoa(int(c03QClass(r))))
				lines++
			}
		}
	}
}

// c03EntriesValid reports whether every entry is an address, a CIDR or a
// hostname label (asked of netip and golibs, not of the code under test).
func c03EntriesValid(l []string) bool {
	for _, e := range l {
		if _, err := netip.ParseAddr(e); err == nil {
			continue
		} else if _, err = netip.ParsePrefix(e); err == nil {
			continue
		} else if netutil.ValidateHostnameLabel(e) != nil {
			return false
		}
	}

	return true
}

// c03HasDup reports whether l repeats a string or shares one with other.
func c03HasDup(l, other []string) bool {
	seen := map[string]bool{}
	for _, o := range other {
		seen[o] = true
	}
	for _, x := range l {
		if seen[x] {
			return true
		}
		seen[x] = true
	}

	return false
}

// c03Dedup removes the repeats of l and what it shares with other.
func c03Dedup(l, other []string) (out []string) {
	seen := map[string]bool{}
	for _, o := range other {
		seen[o] = true
	}
	for _, x := range l {
		if !seen[x] {
			out = append(out, x)
		}
		seen[x] = true
	}

	return out
}

func TestVerifC03(t *testing.T) { vutil.Main(t, c03Gen, c03Run) }
