//go:build verif

package dnsforward

import (
	"crypto/tls"
	"encoding/binary"
	"math/rand/v2"
	"net"
	"net/http"
	"net/netip"
	"net/url"
	"testing"

	"github.com/AdguardTeam/AdGuardHome/internal/vutil"
	"github.com/AdguardTeam/dnsproxy/proxy"
	"github.com/AdguardTeam/golibs/cache"
	"github.com/AdguardTeam/golibs/errors"
	"github.com/AdguardTeam/golibs/netutil"
	"github.com/miekg/dns"
	"github.com/quic-go/quic-go"
)

// c16Srv is the long-lived server of the current block: its ClientID cache
// survives across the requests of the block, and request numbers are reused
// (as they are after dnsproxy's proxy has been re-created).
var c16Srv *Server

func c16CacheRun(f []string) []string {
	switch f[0] {
	case "C16.reset":
		a, err := newAccessCtx(nil, nil, nil)
		if err != nil {
			panic(err)
		}
		c16Srv = &Server{
			conf:   ServerConfig{TLSConf: &TLSConfig{}},
			access: a,
			clientIDCache: cache.New(cache.Config{
				EnableLRU: true,
				MaxCount:  defaultClientIDCacheCount,
			}),
		}

		return []string{"reset"}
	case "C16.attr":
		// What processInitial does to find the ClientID of the request.
		var key [8]byte
		binary.BigEndian.PutUint64(key[:], uint64(vutil.Atoi(f[1])))

		return []string{vutil.Hex(string(c16Srv.clientIDCache.Get(key[:])))}
	case "C16.hb":
	default:
		panic("unknown op " + f[0])
	}

	rid := uint64(vutil.Atoi(f[1]))
	g := f[1:] // g[1] = proto … as in C16.ctx
	proto := c16Protos[g[1]]
	hasPath, p := vutil.UnB(g[2]), vutil.Unhex(g[3])
	hasTLS, tlsName := vutil.UnB(g[4]), vutil.Unhex(g[5])
	hostHdr := vutil.Unhex(g[6])
	connOK, connSNI := vutil.UnB(g[9]), vutil.Unhex(g[10])
	c16Srv.conf.TLSConf.ServerName = vutil.Unhex(g[11])
	c16Srv.conf.TLSConf.StrictSNICheck = vutil.UnB(g[12])

	req := (&dns.Msg{}).SetQuestion("example.com.", dns.TypeA)
	pctx := &proxy.DNSContext{Proto: proto, Req: req, Addr: netip.MustParseAddrPort("192.0.2.7:5353"), RequestID: rid}
	if hasPath {
		pctx.HTTPRequest = &http.Request{ProtoMajor: 1, ProtoMinor: 1, URL: &url.URL{Path: p}, Host: hostHdr}
		if hasTLS {
			pctx.HTTPRequest.TLS = &tls.ConnectionState{ServerName: tlsName}
		}
	}
	if connOK {
		pctx.Conn = testTLSConn{serverName: connSNI}
		pctx.QUICConnection = testQUICConnection{serverName: connSNI}
	} else {
		pctx.Conn = &net.TCPConn{}
		var qc quic.Connection
		pctx.QUICConnection = qc
	}

	err := c16Srv.HandleBefore(nil, pctx)
	if err != nil {
		var brErr *proxy.BeforeRequestError
		if errors.As(err, &brErr) {
			return []string{"err", c16ErrKind(brErr.Err)}
		}

		return []string{"err", c16ErrKind(err)}
	}
	// The id HandleBefore extracted is not returned; report what the context
	// yields through the same function so that the line is comparable.
	id, cerr := c16Srv.clientIDFromDNSContext(pctx)
	if cerr != nil {
		return []string{"err", c16ErrKind(cerr)}
	}

	return []string{"ok", vutil.Hex(id)}
}

func c16CacheGen(r *rand.Rand, emit vutil.Emit) {
	n := vutil.N(1500)
	protos := []string{"udp", "tcp", "tls", "https", "quic", "dnscrypt", "tls", "https", "udp"}
	for b := 0; b < n; b++ {
		emit("C16.reset")
		host := vutil.Pick(r, c16Hosts[:5])
		steps := 4 + r.IntN(24)
		for i := 0; i < steps; i++ {
			rid := 1 + r.IntN(5) // dense reuse of request numbers
			proto := vutil.Pick(r, protos)
			sni := c16GenSNI(r, host)
			if r.IntN(3) > 0 {
				sni = vutil.Pick(r, []string{"cli", "Victim", "a-b", "x1"}) + "." + host
			}
			hasPath := proto == "https"
			p := ""
			if hasPath {
				p = c16GenPath(r)
			}
			hasTLS := hasPath && r.IntN(2) == 0
			hostHdr := ""
			if hasPath && r.IntN(4) > 0 {
				hostHdr = sni
			}
			splitHost, serr := netutil.SplitHost(hostHdr)
			emit("C16.hb", vutil.Itoa(rid), proto, vutil.B(hasPath), vutil.Hex(p), vutil.B(hasTLS), vutil.Hex(sni),
				vutil.Hex(hostHdr), vutil.B(serr == nil), vutil.Hex(splitHost),
				vutil.B(true), vutil.Hex(sni), vutil.Hex(host), vutil.B(r.IntN(3) == 0))
			emit("C16.attr", vutil.Itoa(rid))
			if r.IntN(4) == 0 {
				emit("C16.attr", vutil.Itoa(1+r.IntN(5)))
			}
		}
	}
}

func TestVerifC16Cache(t *testing.T) { vutil.Main(t, c16CacheGen, c16CacheRun) }
