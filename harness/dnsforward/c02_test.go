//go:build verif

package dnsforward

// C02 generator: scripted upstream answer sections (CNAME chains, A/AAAA,
// HTTPS hints, unrelated records, shuffled) against rules over names and IP
// literals.  Everything else (case format, server, observation) is shared
// with C01 (c01_test.go).

import (
	"math/rand/v2"
	"net"
	"net/netip"
	"strings"
	"testing"

	"github.com/AdguardTeam/AdGuardHome/internal/vutil"
	"github.com/miekg/dns"
)

var c02Names = []string{
	"tracker.net", "cdn.tracker.net", "ads.example.org", "edge.cdn-host.test", "a.edge.cdn-host.test",
	"lb.example.com", "x.lb.example.com", "cname.specific", "Mixed.Tracker.NET",
	// everything DNS allows in a name and miekg/dns packs, not only host-name syntax:
	// underscores, leading / trailing hyphens, all-digit labels, a 63-byte label
	"_dmarc.tracker.net", "a_b.tracker.net", "-lead.tracker.net", "trail-.tracker.net", "x.tracker.123", "123.456",
	"_sip._tcp.lb.example.com", "xn--e1afmkfd.xn--p1ai", "cdn.xn--80ak6aa92e.com", strings.Repeat("w", 63) + ".tracker.net", "UPPER_case.Ads.Example.ORG",
}

var c02V4 = []string{"1.2.3.4", "93.184.216.34", "10.0.0.5", "11.2.3.45", "0.0.0.1", "127.0.0.255", "192.0.2.1", "0.0.0.0", "255.255.255.255"}

var c02V6 = []string{"2001:db8::1", "::1", "1234::cdef", "2001:db8:0:1::", "::ffff:1.2.3.4", "fe80::1", "::"}

func c02IP(s string) net.IP { return net.IP(netip.MustParseAddr(s).AsSlice()) }

// c02GenAnswer builds the upstream answer section and returns the strings
// (names, address literals) it reveals.
func c02GenAnswer(r *rand.Rand, c *c01Case) (revealed []string) {
	hdr := func(name string, t uint16) dns.RR_Header {
		return dns.RR_Header{Name: name, Rrtype: t, Class: dns.ClassINET, Ttl: uint32(100 + r.IntN(2000))}
	}
	c.urcode = dns.RcodeSuccess
	owner := c.qname
	var rrs []dns.RR
	nc, na := []int{0, 0, 1, 1, 1, 2, 3, 6}[r.IntN(8)], r.IntN(5)
	if r.IntN(20) == 0 {
		// long answer sections: a bound on the number of records examined shows
		// only beyond it (seed C02-19: the first 16 records)
		if r.IntN(2) == 0 {
			nc = vutil.Pick(r, []int{15, 16, 17, 24, 40})
		} else {
			na = vutil.Pick(r, []int{16, 17, 20, 33})
		}
	}
	for i := nc; i > 0; i-- {
		t := vutil.Pick(r, c02Names)
		rrs = append(rrs, &dns.CNAME{Hdr: hdr(owner, dns.TypeCNAME), Target: t + "."})
		revealed = append(revealed, strings.ToLower(t))
		owner = t + "."
	}
	for i := 0; i < na; i++ {
		if c.qtype == dns.TypeAAAA || (c.qtype != dns.TypeA && r.IntN(2) == 0) || r.IntN(12) == 0 {
			s := vutil.Pick(r, c02V6)
			ip := c02IP(s)
			rrs = append(rrs, &dns.AAAA{Hdr: hdr(owner, dns.TypeAAAA), AAAA: ip})
			revealed = append(revealed, ip.String())
		} else {
			s := vutil.Pick(r, c02V4)
			rrs = append(rrs, &dns.A{Hdr: hdr(owner, dns.TypeA), A: c02IP(s)})
			revealed = append(revealed, s)
		}
	}
	if c.qtype == dns.TypeHTTPS || r.IntN(6) == 0 {
		for i := 1 + r.IntN(2); i > 0; i-- {
			rr := &dns.HTTPS{SVCB: dns.SVCB{Hdr: hdr(owner, dns.TypeHTTPS), Priority: uint16(1 + r.IntN(3)), Target: "."}}
			hint4 := func() {
				var ips []net.IP
				for k := 1 + r.IntN(2); k > 0; k-- {
					s := vutil.Pick(r, c02V4)
					ips = append(ips, c02IP(s))
					revealed = append(revealed, s)
				}
				rr.Value = append(rr.Value, &dns.SVCBIPv4Hint{Hint: ips})
			}
			hint6 := func() {
				var ips []net.IP
				for k := 1 + r.IntN(2); k > 0; k-- {
					ip := c02IP(vutil.Pick(r, c02V6))
					ips = append(ips, ip)
					revealed = append(revealed, ip.String())
				}
				rr.Value = append(rr.Value, &dns.SVCBIPv6Hint{Hint: ips})
			}
			if r.IntN(5) > 0 {
				// well-formed: distinct keys in increasing order (what miekg/dns can pack)
				if r.IntN(2) == 0 {
					rr.Value = append(rr.Value, &dns.SVCBAlpn{Alpn: []string{"h2"}})
				}
				if r.IntN(3) == 0 {
					rr.Value = append(rr.Value, &dns.SVCBPort{Port: 443})
				}
				if r.IntN(3) > 0 {
					hint4()
				}
				if r.IntN(2) == 0 {
					hint6()
				}
			} else {
				// any order, repeated keys, empty hint lists
				for j := r.IntN(4); j > 0; j-- {
					switch r.IntN(5) {
					case 0:
						rr.Value = append(rr.Value, &dns.SVCBAlpn{Alpn: []string{"h2"}})
					case 1:
						hint4()
					case 2:
						hint6()
					case 3:
						rr.Value = append(rr.Value, &dns.SVCBIPv4Hint{})
					default:
						rr.Value = append(rr.Value, &dns.SVCBPort{Port: 443})
					}
				}
			}
			rrs = append(rrs, rr)
		}
	}
	for i := r.IntN(3); i > 0; i-- {
		if r.IntN(2) == 0 {
			rrs = append(rrs, &dns.TXT{Hdr: hdr(owner, dns.TypeTXT), Txt: []string{"tracker.net", "1.2.3.4"}})
		} else {
			rrs = append(rrs, &dns.MX{Hdr: hdr(owner, dns.TypeMX), Preference: 10, Mx: "tracker.net."})
		}
	}
	if r.IntN(3) > 0 {
		r.Shuffle(len(rrs), func(i, j int) { rrs[i], rrs[j] = rrs[j], rrs[i] })
	}
	c.uans = rrs

	return revealed
}

// c02GenRule makes a rule aimed at a revealed name or address literal.
func c02GenRule(r *rand.Rand, target string, c *c01Case) string {
	isIP := false
	if _, err := netip.ParseAddr(target); err == nil {
		isIP = true
	}
	if !isIP {
		if r.IntN(3) == 0 {
			return c01GenRule(r, c01Related(r, target), c)
		}
	}
	mods := ""
	switch r.IntN(12) {
	case 0:
		mods = "$important"
	case 1:
		mods = "$dnstype=~CNAME"
	case 2:
		mods = "$dnstype=~A"
	case 3:
		mods = "$dnstype=A|AAAA"
	case 4:
		mods = "$dnstype=HTTPS"
	case 5:
		mods = "$denyallow=" + vutil.Pick(r, []string{"tracker.net", "example.org"})
	case 6:
		mods = "$dnstype=~AAAA"
	}
	switch r.IntN(16) {
	case 0, 1, 2, 3, 4, 5:
		return "||" + target + "^" + mods
	case 6:
		return "@@||" + target + "^" + mods
	case 7:
		if len(target) < 3 {
			// a bare 2-byte pattern ("::") is outside the modelled rule grammar
			return "||" + target + "^" + mods
		}

		return target + mods
	case 8:
		return "|" + target + "|" + mods
	case 9:
		return vutil.Pick(r, c01RuleIPs) + " " + target
	case 10:
		return "@@||" + target + "^$important"
	case 11:
		return "||" + target + mods
	case 12:
		if i := strings.LastIndexAny(target, ".:"); i > 0 {
			return "||" + target[:i+1] + "*" + mods
		}

		return "||" + target + "^"
	case 13:
		return "|" + target + "^" + mods
	default:
		return "||" + target + "^"
	}
}

func c02GenCase(r *rand.Rand) (c *c01Case) {
	c = &c01Case{}
	c01GenConf(r, c)
	// response filtering mostly applicable
	if r.IntN(8) > 0 {
		c.prot, c.pause = true, "none"
	}
	if r.IntN(8) > 0 {
		c.gfilt = true
		if c.hasClient && c.useOwn {
			c.cfilt = true
		}
	}
	c.aaaaDis = r.IntN(4) == 0
	if r.IntN(3) > 0 {
		c.gSvc, c.cSvc = nil, nil
	}
	c.qtype = vutil.Pick(r, []uint16{dns.TypeA, dns.TypeA, dns.TypeA, dns.TypeAAAA, dns.TypeAAAA, dns.TypeHTTPS, dns.TypeHTTPS, dns.TypeMX, dns.TypeCNAME})
	name := vutil.Pick(r, []string{"site.example.com", "www.site.example.com", "example.org", "whitelist.example.org", "Site.Example.COM"})
	c01GenDHCP(r, c, &name)
	if r.IntN(2) == 0 {
		name = c01MixCase(r, name)
	}
	c.qname = name + "."
	revealed := c02GenAnswer(r, c)
	// the upstream's rcode is a dimension of its own: a negative or failed answer may
	// still carry records (RFC 6604: a CNAME chain ending at a non-existent name)
	c.urcode = vutil.Pick(r, []int{dns.RcodeSuccess, dns.RcodeSuccess, dns.RcodeSuccess, dns.RcodeSuccess, dns.RcodeSuccess,
		dns.RcodeNameError, dns.RcodeNameError, dns.RcodeServerFailure, dns.RcodeRefused})
	if c.urcode != dns.RcodeSuccess && r.IntN(4) == 0 {
		c.uans = nil
	}
	if r.IntN(4) == 0 {
		// an authority section; its records may name blocked hosts but are never scanned
		hdr := func(n string, t uint16) dns.RR_Header {
			return dns.RR_Header{Name: n, Rrtype: t, Class: dns.ClassINET, Ttl: uint32(100 + r.IntN(2000))}
		}
		for n := 1 + r.IntN(2); n > 0; n-- {
			t := vutil.Pick(r, c02Names)
			switch r.IntN(3) {
			case 0:
				c.uns = append(c.uns, &dns.SOA{Hdr: hdr("example.com.", dns.TypeSOA), Ns: "ns.invalid.", Mbox: "hostmaster." + t + ".", Serial: 1, Refresh: 2, Retry: 3, Expire: 4, Minttl: 5})
			case 1:
				c.uns = append(c.uns, &dns.CNAME{Hdr: hdr("example.com.", dns.TypeCNAME), Target: t + "."})
				revealed = append(revealed, strings.ToLower(t))
			default:
				ip := vutil.Pick(r, c02V4)
				c.uns = append(c.uns, &dns.A{Hdr: hdr(t+".", dns.TypeA), A: c02IP(ip)})
				revealed = append(revealed, ip)
			}
		}
	}
	pick := func() string {
		if len(revealed) == 0 || r.IntN(8) == 0 {
			return vutil.Pick(r, append(append([]string{}, c02Names...), c02V4...))
		}

		return revealed[r.IntN(len(revealed))]
	}
	gen := func(n int) (ls []string) {
		for i := 0; i < n; i++ {
			ls = append(ls, c02GenRule(r, pick(), c))
		}

		return ls
	}
	c.custom = gen([]int{0, 1, 1, 2, 3}[r.IntN(5)])
	for i := r.IntN(3); i > 0; i-- {
		c.block = append(c.block, c01List{enabled: r.IntN(6) > 0, lines: gen(1 + r.IntN(3))})
	}
	if r.IntN(4) == 0 {
		// an allow rule for some record, or for the queried name
		var lines []string
		for i := 1 + r.IntN(2); i > 0; i-- {
			t := pick()
			if r.IntN(5) == 0 {
				t = strings.ToLower(name)
			}
			lines = append(lines, vutil.Pick(r, []string{"||" + t + "^", "@@||" + t + "^", t, "||" + t + "^$dnstype=~A", "0.0.0.0 " + t}))
		}
		c.allow = append(c.allow, c01List{enabled: r.IntN(6) > 0, lines: lines})
	}
	if r.IntN(10) == 0 {
		c.custom = append(c.custom, "@@||"+strings.ToLower(name)+"^")
	}
	if r.IntN(8) == 0 {
		// a rewritten query: the answer of the canonical name is exempt from response filtering
		c01GenExt(r, c)
		if r.IntN(2) == 0 {
			c.rewrites = append(c.rewrites, c01Rewrite{domain: strings.ToLower(name),
				answer: vutil.Pick(r, []string{"canon.example.net", "tracker.net", "cdn.tracker.net", "1.2.3.4"})})
		}
		if c.qtype == dns.TypePTR {
			c.qtype = dns.TypeA
			c.qname = name + "."
		}
	}

	return c
}

func c02Gen(r *rand.Rand, emit vutil.Emit) {
	n := vutil.N(20000)
	for i := 0; i < n; i++ {
		c := c02GenCase(r)
		emit(append(c.fields("C02.q"), c.oracleFields()...)...)
	}
}

func TestVerifC02(t *testing.T) {
	e := c01NewEnv(t, 0)
	c01LoadServices(e)
	vutil.Main(t, c02Gen, e.run)
}

// c02SeqGen: sequence mode on a proxy with the DNS cache enabled.  Each block
// is one configuration + rule set + scripted upstream answer (C02.sreset, which
// also clears the cache), then the same query repeated 2-4 times interleaved
// with other names / types / letter cases.
func c02SeqGen(r *rand.Rand, emit vutil.Emit) {
	blocks := vutil.N(1500)
	for b := 0; b < blocks; b++ {
		c := c02GenCase(r)
		// the cache model covers plain forwarding only: no rewrites / hosts / safe browsing here
		c.rewrites, c.hosts, c.sbOn, c.parOn, c.sbSet, c.parSet, c.sbHost, c.parHost, c.csb, c.cpar =
			nil, nil, false, false, nil, nil, "", "", false, false
		c.uns = nil // an authority section changes what dnsproxy caches (negative caching): not in the cache model
		f := c.fields("C02.sreset")
		line := append(append([]string{f[0]}, c02CacheForm(c)...), f[1:]...)
		emit(append(line, c.oracleFields()...)...)
		type qq struct {
			name string
			qt   uint16
		}
		qs := []qq{{c.qname, c.qtype}}
		for i := r.IntN(3); i > 0; i-- {
			qs = append(qs, qq{vutil.Pick(r, []string{"other.example.com.", "site.example.com.", "example.org.", c01MixCase(r, c.qname)}),
				vutil.Pick(r, []uint16{c.qtype, c.qtype, dns.TypeA, dns.TypeAAAA, dns.TypeHTTPS})})
		}
		var seq []qq
		for _, q := range qs {
			for i := 2 + r.IntN(3); i > 0; i-- {
				seq = append(seq, q)
			}
		}
		if r.IntN(2) == 0 {
			r.Shuffle(len(seq), func(i, j int) { seq[i], seq[j] = seq[j], seq[i] })
		}
		for _, q := range seq {
			n := q.name
			if r.IntN(2) == 0 {
				n = c01MixCase(r, strings.ToLower(n))
			}
			emit("C02.sq", vutil.Hex(n), vutil.Itoa(int(q.qt)))
		}
	}
}

// c02CacheForm is an oracle for the cache model: dnsproxy stores the PACKED
// upstream response, so what a hit returns is the response after a miekg/dns
// Pack/Unpack round trip (SVCB parameters sorted by key, …), and a response
// that cannot be packed is never served from the cache.
func c02CacheForm(c *c01Case) (fields []string) {
	m := &dns.Msg{}
	m.SetQuestion(c.qname, c.qtype)
	resp := new(dns.Msg).SetReply(m)
	resp.Rcode = c.urcode
	for _, rr := range c.uans {
		resp.Answer = append(resp.Answer, dns.Copy(rr))
	}
	b, err := resp.Pack()
	back := &dns.Msg{}
	if err != nil || back.Unpack(b) != nil {
		return []string{"0", "0"}
	}
	fields = []string{"1", vutil.Itoa(len(back.Answer))}
	for _, rr := range back.Answer {
		fields = append(fields, c01RRTok(rr, true))
	}

	return fields
}

func TestVerifC02Seq(t *testing.T) {
	e := c01NewEnv(t, 4*1024*1024)
	c01LoadServices(e)
	vutil.Main(t, c02SeqGen, e.run)
}

// TestVerifC02Config is the configuration-sequence / engine-lifecycle mode of
// c01_test.go with queries whose UPSTREAM ANSWER reveals the names the lists are
// about (response stage).
func TestVerifC02Config(t *testing.T) {
	e := c01NewEnv(t, 0)
	vutil.Main(t, c01ConfigGenFor("C02"), e.run)
}
