//go:build verif

package dnsforward

// C16 end-to-end harness: a REAL dnsforward.Server (UDP, TCP, DoT, DoQ,
// DNSCrypt listeners of dnsproxy; DoH through a net/http server + ServeMux on
// which the server registers /dns-query the way internal/home does), a counting
// upstream on the loopback, recording stubs at every consumer of the ClientID
// (query log, statistics, client upstream lookup, client filtering lookup), and
// real clients whose server name, raw request target, Host header, extra
// headers and EDNS options are chosen by the generator.

import (
	"bufio"
	"bytes"
	"context"
	"crypto/ecdsa"
	"crypto/elliptic"
	crand "crypto/rand"
	"crypto/tls"
	"crypto/x509"
	"crypto/x509/pkix"
	"encoding/base64"
	"encoding/binary"
	"fmt"
	"io"
	"log/slog"
	"math/big"
	"math/rand/v2"
	"net"
	"net/http"
	"net/netip"
	"net/url"
	"slices"
	"strconv"
	"strings"
	"sync"
	"testing"
	"time"

	"github.com/AdguardTeam/AdGuardHome/internal/client"
	"github.com/AdguardTeam/AdGuardHome/internal/filtering"
	"github.com/AdguardTeam/AdGuardHome/internal/querylog"
	"github.com/AdguardTeam/AdGuardHome/internal/schedule"
	"github.com/AdguardTeam/AdGuardHome/internal/stats"
	"github.com/AdguardTeam/AdGuardHome/internal/vutil"
	"github.com/AdguardTeam/dnsproxy/proxy"
	"github.com/AdguardTeam/golibs/logutil/slogutil"
	"github.com/AdguardTeam/golibs/netutil"
	"github.com/ameshkov/dnscrypt/v2"
	"github.com/miekg/dns"
	"github.com/quic-go/quic-go"
	"golang.org/x/net/http/httpguts"
	"golang.org/x/net/http2"
	"golang.org/x/net/http2/hpack"
)

const c16eTimeout = 3 * time.Second

// ---------------------------------------------------------------- recorders

// c16eRec collects what the consumers of the ClientID saw, keyed by the
// question name of the request (every request of a block has its own name).
type c16eRec struct {
	mu    sync.Mutex
	log   map[string][]string // qname -> ClientID of every query-log entry
	stat  map[string][]string // qname -> Client of every statistics entry
	ups   map[string][]string // ClientID passed to CustomUpstreamConfig (no qname there: "last")
	filt  map[string][]string
	upsN  map[string]int // qname -> number of upstream exchanges
	lastQ string         // the question being processed (requests are sequential)
}

func newC16eRec() *c16eRec {
	return &c16eRec{
		log: map[string][]string{}, stat: map[string][]string{}, ups: map[string][]string{},
		filt: map[string][]string{}, upsN: map[string]int{},
	}
}

type c16eQueryLog struct {
	querylog.QueryLog
	rec *c16eRec
}

func (l *c16eQueryLog) Add(p *querylog.AddParams) {
	l.rec.mu.Lock()
	defer l.rec.mu.Unlock()
	q := ""
	if p.Question != nil && len(p.Question.Question) > 0 {
		q = strings.ToLower(p.Question.Question[0].Name)
	}
	l.rec.log[q] = append(l.rec.log[q], p.ClientID)
}

func (l *c16eQueryLog) ShouldLog(string, uint16, uint16, []string) bool { return true }

type c16eStats struct {
	stats.Interface
	rec *c16eRec
}

func (l *c16eStats) Update(e *stats.Entry) {
	l.rec.mu.Lock()
	defer l.rec.mu.Unlock()
	q := strings.ToLower(e.Domain) + "."
	l.rec.stat[q] = append(l.rec.stat[q], e.Client)
}

func (l *c16eStats) ShouldCount(string, uint16, uint16, []string) bool { return true }

type c16eClients struct{ rec *c16eRec }

func (c *c16eClients) CustomUpstreamConfig(id string, _ netip.Addr) *proxy.CustomUpstreamConfig {
	c.rec.mu.Lock()
	defer c.rec.mu.Unlock()
	c.rec.ups[c.rec.lastQ] = append(c.rec.ups[c.rec.lastQ], id)

	return nil
}
func (c *c16eClients) UpdateCommonUpstreamConfig(*client.CommonUpstreamConfig) {}
func (c *c16eClients) ClearUpstreamCache()                                     {}

type c16eDHCP struct{}

func (c16eDHCP) HostByIP(netip.Addr) string { return "" }
func (c16eDHCP) IPByHost(string) netip.Addr { return netip.Addr{} }
func (c16eDHCP) Enabled() bool              { return false }

// ---------------------------------------------------------------- environment

type c16eEnv struct {
	srv      *Server
	rec      *c16eRec
	httpsLn  net.Listener
	httpLn   net.Listener
	httpsSrv *http.Server
	httpSrv  *http.Server
	conns    map[string]*c16eConn // slot -> connection
}

type c16eConn struct {
	key string // proto|sni|peer
	tcp net.Conn
	br  *bufio.Reader
	dc  *dns.Conn
	qc  quic.Connection
	h2  *c16eH2
}

var (
	c16e       *c16eEnv
	c16eUpsSrv *dns.Server
	c16eUpsAdr string
	c16eUpsRec *c16eRec // the upstream counts into the current block's recorder
	c16eCerts  = map[string]*tls.Certificate{}
	c16eDC     *dnscrypt.ResolverConfig
	c16eDCCert *dnscrypt.Cert
)

// c16eCert builds (once per shape) a self-signed certificate with the given DNS
// SANs, common name and, optionally, IP SANs.
func c16eCert(names []string, cn string, withIP bool) *tls.Certificate {
	k := strings.Join(names, "\x00") + "\x01" + cn + "\x01" + vutil.B(withIP)
	if c, ok := c16eCerts[k]; ok {
		return c
	}
	priv, err := ecdsa.GenerateKey(elliptic.P256(), crand.Reader)
	if err != nil {
		panic(err)
	}
	tmpl := &x509.Certificate{
		SerialNumber: big.NewInt(int64(len(c16eCerts) + 1)),
		Subject:      pkix.Name{CommonName: cn, Organization: []string{"c16.verif"}},
		NotBefore:    time.Now().Add(-time.Hour),
		NotAfter:     time.Now().Add(24 * time.Hour),
		KeyUsage:     x509.KeyUsageDigitalSignature,
		ExtKeyUsage:  []x509.ExtKeyUsage{x509.ExtKeyUsageServerAuth},
		DNSNames:     names,
	}
	if withIP {
		tmpl.IPAddresses = []net.IP{{127, 0, 0, 1}, net.IPv6loopback}
	}
	der, err := x509.CreateCertificate(crand.Reader, tmpl, tmpl, &priv.PublicKey, priv)
	if err != nil {
		panic(err)
	}
	c := &tls.Certificate{Certificate: [][]byte{der}, PrivateKey: priv}
	c16eCerts[k] = c

	return c
}

func c16eStartUpstream() {
	if c16eUpsSrv != nil {
		return
	}
	pc, err := net.ListenPacket("udp", "127.0.0.1:0")
	if err != nil {
		panic(err)
	}
	c16eUpsAdr = pc.LocalAddr().String()
	h := dns.HandlerFunc(func(w dns.ResponseWriter, req *dns.Msg) {
		resp := (&dns.Msg{}).SetReply(req)
		if len(req.Question) == 1 {
			q := req.Question[0]
			if r := c16eUpsRec; r != nil {
				r.mu.Lock()
				r.upsN[strings.ToLower(q.Name)]++
				r.mu.Unlock()
			}
			if q.Qtype == dns.TypeA {
				resp.Answer = append(resp.Answer, &dns.A{
					Hdr: dns.RR_Header{Name: q.Name, Rrtype: dns.TypeA, Class: dns.ClassINET, Ttl: 60},
					A:   net.IP{192, 0, 2, 1},
				})
			}
		}
		_ = w.WriteMsg(resp)
	})
	c16eUpsSrv = &dns.Server{PacketConn: pc, Handler: h}
	go func() { _ = c16eUpsSrv.ActivateAndServe() }()
}

func (e *c16eEnv) closeConns() {
	for k, c := range e.conns {
		c.close()
		delete(e.conns, k)
	}
}

func (c *c16eConn) close() {
	if c.qc != nil {
		_ = c.qc.CloseWithError(0, "")
	}
	if c.dc != nil {
		_ = c.dc.Close()
	}
	if c.tcp != nil {
		_ = c.tcp.Close()
	}
}

func (e *c16eEnv) stop() {
	e.closeConns()
	if e.httpsSrv != nil {
		_ = e.httpsSrv.Close()
	}
	if e.httpSrv != nil {
		_ = e.httpSrv.Close()
	}
	if e.srv != nil {
		_ = e.srv.Stop()
		e.srv.Close()
	}
}

// c16eReset starts a fresh server for a block.
func c16eReset(srvName string, strict bool, certNames []string, certCN string, certIP, plainDoH bool) {
	if c16e != nil {
		c16e.stop()
	}
	c16eStartUpstream()
	rec := newC16eRec()
	c16eUpsRec = rec
	e := &c16eEnv{rec: rec, conns: map[string]*c16eConn{}}

	flt, err := filtering.New(&filtering.Config{
		BlockingMode:    filtering.BlockingModeDefault,
		BlockedServices: &filtering.BlockedServices{Schedule: schedule.EmptyWeekly()},
		ApplyClientFiltering: func(id string, _ netip.Addr, _ *filtering.Settings) {
			rec.mu.Lock()
			defer rec.mu.Unlock()
			rec.filt[rec.lastQ] = append(rec.filt[rec.lastQ], id)
		},
	}, nil)
	if err != nil {
		panic(err)
	}
	flt.SetEnabled(true)

	s, err := NewServer(DNSCreateParams{
		DNSFilter:   flt,
		Stats:       &c16eStats{rec: rec},
		QueryLog:    &c16eQueryLog{rec: rec},
		DHCPServer:  c16eDHCP{},
		PrivateNets: netutil.SubnetSetFunc(netutil.IsLocallyServed),
		Logger:      slogutil.NewDiscardLogger(),
	})
	if err != nil {
		panic(err)
	}

	if c16eDC == nil {
		rc, gerr := dnscrypt.GenerateResolverConfig("2.dnscrypt-cert.c16.verif", nil)
		if gerr != nil {
			panic(gerr)
		}
		c16eDC = &rc
		c16eDCCert, gerr = rc.CreateCert()
		if gerr != nil {
			panic(gerr)
		}
	}

	mux := http.NewServeMux()
	lo := net.IP{127, 0, 0, 1}
	// The DoH routes are registered once per process by the package; a block
	// gets its own mux, so let this server register again.
	webRegistered = false
	conf := ServerConfig{
		UDPListenAddrs: []*net.UDPAddr{{IP: lo}},
		TCPListenAddrs: []*net.TCPAddr{{IP: lo}},
		TLSConf: &TLSConfig{
			Cert:            c16eCert(certNames, certCN, certIP),
			TLSListenAddrs:  []*net.TCPAddr{{IP: lo}},
			QUICListenAddrs: []*net.UDPAddr{{IP: lo}},
			ServerName:      srvName,
			StrictSNICheck:  strict,
		},
		DNSCryptConfig: DNSCryptConfig{
			ResolverCert:   c16eDCCert,
			ProviderName:   c16eDC.ProviderName,
			UDPListenAddrs: []*net.UDPAddr{{IP: lo}},
			TCPListenAddrs: []*net.TCPAddr{{IP: lo}},
			Enabled:        true,
		},
		Config: Config{
			UpstreamDNS:      []string{c16eUpsAdr},
			UpstreamMode:     UpstreamModeLoadBalance,
			EDNSClientSubnet: &EDNSClientSubnet{Enabled: false},
			ClientsContainer: &c16eClients{rec: rec},
		},
		ConfigModified:         func() {},
		ServePlainDNS:          true,
		TLSAllowUnencryptedDoH: plainDoH,
		// What internal/home's httpRegister does for the method-less DoH routes.
		HTTPRegister: func(method, url string, h http.HandlerFunc) {
			if method == "" {
				mux.HandleFunc(url, h)
			}
		},
	}
	if err = s.Prepare(&conf); err != nil {
		panic(err)
	}
	if err = s.Start(); err != nil {
		panic(err)
	}
	e.srv = s

	// The web server of AdGuard Home: plain certificate configuration (no SNI
	// filtering), HTTP/1.1 and h2.
	tcpLn, err := net.Listen("tcp", "127.0.0.1:0")
	if err != nil {
		panic(err)
	}
	e.httpsLn = tcpLn
	e.httpsSrv = &http.Server{
		Handler:   mux,
		TLSConfig: &tls.Config{Certificates: []tls.Certificate{*c16eCert(certNames, certCN, certIP)}, MinVersion: tls.VersionTLS12},
		ErrorLog:  slog.NewLogLogger(slog.DiscardHandler, slog.LevelError),
	}
	go func() { _ = e.httpsSrv.ServeTLS(tcpLn, "", "") }()

	e.httpLn, err = net.Listen("tcp", "127.0.0.1:0")
	if err != nil {
		panic(err)
	}
	e.httpSrv = &http.Server{Handler: mux, ErrorLog: slog.NewLogLogger(slog.DiscardHandler, slog.LevelError)}
	go func() { _ = e.httpSrv.Serve(e.httpLn) }()

	c16e = e
}

// ---------------------------------------------------------------- clients

// c16eMsg builds the DNS request: question qname A, optional EDNS option blob
// (code 65001 carrying ednsVal — a would-be identity the server must ignore).
func c16eMsg(qname, ednsVal string, id uint16) *dns.Msg {
	m := (&dns.Msg{}).SetQuestion(qname, dns.TypeA)
	m.Id = id
	if ednsVal != "" {
		o := &dns.OPT{Hdr: dns.RR_Header{Name: ".", Rrtype: dns.TypeOPT}}
		o.SetUDPSize(1232)
		o.Option = append(o.Option, &dns.EDNS0_LOCAL{Code: 65001, Data: []byte(ednsVal)})
		m.Extra = append(m.Extra, o)
	}

	return m
}

func c16eDialer(peer string) *net.Dialer {
	d := &net.Dialer{Timeout: c16eTimeout}
	if peer != "" {
		d.LocalAddr = &net.TCPAddr{IP: net.ParseIP(peer)}
	}

	return d
}

func c16eClsOfMsg(resp *dns.Msg) string {
	switch resp.Rcode {
	case dns.RcodeSuccess:
		if len(resp.Answer) > 0 {
			return "ans"
		}

		return "noerror-empty"
	case dns.RcodeServerFailure:
		return "servfail"
	case dns.RcodeRefused:
		return "refused"
	default:
		return "rcode" + strconv.Itoa(resp.Rcode)
	}
}

// conn returns the connection of the slot, dialling when the slot is empty or
// holds a connection of another kind.  fresh reports whether it was dialled now.
func (e *c16eEnv) conn(slot, key string, dial func() (*c16eConn, error)) (c *c16eConn, fresh bool, err error) {
	if c = e.conns[slot]; c != nil && c.key == key {
		return c, false, nil
	} else if c != nil {
		c.close()
		delete(e.conns, slot)
	}
	c, err = dial()
	if err != nil {
		return nil, true, err
	}
	c.key = key
	e.conns[slot] = c

	return c, true, nil
}

func (e *c16eEnv) drop(slot string) {
	if c := e.conns[slot]; c != nil {
		c.close()
		delete(e.conns, slot)
	}
}

func c16eTLSConf(sni string, protos ...string) *tls.Config {
	return &tls.Config{ServerName: sni, InsecureSkipVerify: true, NextProtos: protos, MinVersion: tls.VersionTLS12}
}

func isHandshakeErr(err error) bool {
	if err == nil {
		return false
	}
	s := err.Error()

	return strings.Contains(s, "tls:") || strings.Contains(s, "CRYPTO_ERROR") || strings.Contains(s, "handshake")
}

// request is one parsed C16E.q line.
type c16eReq struct {
	proto, slot, peer, sni, method, target, host, edns, qname string
	dnsOK                                                     bool
	hdrs                                                      [][2]string
}

func (e *c16eEnv) doPlain(r *c16eReq, network string) string {
	c := &dns.Client{Net: network, Timeout: c16eTimeout, Dialer: c16eDialerFor(network, r.peer)}
	resp, _, err := c.Exchange(c16eMsg(r.qname, r.edns, uint16(1+rand.IntN(65000))), e.srv.dnsProxy.Addr(proxy.Proto(network)).String())
	if err != nil {
		return "err:" + c16eErrCls(err)
	}

	return c16eClsOfMsg(resp)
}

func c16eDialerFor(network, peer string) *net.Dialer {
	d := &net.Dialer{Timeout: c16eTimeout}
	if peer != "" {
		if network == "udp" {
			d.LocalAddr = &net.UDPAddr{IP: net.ParseIP(peer)}
		} else {
			d.LocalAddr = &net.TCPAddr{IP: net.ParseIP(peer)}
		}
	}

	return d
}

func c16eErrCls(err error) string {
	s := err.Error()
	switch {
	case isHandshakeErr(err):
		return "hs"
	case strings.Contains(s, "timeout"):
		return "timeout"
	case strings.Contains(s, "EOF"), strings.Contains(s, "reset"), strings.Contains(s, "closed"), strings.Contains(s, "broken pipe"):
		return "closed"
	default:
		return "other:" + vutil.Hex(s)
	}
}

func (e *c16eEnv) doDoT(r *c16eReq) string {
	key := "dot|" + r.sni + "|" + r.peer
	for attempt := 0; ; attempt++ {
		c, fresh, err := e.conn(r.slot, key, func() (*c16eConn, error) {
			tc, derr := tls.DialWithDialer(c16eDialer(r.peer), "tcp", e.srv.dnsProxy.Addr(proxy.ProtoTLS).String(), c16eTLSConf(r.sni))
			if derr != nil {
				return nil, derr
			}

			return &c16eConn{tcp: tc, dc: &dns.Conn{Conn: tc}}, nil
		})
		if err != nil {
			return c16eErrCls(err)
		}
		_ = c.tcp.SetDeadline(time.Now().Add(c16eTimeout))
		err = c.dc.WriteMsg(c16eMsg(r.qname, r.edns, uint16(1+rand.IntN(65000))))
		var resp *dns.Msg
		if err == nil {
			resp, err = c.dc.ReadMsg()
		}
		if err != nil {
			e.drop(r.slot)
			if !fresh && attempt == 0 {
				continue // a reused connection the server had closed: dial again
			}

			return c16eErrCls(err)
		}

		return c16eClsOfMsg(resp)
	}
}

func (e *c16eEnv) doDoQ(r *c16eReq) string {
	key := "doq|" + r.sni + "|" + r.peer
	ctx, cancel := context.WithTimeout(context.Background(), c16eTimeout)
	defer cancel()
	for attempt := 0; ; attempt++ {
		c, fresh, err := e.conn(r.slot, key, func() (*c16eConn, error) {
			pc, lerr := net.ListenUDP("udp", &net.UDPAddr{IP: net.ParseIP(r.peer)})
			if lerr != nil {
				return nil, lerr
			}
			ua, _ := e.srv.dnsProxy.Addr(proxy.ProtoQUIC).(*net.UDPAddr)
			qc, derr := quic.Dial(ctx, pc, ua, c16eTLSConf(r.sni, "doq"), &quic.Config{})
			if derr != nil {
				_ = pc.Close()

				return nil, derr
			}

			return &c16eConn{qc: qc}, nil
		})
		if err != nil {
			return c16eErrCls(err)
		}
		cls, err := c16eDoQExchange(ctx, c.qc, c16eMsg(r.qname, r.edns, 0))
		if err != nil {
			e.drop(r.slot)
			if !fresh && attempt == 0 {
				continue
			}

			return c16eErrCls(err)
		}

		return cls
	}
}

func c16eDoQExchange(ctx context.Context, qc quic.Connection, m *dns.Msg) (string, error) {
	st, err := qc.OpenStreamSync(ctx)
	if err != nil {
		return "", err
	}
	raw, err := m.Pack()
	if err != nil {
		return "", err
	}
	buf := make([]byte, 2+len(raw))
	binary.BigEndian.PutUint16(buf, uint16(len(raw)))
	copy(buf[2:], raw)
	_ = st.SetDeadline(time.Now().Add(c16eTimeout))
	if _, err = st.Write(buf); err != nil {
		return "", err
	}
	_ = st.Close()
	data, err := io.ReadAll(st)
	if err != nil && len(data) < 2 {
		return "", err
	}
	if len(data) < 2 {
		return "", io.ErrUnexpectedEOF
	}
	resp := &dns.Msg{}
	if err = resp.Unpack(data[2:]); err != nil {
		return "", err
	}

	return c16eClsOfMsg(resp), nil
}

func (e *c16eEnv) doDNSCrypt(r *c16eReq, network string) string {
	addr := e.srv.dnsProxy.Addr(proxy.ProtoDNSCrypt).String()
	stamp, err := c16eDC.CreateStamp(addr)
	if err != nil {
		return "err:" + vutil.Hex(err.Error())
	}
	cl := &dnscrypt.Client{Net: network, Timeout: c16eTimeout}
	ri, err := cl.DialStamp(stamp)
	if err != nil {
		return "err:dial:" + c16eErrCls(err)
	}
	resp, err := cl.Exchange(c16eMsg(r.qname, r.edns, uint16(1+rand.IntN(65000))), ri)
	if err != nil {
		return "err:" + c16eErrCls(err)
	}

	return c16eClsOfMsg(resp)
}

// c16eTarget substitutes the base64url DNS message for the @DNS@ token.
func c16eTarget(target string, m *dns.Msg) string {
	raw, err := m.Pack()
	if err != nil {
		panic(err)
	}

	return strings.ReplaceAll(target, "@DNS@", base64.RawURLEncoding.EncodeToString(raw))
}

// c16eBody returns the POST body: the packed message, or garbage when the
// request is meant to carry no acceptable DNS message.
func c16eBody(r *c16eReq, m *dns.Msg) []byte {
	if !r.dnsOK {
		return []byte{1, 2, 3}
	}
	raw, err := m.Pack()
	if err != nil {
		panic(err)
	}

	return raw
}

func (e *c16eEnv) doH1(r *c16eReq, useTLS bool) string {
	kind := "h1"
	if !useTLS {
		kind = "hp"
	}
	key := kind + "|" + r.sni + "|" + r.peer
	m := c16eMsg(r.qname, r.edns, 0)
	var b bytes.Buffer
	fmt.Fprintf(&b, "%s %s HTTP/1.1\r\nHost: %s\r\n", r.method, c16eTarget(r.target, m), r.host)
	for _, h := range r.hdrs {
		fmt.Fprintf(&b, "%s: %s\r\n", h[0], h[1])
	}
	if r.method == "POST" {
		body := c16eBody(r, m)
		fmt.Fprintf(&b, "Content-Type: application/dns-message\r\nContent-Length: %d\r\n\r\n", len(body))
		b.Write(body)
	} else {
		b.WriteString("\r\n")
	}

	for attempt := 0; ; attempt++ {
		c, fresh, err := e.conn(r.slot, key, func() (*c16eConn, error) {
			var nc net.Conn
			var derr error
			if useTLS {
				nc, derr = tls.DialWithDialer(c16eDialer(r.peer), "tcp", e.httpsLn.Addr().String(), c16eTLSConf(r.sni, "http/1.1"))
			} else {
				nc, derr = c16eDialer(r.peer).Dial("tcp", e.httpLn.Addr().String())
			}
			if derr != nil {
				return nil, derr
			}

			return &c16eConn{tcp: nc, br: bufio.NewReader(nc)}, nil
		})
		if err != nil {
			return c16eErrCls(err)
		}
		_ = c.tcp.SetDeadline(time.Now().Add(c16eTimeout))
		_, err = c.tcp.Write(b.Bytes())
		var resp *http.Response
		if err == nil {
			resp, err = http.ReadResponse(c.br, nil)
		}
		if err != nil {
			e.drop(r.slot)
			if !fresh && attempt == 0 {
				continue
			}

			return c16eErrCls(err)
		}
		body, _ := io.ReadAll(resp.Body)
		_ = resp.Body.Close()
		if resp.Close || resp.StatusCode != http.StatusOK {
			e.drop(r.slot)
		}

		return c16eClsOfHTTP(resp.StatusCode, body)
	}
}

func c16eClsOfHTTP(status int, body []byte) string {
	if status != http.StatusOK {
		return "http" + strconv.Itoa(status)
	}
	resp := &dns.Msg{}
	if err := resp.Unpack(body); err != nil {
		return "http200-baddns"
	}

	return c16eClsOfMsg(resp)
}

// c16eH2 is a minimal HTTP/2 client with full control over the pseudo-headers.
type c16eH2 struct {
	fr     *http2.Framer
	henc   *hpack.Encoder
	hbuf   bytes.Buffer
	hdec   *hpack.Decoder
	nextID uint32
	goaway bool
}

func c16eNewH2(nc net.Conn) (*c16eH2, error) {
	h := &c16eH2{nextID: 1}
	if _, err := nc.Write([]byte(http2.ClientPreface)); err != nil {
		return nil, err
	}
	h.fr = http2.NewFramer(nc, nc)
	h.henc = hpack.NewEncoder(&h.hbuf)
	h.hdec = hpack.NewDecoder(4096, nil)
	if err := h.fr.WriteSettings(); err != nil {
		return nil, err
	}

	return h, nil
}

// do sends one request and waits for the end of its response stream.
func (h *c16eH2) do(method, path, authority string, hdrs [][2]string, body []byte) (cls string, err error) {
	id := h.nextID
	h.nextID += 2
	h.hbuf.Reset()
	wf := func(k, v string) { _ = h.henc.WriteField(hpack.HeaderField{Name: k, Value: v}) }
	wf(":method", method)
	wf(":scheme", "https")
	if authority != "" {
		wf(":authority", authority)
	}
	wf(":path", path)
	for _, kv := range hdrs {
		wf(strings.ToLower(kv[0]), kv[1])
	}
	if body != nil {
		wf("content-type", "application/dns-message")
		wf("content-length", strconv.Itoa(len(body)))
	}
	err = h.fr.WriteHeaders(http2.HeadersFrameParam{
		StreamID: id, BlockFragment: h.hbuf.Bytes(), EndHeaders: true, EndStream: body == nil,
	})
	if err != nil {
		return "", err
	}
	// A header block with an invalid field value never opens the stream (it is
	// reset); DATA sent for it would be a connection error of THIS client.
	if body != nil && httpguts.ValidHeaderFieldValue(path) && httpguts.ValidHeaderFieldValue(authority) {
		if err = h.fr.WriteData(id, true, body); err != nil {
			return "", err
		}
	}
	var data []byte
	status := 0
	for {
		f, rerr := h.fr.ReadFrame()
		if rerr != nil {
			return "", rerr
		}
		switch f := f.(type) {
		case *http2.SettingsFrame:
			if !f.IsAck() {
				_ = h.fr.WriteSettingsAck()
			}
		case *http2.PingFrame:
			if !f.IsAck() {
				_ = h.fr.WritePing(true, f.Data)
			}
		case *http2.GoAwayFrame:
			// the server finishes the streams up to LastStreamID; the
			// connection is not used again afterwards
			h.goaway = true
			if f.LastStreamID < id {
				return "", fmt.Errorf("goaway closed")
			}
		case *http2.RSTStreamFrame:
			if f.StreamID == id {
				return "rst", nil
			}
		case *http2.HeadersFrame:
			fields, derr := h.hdec.DecodeFull(f.HeaderBlockFragment())
			if derr != nil {
				return "", derr
			}
			if f.StreamID == id {
				for _, hf := range fields {
					if hf.Name == ":status" {
						status, _ = strconv.Atoi(hf.Value)
					}
				}
				if f.StreamEnded() {
					return c16eClsOfHTTP(status, data), nil
				}
			}
		case *http2.DataFrame:
			if f.StreamID == id {
				data = append(data, f.Data()...)
				if n := len(f.Data()); n > 0 {
					_ = h.fr.WriteWindowUpdate(0, uint32(n))
				}
				if f.StreamEnded() {
					return c16eClsOfHTTP(status, data), nil
				}
			}
		}
	}
}

func (e *c16eEnv) doH2(r *c16eReq) string {
	key := "h2|" + r.sni + "|" + r.peer
	m := c16eMsg(r.qname, r.edns, 0)
	var body []byte
	if r.method == "POST" {
		body = c16eBody(r, m)
	}
	for attempt := 0; ; attempt++ {
		c, fresh, err := e.conn(r.slot, key, func() (*c16eConn, error) {
			nc, derr := tls.DialWithDialer(c16eDialer(r.peer), "tcp", e.httpsLn.Addr().String(), c16eTLSConf(r.sni, "h2"))
			if derr != nil {
				return nil, derr
			}
			h2c, derr := c16eNewH2(nc)
			if derr != nil {
				_ = nc.Close()

				return nil, derr
			}

			return &c16eConn{tcp: nc, h2: h2c}, nil
		})
		if err != nil {
			return c16eErrCls(err)
		}
		_ = c.tcp.SetDeadline(time.Now().Add(c16eTimeout))
		cls, err := c.h2.do(r.method, c16eTarget(r.target, m), r.host, r.hdrs, body)
		if err == nil && c.h2.goaway {
			e.drop(r.slot)
		}
		if err != nil {
			e.drop(r.slot)
			if !fresh && attempt == 0 {
				continue
			}

			return c16eErrCls(err)
		}

		return cls
	}
}

// ---------------------------------------------------------------- run

func c16eJoinIDs(ids []string, ip string) string {
	// canonical: count, then the distinct values (an IP string of the peer
	// stands for "nobody" in the statistics)
	var out []string
	for _, id := range ids {
		if pip := net.ParseIP(id); ip != "" && pip != nil && pip.IsLoopback() {
			// the statistics name an identity-less client by its address
			id = ""
		}
		if !slices.Contains(out, id) {
			out = append(out, id)
		}
	}
	if len(out) == 0 {
		return "none"
	}
	if len(out) == 1 {
		return "id:" + vutil.Hex(out[0])
	}
	slices.Sort(out)
	hs := make([]string, len(out))
	for i, o := range out {
		hs[i] = vutil.Hex(o)
	}

	return "mixed:" + strings.Join(hs, ",")
}

func c16eRun(f []string) []string {
	switch f[0] {
	case "C16E.reset":
		n := vutil.Atoi(f[3])
		names := make([]string, n)
		for i := range names {
			names[i] = vutil.Unhex(f[4+i])
		}
		// srvName strict nDNS dnsSAN… certCN certHasIP plainDoH urlStrictColons;
		// the last one is a fact about this binary (GODEBUG), an input of the
		// model only.  The certificate reaches the server only through
		// ServerConfig.TLSConf.Cert and the real Prepare/prepareTLS.
		c16eReset(vutil.Unhex(f[1]), vutil.UnB(f[2]), names, vutil.Unhex(f[4+n]), vutil.UnB(f[5+n]), vutil.UnB(f[6+n]))

		return []string{"reset"}
	case "C16E.reconf":
		c16e.closeConns()
		if err := c16e.srv.Reconfigure(nil); err != nil {
			panic(err)
		}

		return []string{"reconf"}
	case "C16E.q":
	default:
		panic("unknown op " + f[0])
	}

	// proto slot peer sni sniValid method target host splitOk splitHost dnsOK ipLitOK edns qname nhdr (k v)*
	r := &c16eReq{
		proto: f[1], slot: f[2], peer: vutil.Unhex(f[3]), sni: vutil.Unhex(f[4]), method: f[6],
		target: vutil.Unhex(f[7]), host: vutil.Unhex(f[8]), dnsOK: vutil.UnB(f[11]),
		edns: vutil.Unhex(f[13]), qname: vutil.Unhex(f[14]),
	}
	nh := vutil.Atoi(f[15])
	for i := 0; i < nh; i++ {
		r.hdrs = append(r.hdrs, [2]string{vutil.Unhex(f[16+2*i]), vutil.Unhex(f[17+2*i])})
	}
	// The input grammar: one request per line.  A CR or LF inside the Host
	// value, or an ill-formed extra header, would be a different sequence of
	// header lines, not this request.
	if strings.ContainsAny(r.host, "\r\n") {
		panic("C16E.q: CR/LF in the Host value is outside the input grammar")
	}
	for _, h := range r.hdrs {
		if !httpguts.ValidHeaderFieldName(h[0]) || !httpguts.ValidHeaderFieldValue(h[1]) {
			panic("C16E.q: ill-formed extra header is outside the input grammar")
		}
	}

	e := c16e
	q := strings.ToLower(r.qname)
	e.rec.mu.Lock()
	e.rec.lastQ = q
	for _, m := range []map[string][]string{e.rec.log, e.rec.stat, e.rec.ups, e.rec.filt} {
		delete(m, q)
	}
	delete(e.rec.upsN, q)
	e.rec.mu.Unlock()

	var cls string
	switch r.proto {
	case "udp":
		cls = e.doPlain(r, "udp")
	case "tcp":
		cls = e.doPlain(r, "tcp")
	case "dot":
		cls = e.doDoT(r)
	case "doq":
		cls = e.doDoQ(r)
	case "h1":
		cls = e.doH1(r, true)
	case "hp":
		cls = e.doH1(r, false)
	case "h2":
		cls = e.doH2(r)
	case "dcu":
		cls = e.doDNSCrypt(r, "udp")
	default:
		panic("unknown proto " + r.proto)
	}

	e.rec.mu.Lock()
	defer e.rec.mu.Unlock()
	e.rec.lastQ = ""

	return []string{
		cls,
		strconv.Itoa(len(e.rec.log[q])), c16eJoinIDs(e.rec.log[q], ""),
		c16eJoinIDs(e.rec.stat[q], r.peer),
		c16eJoinIDs(e.rec.ups[q], ""), c16eJoinIDs(e.rec.filt[q], ""),
		strconv.Itoa(e.rec.upsN[q]),
	}
}

// ---------------------------------------------------------------- generator

var c16eHexDigits = "0123456789abcdefABCDEF"

// c16eEncodePath spells a decoded path as a raw request path.
func c16eEncodePath(r *rand.Rand, p string, mode int) string {
	var b strings.Builder
	for i := 0; i < len(p); i++ {
		c := p[i]
		must := c <= ' ' || c == 0x7f || c == '?' || c == '%' || c == '#'
		enc := false
		switch mode {
		case 0: // minimal
			enc = must
		case 1: // everything that is not a plain path byte, plus a random subset
			enc = must || c >= 0x80 || r.IntN(5) == 0
		case 2: // dots, slashes and letters of the interesting segments too
			enc = must || c == '.' || c == '/' && r.IntN(3) == 0 || r.IntN(8) == 0
		default: // raw: nothing is encoded (malformed stream)
		}
		if enc {
			hi, lo := c16eHexDigits[c>>4], c16eHexDigits[c&15]
			if r.IntN(2) == 0 && lo >= 'a' {
				lo = lo - 'a' + 'A'
			}
			if r.IntN(2) == 0 && hi >= 'a' {
				hi = hi - 'a' + 'A'
			}
			b.WriteByte('%')
			b.WriteByte(hi)
			b.WriteByte(lo)
		} else {
			b.WriteByte(c)
		}
	}

	return b.String()
}

var c16eHdrPool = [][2]string{
	{"X-Client-ID", "victim"}, {"X-ClientID", "victim"}, {"Client-Id", "victim"}, {"X-Forwarded-For", "10.1.2.3"},
	{"X-Real-IP", "10.1.2.4"}, {"CF-Connecting-IP", "10.1.2.5"}, {"True-Client-IP", "10.1.2.6"},
	{"Forwarded", "for=10.1.2.7;host=victim.example.org"}, {"X-Forwarded-Host", "victim.example.org"},
	{"Cookie", "clientid=victim"}, {"Authorization", "Basic dmljdGltOng="}, {"User-Agent", "victim"},
}

var c16eQueries = []string{
	"dns=@DNS@", "dns=@DNS@", "dns=@DNS@", "a=b&dns=@DNS@", "dns=@DNS@&id=victim&clientid=victim&client_id=victim",
	"dns=@DNS@&name=/dns-query/victim", "clientid=victim&dns=@DNS@", "dns=@DNS@?x", "dns=AAAA", "", "dns=@DNS@#/dns-query/victim",
}

func c16eGenTarget(r *rand.Rand, method, proto string) string {
	path := c16GenPath(r)
	mode := []int{0, 0, 0, 1, 1, 2, 2, 3}[r.IntN(8)]
	if proto == "h2" && mode == 3 && strings.ContainsFunc(path, func(c rune) bool { return c < ' ' || c == 0x7f }) {
		// a raw control byte in an h2 :path is refused by the hpack layer
		// (stream reset, and a connection error once the body follows)
		mode = 0
	}
	raw := c16eEncodePath(r, path, mode)
	switch r.IntN(44) {
	case 0:
		raw += "%zz"
	case 1:
		raw += "%4"
	case 2:
		raw += "%"
	case 3:
		raw = "*"
	case 4:
		raw = strings.TrimPrefix(raw, "/")
	case 5:
		raw = "foo:bar" + raw
	case 6:
		raw = "http:" + raw
	case 7, 8, 9, 10, 11, 12, 13:
		// absolute-form: scheme "://" authority path.  Without a leading slash
		// the first path segment runs into the authority.
		if r.IntN(6) > 0 && !strings.HasPrefix(raw, "/") {
			raw = "/" + raw
		}
		raw = vutil.Pick(r, []string{"http", "https", "HTTP", "a+b-c.d", "Https"}) + "://" + c16eGenAuthority(r) + raw
	}
	if raw == "*" {
		return raw
	}
	switch {
	case method == "POST" && r.IntN(3) > 0:
		return raw
	case r.IntN(25) == 0:
		return raw + "?" // ForceQuery
	default:
		return raw + "?" + vutil.Pick(r, c16eQueries)
	}
}

// c16eStrictColons probes GODEBUG urlstrictcolons of this binary.
func c16eStrictColons() bool {
	_, err := url.Parse("http://a:1:2/")

	return err != nil
}

var c16eAuthorities = []string{
	"evil.example", "victim.example.org", "victim.example.org:8443", "", "example.org:", "h", "h:x", "h:", ":", ":80", ":x",
	"%ff", "%80", "%7f", "%25", "%41", "%zz", "%4", "caf%C3%A9.example.org", "caf\xc3\xa9.example", "a%2Fb", "%e2%84%aaid.example.org",
	"user@victim.example.org", "user:pw@victim.example.org", "u%41:p%zz@h", "u%zz@h", "a@b@victim.example.org", "us\xc3\xa9r@h", "user@", "@h", "u<@h",
	"[::1]", "[::1]:443", "[::1]:x", "[::1%25eth0]", "[fe80::1%25en%41]", "[fe80::1%25e%20n]", "[fe80::1%25e%2fn]", "[::1%zz]", "[1.2.3.4]", "[::ffff:1.2.3.4]",
	"[::1", "::1]", "a[::1]", "[::g]", "[%3a%3a1]", "[::1]%41", "[]",
	"a:1:2", "a:b:2", "a:1:b", "a b", "a\"b", "a<b>", "a_b", "A.B", "-", "a!$&'()*+,;=b", "a|b", "a^b", "a{b}", "a\\b", "a`b", "a#b",
}

func c16eGenAuthority(r *rand.Rand) string {
	a := vutil.Pick(r, c16eAuthorities)
	if r.IntN(5) == 0 {
		a = vutil.Pick(r, []string{"user@", "u:p@", "%41@", ""}) + a + vutil.Pick(r, []string{"", ":53", ":", ":x"})
	}

	return a
}

// c16eIPLitOK is the oracle for a bracketed host in an absolute-form target:
// netip.ParseAddr accepts its unescaped content and it is not an IPv4 address.
// It is true when the target has no such host (the model does not ask then).
func c16eIPLitOK(target string) bool {
	i := strings.Index(target, "://")
	if i < 0 {
		return true
	}
	rest, _, _ := strings.Cut(target[i+3:], "?")
	auth, _, _ := strings.Cut(rest, "/")
	if j := strings.LastIndex(auth, "@"); j >= 0 {
		auth = auth[j+1:]
	}
	cb := strings.LastIndex(auth, "]")
	if !strings.HasPrefix(auth, "[") || cb < 0 {
		return true
	}
	content, err := url.PathUnescape(auth[1:cb])
	if err != nil {
		return true
	}
	addr, err := netip.ParseAddr(content)

	return err == nil && !addr.Is4()
}

// c16eOracles parses the request the way net/http will, for the two values the
// model takes as oracles: r.Host (for SplitHost) and whether dnsproxy finds a
// DNS message.
func c16eOracles(method, target, host string) (effHost string, dnsOK bool) {
	effHost, dnsOK = host, true
	if u, err := url.ParseRequestURI(target); err == nil && method == "GET" {
		dnsOK = u.Query().Get("dns") == "@DNS@"
	}
	req, err := http.ReadRequest(bufio.NewReader(strings.NewReader(
		method + " " + target + " HTTP/1.1\r\nHost: " + host + "\r\n\r\n")))
	if err == nil {
		effHost = req.Host
	}

	return effHost, dnsOK
}

func c16eGenHost(r *rand.Rand, srv, sni string) string {
	for {
		var h string
		switch r.IntN(8) {
		case 0:
			h = ""
		case 1:
			h = srv
		case 2:
			h = "victim." + srv
		case 3:
			h = "victim." + srv + ":443"
		case 4:
			h = "[::1]:443"
		case 5:
			h = c16GenSNI(r, srv)
		default:
			h = sni
		}
		// mostly values net/http accepts as a Host; sometimes not (400 over
		// HTTP/1.x, stream reset over h2 for control bytes).  Leading/trailing
		// blanks would be trimmed by the header parser, CR/LF split the line.
		if httpguts.ValidHostHeader(h) || r.IntN(6) == 0 && h == strings.TrimSpace(h) && !strings.ContainsAny(h, "\r\n") {
			return h
		}
	}
}

// c16eSNIOK reports whether Go's TLS client sends name unchanged as the SNI.
func c16eSNIOK(name string) bool {
	if strings.HasSuffix(name, ".") || net.ParseIP(name) != nil || strings.HasPrefix(name, "[") {
		return false
	}
	if i := strings.LastIndex(name, "%"); i > 0 && net.ParseIP(name[:i]) != nil {
		return false
	}

	return true
}

func c16eGen(r *rand.Rand, emit vutil.Emit) {
	n := vutil.N(100)
	protos := []string{"udp", "tcp", "dcu", "dot", "dot", "dot", "doq", "doq", "h1", "h1", "h1", "h1", "h1", "h2", "h2", "h2", "h2", "hp", "hp"}
	for b := 0; b < n; b++ {
		srv := vutil.Pick(r, []string{"example.org", "example.org", "dns.example.org", "dns.example.org", "Example.Org", "org", ""})
		strict := r.IntN(2) == 0
		// certificate dimension: DNS SAN = server name (+ wildcard), server
		// name only, wildcard of the parent, another name, CN only, IP SANs
		// only, no names at all
		base := srv
		if base == "" {
			base = "example.org"
		}
		var names []string
		cn, certIP := "", r.IntN(4) == 0
		switch k := r.IntN(14); {
		case k < 5:
			names = []string{base, "*." + base}
		case k == 5:
			names = []string{base}
		case k == 6 || k == 7:
			names = []string{"*.example.org", "example.org"}
		case k == 8:
			names = []string{"other.test", "*.other.test"}
		case k == 9:
			cn = base
		case k == 10:
			cn = "*." + base
		case k == 11 || k == 12:
			certIP = true // IP SANs only
		default:
			certIP = false // no names at all
		}
		if len(names) > 0 && r.IntN(3) == 0 {
			cn = vutil.Pick(r, []string{base, "c16.verif", "*." + base})
		}
		f := []string{"C16E.reset", vutil.Hex(srv), vutil.B(strict), vutil.Itoa(len(names))}
		for _, nm := range names {
			f = append(f, vutil.Hex(nm))
		}
		emit(append(f, vutil.Hex(cn), vutil.B(certIP), vutil.B(r.IntN(2) == 0), vutil.B(c16eStrictColons()))...)

		steps := 15 + r.IntN(35)
		reconfAt := -1
		if r.IntN(3) == 0 {
			reconfAt = 5 + r.IntN(steps-5)
		}
		lastSNI := map[string]string{}
		for i := 0; i < steps; i++ {
			if i == reconfAt {
				emit("C16E.reconf")
			}
			proto := vutil.Pick(r, protos)
			if i > reconfAt && reconfAt >= 0 && r.IntN(2) == 0 {
				// after a reconfiguration dnsproxy counts from 1 again: many
				// identity-less requests land on numbers used before
				proto = vutil.Pick(r, []string{"udp", "tcp", "dcu", "dot", "h1"})
			}
			slot := proto + vutil.Itoa(r.IntN(2))
			sni := ""
			if proto != "udp" && proto != "tcp" && proto != "dcu" {
				sni = lastSNI[slot]
				if sni == "" || r.IntN(2) == 0 {
					for {
						sni = c16GenSNI(r, srv)
						if r.IntN(3) == 0 {
							sni = vutil.Pick(r, []string{"cli", "Victim", "a-b", "x1"}) + "." + srv
						}
						if c16eSNIOK(sni) {
							break
						}
					}
				}
				lastSNI[slot] = sni
			}
			method, target, host, hostSplit, splitOK, dnsOK := "GET", "", "", "", true, true
			if proto == "h1" || proto == "h2" || proto == "hp" {
				if r.IntN(4) == 0 {
					method = "POST"
				}
				target = c16eGenTarget(r, method, proto)
				host = c16eGenHost(r, srv, sni)
				eff := host
				eff, dnsOK = c16eOracles(method, target, host)
				if proto == "h2" {
					eff = host
				}
				if method == "POST" && r.IntN(20) == 0 {
					dnsOK = false
				}
				var serr error
				hostSplit, serr = netutil.SplitHost(eff)
				splitOK = serr == nil
			}
			peer := vutil.Pick(r, []string{"127.0.0.1", "127.0.0.1", "127.0.0.1", "127.0.0.2", "127.0.0.3"})
			edns := ""
			if r.IntN(3) == 0 {
				edns = "victim"
			}
			sniValid := netutil.IsValidHostname(sni) || netutil.IsValidIPString(sni)
			f = []string{"C16E.q", proto, slot, vutil.Hex(peer), vutil.Hex(sni), vutil.B(sniValid), method, vutil.Hex(target),
				vutil.Hex(host), vutil.B(splitOK), vutil.Hex(hostSplit), vutil.B(dnsOK), vutil.B(c16eIPLitOK(target)), vutil.Hex(edns),
				vutil.Hex(fmt.Sprintf("q%d.c16.example.", i))}
			nh := 0
			if target != "" {
				nh = r.IntN(3)
			}
			f = append(f, vutil.Itoa(nh))
			for k := 0; k < nh; k++ {
				h := vutil.Pick(r, c16eHdrPool)
				f = append(f, vutil.Hex(h[0]), vutil.Hex(h[1]))
			}
			emit(f...)
		}
	}
}

func TestVerifC16E2E(t *testing.T) {
	vutil.Main(t, c16eGen, c16eRun)
	if c16e != nil {
		c16e.stop()
	}
}
