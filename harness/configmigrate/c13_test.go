//go:build verif

package configmigrate

import (
	"fmt"
	"io"
	"math"
	"math/rand/v2"
	"net/netip"
	"os"
	"path/filepath"
	"regexp"
	"runtime/debug"
	"sort"
	"strconv"
	"strings"
	"testing"
	"time"

	"github.com/AdguardTeam/AdGuardHome/internal/vutil"
	"github.com/AdguardTeam/golibs/log"
	"github.com/AdguardTeam/golibs/timeutil"
	"golang.org/x/crypto/bcrypt"
	yaml "gopkg.in/yaml.v3"
)

// Line format of C13.doc (input fields):
//
//	C13.doc target stepTarget nk k1..knk body parseOK tree
//	        nInts (int daysHex hoursHex)*  apHost apOK apPort apRes
//	        nQuic (inHex outHex)*  ufPattern  nRT (opaqueToken tree)*
//
// Observation: R_one R_step R_k1 .. R_knk, see c13Result.

const (
	c13DataDir    = "/vdata"
	c13BcryptMark = "\x00bcrypt-of:"
)

var c13WorkDir string

// ---------------------------------------------------------------- canonical tree dump

func c13Dump(sb *strings.Builder, v any) {
	switch v := v.(type) {
	case nil:
		sb.WriteString("n")
	case bool:
		if v {
			sb.WriteString("t")
		} else {
			sb.WriteString("f")
		}
	case int:
		sb.WriteString("i")
		sb.WriteString(strconv.Itoa(v))
	case string:
		sb.WriteString("s")
		sb.WriteString(vutil.Hex(v))
	case float64:
		sb.WriteString("x1:")
		sb.WriteString(vutil.Hex(strconv.FormatFloat(v, 'g', -1, 64)))
	case uint64:
		sb.WriteString("x2:")
		sb.WriteString(vutil.Hex(strconv.FormatUint(v, 10)))
	case int64:
		sb.WriteString("x5:")
		sb.WriteString(vutil.Hex(strconv.FormatInt(v, 10)))
	case time.Time:
		sb.WriteString("x3:")
		sb.WriteString(vutil.Hex(v.Format(time.RFC3339Nano)))
	case []any:
		sb.WriteString("a")
		sb.WriteString(strconv.Itoa(len(v)))
		for _, x := range v {
			sb.WriteString(",")
			c13Dump(sb, x)
		}
	case map[string]any:
		keys := make([]string, 0, len(v))
		for k := range v {
			keys = append(keys, k)
		}
		sort.Strings(keys)
		sb.WriteString("m")
		sb.WriteString(strconv.Itoa(len(v)))
		for _, k := range keys {
			sb.WriteString(",")
			sb.WriteString(vutil.Hex(k))
			sb.WriteString(",")
			c13Dump(sb, v[k])
		}
	case map[any]any:
		ents := make([]string, 0, len(v))
		for k, x := range v {
			var e strings.Builder
			c13Dump(&e, k)
			e.WriteString("=")
			c13Dump(&e, x)
			ents = append(ents, e.String())
		}
		sort.Strings(ents)
		sb.WriteString("x4:")
		sb.WriteString(vutil.Hex(strings.Join(ents, ";")))
	default:
		sb.WriteString("x9:")
		sb.WriteString(vutil.Hex(fmt.Sprintf("%T %v", v, v)))
	}
}

func c13DumpStr(v any) string {
	var sb strings.Builder
	c13Dump(&sb, v)

	return sb.String()
}

// c13Parse is what Migrate does first.
func c13Parse(body []byte) (doc yobj, ok bool) {
	doc = yobj{}
	if err := yaml.Unmarshal(body, &doc); err != nil {
		return nil, false
	}

	return doc, true
}

// ---------------------------------------------------------------- running the implementation

var (
	c13StepRe  = regexp.MustCompile(`migrating schema (\d+) to (\d+)`)
	c13FrameRe = regexp.MustCompile(`configmigrate\.(?:\(\*Migrator\)\.|Migrator\.)?migrateTo(\d+)`)
)

func c13ErrClass(err error) string {
	msg := err.Error()
	step := "0"
	if m := c13StepRe.FindStringSubmatch(msg); m != nil {
		step = m[2]
	}
	var cls string
	switch {
	case strings.Contains(msg, "parsing config file for upgrade"):
		cls = "parse"
	case strings.Contains(msg, "unknown current schema version"):
		cls = "vcur"
	case strings.Contains(msg, "unknown target schema version"):
		cls = "vtarget"
	case strings.Contains(msg, "generating new config"):
		cls = "encode"
	case strings.Contains(msg, "generating password hash"):
		cls = "bcrypt"
	case strings.Contains(msg, "invalid bind_host value"):
		cls = "bindhost"
	case strings.Contains(msg, "unexpected type"), strings.Contains(msg, "expected object, got"):
		cls = "type"
	default:
		cls = "other" + vutil.Hex(msg)
	}

	return cls + ":" + step
}

// c13Migrate runs the real Migrate with a recover around it.  res is the
// outcome without the document: "P:class:step", "E:class:step:<same><upgraded>",
// "S:<same>" or "U" (then newBody is the upgraded body).
func c13Migrate(body []byte, target uint) (res string, newBody []byte) {
	defer func() {
		if v := recover(); v != nil {
			msg := fmt.Sprint(v)
			cls := "other" + vutil.Hex(msg)
			switch {
			case strings.Contains(msg, "assignment to entry in nil map"):
				cls = "nilmap"
			case strings.Contains(msg, "index out of range"), strings.Contains(msg, "slice bounds"):
				cls = "index"
			case strings.Contains(msg, "interface conversion"):
				cls = "assert"
			}
			step := "0"
			if m := c13FrameRe.FindStringSubmatch(string(debug.Stack())); m != nil {
				step = m[1]
			}
			res, newBody = "P:"+cls+":"+step, nil
		}
	}()

	m := New(&Config{WorkingDir: c13WorkDir, DataDir: c13DataDir})
	in := append([]byte(nil), body...)
	nb, upgraded, err := m.Migrate(in, target)
	same := string(nb) == string(body)
	switch {
	case err != nil:
		return "E:" + c13ErrClass(err) + ":" + vutil.B(same) + vutil.B(upgraded), nil
	case !upgraded:
		return "S:" + vutil.B(same), nil
	default:
		return "U", nb
	}
}

// c13Canon replaces a bcrypt hash that verifies against the original
// auth_pass by a deterministic marker (the hash is salted).
func c13Canon(doc yobj, pass string, havePass bool) {
	if !havePass {
		return
	}
	users, _ := doc["users"].([]any)
	for _, u := range users {
		um, _ := u.(map[string]any)
		pw, _ := um["password"].(string)
		if strings.HasPrefix(pw, "$2") && bcrypt.CompareHashAndPassword([]byte(pw), []byte(pass)) == nil {
			um["password"] = c13BcryptMark + pass
		}
	}
}

type c13Ctx struct {
	pass     string
	havePass bool
}

// c13Tree decodes an upgraded body and dumps it.
func (c c13Ctx) tree(b []byte) string {
	doc, ok := c13Parse(b)
	if !ok {
		return "!parse"
	}
	c13Canon(doc, c.pass, c.havePass)

	return c13DumpStr(doc)
}

func c13Run(f []string) []string {
	if f[0] != "C13.doc" {
		panic("unknown op " + f[0])
	}
	target := uint(vutil.Atoi(f[1]))
	stepTarget := f[2]
	nk := vutil.Atoi(f[3])
	ks := f[4 : 4+nk]
	body := []byte(vutil.Unhex(f[4+nk]))

	ctx := c13Ctx{}
	if doc, ok := c13Parse(body); ok {
		if p, has := doc["auth_pass"]; has {
			if s, isStr := p.(string); isStr {
				ctx.pass, ctx.havePass = s, true
			} else if p == nil {
				ctx.pass, ctx.havePass = "", true
			}
		}
	}

	out := make([]string, 0, nk+2)

	one, oneBody := c13Migrate(body, target)
	oneTree := ""
	if one == "U" {
		oneTree = ctx.tree(oneBody)
		one = "U:" + oneTree
	}
	out = append(out, one)

	if stepTarget == "-" {
		out = append(out, "-")
	} else {
		st, stBody := c13Migrate(body, uint(vutil.Atoi(stepTarget)))
		if st == "U" {
			st = "U:" + ctx.tree(stBody)
		}
		out = append(out, st)
	}

	for _, kf := range ks {
		k := uint(vutil.Atoi(kf))
		r1, b1 := c13Migrate(body, k)
		switch {
		case strings.HasPrefix(r1, "E:"), strings.HasPrefix(r1, "P:"):
			out = append(out, "1"+r1)

			continue
		case strings.HasPrefix(r1, "S:"):
			b1 = body
		}
		r2, b2 := c13Migrate(b1, target)
		if r2 == "U" {
			t := ctx.tree(b2)
			if one != "" && strings.HasPrefix(one, "U:") && t == oneTree {
				t = "="
			}
			r2 = "U:" + t
		} else if r2 == "S:1" && r1 == "U" {
			// Nothing left to do in the second run: the result is the first one's.
			t := ctx.tree(b1)
			if strings.HasPrefix(one, "U:") && t == oneTree {
				t = "="
			}
			r2 = "U:" + t
		}
		out = append(out, "2"+r2)
	}

	return out
}

// ---------------------------------------------------------------- oracles

func c13CollectInts(v any, acc map[int]bool) {
	switch v := v.(type) {
	case int:
		if len(acc) < 48 {
			acc[v] = true
		}
	case []any:
		for _, x := range v {
			c13CollectInts(x, acc)
		}
	case map[string]any:
		for _, x := range v {
			c13CollectInts(x, acc)
		}
	}
}

func c13CollectUps(doc yobj, acc map[string]bool) {
	for _, top := range []string{"dns", "coredns"} {
		sec, _ := doc[top].(map[string]any)
		for _, x := range sec {
			arr, _ := x.([]any)
			for _, e := range arr {
				if s, ok := e.(string); ok && len(acc) < 64 {
					acc[s] = true
				}
			}
		}
	}
}

// c13OracleFields computes the library values the model needs for body.
func c13OracleFields(body []byte) (parseOK bool, tree string, fields []string) {
	doc, ok := c13Parse(body)
	ints := map[int]bool{0: true, 1: true, 90: true}
	ups := map[string]bool{}
	host, port := "", 0
	if ok {
		c13CollectInts(doc, ints)
		c13CollectUps(doc, ups)
		host, _ = doc["bind_host"].(string)
		port, _ = doc["bind_port"].(int)
		tree = "n" // a null document makes yaml.Unmarshal set the map to nil
		if doc != nil {
			tree = c13DumpStr(doc)
		}
	} else {
		tree = "n"
	}

	is := make([]int, 0, len(ints))
	for i := range ints {
		is = append(is, i)
	}
	sort.Ints(is)
	fields = append(fields, strconv.Itoa(len(is)))
	for _, i := range is {
		fields = append(fields, strconv.Itoa(i),
			vutil.Hex(timeutil.Duration(time.Duration(i)*timeutil.Day).String()),
			vutil.Hex(timeutil.Duration(time.Duration(i)*time.Hour).String()))
	}

	addr, err := netip.ParseAddr(host)
	res := ""
	if err == nil {
		res = netip.AddrPortFrom(addr, uint16(port)).String()
	}
	fields = append(fields, vutil.Hex(host), vutil.B(err == nil), strconv.Itoa(port), vutil.Hex(res))

	us := make([]string, 0, len(ups))
	for u := range ups {
		us = append(us, u)
	}
	sort.Strings(us)
	fields = append(fields, strconv.Itoa(len(us)))
	for _, u := range us {
		fields = append(fields, vutil.Hex(u), vutil.Hex(addQUICPort(u, 784)))
	}

	fields = append(fields, vutil.Hex(filepath.Join(c13DataDir, "userfilters", "*")))

	rts := map[string]string{}
	if ok {
		c13CollectRT(doc, rts)
	}
	toks := make([]string, 0, len(rts))
	for k := range rts {
		toks = append(toks, k)
	}
	sort.Strings(toks)
	fields = append(fields, strconv.Itoa(len(toks)))
	for _, k := range toks {
		fields = append(fields, k, rts[k])
	}

	return ok, tree, fields
}

// c13CollectRT records, for every value that is not a generic YAML scalar,
// sequence or string-keyed mapping (float64, uint64, time.Time, map[any]any),
// what yaml.v3 reads back after encoding it.
func c13CollectRT(v any, acc map[string]string) {
	switch v := v.(type) {
	case nil, bool, int, string:
		return
	case []any:
		for _, x := range v {
			c13CollectRT(x, acc)
		}
	case map[string]any:
		for _, x := range v {
			c13CollectRT(x, acc)
		}
	default:
		tok := c13DumpStr(v)
		if _, done := acc[tok]; done {
			return
		}
		rt := "!"
		if b, err := yaml.Marshal(map[string]any{"v": v}); err == nil {
			m := map[string]any{}
			if err = yaml.Unmarshal(b, &m); err == nil {
				rt = c13DumpStr(m["v"])
			}
		}
		acc[tok] = rt
	}
}

// ---------------------------------------------------------------- generator

var c13Strs = []string{
	"", "lan", "1.2.3.4", "0.0.0.0", "::1", "fe80::1%eth0", "not-an-ip", "127.0.0.1", "quic://dns.example",
	"quic://dns.example:853", "[/a.example/]quic://u.example", "[/a.example/quic://broken", "tls://1.1.1.1",
	"#quic://commented", "8.8.8.8", "/abs/path.txt", "relative.txt", "https://lists.example/f.txt", ".", "|.^",
	"example.org", strings.Repeat("p", 72), strings.Repeat("p", 73), "y", "123", "true", "null", "~", "café",
	"\xff\xfe", "a\nb", " lead", "trail ", "quic://[::1]", "quic://%zz", "secret", "admin", "AA:AA:AA:AA:AA:AA",
	"custom_ip", "Local", "2160h", "24h", "load_balance",
}

var c13Ints = []int{
	0, 1, 2, 24, 90, 720, 1000, 86400, -1, -90, 53, 3000, 8080, 65535, 65536, 70000, 6060, 106751, 106752,
	2562047, 2562048, math.MaxInt64, math.MinInt64, 1048576,
}

func c13Scalar(r *rand.Rand, kind string) any {
	switch kind {
	case "int":
		return vutil.Pick(r, c13Ints)
	case "str":
		return vutil.Pick(r, c13Strs)
	case "ip":
		if r.IntN(10) == 0 {
			return vutil.Pick(r, c13Strs)
		}

		return vutil.Pick(r, []string{"1.2.3.4", "0.0.0.0", "::1", "127.0.0.1", "fe80::1%eth0", "::ffff:1.2.3.4"})
	case "bool":
		return r.IntN(2) == 0
	case "strs":
		n := r.IntN(4)
		a := make([]any, n)
		for i := range a {
			a[i] = vutil.Pick(r, c13Strs)
		}

		return a
	case "obj":
		return c13Extra(r, 2)
	default:
		return c13Extra(r, 2)
	}
}

// c13Extra is an arbitrary small tree.
func c13Extra(r *rand.Rand, depth int) any {
	switch r.IntN(12) {
	case 0:
		return nil
	case 1:
		return r.IntN(2) == 0
	case 2, 3:
		return vutil.Pick(r, c13Ints)
	case 4, 5:
		return vutil.Pick(r, c13Strs)
	case 6:
		return []float64{1.5, -0.0, 1e300, 3.0}[r.IntN(4)]
	case 7:
		return uint64(math.MaxUint64 - uint64(r.IntN(3)))
	case 8:
		return time.Date(2001, 12, 14, 21, 59, 43, 100000000*r.IntN(2), time.UTC)
	case 9:
		if depth <= 0 {
			return []any{}
		}
		n := r.IntN(3)
		a := make([]any, n)
		for i := range a {
			a[i] = c13Extra(r, depth-1)
		}

		return a
	case 10:
		if depth <= 0 {
			return map[string]any{}
		}
		n := r.IntN(3)
		m := map[string]any{}
		for i := 0; i < n; i++ {
			m["x"+strconv.Itoa(r.IntN(4))] = c13Extra(r, depth-1)
		}

		return m
	default:
		return map[any]any{1: "one", true: vutil.Pick(r, c13Strs)}
	}
}

// c13Noise is the per-document percentage of null / wrong-typed values.
var c13Noise = 10

// c13Val is a value for a field of the given kind: mostly of the right type,
// sometimes null or of another type.
func c13Val(r *rand.Rand, kind string) any {
	switch x := r.IntN(200); {
	case x < c13Noise:
		return nil
	case x < 2*c13Noise:
		return c13Extra(r, 1)
	default:
		return c13Scalar(r, kind)
	}
}

type c13Field struct{ key, kind string }

var c13DNSFields = []c13Field{
	{"bootstrap_dns", "any"}, {"bind_host", "str"}, {"autohost_tld", "str"}, {"upstream_dns", "strs"},
	{"local_ptr_upstreams", "strs"}, {"querylog_interval", "int"}, {"local_domain_name", "str"},
	{"resolve_clients", "bool"}, {"querylog_enabled", "bool"}, {"querylog_file_enabled", "bool"},
	{"querylog_size_memory", "int"}, {"statistics_interval", "int"}, {"edns_client_subnet", "bool"},
	{"safesearch_enabled", "bool"}, {"blocked_services", "strs"}, {"filtering_enabled", "bool"},
	{"filters_update_interval", "int"}, {"parental_enabled", "bool"}, {"safebrowsing_enabled", "bool"},
	{"safebrowsing_cache_size", "int"}, {"safesearch_cache_size", "int"}, {"parental_cache_size", "int"},
	{"safe_search", "obj"}, {"rewrites", "strs"}, {"protection_enabled", "bool"}, {"blocking_mode", "str"},
	{"blocking_ipv4", "str"}, {"blocking_ipv6", "str"}, {"blocked_response_ttl", "int"},
	{"protection_disabled_until", "any"}, {"parental_block_host", "str"}, {"safebrowsing_block_host", "str"},
	{"all_servers", "bool"}, {"fastest_addr", "bool"}, {"upstream_mode", "str"}, {"port", "int"},
	{"bind_hosts", "strs"},
}

var c13DHCPFields = []c13Field{
	{"enabled", "bool"}, {"interface_name", "str"}, {"gateway_ip", "str"}, {"subnet_mask", "str"},
	{"range_start", "str"}, {"range_end", "str"}, {"lease_duration", "int"}, {"icmp_timeout_msec", "int"},
	{"local_domain_name", "str"}, {"dhcpv4", "obj"},
}

var c13ClientFields = []c13Field{
	{"name", "str"}, {"ip", "str"}, {"mac", "str"}, {"ids", "strs"}, {"safesearch_enabled", "bool"},
	{"blocked_services", "strs"}, {"safe_search", "obj"}, {"use_global_blocked_services", "bool"},
}

var c13TopFields = []c13Field{
	{"auth_name", "str"}, {"rlimit_nofile", "int"}, {"bind_host", "ip"}, {"bind_port", "int"},
	{"web_session_ttl", "int"}, {"log_file", "str"}, {"log_max_backups", "int"}, {"log_max_size", "int"},
	{"log_max_age", "int"}, {"log_compress", "bool"}, {"log_localtime", "bool"}, {"verbose", "bool"},
	{"debug_pprof", "bool"}, {"users", "any"}, {"os", "obj"}, {"log", "obj"}, {"language", "str"},
}

func c13Obj(r *rand.Rand, fields []c13Field, pct int) map[string]any {
	m := map[string]any{}
	for _, f := range fields {
		if r.IntN(100) < pct {
			m[f.key] = c13Val(r, f.kind)
		}
	}
	if r.IntN(3) == 0 {
		m["extra_"+strconv.Itoa(r.IntN(3))] = c13Extra(r, 2)
	}

	return m
}

func c13Section(r *rand.Rand, mk func() any) any {
	switch x := r.IntN(200); {
	case x < c13Noise:
		return nil
	case x < 2*c13Noise:
		return c13Extra(r, 1)
	default:
		return mk()
	}
}

func c13Clients(r *rand.Rand) any {
	n := r.IntN(4)
	a := make([]any, n)
	for i := range a {
		a[i] = c13Section(r, func() any { return c13Obj(r, c13ClientFields, 40) })
	}

	return a
}

func c13Filters(r *rand.Rand) any {
	n := r.IntN(4)
	a := make([]any, n)
	for i := range a {
		a[i] = c13Section(r, func() any {
			return c13Obj(r, []c13Field{{"url", "str"}, {"name", "str"}, {"enabled", "bool"}, {"id", "int"}}, 70)
		})
	}

	return a
}

func c13Ignored(r *rand.Rand) map[string]any {
	m := c13Obj(r, []c13Field{{"interval", "int"}, {"enabled", "bool"}, {"ignored", "strs"}}, 60)
	if r.IntN(3) == 0 {
		m["ignored"] = []any{".", "example.org", vutil.Pick(r, []any{".", 1, nil, "|.^"})}
	}

	return m
}

var c13Versions = []any{
	nil, -1, 30, 31, 1000, "5", 3.0, uint64(math.MaxUint64), true, math.MinInt64, []any{1},
}

// c13GenDoc builds a document tree around schema version cur.
func c13GenDoc(r *rand.Rand) (doc map[string]any, cur int) {
	doc = map[string]any{}
	cur = r.IntN(30)
	c13Noise = vutil.Pick(r, []int{0, 0, 1, 3, 8, 20})
	switch x := r.IntN(100); {
	case x < 4:
		// absent: version 0
		cur = 0
	case x < 12:
		v := vutil.Pick(r, c13Versions)
		doc["schema_version"] = v
		cur = -1
		if v == nil {
			cur = 0
		}
	case x < 18:
		cur = 29
		doc["schema_version"] = cur
	default:
		doc["schema_version"] = cur
	}

	// The sections are sparse (a third of the keys), so that many documents
	// get through many steps.
	pct := vutil.Pick(r, []int{10, 25, 40, 70})
	dnsKey := "dns"
	if cur >= 0 && cur < 2 && r.IntN(2) == 0 {
		dnsKey = "coredns"
	}
	if r.IntN(100) < 85 {
		doc[dnsKey] = c13Section(r, func() any { return c13Obj(r, c13DNSFields, pct) })
	}
	if r.IntN(100) < 50 {
		doc["dhcp"] = c13Section(r, func() any { return c13Obj(r, c13DHCPFields, pct) })
	}
	if r.IntN(100) < 50 {
		if (cur >= 14) != (r.IntN(10) == 0) {
			doc["clients"] = c13Section(r, func() any {
				m := map[string]any{}
				if r.IntN(10) > 0 {
					m["persistent"] = c13Section(r, func() any { return c13Clients(r) })
				}
				if r.IntN(2) == 0 {
					m["runtime_sources"] = c13Extra(r, 1)
				}

				return m
			})
		} else {
			doc["clients"] = c13Section(r, func() any { return c13Clients(r) })
		}
	}
	if r.IntN(100) < 35 {
		doc["querylog"] = c13Section(r, func() any { return c13Ignored(r) })
	}
	if r.IntN(100) < 35 {
		doc["statistics"] = c13Section(r, func() any { return c13Ignored(r) })
	}
	if r.IntN(100) < 35 {
		doc["filters"] = c13Section(r, func() any { return c13Filters(r) })
	}
	if r.IntN(100) < 35 {
		doc["filtering"] = c13Section(r, func() any { return c13Extra(r, 1) })
		if r.IntN(2) == 0 {
			doc["filtering"] = map[string]any{"safe_fs_patterns": []any{"/x/*"}, "parental_enabled": true}
		}
	}
	if r.IntN(100) < 35 {
		doc["http"] = c13Section(r, func() any {
			return c13Obj(r, []c13Field{{"address", "str"}, {"session_ttl", "str"}, {"pprof", "obj"}}, 50)
		})
	}
	for _, f := range c13TopFields {
		if r.IntN(100) < pct/2+5 {
			doc[f.key] = c13Val(r, f.kind)
		}
	}
	// bcrypt is slow (cost 10): a hashable password is rare.
	if cur >= 0 && cur <= 4 {
		switch x := r.IntN(200); {
		case x < 2:
			doc["auth_pass"] = vutil.Pick(r, []any{"secret", "", nil, strings.Repeat("p", 72)})
			if r.IntN(4) > 0 {
				doc["auth_name"] = "admin"
			}
		case x < 24:
			doc["auth_pass"] = vutil.Pick(r, []any{strings.Repeat("p", 73), 5, []any{"x"}, true})
		}
	} else if r.IntN(20) == 0 {
		doc["auth_pass"] = c13Val(r, "str")
	}
	for i := r.IntN(3); i > 0; i-- {
		doc["extra_"+strconv.Itoa(r.IntN(5))] = c13Extra(r, 2)
	}

	return doc, cur
}

var c13RawTails = []string{
	"extra_ts: 2001-12-14T21:59:43.1Z\n",
	"extra_date: 2002-12-14\n",
	"extra_f: 1.5e3\n",
	"extra_anchor: &a {x: 1, y: [1, 2]}\nextra_alias: *a\n",
	"extra_anchor: &a {x: 1}\nextra_merge:\n  <<: *a\n  y: 2\n",
	"7: seven\n",
	"true: yes\n",
	"extra_nonstr: {1: a, true: b}\n",
	"extra_bin: !!binary aGVsbG8=\n",
	"extra_oct: 0o17\nextra_hex: 0x1F\nextra_inf: .inf\nextra_nan: .nan\n",
	"extra_multi: |\n  line one\n  line two\n",
	"extra_quoted: \"a\\tb\\u00e9\"\n",
	": : :\n",
	"schema_version: 3\n",
	"? [a, b]\n: 1\n",
	"extra_tagged: !custom {a: 1}\n",
	"extra_str_int: !!str 12\nextra_int_str: !!int \"12\"\n",
	"...\n---\nschema_version: 1\n",
}

var c13RawDocs = []string{
	"", "\n", "---\n", "null\n", "~\n", "[]\n", "- schema_version: 1\n", "5\n", "just a string\n", "{}\n",
	"schema_version: 28\nfilters:\nfiltering: {}\n", "\tschema_version: 1\n", "schema_version: 1\n\x00",
	"schema_version: 6\ndhcp:\n", "schema_version: 11\ndns:\n", "schema_version: 16\ndns: null\n",
	"schema_version: 19\nstatistics: ~\n", "schema_version: 24\nhttp:\n",
	"schema_version: 28\nfilters: []\nfiltering:\n",
	"schema_version: 12\ndns:\n  local_domain_name: lan\ndhcp:\n",
	"schema_version: 25\ndns:\n  safe_search:\n  blocked_services: ~\n  rewrites:\n",
	"schema_version: 0\ncoredns: &c\n  bootstrap_dns: 1.1.1.1\ndns: *c\n",
	"schema_version: 13\nclients:\ndns:\n  resolve_clients: false\n",
	"schema_version: 22\nbind_host: 1.2.3.4\nbind_port: 70000\nweb_session_ttl: 2562048\n",
	"schema_version: 5\ndhcp:\n  lease_duration: 86400.0\n",
	"schema_version: 10\nrlimit_nofile: 1e3\n",
	"schema_version: 3.0\n",
}

var c13Goldens []map[string]any

func c13LoadGoldens() {
	paths, _ := filepath.Glob("testdata/TestMigrateConfig_Migrate/*/input.yml")
	sort.Strings(paths)
	for _, p := range paths {
		b, err := os.ReadFile(p)
		if err != nil {
			continue
		}
		if doc, ok := c13Parse(b); ok {
			c13Goldens = append(c13Goldens, doc)
		}
	}
}

func c13Clone(v any) any {
	switch v := v.(type) {
	case map[string]any:
		m := make(map[string]any, len(v))
		for k, x := range v {
			m[k] = c13Clone(x)
		}

		return m
	case []any:
		a := make([]any, len(v))
		for i, x := range v {
			a[i] = c13Clone(x)
		}

		return a
	default:
		return v
	}
}

// c13Mutate changes one random node of the tree.
func c13Mutate(r *rand.Rand, v any, depth int) any {
	switch v := v.(type) {
	case map[string]any:
		if len(v) == 0 || r.IntN(4) == 0 || depth > 3 {
			switch r.IntN(3) {
			case 0:
				v["extra_"+strconv.Itoa(r.IntN(5))] = c13Extra(r, 2)
			case 1:
				for k := range c13SortedKeys(v) {
					_ = k
				}
				ks := c13SortedKeys(v)
				if len(ks) > 0 {
					delete(v, ks[r.IntN(len(ks))])
				}
			default:
				ks := c13SortedKeys(v)
				if len(ks) > 0 {
					v[ks[r.IntN(len(ks))]] = c13Val(r, "any")
				}
			}

			return v
		}
		ks := c13SortedKeys(v)
		k := ks[r.IntN(len(ks))]
		v[k] = c13Mutate(r, v[k], depth+1)

		return v
	case []any:
		if len(v) == 0 || r.IntN(3) == 0 {
			return append(v, c13Extra(r, 1))
		}
		i := r.IntN(len(v))
		v[i] = c13Mutate(r, v[i], depth+1)

		return v
	default:
		switch r.IntN(3) {
		case 0:
			return nil
		case 1:
			return c13Extra(r, 1)
		default:
			return v
		}
	}
}

func c13SortedKeys(m map[string]any) []string {
	ks := make([]string, 0, len(m))
	for k := range m {
		ks = append(ks, k)
	}
	sort.Strings(ks)

	return ks
}

func c13CurOf(doc map[string]any) int {
	v, has := doc["schema_version"]
	if !has || v == nil {
		return 0
	}
	if i, ok := v.(int); ok && i >= 0 && i <= 29 {
		return i
	}

	return -1
}

func c13Gen(r *rand.Rand, emit vutil.Emit) {
	if os.Getenv("VERIF_C13_EMIT_RAW") != "" {
		// Used once to (re)build corpus/C13/cases.txt: every hand-written
		// document, upgraded to 29 with every split point.
		for _, d := range c13RawDocs {
			cur := -1
			if doc, ok := c13Parse([]byte(d)); ok {
				cur = c13CurOf(doc)
			}
			stepTarget := "-"
			var ks []string
			if cur >= 0 && cur < 29 {
				stepTarget = strconv.Itoa(cur + 1)
				for k := cur; k <= 29; k++ {
					ks = append(ks, strconv.Itoa(k))
				}
			}
			c13Emit(emit, 29, stepTarget, ks, []byte(d))
		}

		return
	}

	n := vutil.N(3000)
	for i := 0; i < n; i++ {
		var body []byte
		cur := -1
		switch x := r.IntN(100); {
		case x < 3:
			body = []byte(vutil.Pick(r, c13RawDocs))
		case x < 15 && len(c13Goldens) > 0:
			doc := c13Clone(vutil.Pick(r, c13Goldens)).(map[string]any)
			for j := r.IntN(4); j > 0; j-- {
				c13Mutate(r, doc, 0)
			}
			if r.IntN(6) == 0 {
				doc["schema_version"] = r.IntN(30)
			}
			// bcrypt is slow (cost 10): most golden documents lose the password.
			if _, has := doc["auth_pass"]; has && r.IntN(8) > 0 {
				delete(doc, "auth_pass")
			}
			body, _ = yaml.Marshal(doc)
		default:
			doc, _ := c13GenDoc(r)
			body, _ = yaml.Marshal(doc)
			if r.IntN(8) == 0 {
				body = append(body, vutil.Pick(r, c13RawTails)...)
			}
		}
		if doc, ok := c13Parse(body); ok {
			cur = c13CurOf(doc)
		}

		target := 29
		if r.IntN(12) == 0 {
			target = r.IntN(32)
		}
		stepTarget := "-"
		if cur >= 0 && cur < 29 {
			stepTarget = strconv.Itoa(cur + 1)
		}

		var ks []string
		lo, hi := cur, target
		if lo < 0 {
			lo = 0
		}
		if hi < lo {
			hi = lo
		}
		every := 6
		if vutil.Thorough() {
			every = 2
		}
		if r.IntN(every) == 0 {
			// every split point of the version range
			for k := lo; k <= hi; k++ {
				ks = append(ks, strconv.Itoa(k))
			}
		} else {
			// just after the first step (the split most likely to be followed
			// by a failing step) and two random ones
			if lo+1 <= hi {
				ks = append(ks, strconv.Itoa(lo+1))
			}
			for j := 0; j < 2; j++ {
				ks = append(ks, strconv.Itoa(lo+r.IntN(hi-lo+1)))
			}
			if r.IntN(10) == 0 {
				ks = append(ks, strconv.Itoa(r.IntN(33)))
			}
		}

		c13Emit(emit, target, stepTarget, ks, body)
	}
}

func c13Emit(emit vutil.Emit, target int, stepTarget string, ks []string, body []byte) {
	parseOK, tree, of := c13OracleFields(body)
	f := []string{"C13.doc", strconv.Itoa(target), stepTarget, strconv.Itoa(len(ks))}
	f = append(f, ks...)
	f = append(f, vutil.Hex(string(body)), vutil.B(parseOK), tree)
	f = append(f, of...)
	emit(f...)
}

func TestVerifC13(t *testing.T) {
	if os.Getenv("VERIF_OUT") != "" {
		log.SetOutput(io.Discard)
		c13WorkDir = t.TempDir()
		c13LoadGoldens()
	}
	vutil.Main(t, c13Gen, c13Run)
}
