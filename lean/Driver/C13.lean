import Driver.Proto
import AGH.Spec.Migrate
import AGH.Spec.Loader
open Driver AGH AGH.C13

/-! Line-protocol driver of C13 (see harness/configmigrate/c13_test.go for the format). -/

def parseNat (s : String) : Option Nat := s.toNat?
def parseInt (s : String) : Option Int := s.toInt?

/-- `x<kind>:<hex>` -/
def parseOpaque (t : String) : Option YVal :=
  match (t.drop 1).toString.splitOn ":" with
  | [k, h] => do pure (.opaque (← parseNat k) (← hexDecode h))
  | _ => none

mutual
def parseVal : Nat → List String → Option (YVal × List String)
  | 0, _ => none
  | _, [] => none
  | fuel + 1, tok :: rest =>
    match tok.front with
    | 'n' => if tok == "n" then some (.null, rest) else none
    | 't' => if tok == "t" then some (.bool true, rest) else none
    | 'f' => if tok == "f" then some (.bool false, rest) else none
    | 'i' => (parseInt (tok.drop 1).toString).map (fun i => (.int i, rest))
    | 's' => (hexDecode (tok.drop 1).toString).map (fun b => (.str b, rest))
    | 'x' => (parseOpaque tok).map (fun v => (v, rest))
    | 'a' =>
      match parseNat (tok.drop 1).toString with
      | some n => (parseVals fuel n rest).map (fun (xs, r) => (.arr xs, r))
      | none => none
    | 'm' =>
      match parseNat (tok.drop 1).toString with
      | some n => (parseEnts fuel n rest).map (fun (es, r) => (.obj es, r))
      | none => none
    | _ => none
def parseVals : Nat → Nat → List String → Option (List YVal × List String)
  | 0, _, _ => none
  | _, 0, rest => some ([], rest)
  | fuel + 1, n + 1, rest =>
    match parseVal fuel rest with
    | some (x, r) => (parseVals fuel n r).map (fun (xs, r') => (x :: xs, r'))
    | none => none
def parseEnts : Nat → Nat → List String → Option (List (Key × YVal) × List String)
  | 0, _, _ => none
  | _, 0, rest => some ([], rest)
  | fuel + 1, n + 1, rest =>
    match rest with
    | k :: r0 =>
      match hexDecode k, parseVal fuel r0 with
      | some kb, some (x, r) => (parseEnts fuel n r).map (fun (es, r') => ((kb, x) :: es, r'))
      | _, _ => none
    | [] => none
end

def parseTree (s : String) : Option YVal :=
  let toks := s.splitOn ","
  match parseVal (toks.length + 1) toks with
  | some (v, []) => some v
  | _ => none

/-! canonical form: entries sorted by key -/

def bytesLt : Bytes → Bytes → Bool
  | [], [] => false
  | [], _ :: _ => true
  | _ :: _, [] => false
  | a :: as, b :: bs => if a < b then true else if a > b then false else bytesLt as bs

def insertSorted (e : Key × YVal) : List (Key × YVal) → List (Key × YVal)
  | [] => [e]
  | f :: fs => if bytesLt e.1 f.1 then e :: f :: fs else f :: insertSorted e fs

def sortEntries (es : List (Key × YVal)) : List (Key × YVal) := es.foldr insertSorted []

mutual
def canon : YVal → YVal
  | .arr xs => .arr (canonList xs)
  | .obj es => .obj (sortEntries (canonEnts es))
  | v => v
def canonList : List YVal → List YVal
  | [] => []
  | x :: xs => canon x :: canonList xs
def canonEnts : List (Key × YVal) → List (Key × YVal)
  | [] => []
  | (k, v) :: es => (k, canon v) :: canonEnts es
end

mutual
def showRaw : YVal → String
  | .null => "n"
  | .bool true => "t"
  | .bool false => "f"
  | .int i => "i" ++ toString i
  | .str s => "s" ++ hexEncode s
  | .opaque k p => "x" ++ toString k ++ ":" ++ hexEncode p
  | .arr xs => "a" ++ toString xs.length ++ showVals xs
  | .obj es => "m" ++ toString es.length ++ showEnts es
  | .dur n => "x9:dur" ++ toString n
  | .strs _ => "x9:strs"
  | .umode _ => "x9:umode"
def showVals : List YVal → String
  | [] => ""
  | x :: xs => "," ++ showRaw x ++ showVals xs
def showEnts : List (Key × YVal) → String
  | [] => ""
  | (k, v) :: es => "," ++ hexEncode k ++ "," ++ showRaw v ++ showEnts es
end

def showVal (v : YVal) : String := showRaw (canon v)

/-! results -/

def errName : ErrK → String
  | .type => "type" | .bcrypt => "bcrypt" | .bindHost => "bindhost" | .verCur => "vcur"
  | .verTarget => "vtarget" | .parse => "parse" | .encode => "encode" | .other => "other"

def parseErrK (s : String) : ErrK :=
  match s with
  | "type" => .type | "bcrypt" => .bcrypt | "bindhost" => .bindHost | "vcur" => .verCur
  | "vtarget" => .verTarget | "parse" => .parse | "encode" => .encode | _ => .other

def panicName : PanicK → String
  | .nilMapWrite => "nilmap" | .index => "index" | .assertion => "assert" | .other => "other"

def parsePanicK (s : String) : PanicK :=
  match s with
  | "nilmap" => .nilMapWrite | "index" => .index | "assert" => .assertion | _ => .other

/-- The implementation's result field; `oneTree` resolves `U:=`. -/
def parseRes (oneTree : Option YVal) (s : String) : Option Res :=
  match s.splitOn ":" with
  | ["P", cls, st] => do pure (.panic (parsePanicK cls) (← parseNat st))
  | ["E", cls, st, flags] =>
    match flags.toList with
    | [a, b] => do pure (.err (parseErrK cls) (← parseNat st) (a == '1') (b == '1'))
    | _ => none
  | ["S", b] => some (.same (b == "1"))
  | "U" :: rest =>
    let t := ":".intercalate rest
    if t == "=" then (match oneTree with | some d => some (.up (some d)) | none => none)
    else if t == "!parse" then some (.up none)
    else (parseTree t).map (fun d => .up (some d))
  | _ => none

/-- `none`: an oracle value was missing. -/
def showOutcome (oneShown : Option String) : Outcome → Option String
  | .err k s => some ("E:" ++ errName k ++ ":" ++ toString s ++ ":10")
  | .same => some "S:1"
  | .up d =>
    let t := showVal d
    some ("U:" ++ (if oneShown == some t then "=" else t))
  | .panic p s => some ("P:" ++ panicName p ++ ":" ++ toString s)
  | .oracle => none

def whyName : Why → String
  | .panicked p s => "panic-" ++ panicName p ++ "-step" ++ toString s
  | .errorChangedFile => "error-changed-file"
  | .notStamped => "not-stamped"
  | .notUpgraded => "not-upgraded"
  | .currentFileChanged => "current-file-changed"
  | .pathDependent => "path-dependent"
  | .pathDependentFloat => "path-dependent:integral-float"
  | .settingLost 0 => "setting-lost"
  | .settingLost s => "setting-lost-step" ++ toString s

def takeN {α} (n : Nat) (xs : List α) : Option (List α × List α) :=
  if xs.length < n then none else some (xs.take n, xs.drop n)

def lookupAssoc {α β} [BEq α] (k : α) : List (α × β) → Option β
  | [] => none
  | (a, b) :: r => if a == k then some b else lookupAssoc k r

def parseInts : Nat → List String → Option (List (Int × Bytes × Bytes) × List String)
  | 0, r => some ([], r)
  | n + 1, i :: d :: h :: r => do
    let x ← parseInt i
    let db ← hexDecode d
    let hb ← hexDecode h
    let (rest, r') ← parseInts n r
    pure ((x, db, hb) :: rest, r')
  | _, _ => none

def parseQuic : Nat → List String → Option (List (Bytes × Bytes) × List String)
  | 0, r => some ([], r)
  | n + 1, a :: b :: r => do
    let x ← hexDecode a
    let y ← hexDecode b
    let (rest, r') ← parseQuic n r
    pure ((x, y) :: rest, r')
  | _, _ => none

def parseRT : Nat → List String → Option (List (String × YVal) × List String)
  | 0, r => some ([], r)
  | n + 1, a :: b :: r => do
    let y ← parseTree b
    let (rest, r') ← parseRT n r
    pure ((a, y) :: rest, r')
  | _, _ => none

def stepDoc (ins impl : List String) : Option String := do
  match ins with
  | target :: stepT :: nk :: r0 =>
    let target ← parseNat target
    let stepTarget ← (if stepT == "-" then some none else (parseNat stepT).map some)
    let nk ← parseNat nk
    let (kfs, r1) ← takeN nk r0
    let ks ← kfs.mapM parseNat
    match r1 with
    | _body :: parseOK :: tree :: nInts :: r2 =>
      let parseOK ← parseBool parseOK
      let parsed ← (if parseOK then (parseTree tree).map some else some none)
      let (ints, r3) ← parseInts (← parseNat nInts) r2
      match r3 with
      | apHost :: apOK :: apPort :: apRes :: nQuic :: r4 =>
        let apHost ← hexDecode apHost
        let apOK ← parseBool apOK
        let apPort ← parseInt apPort
        let apRes ← hexDecode apRes
        let (quics, r5) ← parseQuic (← parseNat nQuic) r4
        match r5 with
        | uf :: nRT :: r6 =>
          let uf ← hexDecode uf
          let (rts, r7) ← parseRT (← parseNat nRT) r6
          if !r7.isEmpty then none else
          let o : Oracles := {
            fmtDays := fun n => (lookupAssoc n ints).map (·.1)
            fmtHours := fun n => (lookupAssoc n ints).map (·.2)
            addrOK := fun h => if h == apHost then some apOK else none
            addrPort := fun h p => if h == apHost && p == apPort then some apRes else none
            quic := fun u => lookupAssoc u quics
            ufPattern := uf
            rt := fun k p => lookupAssoc ("x" ++ toString k ++ ":" ++ hexEncode p) rts }
          let c : Case := { parsed := parsed, target := target, stepTarget := stepTarget, ks := ks }
          -- model
          let (mOne, mStep, mSplits) := modelOutcomes o c
          let sOne ← showOutcome none mOne
          let oneShown : Option String := match mOne with | .up d => some (showVal d) | _ => none
          let sStep ← (match mStep with | none => some "-" | some r => showOutcome none r)
          let sSplits ← mSplits.mapM (fun (st, r) => (showOutcome oneShown r).map (toString st ++ ·))
          let modelFields := sOne :: sStep :: sSplits
          -- implementation
          match impl with
          | iOne :: iStep :: iSplits =>
            let rOne ← parseRes none iOne
            let oneTree : Option YVal := match rOne with | .up d => d | _ => none
            let rStep ← (if iStep == "-" then some none else (parseRes none iStep).map some)
            let rSplits ← iSplits.mapM (fun s =>
              match s.front with
              | '1' => (parseRes oneTree (s.drop 1).toString).map (fun r => ((1 : Nat), r))
              | '2' => (parseRes oneTree (s.drop 1).toString).map (fun r => ((2 : Nat), r))
              | _ => none)
            if rSplits.length != ks.length then none else
            let obs : Obs := { one := rOne, step := rStep, splits := rSplits }
            let agree := modelFields == impl
            let spec := (specWhy o c obs).map whyName
            let shown := "\t".intercalate (modelFields.map (fun s => if s.length > 60 then (s.take 60).toString ++ "…" else s))
            let cls := (sOne.take 1).toString ++ (match parsed with
              | some d => (match versionOf d with | some v => toString v | none => "?") | none => "!")
            pure (verdict agree spec (cls ++ "\t" ++ (if agree then shown else "\t".intercalate modelFields)))
          | _ => none
        | _ => none
      | _ => none
    | _ => none
  | _ => none

/-! `C13.load`: the loader-acceptance clause (see harness/home/c13load_test.go).

    C13.load body valid migrated unmarshalled httpValid httpPort nBind b1..bn dnsPort
             tlsEnabled portHTTPS portDoT portDoQ portDNSCrypt ciphersOK  =>  result -/

def showLoadRes : C13L.LoadRes → String
  | .ok => "ok"
  | .migrate => "migrate"
  | .unmarshal => "unmarshal"
  | .bindHTTP => "bindhttp"
  | .bindDNS i => "binddns:" ++ toString i
  | .tcpDup ps => "tcp:" ++ ",".intercalate (ps.map toString)
  | .udpDup ps => "udp:" ++ ",".intercalate (ps.map toString)
  | .ciphers => "ciphers"

def parsePorts (s : String) : Option (List Nat) := (s.splitOn ",").mapM parseNat

def parseLoadRes (s : String) : Option C13L.LoadRes :=
  match s.splitOn ":" with
  | ["ok"] => some .ok
  | ["migrate"] => some .migrate
  | ["unmarshal"] => some .unmarshal
  | ["bindhttp"] => some .bindHTTP
  | ["binddns", i] => (parseNat i).map .bindDNS
  | ["tcp", ps] => (parsePorts ps).map .tcpDup
  | ["udp", ps] => (parsePorts ps).map .udpDup
  | ["ciphers"] => some .ciphers
  | _ => none

def stepLoad (ins impl : List String) : Option String := do
  match ins with
  | _body :: valid :: mig :: unm :: httpValid :: httpPort :: nBind :: r0 =>
    let (bs, r1) ← takeN (← parseNat nBind) r0
    match r1, impl with
    | [dnsPort, tlsEnabled, https, dot, doq, dnscrypt, ciphersOK], [res] =>
      let i : C13L.LoaderIn := {
        migrated := ← parseBool mig, unmarshalled := ← parseBool unm, httpValid := ← parseBool httpValid,
        httpPort := ← parseNat httpPort, bindValid := ← bs.mapM parseBool, dnsPort := ← parseNat dnsPort,
        tlsEnabled := ← parseBool tlsEnabled, portHTTPS := ← parseNat https, portDoT := ← parseNat dot,
        portDoQ := ← parseNat doq, portDNSCrypt := ← parseNat dnscrypt, ciphersOK := ← parseBool ciphersOK }
      let valid ← parseBool valid
      let m := C13L.parseConfig i
      let shown := showLoadRes m
      -- a result outside the model's vocabulary (panic, write error, …) is a rejection for the monitor
      let implRes : C13L.LoadRes := (parseLoadRes res).getD .unmarshal
      let spec : Option String :=
        if res.startsWith "PANIC" then some "panic-other-step0"
        else match C13L.loaderWhy valid i implRes with
          | some .rejectsValid => some "loader-rejects"
          | some .acceptsInvalid => some "loader-accepts-invalid"
          | none => none
      some (verdict (shown == res) spec ("load\t" ++ shown))
    | _, _ => none
  | _ => none

def step (_ : Unit) (line : String) : Unit × String :=
  let fs := splitTab line
  match fs with
  | "C13.doc" :: rest =>
    match splitArrow rest with
    | some (ins, impl) =>
      -- a panic of the harness itself outside the guarded calls
      match impl with
      | ["PANIC", _] => ((), verdict false (some "panic-other-step0") "harness-panic")
      | _ => ((), (stepDoc ins impl).getD "bad-op")
    | none => ((), "bad-op")
  | "C13.load" :: rest =>
    match splitArrow rest with
    | some (ins, impl) =>
      match impl with
      | ["PANIC", _] => ((), verdict false (some "panic-other-step0") "harness-panic")
      | _ => ((), (stepLoad ins impl).getD "bad-op")
    | none => ((), "bad-op")
  | _ => ((), "bad-op")

def main : IO Unit := run step ()
