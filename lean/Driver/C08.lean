import Driver.Proto
import AGH.Spec.Record
open Driver AGH AGH.C08

/-! Line-protocol driver for C08 (see harness/home/c08_test.go for the field layout). -/

abbrev P := StateT (List String) Option

def next : P String := fun fs =>
  match fs with
  | [] => none
  | f :: rest => some (f, rest)

def pNat : P Nat := do
  let s ← next
  match s.toNat? with
  | some n => pure n
  | none => failure

def pBool : P Bool := do
  match parseBool (← next) with
  | some b => pure b
  | none => failure

def pHex : P Bytes := do
  match hexDecode (← next) with
  | some b => pure b
  | none => failure

def lit (s : String) : P Unit := do
  if (← next) == s then pure () else failure

def times {α : Type} (p : P α) : Nat → P (List α)
  | 0 => pure []
  | n + 1 => do
    let x ← p
    let xs ← times p n
    pure (x :: xs)

def listOf {α : Type} (p : P α) : P (List α) := do
  let n ← pNat
  times p n

def done : P Unit := fun fs => if fs.isEmpty then some ((), []) else none

def runP {α : Type} (p : P α) (fs : List String) : Option α :=
  match (do let x ← p; done; pure x : P α) fs with
  | some (x, _) => some x
  | none => none

/-- A rule list; `none` (→ bad-op) if a rule is outside the modelled syntax. -/
def rules : P (List Bytes) := do
  let rs ← listOf pHex
  if rs.all Ignore.supportedRule then pure rs else failure

def cidP : P CID := do
  let kind ← next
  let raw ← pHex
  if kind == "z" then
    -- a zoned address: the third field is the zone name
    let zone ← pHex
    return .zip raw zone
  let bits ← pNat
  match kind with
  | "i" => pure (.ip raw)
  | "n" => pure (.net raw bits)
  | "m" => pure (.mac raw)
  | "c" => pure (.cid raw)
  | _ => failure

def clientP : P ClientObj := do
  let name ← pHex
  let lg ← pBool
  let st ← pBool
  let ids ← listOf cidP
  pure { name := name, ignLog := lg, ignStat := st, ids := ids }

def resetP : P ResetArgs := do
  let anon ← pBool
  let refuseAny ← pBool
  let qlogOn ← pBool
  let statsOn ← pBool
  let ignQ ← rules
  let ignS ← rules
  let clients ← listOf clientP
  let leases ← listOf (do let a ← pHex; let m ← pHex; pure (a, m))
  -- optional: the tree carries fixes/c08/zoned_client_stats.patch
  let fixZone ← (fun fs => match fs with
    | [] => some (true, [])
    | f :: rest => (parseBool f).map (fun b => (b, rest)) : P Bool)
  -- optional: the disallowed clients of the access settings, as typed identifiers
  let blocked ← (fun fs => match fs with
    | [] => some ([], [])
    | _ => (listOf cidP) fs : P (List CID))
  let access : Access :=
    { ips := blocked.filterMap (fun | .ip a => some a | _ => none),
      nets := blocked.filterMap (fun | .net a b => some ⟨a, b⟩ | _ => none),
      cids := blocked.filterMap (fun | .cid c => some c | _ => none) }
  pure { anon, refuseAny, qlogOn, statsOn, ignQ, ignS, clients, leases, fixZone, access }

/-- `name:ip:cid`, each hex. -/
def entryOf (s : String) : Option Entry :=
  match s.splitOn ":" with
  | [n, i, c] => do
    pure { name := ← hexDecode n, ip := ← hexDecode i, cid := ← hexDecode c }
  | _ => none

def entryP : P Entry := do
  match entryOf (← next) with
  | some e => pure e
  | none => failure

def showEntry (e : Entry) : String := hexEncode e.name ++ ":" ++ hexEncode e.ip ++ ":" ++ hexEncode e.cid

def showRule : RuleRef → String
  | .ip a => "i." ++ hexEncode a
  | .net a b => "n." ++ hexEncode a ++ "." ++ toString b
  | .str s => "s." ++ hexEncode s

def ruleOf (s : String) : Option RuleRef :=
  match s.splitOn "." with
  | ["i", a] => (hexDecode a).map .ip
  | ["n", a, b] => do pure (.net (← hexDecode a) (← b.toNat?))
  | ["s", x] => (hexDecode x).map .str
  | _ => none

def showInfo : Option Info → String
  | none => "-"
  | some i => hexEncode i.name ++ "," ++ hexEncode i.org ++ "," ++ (if i.disallowed then "1" else "0") ++ "," ++ showRule i.rule

def infoOf (s : String) : Option (Option Info) :=
  if s == "-" then some none else
  match s.splitOn "," with
  | [n, o, d, r] => do
    pure (some { name := ← hexDecode n, org := ← hexDecode o, disallowed := ← parseBool d, rule := ← ruleOf r })
  | _ => none

def showReported (r : Reported) : String :=
  showEntry r.entry ++ ":" ++ showInfo r.info ++ ":" ++ (if r.leak then "1" else "0")

/-- `name:ip:cid:info:leak` -/
def reportedOf (s : String) : Option Reported :=
  match s.splitOn ":" with
  | [n, i, c, inf, l] => do
    pure { entry := { name := ← hexDecode n, ip := ← hexDecode i, cid := ← hexDecode c },
           info := ← infoOf inf, leak := ← parseBool l }
  | _ => none

def keyCountOf (s : String) : Option (Key × Nat) :=
  match s.splitOn "=" with
  | [k, n] => do
    let n ← n.toNat?
    if k.startsWith "ip:" then pure (.ip (← hexDecode (k.drop 3).toString), n)
    else if k.startsWith "id:" then pure (.id (← hexDecode (k.drop 3).toString), n)
    else none
  | _ => none

def domCountOf (s : String) : Option (Bytes × Nat) :=
  match s.splitOn "=" with
  | [k, n] => do pure (← hexDecode k, ← n.toNat?)
  | _ => none

def optP {α : Type} (f : String → Option α) : P α := do
  match f (← next) with
  | some x => pure x
  | none => failure

def showKey : Key → String
  | .ip a => "ip:" ++ hexEncode a
  | .id c => "id:" ++ hexEncode c

/-- Insertion sort of strings (the Go side sorts map dumps with sort.Strings). -/
def insertStr (x : String) : List String → List String
  | [] => [x]
  | y :: ys => if x ≤ y then x :: y :: ys else y :: insertStr x ys
def sortStrs (l : List String) : List String := l.foldr insertStr []

def counted (tag : String) (items : List String) : String :=
  String.intercalate "\t" ([tag, toString items.length] ++ items)

/-- Sum the counts of equal keys (the Go side dumps maps). -/
def addKV {α : Type} [BEq α] (m : List (α × Nat)) (k : α) (n : Nat) : List (α × Nat) :=
  match m with
  | [] => [(k, n)]
  | (k', n') :: rest => if k' == k then (k', n' + n) :: rest else (k', n') :: addKV rest k n
def mergeKV {α : Type} [BEq α] (m : List (α × Nat)) : List (α × Nat) :=
  m.foldl (fun acc kv => addKV acc kv.1 kv.2) []

def showClientsAs (tag : String) (m : List (Key × Nat)) : String :=
  counted tag (sortStrs ((mergeKV m).map fun kv => showKey kv.1 ++ "=" ++ toString kv.2))
def showDomainsAs (tag : String) (m : List (Bytes × Nat)) : String :=
  counted tag (sortStrs ((mergeKV m).map fun kv => hexEncode kv.1 ++ "=" ++ toString kv.2))
def showClients := showClientsAs "C"
def showDomains := showDomainsAs "D"

def showOut : Out → String
  | .ok => "ok"
  | .noClient => "noclient"
  | .clash => "clash"
  | .stores mem sc sd => counted "M" (mem.map showEntry) ++ "\t" ++ showClients sc ++ "\t" ++ showDomains sd
  | .flushed mem file => counted "M" (mem.map showEntry) ++ "\t" ++ counted "F" (file.map showEntry)
  | .found rs => counted "R" (rs.map showReported)
  | .report sc sd => showClients sc ++ "\t" ++ showDomains sd
  | .ticked kc kd sc sd =>
    showClientsAs "KC" kc ++ "\t" ++ showDomainsAs "KD" kd ++ "\t" ++ showClients sc ++ "\t" ++ showDomains sd
  | .restarted mem file kc kd sc sd =>
    counted "M" (mem.map showEntry) ++ "\t" ++ counted "F" (file.map showEntry) ++ "\t" ++
      showClientsAs "KC" kc ++ "\t" ++ showDomainsAs "KD" kd ++ "\t" ++ showClients sc ++ "\t" ++ showDomains sd
  | .rotated file => "ok\t" ++ counted "F" (file.map showEntry)
  | .rotateSkipped => "skip"
  | .rotateNoFile => "nofile"

/-- The implementation's observation, parsed for the monitor. -/
def implOutP (op : Op) : P Out :=
  match op with
  | .query _ => do
    lit "M"; let mem ← listOf entryP
    lit "C"; let sc ← listOf (optP keyCountOf)
    lit "D"; let sd ← listOf (optP domCountOf)
    pure (.stores mem sc sd)
  | .flush => do
    lit "M"; let mem ← listOf entryP
    lit "F"; let file ← listOf entryP
    pure (.flushed mem file)
  | .search => do
    lit "R"; let rs ← listOf (optP reportedOf)
    pure (.found rs)
  | .stats => do
    lit "C"; let sc ← listOf (optP keyCountOf)
    lit "D"; let sd ← listOf (optP domCountOf)
    pure (.report sc sd)
  | .tick => do
    lit "KC"; let kc ← listOf (optP keyCountOf)
    lit "KD"; let kd ← listOf (optP domCountOf)
    lit "C"; let sc ← listOf (optP keyCountOf)
    lit "D"; let sd ← listOf (optP domCountOf)
    pure (.ticked kc kd sc sd)
  | .restart => do
    lit "M"; let mem ← listOf entryP
    lit "F"; let file ← listOf entryP
    lit "KC"; let kc ← listOf (optP keyCountOf)
    lit "KD"; let kd ← listOf (optP domCountOf)
    lit "C"; let sc ← listOf (optP keyCountOf)
    lit "D"; let sd ← listOf (optP domCountOf)
    pure (.restarted mem file kc kd sc sd)
  | .rotate => do
    let s ← next
    if s == "skip" then pure .rotateSkipped
    else if s == "nofile" then pure .rotateNoFile
    else if s == "ok" then do
      lit "F"; let file ← listOf entryP
      pure (.rotated file)
    else failure
  | _ => do
    let s ← next
    if s == "ok" then pure .ok else if s == "noclient" then pure .noClient
    else if s == "clash" then pure .clash else failure

structure DState where
  /-- the model -/
  model : Option State := none
  /-- the configuration in force according to the inputs the implementation accepted -/
  conf : Option Conf := none
  shadow : Shadow := { mem := [], file := [], sc := [], sd := [] }

def opP (name : String) : P Op :=
  match name with
  | "C08.query" | "C08.querylocked" => do
    let n ← pHex; let qt ← pNat; let a ← pHex; let cid ← pHex
    -- the zone field is optional (older corpus lines do not carry it)
    let zone ← (fun fs => match fs with
      | [] => some ([], [])
      | f :: rest => (hexDecode f).map (fun z => (z, rest)) : P Bytes)
    pure (.query { name := n, qtype := qt, addr := a, cid := cid, zone := zone })
  | "C08.flush" => pure .flush
  | "C08.qlogconf" => do
    let en ← pBool; let an ← pBool; let ign ← rules
    pure (.qlogConf en an ign)
  | "C08.statsconf" => do
    let en ← pBool; let ign ← rules
    pure (.statsConf en ign)
  | "C08.setflags" => do
    let n ← pHex; let lg ← pBool; let st ← pBool
    pure (.setFlags n lg st)
  | "C08.rmclient" => do
    let n ← pHex
    pure (.rmClient n)
  | "C08.edit" => do
    let n ← pHex; let id ← cidP
    pure (.edit n id)
  | "C08.search" => pure .search
  | "C08.stats" => pure .stats
  | "C08.runtime" => do
    let a ← pHex; let h ← pHex; let o ← pHex
    pure (.runtime a h o)
  | "C08.tick" => pure .tick
  | "C08.restart" => pure .restart
  | "C08.rotate" => pure .rotate
  | _ => failure

def ignClass (nameIgn clientIgn : Bool) : String :=
  if clientIgn then "ign-client" else if nameIgn then "ign-name" else "rec"

/-- Class token of a case (for the coverage histogram). -/
def classOf (c : Conf) (op : Op) : String :=
  match op with
  | .query q =>
    let real := canon q.addr
    let l := if !c.qlogOn then "off" else if q.qtype == typeANY && c.refuseAny then "any-refused"
             else ignClass (nameIgnoredLog c q.name) (fromIgnoredLog c q.cid real q.zone)
    let s := if !c.statsOn then "off" else ignClass (nameIgnoredStat c q.name) (fromIgnoredStat c q.cid real q.zone)
    "query/log=" ++ l ++ "/stat=" ++ s ++ (if c.anon then "/anon" else "")
  | .flush => "flush"
  | .qlogConf .. => "qlogconf"
  | .statsConf .. => "statsconf"
  | .setFlags .. => "setflags"
  | .rmClient .. => "rmclient"
  | .edit .. => "edit"
  | .search => "search"
  | .stats => "stats"
  | .runtime .. => "runtime"
  | .tick => "tick"
  | .restart => "restart"
  | .rotate => "rotate"

def confOfReset (a : ResetArgs) : Conf :=
  { anon := a.anon, refuseAny := a.refuseAny, qlogOn := a.qlogOn, statsOn := a.statsOn,
    ignQ := a.ignQ, ignS := a.ignS, clients := a.clients.map ClientObj.toPersistent, leases := a.leases,
    fixZone := a.fixZone, access := a.access }

/-- The configuration after an operation the implementation reported as done. -/
def confAfter (c : Conf) (op : Op) (implOut : Out) : Conf :=
  match op, implOut with
  | .qlogConf en an ign, .ok => { c with qlogOn := en, anon := an, ignQ := ign }
  | .statsConf en ign, .ok => { c with statsOn := en, ignS := ign }
  | .setFlags n lg st, .ok => match setFlags c.clients n lg st with
    | some cs => { c with clients := cs }
    | none => c
  | .rmClient n, .ok => match rmClient c.clients n with
    | some cs => { c with clients := cs }
    | none => c
  | .edit n id, .ok => match editClient c.clients n id with
    | some (some cs) => { c with clients := cs }
    | _ => c
  | _, _ => c

def stepReset (ins impl : List String) : Option (DState × String) := do
  let a ← runP resetP ins
  match impl with
  | [r] =>
    let m := reset a
    let mOut := if m.isSome then "ok" else "clash"
    let conf := if r == "ok" then some (confOfReset a) else none
    pure ({ model := m, conf := conf }, verdict (mOut == r) none ("reset-" ++ mOut))
  | _ => none

def stepHas (ins impl : List String) : Option String := do
  let (rs, host) ← runP (do let rs ← rules; let h ← pHex; pure (rs, h)) ins
  match impl with
  | [r] =>
    let m := if Ignore.has rs (Ignore.normalize host) then "1" else "0"
    pure (verdict (m == r) none ("has\t" ++ m))
  | _ => none

def stepOp (st : DState) (name : String) (ins impl : List String) : Option (DState × String) := do
  -- the legacy handler changes enabled / anonymize only: the ignore list stays
  let op ← (if name == "C08.qlogconfold" then
      (match st.model with
       | some s => runP (do let en ← pBool; let an ← pBool; pure (Op.qlogConf en an s.conf.ignQ)) ins
       | none => runP (do let en ← pBool; let an ← pBool; pure (Op.qlogConf en an [])) ins)
    else runP (opP name) ins)
  match st.model, st.conf with
  | some s, some c =>
    let (s', mOut) := step s op
    let mStr := showOut mOut
    let implStr := String.intercalate "\t" impl
    let cls := classOf c op
    match runP (implOutP op) impl with
    | some iOut =>
      let spec := if op.valid then specStep c st.shadow op iOut else some "invalid-input"
      pure ({ model := some s', conf := some (confAfter c op iOut), shadow := st.shadow.update iOut },
            verdict (mStr == implStr) spec (cls ++ "\t" ++ mStr))
    | none =>
      -- the implementation showed something outside the protocol (PANIC, http error …)
      pure ({ st with model := some s' }, verdict false none (cls ++ "\t" ++ mStr))
  | _, _ =>
    -- no state (the reset did not succeed on one side)
    let implStr := String.intercalate "\t" impl
    let mStr := if st.model.isNone then "nostate" else "state"
    pure (st, verdict (mStr == implStr) none mStr)

def stepLine (st : DState) (line : String) : DState × String :=
  match splitTab line with
  | name :: rest =>
    match splitArrow rest with
    | some (ins, impl) =>
      if name == "C08.reset" then
        match stepReset ins impl with
        | some (st', o) => (st', o)
        | none => ({}, "bad-op")
      else if name == "C08.has" then
        (st, (stepHas ins impl).getD "bad-op")
      else
        match stepOp st name ins impl with
        | some (st', o) => (st', o)
        | none => (st, "bad-op")
    | none => (st, "bad-op")
  | [] => (st, "bad-op")

def main : IO Unit := run stepLine {}
