import Driver.Proto
import AGH.Spec.QLogFile
open Driver AGH AGH.C20

/-
Driver for C20.  Block protocol:

  C20.reset  baseNs datePrefixHex nfiles  { complete nseg { count kind len a b }* }*
      =>  ok maxEntry bufSize size_0 … size_{n-1}
  C20.start | C20.next n | C20.seek ts | C20.fstart k | C20.fnext k n | C20.fseek k ts
      =>  <result fields>  <dump>

Segment kinds (both sides build the same bytes):
  J : `count` JSON lines `{"T":"<time>","QH":"xx…"}` of total length `len`
      (or the minimal line if `len` is too small), time = datePrefix + offset
      `a + i*b` ns rendered as RFC3339Nano/UTC
  P : `count` lines of byte `a` repeated `len` times
  H : `count` lines with explicit bytes `a` (hex)
-/

structure DState where
  P : Params := goParams
  fs : List File := []
  ds : List FileDesc := []
  base : Int := 0
  datePre : Bytes := []
  r : RState := ⟨[], 0⟩
  sp : SpecState := ⟨[], none⟩
  ctx : Ctx := mkCtx (fun _ => 0) []
  ready : Bool := false

def d2 (n : Nat) : Bytes := [48 + (n / 10) % 10, 48 + n % 10]

def fracDigits (ns : Nat) : Bytes :=
  if ns = 0 then [] else
  let ds := (List.range 9).map (fun i => 48 + (ns / 10 ^ (8 - i)) % 10)
  let trimmed := (ds.reverse.dropWhile (· == 48)).reverse
  46 :: trimmed

/-- RFC3339Nano of `datePrefix + off` ns, UTC, `0 ≤ off < 24h`. -/
def renderTime (datePre : Bytes) (off : Nat) : Bytes :=
  let s := off / 1000000000
  let ns := off % 1000000000
  datePre ++ d2 (s / 3600) ++ [58] ++ d2 ((s / 60) % 60) ++ [58] ++ d2 (s % 60) ++ fracDigits ns ++ [90]

def jsonLine (datePre : Bytes) (off len : Nat) : Bytes :=
  let ts := renderTime datePre off
  let pre := [123, 34, 84, 34, 58, 34] ++ ts ++ [34, 44, 34, 81, 72, 34, 58, 34]
  pre ++ List.replicate (len - (pre.length + 2)) 120 ++ [34, 125]

def digitsToNat (ds : Bytes) : Option Nat :=
  ds.foldl (fun acc d => match acc with
    | none => none
    | some a => if 48 ≤ d ∧ d ≤ 57 then some (a * 10 + (d - 48)) else none) (some 0)

/-- The part of `time.Parse(time.RFC3339Nano, ·).UnixNano()` the generator uses:
`<datePrefix>hh:mm:ss[.f{1,9}]Z`; anything else is a parse error. -/
def parseTime (base : Int) (datePre : Bytes) (v : Bytes) : Option Int :=
  -- the one other instant the generator writes: the Unix epoch, UnixNano() = 0
  if v == Bytes.ofString "1970-01-01T00:00:00Z" then some 0 else
  if !(datePre.isPrefixOf v) then none else
  match v.drop datePre.length with
  | h1 :: h2 :: 58 :: m1 :: m2 :: 58 :: s1 :: s2 :: rest =>
    match digitsToNat [h1, h2], digitsToNat [m1, m2], digitsToNat [s1, s2] with
    | some h, some m, some s =>
      if h ≥ 24 ∨ m ≥ 60 ∨ s ≥ 60 then none else
      let secs := h * 3600 + m * 60 + s
      match rest with
      | [90] => some (base + (secs * 1000000000 : Nat))
      | 46 :: fr =>
        match fr.reverse with
        | 90 :: frRev =>
          let digits := frRev.reverse
          if digits.length = 0 ∨ digits.length > 9 then none else
          match digitsToNat digits with
          | some n => some (base + ((secs * 1000000000 + n * 10 ^ (9 - digits.length) : Nat) : Int))
          | none => none
        | _ => none
      | _ => none
    | _, _, _ => none
  | _ => none

def errName : Err → String
  | .eof => "eof" | .tooEarly => "tooEarly" | .tooLate => "tooLate" | .notFound => "notFound"
  | .depth => "depth" | .emptyTS => "emptyTS" | .panic => "panic" | .fuel => "fuel" | .other => "other"

def parseErr (s : String) : Err :=
  match s with
  | "eof" => .eof | "tooEarly" => .tooEarly | "tooLate" => .tooLate | "notFound" => .notFound
  | "depth" => .depth | "emptyTS" => .emptyTS | "panic" => .panic | _ => .other

/-- Lines of one segment. -/
def segLines (datePre : Bytes) (count : Nat) (kind : String) (len : Nat) (a b : String) : Option (List Bytes) :=
  match kind with
  | "J" => do
    let a ← a.toNat?
    let b ← b.toNat?
    pure ((List.range count).map (fun i => jsonLine datePre (a + i * b) len))
  | "P" => do
    let a ← a.toNat?
    pure (List.replicate count (List.replicate len a))
  | "H" => do
    let h ← hexDecode a
    pure (List.replicate count h)
  | _ => none

def parseSegs (datePre : Bytes) : Nat → List String → Option (List Bytes × List String)
  | 0, rest => some ([], rest)
  | n + 1, c :: k :: l :: a :: b :: rest => do
    let ls ← segLines datePre (← c.toNat?) k (← l.toNat?) a b
    let (more, rest') ← parseSegs datePre n rest
    pure (ls ++ more, rest')
  | _, _ => none

def parseFiles (datePre : Bytes) : Nat → List String → Option (List FileDesc × List String)
  | 0, rest => some ([], rest)
  | n + 1, compl :: nseg :: rest => do
    let (ls, rest') ← parseSegs datePre (← nseg.toNat?) rest
    let (more, rest'') ← parseFiles datePre n rest'
    pure ({ lines := ls, complete := (← parseBool compl) } :: more, rest'')
  | _, _ => none

def pushLine (ba : ByteArray) (l : Bytes) : ByteArray := l.foldl (fun ba b => ba.push b.toUInt8) ba

/-- File content: `render lines`, minus the final `\n` when not `complete`. -/
def buildBA (d : FileDesc) : ByteArray :=
  let rec go (ba : ByteArray) : List Bytes → ByteArray
    | [] => ba
    | [l] => if d.complete then (pushLine ba l).push 10 else pushLine ba l
    | l :: rest => go ((pushLine ba l).push 10) rest
  go ByteArray.empty d.lines

def fileOfBA (ba : ByteArray) : File :=
  ⟨ba.size, fun i => if h : i < ba.size then (ba.get i h).toNat else 0⟩

def hex64 (h : UInt64) : String :=
  String.ofList ((List.range 16).map (fun i => hexChar ((h.toNat / 16 ^ (15 - i)) % 16)))

def dumpQ (q : QState) : String :=
  s!"{q.position}\t{if q.hasBuf then 1 else 0}\t{q.bufStart}\t{q.bufLen}"

def dump (r : RState) : String :=
  "\t".intercalate (toString ((r.curN : Int) - 1) :: r.files.map dumpQ)

def tsOfD (s : DState) : Bytes → Int := readTimestamp (parseTime s.base s.datePre)

def endName : Option Err → String
  | none => "more"
  | some e => errName e

def parseEnd (s : String) : Option Err := if s == "more" then none else some (parseErr s)

def parseHex64 (s : String) : Option UInt64 :=
  if s.length ≠ 16 then none else
  s.toList.foldl (fun acc c => match acc, hexDigit c with
    | some a, some d => some (a * 16 + d.toUInt64)
    | _, _ => none) (some 0)

/-- Parse the implementation's result fields into an `Obs`. -/
def parseObs (op : Op) (impl : List String) : Option Obs :=
  match op, impl with
  | .start, "ok" :: _ => some (.start true)
  | .start, "err" :: _ :: _ => some (.start false)
  | .fstart _, "ok" :: _ :: _ => some (.start true)
  | .fstart _, "err" :: _ :: _ => some (.start false)
  | .next _, c :: e :: h :: _ => do pure (.next (← c.toNat?) (parseEnd e) (← parseHex64 h))
  | .fnext _ _, c :: e :: h :: _ => do pure (.next (← c.toNat?) (parseEnd e) (← parseHex64 h))
  | .seek _, "ok" :: _ => some (.seek none)
  | .seek _, "err" :: e :: _ => some (.seek (some (parseErr e)))
  | .fseek _ _, "ok" :: _ :: _ :: _ => some (.seek none)
  | .fseek _ _, "err" :: e :: _ => some (.seek (some (parseErr e)))
  | _, _ => none

/-- Run the model on one op: new reader state and the result fields. -/
def runModel (s : DState) (op : Op) : RState × String :=
  match modelStep s.P s.fs (tsOfD s) s.r op with
  | (r, .start none) => (r, "ok")
  | (r, .start (some pos)) => (r, s!"ok\t{pos}")
  | (r, .next ls e) => (r, s!"{ls.length}\t{endName e}\t{hex64 (hashRanges s.fs ls)}")
  | (r, .seek (.ok none)) => (r, "ok")
  | (r, .seek (.ok (some (pos, depth)))) => (r, s!"ok\t{pos}\t{depth}")
  | (r, .seek (.error e)) => (r, "err\t" ++ errName e)

def parseOp (n : Nat) (name : String) (ins : List String) : Option Op :=
  match name, ins with
  | "C20.start", [] => some .start
  | "C20.next", [c] => do pure (.next (← c.toNat?))
  | "C20.seek", [t] => do pure (.seek (← t.toInt?))
  | "C20.fstart", [k] => do let k ← k.toNat?; if k < n then pure (.fstart k) else none
  | "C20.fnext", [k, c] => do let k ← k.toNat?; if k < n then pure (.fnext k (← c.toNat?)) else none
  | "C20.fseek", [k, t] => do let k ← k.toNat?; if k < n then pure (.fseek k (← t.toInt?)) else none
  | _, _ => none

def doReset (ins impl : List String) : Option (DState × String) := do
  match ins, impl with
  | base :: dp :: nf :: rest, "ok" :: me :: bs :: _ =>
    -- the constants are an observation of the implementation; the model runs with them
    let P : Params := ⟨← me.toNat?, ← bs.toNat?⟩
    let datePre ← hexDecode dp
    let n ← nf.toNat?
    let (ds, rest') ← parseFiles datePre n rest
    if !rest'.isEmpty then none else
    let fs := ds.map (fun d => fileOfBA (buildBA d))
    let s : DState := { P := P, fs := fs, ds := ds, base := ← base.toInt?, datePre := datePre,
                        r := rInit n, sp := specInit n, ready := true }
    let s := { s with ctx := mkCtx (tsOfD s) ds }
    let out := "\t".intercalate ("ok" :: me :: bs :: fs.map (fun f => toString f.size))
    let agree := out == "\t".intercalate impl
    -- the hypotheses of the theorems about the parameters, reported (not a verdict)
    let hyp := if entryLimit ≤ P.maxEntry ∧ P.maxEntry ≤ P.bufSize then "paramsOK" else "paramsOUTSIDE-THEOREM"
    pure (s, verdict agree none (out ++ "\t" ++ hyp))
  | _, _ => none

def doOp (s : DState) (name : String) (ins impl : List String) : Option (DState × String) := do
  if !s.ready then none else
  let op ← parseOp s.fs.length name ins
  let (r', res) := runModel s op
  let out := res ++ "\t" ++ dump r'
  match impl with
  | "PANIC" :: _ =>
    let why := if s.ctx.allReadable then some "C20.panic" else none
    pure ({ s with r := r', sp := specInit s.fs.length }, verdict false why out)
  | _ =>
    let o ← parseObs op impl
    let (bad, sp') := specStep s.ctx s.sp op o
    let agree := out == "\t".intercalate impl
    pure ({ s with r := r', sp := sp' }, verdict agree bad out)

def step (s : DState) (line : String) : DState × String :=
  match splitTab line with
  | name :: rest =>
    match splitArrow rest with
    | some (ins, impl) =>
      if name == "C20.reset" then
        match doReset ins impl with
        | some (s', o) => (s', o)
        | none => ({}, "bad-op")
      else
        match doOp s name ins impl with
        | some (s', o) => (s', o)
        | none => (s, "bad-op")
    | none => (s, "bad-op")
  | [] => (s, "bad-op")

def main : IO Unit := run step {}
