import Driver.Proto
import AGH.Spec.Locks
open Driver AGH.C05

/-! C05 driver: the lock machine against real `sync` locks (`C05.sched`,
`C05.pend`) and the run monitor over stress observations (`C05.run`). -/

def parseEvent (s : String) : Option Event :=
  match s.toList with
  | 'a' :: 'S' :: r => (String.ofList r).toNat?.map (Event.acq · .shared)
  | 'a' :: 'X' :: r => (String.ofList r).toNat?.map (Event.acq · .excl)
  | 'r' :: 'S' :: r => (String.ofList r).toNat?.map (Event.rel · .shared)
  | 'r' :: 'X' :: r => (String.ofList r).toNat?.map (Event.rel · .excl)
  | 'R' :: r => (String.ofList r).toNat?.map Event.rd
  | 'W' :: r => (String.ofList r).toNat?.map Event.wr
  | _ => none

/-- Take a count followed by that many items. -/
def takeList {α : Type} (f : String → Option α) : List String → Option (List α × List String)
  | [] => none
  | n :: rest => do
    let k ← n.toNat?
    if rest.length < k then none else
    let items ← (rest.take k).mapM f
    pure (items, rest.drop k)

def takeThreads : Nat → List String → Option (List (List Event) × List String)
  | 0, rest => some ([], rest)
  | k + 1, rest => do
    let (t, rest) ← takeList parseEvent rest
    let (ts, rest) ← takeThreads k rest
    pure (t :: ts, rest)

def bitsOf (s : String) : Option (List Bool) :=
  if s == "-" then some [] else
  s.toList.mapM (fun c => if c == '1' then some true else if c == '0' then some false else none)

def showBits (bs : List Bool) : String :=
  if bs.isEmpty then "-" else String.ofList (bs.map fun b => if b then '1' else '0')

def probeOf (s : State) (nRW : Nat) (l : Nat) : Char :=
  if s.all (fun t => !holdsAny t l) then 'F'
  else if l < nRW && s.all (fun t => !holdsExcl t l) then 'S'
  else 'X'

def stepSched (ins impl : List String) : Option String := do
  match ins with
  | nT :: rest =>
    let (p, rest) ← takeThreads (← nT.toNat?) rest
    let (sched, rest) ← takeList (·.toNat?) rest
    let (guards, rest) ← takeList (·.toNat?) rest
    let (ranks, rest) ← takeList (·.toNat?) rest
    match rest, impl with
    | [nRWs], [gs, probe] =>
      let nRW ← nRWs.toNat?
      let implG ← bitsOf gs
      let guard : Var → Lock := fun x => guards.getD x 0
      let rank : Lock → Nat := fun l => ranks.getD l 0
      let mg := modelSched p sched
      let final := (statesFrom (init p) sched).getLast?.getD (init p)
      let mprobe := String.ofList ((List.range ranks.length).map (probeOf final nRW))
      let agree := showBits mg == showBits implG && mprobe == probe
      let spec :=
        if specSched guard rank p sched implG then none
        else if progDisc guard p && (replayFrom (init p) sched implG).any raceB then some "sched-race"
        else some "sched-deadlock"
      let cls := (if progDisc guard p then "D" else "d") ++ (if progRanked rank p then "R" else "r") ++
        (if (statesFrom (init p) sched).any raceB then "+race" else "") ++
        (if (statesFrom (init p) sched).any deadlockB then "+stuck" else "")
      pure (verdict agree spec (cls ++ "\t" ++ showBits mg ++ "\t" ++ mprobe))
    | _, _ => none
  | [] => none

def stepPend (ins impl : List String) : Option String := do
  match ins, impl with
  | [ns], [r] =>
    let n ← ns.toNat?
    let implR ← parseBool r
    let p : Prog := [List.replicate (n + 1) (Event.acq 0 .shared), [Event.acq 0 .excl]]
    -- the reader takes n read locks
    let s := (List.range n).foldl (fun s _ => stepForced s 0 (grantOf s 0)) (init p)
    -- the writer calls Lock: it gets the lock if nobody holds it, else it is pending
    let s := match stepThread s 1 with
      | some s' => s'
      | none => (announce s 1).getD s
    let refused := !grantOf s 0
    pure (verdict (refused == implR) (if implR then none else some "pending-writer-admits-readers")
      (if refused then "1" else "0"))
  | _, _ => none

def bytesToString (b : List Nat) : String := String.ofList (b.map Char.ofNat)

def stepRun (_ins impl : List String) : Option String := do
  match impl with
  | races :: panics :: deadlocks :: malformed :: untabled :: why :: _ =>
    let o : RunObs := { races := ← races.toNat?, panics := ← panics.toNat?,
                        deadlocks := ← deadlocks.toNat?, malformed := ← malformed.toNat?,
                        untabled := ← untabled.toNat? }
    let whyS := bytesToString (← hexDecode why)
    let m := modelRun
    let agree := o == m
    let spec := if specRun o then none else some (if whyS == "-" || whyS.isEmpty then "run" else whyS)
    pure (verdict agree spec s!"{m.races}\t{m.panics}\t{m.deadlocks}\t{m.malformed}\t{m.untabled}")
  | _ => none

/-- A finding the regenerated tables still exclude from the per-program
theorems: the model of a disciplined program has none. -/
def stepStatic (ins impl : List String) : Option String := do
  match ins, impl with
  | [finding], n :: digest :: _ =>
    let k ← n.toNat?
    let spec := if k == 0 then none else some ("static:known-rows:" ++ finding ++ ":" ++ n ++ ":" ++ digest)
    pure (verdict (k == 0) spec "0")
  | _, _ => none

def step (_ : Unit) (line : String) : Unit × String :=
  let fs := splitTab line
  match fs with
  | op :: rest =>
    match splitArrow rest with
    | some (ins, impl) =>
      let r :=
        if op == "C05.sched" then stepSched ins impl
        else if op == "C05.pend" then stepPend ins impl
        else if op == "C05.run" then stepRun ins impl
        else if op == "C05.static" then stepStatic ins impl
        else none
      ((), r.getD "bad-op")
    | none => ((), "bad-op")
  | [] => ((), "bad-op")

def main : IO Unit := run step ()
