import Driver.FilterIO
open Driver Driver.FilterIO AGH AGH.Filter

/-- sequence mode: configuration, engines and the model of the dnsproxy cache -/
structure SeqState where
  cs : Case
  e : Engines
  /-- oracle: miekg/dns can pack and unpack the scripted response (else dnsproxy never serves it from the cache) -/
  packable : Bool
  /-- oracle: the answer section after the Pack/Unpack round trip (what the cache holds) -/
  stored : List RR
  cache : Cache

/-- One case.  The model runs on Layer B engines (computed from the rule texts);
the real urlfilter verdicts shipped with the case are only a cross-check. -/
def stepQ (fs : List String) : Option String := do
  let (ins, impl) ← splitArrow fs
  let (cs, _) ← parseCase.run ins
  let e ← ruleEnginesOf cs
  let m := handle e cs.conf cs.up cs.q
  let mOut := renderOutcome m
  let shown := classOfQ cs.conf cs.q m ++ "\t" ++ mOut
  if impl.head? == some "PANIC" then
    pure (verdict false (some "impl-panic") shown)
  else if isHang impl then
    pure (verdict false (some "request-hangs") shown)
  else
    let (obs, _) ← outcomeP.run impl
    match engineMismatch cs e with
    | some why => pure (verdict false (C02.check (oracleEngines cs) cs.conf cs.up cs.q obs) (why ++ "\t" ++ shown))
    | none =>
      let agree := mOut == renderOutcome obs
      pure (verdict agree (C02.check e cs.conf cs.up cs.q obs) shown)

/-- `C02.sreset <case>`: new configuration, empty cache -/
def stepReset (fs : List String) : Option (SeqState × String) := do
  let (ins, impl) ← splitArrow fs
  let ((packable, stored), rest) ← (do let p ← bool; let l ← listOf rr; pure (p, l) : P (Bool × List RR)).run ins
  let (cs, _) ← parseCase.run rest
  let e ← ruleEnginesOf cs
  let ok := impl == ["reset"] && (engineMismatch cs e).isNone
  pure ({ cs := cs, e := e, packable := packable, stored := stored, cache := [] }, verdict ok none "reset")

/-- `C02.sq name type`: one query of the sequence; the spec is the per-query C02
predicate w.r.t. the upstream message the step works on (fresh or stored) -/
def stepSQ (s : SeqState) (fs : List String) : Option (SeqState × String) := do
  let (ins, impl) ← splitArrow fs
  match ins with
  | [qn, qt] =>
    let q : Query := { name := ← hexDecode qn, qtype := ← qt.toNat? }
    let hit := (s.cache.lookup q).isSome
    let used := usedUpstream s.cache s.cs.up q
    -- what gets stored on a cacheable miss is the round-tripped form of the answer
    let (m, cache0) := handleCached s.e s.cs.conf s.cache s.cs.up q
    let cache' := if cache0.length > s.cache.length then
        { name := AGH.Bytes.lower q.name, qtype := q.qtype, msg := agedCopy { s.cs.up with answer := s.stored } q } :: s.cache
      else cache0
    let mOut := renderOutcome m
    let shown := (if hit then "cached:" else "fresh:") ++ classOfQ s.cs.conf q (handle s.e s.cs.conf used q) ++ "\t" ++ mOut
    let s' := { s with cache := if s.packable then cache' else s.cache }
    if impl.head? == some "PANIC" then pure (s', verdict false (some "impl-panic") shown)
    else
      let (obs, _) ← outcomeP.run impl
      let agree := mOut == renderOutcome obs
      let why := (C02.check s.e s.cs.conf used q obs).map (fun w => (if hit then "cache-hit:" else "") ++ w)
      pure (s', verdict agree why shown)
  | _ => none

structure St where
  seq : Option SeqState := none
  cfg : Option Cfg.State := none

def stepSeq (st : Option SeqState) (line : String) : Option SeqState × String :=
  match splitTab line with
  | "C02.q" :: rest => (st, (stepQ rest).getD "bad-op")
  | "C02.sreset" :: rest =>
    match stepReset rest with
    | some (s, out) => (some s, out)
    | none => (none, "bad-op")
  | "C02.sq" :: rest =>
    match st with
    | some s =>
      match stepSQ s rest with
      | some (s', out) => (some s', out)
      | none => (st, "bad-op")
    | none => (st, "bad-op")
  | _ => (st, "bad-op")

def step (st : St) (line : String) : St × String :=
  match splitTab line with
  | op :: rest =>
    if op.startsWith "C02.c" then
      let (cfg', out) := cfgStep C02.check st.cfg (op.drop 4).toString rest
      ({ st with cfg := cfg' }, out)
    else
      let (seq', out) := stepSeq st.seq line
      ({ st with seq := seq' }, out)
  | [] => (st, "bad-op")

def main : IO Unit := run step {}
