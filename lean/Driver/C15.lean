import Driver.Proto
import AGH.Spec.RuleList
open Driver AGH AGH.C15

namespace C15Drv

def showErr : Option PErr → String
  | none => "ok"
  | some .html => "html"
  | some (.binary l c b) => s!"binary:{l}:{c}:{b}"
  | some .tooLong => "toolong"
  | some .read => "read"

def showParse (r : ParseOut) : String :=
  let re := parse r.out true
  let reSame := re.out == r.out
  "\t".intercalate [showErr r.err, hexEncode r.st.title, toString r.st.count, toString r.st.written,
    toString r.st.crc, hexEncode r.out,
    (if re.err.isNone then "1" else "0"), toString re.st.count, toString re.st.crc, (if reSame then "1" else "0")]

def stepParse (ins impl : List String) : Option String := do
  match ins with
  | [src, complete] =>
    let src ← hexDecode src
    let complete ← parseBool complete
    let m := showParse (parse src complete)
    let spec : Option String :=
      match impl with
      | [e, _, cnt, _, crc, out, reok, recnt, recrc, resame] =>
        (do
          let o : ParseObs := {
            ok := e == "ok", count := ← cnt.toNat?, crc := ← crc.toNat?, out := ← hexDecode out,
            reOk := ← parseBool reok, reCount := ← recnt.toNat?, reCrc := ← recrc.toNat?,
            reSame := ← parseBool resame }
          pure (parseSpecWhy src complete o)).getD (some "unparsable-observation")
      | _ => none
    pure (verdict (m == "\t".intercalate impl) (spec.map ("C15." ++ ·)) m)
  | _ => none

def stepTrim (ins impl : List String) : Option String := do
  match ins with
  | [s] =>
    let s ← hexDecode s
    let m := hexEncode (trimSpace s) ++ "\t" ++ (if trimSpaceIsNil s then "1" else "0")
    pure (verdict (m == "\t".intercalate impl) none m)
  | _ => none

def stepLastRune (ins impl : List String) : Option String := do
  match ins with
  | [s] =>
    let d := decodeLastRune (← hexDecode s)
    let m := toString d.1 ++ "\t" ++ toString d.2
    pure (verdict (m == "\t".intercalate impl) none m)
  | _ => none

/-! stateful part -/

structure DL where
  l : LState
  prev : ListObs
  /-- the list's URL: (host index, version) -/
  url : Nat × Nat

abbrev St := List DL

/-- Driver state: the lists and the rebuild task waiting in the channel. -/
abbrev DSt := St × Option (List Bool)

def showFile : Option Bytes → String
  | none => "~"
  | some b => hexEncode b

def parseFile (s : String) : Option (Option Bytes) :=
  if s == "~" then some none else (hexDecode s).map some

/-- What `DNSFilter.load` computes from the stored file. -/
def reparse : Option Bytes → String
  | none => "0\t0"
  | some out => let r := parse out true; toString r.st.count ++ "\t" ++ toString r.st.crc

def stepReset (ins : List String) : Option (St × String) := do
  match ins with
  | n :: rest =>
    let n ← n.toNat?
    if rest.length != 3 * n then none
    else
      let rec go : List String → Option St
        | a :: e :: src :: tl => do
          let a ← parseBool a
          let e ← parseBool e
          let tlr ← go tl
          -- a local-file list has a path, never equal to an HTTP URL: mark it
          pure (⟨⟨⟨e, 0, 0, none⟩, a, none⟩, ⟨0, 0, none, 0, false, 0, 0⟩, (if src == "L" then 1 else 0, 0)⟩ :: tlr)
        | [] => some []
        | _ => none
      let st ← go rest
      let st := (List.range st.length).filterMap fun i => (st[i]?).map fun d => { d with url := (if d.url.1 == 1 then 1000000 + i else i, 0) }
      pure (st, verdict true none "ok")
  | _ => none

/-- `B` = 200 with this body; `F` = transfer failure / 404 / 500 / missing file;
`S<code>` = that status with this body and no redirect (only 200 is a download);
`R<code>` = a redirect with `Location` that the client follows to a 200 with this body. -/
def fetchOf1 (kind : String) (data : Bytes) (complete : Bool) : Option Fetch :=
  if kind == "F" then some Fetch.fail
  else if kind == "B" then some (Fetch.body data complete)
  else if kind.startsWith "S" then
    (if kind == "S200" then some (Fetch.body data complete) else some Fetch.fail)
  else if kind.startsWith "R" then some (Fetch.body data complete)
  -- gzip content coding: decoded transparently by the client; a cut stream is a cut body
  else if kind == "G" then some (Fetch.body data complete)
  else none

/-- One answer of an attempt chain `pre1+…+final`. -/
def attemptOf (seg : String) (isLast : Bool) (data : Bytes) (complete : Bool) : Option Fetch :=
  if isLast then fetchOf1 seg data complete
  else if seg.startsWith "cut" then (hexDecode (seg.drop 3).toString).map (Fetch.body · false)
  else if seg == "reset" || seg == "s500" || seg == "s404" then some Fetch.fail
  else none

/-- All answers the source would give to successive requests of one update. -/
def attempts (kind : String) (data : Bytes) (complete : Bool) : Option (List Fetch) :=
  let segs := kind.splitOn "+"
  (List.range segs.length).mapM fun i => do
    attemptOf (← segs[i]?) (i + 1 == segs.length) data complete

/-- The code makes exactly ONE request per list and update: the first answer decides. -/
def fetchOf (kind : String) (data : Bytes) (complete : Bool) : Option Fetch := do
  (← attempts kind data complete).head?

def parseInputs : List String → Option (List (Bool × Fetch))
  | due :: kind :: data :: complete :: tl => do
    let due ← parseBool due
    let data ← hexDecode data
    let complete ← parseBool complete
    let f ← fetchOf kind data complete
    let r ← parseInputs tl
    pure ((due, f) :: r)
  | [] => some []
  | _ => none

/-- The later answers of every list's attempt chain (for the monitor only). -/
def parseLater : List String → Option (List (List Fetch))
  | _ :: kind :: data :: complete :: tl => do
    let data ← hexDecode data
    let complete ← parseBool complete
    let fs ← attempts kind data complete
    let r ← parseLater tl
    pure (fs.drop 1 :: r)
  | [] => some []
  | _ => none

def parseObsList : List String → Option (List ListObs)
  | cnt :: ck :: file :: mask :: rw :: rc :: rk :: _reqs :: _cond :: tl => do
    let o : ListObs := ⟨← cnt.toNat?, ← ck.toNat?, ← parseFile file, ← mask.toNat?, ← parseBool rw, ← rc.toNat?, ← rk.toNat?⟩
    let r ← parseObsList tl
    pure (o :: r)
  | [] => some []
  | _ => none

def stepRefresh (st : St) (ins impl : List String) : Option (St × String) := do
  match ins with
  | b :: a :: f :: rest =>
    let rq : Req := ⟨← parseBool b, ← parseBool a, ← parseBool f⟩
    let inputs ← parseInputs rest
    if inputs.length != st.length then none
    else
      let ls := st.map (·.l)
      let ls' := refreshStep rq ls inputs
      let rows := (List.range st.length).filterMap fun i => do
        let old ← ls[i]?
        let new ← ls'[i]?
        let inp ← inputs[i]?
        let rew := attempted rq old inp.1 && (updateIntl old.flt.checksum inp.2).isSome
        let d ← st[i]?
        -- exactly one request per attempted HTTP list and update (local files: none)
        let reqs := if attempted rq old inp.1 && d.url.1 < 1000000 then "1" else "0"
        pure ("\t".intercalate [toString new.flt.count, toString new.flt.checksum, showFile new.flt.file,
          toString (maskOf i new.inForce), if rew then "1" else "0", reparse new.flt.file, reqs, "0"])
      let m := "\t".intercalate rows
      let later := (parseLater rest).getD []
      let agree := m == "\t".intercalate impl
      match parseObsList impl with
      | some obs =>
        if obs.length != st.length then pure (st, verdict false none m)
        else
          let whys := (List.range st.length).filterMap fun i => do
            let d ← st[i]?
            let inp ← inputs[i]?
            let o ← obs[i]?
            -- The property is satisfied if the outcome is right for ONE of the answers the
            -- source gave (an implementation that retries is judged by the answer it used).
            let w ← refreshSpecWhy i d.prev inp.2 (attempted rq d.l inp.1) o
            if ((later[i]?).getD []).any fun f' => (refreshSpecWhy i d.prev f' (attempted rq d.l inp.1) o).isNone
            then none else some w
          let st' := (List.range st.length).filterMap fun i => do
            let new ← ls'[i]?
            let o ← obs[i]?
            let d ← st[i]?
            pure (⟨new, o, d.url⟩ : DL)
          pure (st', verdict agree (whys.head?.map ("C15." ++ ·)) m)
      | none => pure (st, verdict false none m)
  | _ => none

def stepSetURL (dst : DSt) (ins impl : List String) : Option (DSt × String) := do
  let st := dst.1
  match ins with
  | [i, j, k, en, kind, data, complete] =>
    let i ← i.toNat?
    let newURL : Nat × Nat := (← j.toNat?, ← k.toNat?)
    let en ← parseBool en
    let data ← hexDecode data
    let complete ← parseBool complete
    let f ← fetchOf kind data complete
    let d ← st[i]?
    let changed := newURL != d.url
    let dup := (List.range st.length).any fun x => x != i && ((st[x]?).map (·.url) == some newURL)
    let rq : SetReq := ⟨changed, dup, en⟩
    let o := setProps d.l.flt rq f
    let (bs', res) := setURLAsync ⟨st.map (·.l), dst.2⟩ i rq f
    let ls' := bs'.ls
    let okS := match res with | .ok _ => true | .err => false
    let rows := (List.range st.length).filterMap fun x => do
      let new ← ls'[x]?
      let rew := x == i && (match res with | .ok true => (updateIntl (if changed then 0 else d.l.flt.checksum) f).isSome && en | _ => false)
      -- one request when the handler downloads; it is counted under the URL the list ends up with
      let downloads := en && (changed || (d.l.flt.enabled != en)) && !(changed && dup)
      let reqs := if x == i && downloads && (!changed || o.urlChanged) then "1" else "0"
      pure ("\t".intercalate [toString new.flt.count, toString new.flt.checksum, showFile new.flt.file,
        toString (maskOf x new.inForce), if rew then "1" else "0", reparse new.flt.file, reqs, "0"])
    let m := "\t".intercalate ((if okS then "200" else "400") :: (if o.urlChanged then "1" else "0") :: rows)
    let agree := m == "\t".intercalate impl
    match impl with
    | status :: uc :: rest =>
      match parseObsList rest, parseBool uc with
      | some obs, some ucI =>
        if obs.length != st.length then pure (dst, verdict false none m)
        else
          let whys := (List.range st.length).filterMap fun x => do
            let dx ← st[x]?
            let o ← obs[x]?
            if x == i then setSpecWhy dx.prev (status == "200") ucI f o
            else refreshSpecWhy x dx.prev Fetch.fail false o
          let st' := (List.range st.length).filterMap fun x => do
            let new ← ls'[x]?
            let o ← obs[x]?
            let dx ← st[x]?
            pure (⟨new, o, if x == i && ucI then newURL else dx.url⟩ : DL)
          pure ((st', bs'.pending), verdict agree (whys.head?.map ("C15." ++ ·)) m)
      | _, _ => pure (dst, verdict false none m)
    | _ => pure (dst, verdict false none m)
  | _ => none

def rowsOf (ls : List LState) : List String :=
  (List.range ls.length).filterMap fun x => do
    let new ← ls[x]?
    pure ("\t".intercalate [toString new.flt.count, toString new.flt.checksum, showFile new.flt.file,
      toString (maskOf x new.inForce), "0", reparse new.flt.file, "0", "0"])

/-- `set_rules` (any handler that only requests a rebuild) and the loop step. -/
def stepQueue (isLoop : Bool) (dst : DSt) (impl : List String) (rm : Option Nat := none) :
    Option (DSt × String) := do
  let st := dst.1
  let bs : BState := ⟨st.map (·.l), dst.2⟩
  let bs' := match rm with
    | some i => removeAsync bs i
    | none => if isLoop then drain bs else enqueue bs
  let m := "\t".intercalate ((if isLoop then [] else ["200"]) ++ rowsOf bs'.ls)
  let agree := m == "\t".intercalate impl
  let rest := if isLoop then impl else impl.drop 1
  match parseObsList rest with
  | some obs =>
    if obs.length != st.length then pure (dst, verdict false none m)
    else
      let whys := (List.range st.length).filterMap fun x => do
        let dx ← st[x]?
        let o ← obs[x]?
        let new ← bs'.ls[x]?
        match (if rm == some x then none else refreshSpecWhy x dx.prev Fetch.fail false o) with
        | some w => some w
        | none => if isLoop then loopSpecWhy x new.flt.enabled o else none
      let st' := (List.range st.length).filterMap fun x => do
        let new ← bs'.ls[x]?
        let o ← obs[x]?
        let dx ← st[x]?
        -- a removed list's URL is free again
        pure (⟨new, o, if rm == some x then (2000000 + x, 0) else dx.url⟩ : DL)
      pure ((st', bs'.pending), verdict agree (whys.head?.map ("C15." ++ ·)) m)
  | none => pure (dst, verdict false none m)

def step (dst : DSt) (line : String) : DSt × String :=
  match splitTab line with
  | op :: rest =>
    match splitArrow rest with
    | none => (dst, "bad-op")
    | some (ins, impl) =>
      match op with
      | "C15.parse" => (dst, (stepParse ins impl).getD "bad-op")
      | "C15.trim" => (dst, (stepTrim ins impl).getD "bad-op")
      | "C15.lastrune" => (dst, (stepLastRune ins impl).getD "bad-op")
      | "C15.reset" => (match stepReset ins with | some (s, o) => ((s, none), o) | none => (dst, "bad-op"))
      | "C15.refresh" =>
        (match stepRefresh dst.1 ins impl with | some (s, o) => ((s, dst.2), o) | none => (dst, "bad-op"))
      | "C15.seturl" => (match stepSetURL dst ins impl with | some (s, o) => (s, o) | none => (dst, "bad-op"))
      | "C15.setrules" => (match stepQueue false dst impl with | some (s, o) => (s, o) | none => (dst, "bad-op"))
      | "C15.loop" => (match stepQueue true dst impl with | some (s, o) => (s, o) | none => (dst, "bad-op"))
      | "C15.remove" =>
        (match ins with
         | [i] => (match i.toNat? with
           | some k => (match stepQueue false dst impl (some k) with | some (s, o) => (s, o) | none => (dst, "bad-op"))
           | none => (dst, "bad-op"))
         | _ => (dst, "bad-op"))
      | _ => (dst, "bad-op")
  | [] => (dst, "bad-op")

end C15Drv

def main : IO Unit := run C15Drv.step ([], none)
