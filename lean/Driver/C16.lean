import Driver.Proto
import AGH.Spec.ClientID
open Driver AGH AGH.C16

def parseProto (s : String) : Option Proto :=
  match s with
  | "udp" => some .udp | "tcp" => some .tcp | "tls" => some .tls
  | "https" => some .https | "quic" => some .quic | "dnscrypt" => some .dnscrypt
  | _ => none

def errName : Err → String
  | .sniMismatch => "sniMismatch" | .badLabel => "badLabel" | .badPath => "badPath"
  | .extraParts => "extraParts" | .nilRequest => "nilRequest" | .badConn => "badConn"
  | .badHost => "badHost"

def parseErr (s : String) : Option Err :=
  match s with
  | "sniMismatch" => some .sniMismatch | "badLabel" => some .badLabel | "badPath" => some .badPath
  | "extraParts" => some .extraParts | "nilRequest" => some .nilRequest | "badConn" => some .badConn
  | "badHost" => some .badHost | _ => none

def showOut : Except Err Bytes → String
  | .ok id => "ok\t" ++ hexEncode id
  | .error e => "err\t" ++ errName e

def optOf (flag : Bool) (b : Bytes) : Option Bytes := if flag then some b else none

def stepCtx (ins impl : List String) : Option String := do
  match ins, impl with
  | [proto, hasPath, path, hasTLS, tlsName, hostHdr, splitOk, splitHost, connOk, connSNI, hostSrv, strict],
    [tag, val] =>
    let c : Ctx := {
      proto := ← parseProto proto
      path := optOf (← parseBool hasPath) (← hexDecode path)
      httpTLS := optOf (← parseBool hasTLS) (← hexDecode tlsName)
      hostHdr := ← hexDecode hostHdr
      hostSplit := optOf (← parseBool splitOk) (← hexDecode splitHost)
      connSNI := optOf (← parseBool connOk) (← hexDecode connSNI)
      hostSrvName := ← hexDecode hostSrv
      strict := ← parseBool strict }
    let implOut : Except Err Bytes ←
      (if tag == "ok" then (hexDecode val).map Except.ok
       else if tag == "err" then (parseErr val).map Except.error else none)
    let m := clientIDFromCtx c
    let agree := showOut m == showOut implOut
    let spec := if specOK c implOut then none else some "C16.specOK"
    pure (verdict agree spec (showOut m))
  | _, _ => none

def stepClean (ins impl : List String) : Option String := do
  match ins, impl with
  | [p], [q] =>
    let m := pathClean (← hexDecode p)
    let i ← hexDecode q
    pure (verdict (m == i) none (hexEncode m))
  | _, _ => none

def step (_ : Unit) (line : String) : Unit × String :=
  let fs := splitTab line
  match fs with
  | "C16.ctx" :: rest =>
    match splitArrow rest with
    | some (ins, impl) => ((), (stepCtx ins impl).getD "bad-op")
    | none => ((), "bad-op")
  | "C16.clean" :: rest =>
    match splitArrow rest with
    | some (ins, impl) => ((), (stepClean ins impl).getD "bad-op")
    | none => ((), "bad-op")
  | _ => ((), "bad-op")

def main : IO Unit := run step ()
