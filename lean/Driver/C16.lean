import Driver.Proto
import AGH.Spec.ClientID
open Driver AGH AGH.C16

def parseProto (s : String) : Option Proto :=
  match s with
  | "udp" => some .udp | "tcp" => some .tcp | "tls" => some .tls
  | "https" => some .https | "quic" => some .quic | "dnscrypt" => some .dnscrypt
  | _ => none

def errName : Err → String
  | .sniMismatch => "sniMismatch" | .badLabel => "badLabel" | .badPath => "badPath"
  | .extraParts => "extraParts" | .nilRequest => "nilRequest" | .badConn => "badConn"
  | .badHost => "badHost"

def parseErr (s : String) : Option Err :=
  match s with
  | "sniMismatch" => some .sniMismatch | "badLabel" => some .badLabel | "badPath" => some .badPath
  | "extraParts" => some .extraParts | "nilRequest" => some .nilRequest | "badConn" => some .badConn
  | "badHost" => some .badHost | _ => none

def showOut : Except Err Bytes → String
  | .ok id => "ok\t" ++ hexEncode id
  | .error e => "err\t" ++ errName e

def optOf (flag : Bool) (b : Bytes) : Option Bytes := if flag then some b else none

def stepCtx (ins impl : List String) : Option String := do
  match ins, impl with
  | [proto, hasPath, path, hasTLS, tlsName, hostHdr, splitOk, splitHost, connOk, connSNI, hostSrv, strict],
    [tag, val] =>
    let c : Ctx := {
      proto := ← parseProto proto
      path := optOf (← parseBool hasPath) (← hexDecode path)
      httpTLS := optOf (← parseBool hasTLS) (← hexDecode tlsName)
      hostHdr := ← hexDecode hostHdr
      hostSplit := optOf (← parseBool splitOk) (← hexDecode splitHost)
      connSNI := optOf (← parseBool connOk) (← hexDecode connSNI)
      hostSrvName := ← hexDecode hostSrv
      strict := ← parseBool strict }
    let implOut : Except Err Bytes ←
      (if tag == "ok" then (hexDecode val).map Except.ok
       else if tag == "err" then (parseErr val).map Except.error else none)
    let m := clientIDFromCtx c
    let agree := showOut m == showOut implOut
    let spec := if specOK c implOut then none else some "C16.specOK"
    pure (verdict agree spec (showOut m))
  | _, _ => none

def stepClean (ins impl : List String) : Option String := do
  match ins, impl with
  | [p], [q] =>
    let m := pathClean (← hexDecode p)
    let i ← hexDecode q
    pure (verdict (m == i) none (hexEncode m))
  | _, _ => none

def parseCtx (f : List String) : Option Ctx := do
  match f with
  | [proto, hasPath, path, hasTLS, tlsName, hostHdr, splitOk, splitHost, connOk, connSNI, hostSrv, strict] =>
    pure {
      proto := ← parseProto proto
      path := optOf (← parseBool hasPath) (← hexDecode path)
      httpTLS := optOf (← parseBool hasTLS) (← hexDecode tlsName)
      hostHdr := ← hexDecode hostHdr
      hostSplit := optOf (← parseBool splitOk) (← hexDecode splitHost)
      connSNI := optOf (← parseBool connOk) (← hexDecode connSNI)
      hostSrvName := ← hexDecode hostSrv
      strict := ← parseBool strict }
  | _ => none

/-- `C16.hb reqID <ctx>` : HandleBefore; impl = ok id | err kind.  The spec
part: whatever the cache held, a request that passes is attributed (by the
immediately following read under the same number) to the id of its own ctx;
the monitor state remembers what the last `hb` of each number extracted. -/
structure St where
  cache : Cache := []
  /-- what the spec expects `attr r` to return: the id extracted from the last
  request with number r that passed HandleBefore -/
  expect : List (Nat × Bytes) := []

def stepHB (st : St) (ins impl : List String) : Option (St × String) := do
  match ins, impl with
  | rid :: ctxf, [tag, val] =>
    let r ← rid.toNat?
    let c ← parseCtx ctxf
    let implOut : Except Err Bytes ←
      (if tag == "ok" then (hexDecode val).map Except.ok
       else if tag == "err" then (parseErr val).map Except.error else none)
    let (cache', m) := handleBefore st.cache r c
    let agree := showOut m == showOut implOut
    let spec := if specOK c implOut then none else some "C16.specOK"
    -- spec-side bookkeeping uses the IMPLEMENTATION's verdict: a passed request
    -- must later be attributed to the id its own context yields per the spec model
    let expect' := match implOut with
      | .ok _ => (r, match clientIDFromCtx c with | .ok id => id | .error _ => []) :: st.expect.filter (·.1 != r)
      | .error _ => st.expect
    pure ({ cache := cache', expect := expect' }, verdict agree spec (showOut m))
  | _, _ => none

def stepAttr (st : St) (ins impl : List String) : Option (St × String) := do
  match ins, impl with
  | [rid], [val] =>
    let r ← rid.toNat?
    let i ← hexDecode val
    let m := attributed st.cache r
    let want := match st.expect.find? (·.1 == r) with | some (_, id) => id | none => []
    let spec := if i == want then none else some "C16.attributed-to-other-request"
    pure (st, verdict (m == i) spec (hexEncode m))
  | _, _ => none

def step (st : St) (line : String) : St × String :=
  let fs := splitTab line
  match fs with
  | "C16.reset" :: _ => ({}, verdict true none "reset")
  | "C16.ctx" :: rest =>
    match splitArrow rest with
    | some (ins, impl) => (st, (stepCtx ins impl).getD "bad-op")
    | none => (st, "bad-op")
  | "C16.clean" :: rest =>
    match splitArrow rest with
    | some (ins, impl) => (st, (stepClean ins impl).getD "bad-op")
    | none => (st, "bad-op")
  | "C16.hb" :: rest =>
    match splitArrow rest with
    | some (ins, impl) => (match stepHB st ins impl with | some (s', o) => (s', o) | none => (st, "bad-op"))
    | none => (st, "bad-op")
  | "C16.attr" :: rest =>
    match splitArrow rest with
    | some (ins, impl) => (match stepAttr st ins impl with | some (s', o) => (s', o) | none => (st, "bad-op"))
    | none => (st, "bad-op")
  | _ => (st, "bad-op")

def main : IO Unit := run step ({} : St)
