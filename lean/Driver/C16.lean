import Driver.Proto
import AGH.Spec.ClientID
import AGH.Spec.ClientIDE2E
open Driver AGH AGH.C16

def parseProto (s : String) : Option Proto :=
  match s with
  | "udp" => some .udp | "tcp" => some .tcp | "tls" => some .tls
  | "https" => some .https | "quic" => some .quic | "dnscrypt" => some .dnscrypt
  | _ => none

def errName : Err → String
  | .sniMismatch => "sniMismatch" | .badLabel => "badLabel" | .badPath => "badPath"
  | .extraParts => "extraParts" | .nilRequest => "nilRequest" | .badConn => "badConn"
  | .badHost => "badHost"

def parseErr (s : String) : Option Err :=
  match s with
  | "sniMismatch" => some .sniMismatch | "badLabel" => some .badLabel | "badPath" => some .badPath
  | "extraParts" => some .extraParts | "nilRequest" => some .nilRequest | "badConn" => some .badConn
  | "badHost" => some .badHost | _ => none

def showOut : Except Err Bytes → String
  | .ok id => "ok\t" ++ hexEncode id
  | .error e => "err\t" ++ errName e

def optOf (flag : Bool) (b : Bytes) : Option Bytes := if flag then some b else none

def stepCtx (ins impl : List String) : Option String := do
  match ins, impl with
  | [proto, hasPath, path, hasTLS, tlsName, hostHdr, splitOk, splitHost, connOk, connSNI, hostSrv, strict],
    [tag, val] =>
    let c : Ctx := {
      proto := ← parseProto proto
      path := optOf (← parseBool hasPath) (← hexDecode path)
      httpTLS := optOf (← parseBool hasTLS) (← hexDecode tlsName)
      hostHdr := ← hexDecode hostHdr
      hostSplit := optOf (← parseBool splitOk) (← hexDecode splitHost)
      connSNI := optOf (← parseBool connOk) (← hexDecode connSNI)
      hostSrvName := ← hexDecode hostSrv
      strict := ← parseBool strict }
    let implOut : Except Err Bytes ←
      (if tag == "ok" then (hexDecode val).map Except.ok
       else if tag == "err" then (parseErr val).map Except.error else none)
    let m := clientIDFromCtx c
    let agree := showOut m == showOut implOut
    let spec := if specOK c implOut then none else some "C16.specOK"
    pure (verdict agree spec (showOut m))
  | _, _ => none

def stepClean (ins impl : List String) : Option String := do
  match ins, impl with
  | [p], [q] =>
    let m := pathClean (← hexDecode p)
    let i ← hexDecode q
    pure (verdict (m == i) none (hexEncode m))
  | _, _ => none

def parseCtx (f : List String) : Option Ctx := do
  match f with
  | [proto, hasPath, path, hasTLS, tlsName, hostHdr, splitOk, splitHost, connOk, connSNI, hostSrv, strict] =>
    pure {
      proto := ← parseProto proto
      path := optOf (← parseBool hasPath) (← hexDecode path)
      httpTLS := optOf (← parseBool hasTLS) (← hexDecode tlsName)
      hostHdr := ← hexDecode hostHdr
      hostSplit := optOf (← parseBool splitOk) (← hexDecode splitHost)
      connSNI := optOf (← parseBool connOk) (← hexDecode connSNI)
      hostSrvName := ← hexDecode hostSrv
      strict := ← parseBool strict }
  | _ => none

/-- `C16.hb reqID <ctx>` : HandleBefore; impl = ok id | err kind.  The spec
part: whatever the cache held, a request that passes is attributed (by the
immediately following read under the same number) to the id of its own ctx;
the monitor state remembers what the last `hb` of each number extracted. -/
structure St where
  cache : Cache := []
  /-- what the spec expects `attr r` to return: the id extracted from the last
  request with number r that passed HandleBefore -/
  expect : List (Nat × Bytes) := []
  /-- end-to-end mode: configuration of the block and server state -/
  econf : Option E2E.Conf := none
  est : E2E.St := {}

def stepHB (st : St) (ins impl : List String) : Option (St × String) := do
  match ins, impl with
  | rid :: ctxf, [tag, val] =>
    let r ← rid.toNat?
    let c ← parseCtx ctxf
    let implOut : Except Err Bytes ←
      (if tag == "ok" then (hexDecode val).map Except.ok
       else if tag == "err" then (parseErr val).map Except.error else none)
    let (cache', m) := handleBefore st.cache r c
    let agree := showOut m == showOut implOut
    let spec := if specOK c implOut then none else some "C16.specOK"
    -- spec-side bookkeeping uses the IMPLEMENTATION's verdict: a passed request
    -- must later be attributed to the id its own context yields per the spec model
    let expect' := match implOut with
      | .ok _ => (r, match clientIDFromCtx c with | .ok id => id | .error _ => []) :: st.expect.filter (·.1 != r)
      | .error _ => st.expect
    pure ({ st with cache := cache', expect := expect' }, verdict agree spec (showOut m))
  | _, _ => none

def stepAttr (st : St) (ins impl : List String) : Option (St × String) := do
  match ins, impl with
  | [rid], [val] =>
    let r ← rid.toNat?
    let i ← hexDecode val
    let m := attributed st.cache r
    let want := match st.expect.find? (·.1 == r) with | some (_, id) => id | none => []
    let spec := if i == want then none else some "C16.attributed-to-other-request"
    pure (st, verdict (m == i) spec (hexEncode m))
  | _, _ => none


/-! ### End-to-end mode (`C16E.*`) -/

def parseTr (s : String) : Option E2E.Tr :=
  match s with
  | "udp" => some .udp | "tcp" => some .tcp | "dot" => some .dot | "doq" => some .doq
  | "h1" => some .h1 | "h2" => some .h2 | "hp" => some .hp | "dcu" => some .dcu
  | _ => none

def parseList (n : Nat) (fs : List String) : Option (List Bytes × List String) :=
  match n with
  | 0 => some ([], fs)
  | n + 1 =>
    match fs with
    | [] => none
    | f :: rest => do
      let b ← hexDecode f
      let (bs, rest') ← parseList n rest
      pure (b :: bs, rest')

def parsePairs (n : Nat) (fs : List String) : Option (List (Bytes × Bytes)) :=
  match n with
  | 0 => if fs.isEmpty then some [] else none
  | n + 1 =>
    match fs with
    | k :: v :: rest => do
      let kb ← hexDecode k
      let vb ← hexDecode v
      let ps ← parsePairs n rest
      pure ((kb, vb) :: ps)
    | _ => none

/-- `C16E.reset srvName strict nDNS dnsSAN… certCN certHasIP plainDoH urlStrictColons` -/
def parseEConf (f : List String) : Option E2E.Conf := do
  match f with
  | srv :: strict :: n :: rest =>
    let (names, rest') ← parseList (← n.toNat?) rest
    match rest' with
    | [cn, hasIP, plain, strictColons] =>
      pure { srvName := ← hexDecode srv, strict := ← parseBool strict,
             cert := { dnsNames := names, cn := ← hexDecode cn, hasIP := ← parseBool hasIP },
             plainDoH := ← parseBool plain, urlStrictColons := ← parseBool strictColons }
    | _ => none
  | _ => none

/-- `C16E.q proto slot peer sni sniValid method target host splitOk splitHost dnsOK ipLitOK edns qname nHdr (k v)…` -/
def parseEReq (f : List String) : Option E2E.Req := do
  match f with
  | proto :: _slot :: peer :: sni :: sniValid :: method :: target :: host :: splitOk :: splitHost ::
      dnsOK :: ipLitOK :: edns :: qname :: nh :: hdrs =>
    pure {
      tr := ← parseTr proto
      sni := ← hexDecode sni
      sniValidHost := ← parseBool sniValid
      method := ← (if method == "GET" then some E2E.Method.get else if method == "POST" then some .post else none)
      target := ← hexDecode target
      host := ← hexDecode host
      hostSplit := optOf (← parseBool splitOk) (← hexDecode splitHost)
      dnsOK := ← parseBool dnsOK
      ipLitOK := ← parseBool ipLitOK
      peer := ← hexDecode peer
      edns := ← hexDecode edns
      qname := ← hexDecode qname
      hdrs := ← parsePairs (← nh.toNat?) hdrs }
  | _ => none

def parseIds (s : String) : Option (List Bytes) :=
  if s == "none" then some []
  else if s.startsWith "id:" then (hexDecode (s.drop 3).toString).map ([·])
  else if s.startsWith "mixed:" then ((s.drop 6).toString.splitOn ",").mapM hexDecode
  else none

def parseCls (s : String) : E2E.Cls :=
  if s == "ans" then .ans
  else if s == "servfail" then .servfail
  else if s == "rst" then .rst
  else if s == "hs" then .hs
  else if s.startsWith "http" then
    match (s.drop 4).toString.toNat? with
    | some n => .http n
    | none => .other
  else .other

def parseObs (impl : List String) : Option E2E.Obs := do
  match impl with
  | [cls, nlog, log, stat, ups, filt, upsN] =>
    pure { cls := parseCls cls, nlog := ← nlog.toNat?, log := ← parseIds log, stat := ← parseIds stat,
           ups := ← parseIds ups, filt := ← parseIds filt, upsN := ← upsN.toNat? }
  | _ => none

def showIds (id : Bytes) : String := "id:" ++ hexEncode id

def showEOut : E2E.Out → String
  | .ans id => "ans\t1\t" ++ showIds id ++ "\t" ++ showIds id ++ "\t" ++ showIds id ++ "\t" ++ showIds id ++ "\t1"
  | .servfail => "servfail\t0\tnone\tnone\tnone\tnone\t0"
  | .http n => "http" ++ toString n ++ "\t0\tnone\tnone\tnone\tnone\t0"
  | .rst => "rst\t0\tnone\tnone\tnone\tnone\t0"
  | .hs => "hs\t0\tnone\tnone\tnone\tnone\t0"

def stepEQ (st : St) (ins impl : List String) : Option (St × String) := do
  let cf ← st.econf
  let r ← parseEReq ins
  let o ← parseObs impl
  let (est', m) := E2E.step cf st.est r
  let agree := showEOut m == "\t".intercalate impl
  pure ({ st with est := est' }, verdict agree (E2E.specE2EWhy cf r o) (showEOut m))

def step (st : St) (line : String) : St × String :=
  let fs := splitTab line
  match fs with
  | "C16.reset" :: _ => ({}, verdict true none "reset")
  | "C16E.reset" :: rest =>
    match splitArrow rest with
    | some (ins, _) =>
      (match parseEConf ins with
       | some cf => ({ econf := some cf }, verdict true none "reset")
       | none => (st, "bad-op"))
    | none => (st, "bad-op")
  | "C16E.reconf" :: _ => ({ st with est := E2E.reconf st.est }, verdict true none "reconf")
  | "C16E.q" :: rest =>
    match splitArrow rest with
    | some (ins, impl) => (match stepEQ st ins impl with | some (s', o) => (s', o) | none => (st, "bad-op"))
    | none => (st, "bad-op")
  | "C16.ctx" :: rest =>
    match splitArrow rest with
    | some (ins, impl) => (st, (stepCtx ins impl).getD "bad-op")
    | none => (st, "bad-op")
  | "C16.clean" :: rest =>
    match splitArrow rest with
    | some (ins, impl) => (st, (stepClean ins impl).getD "bad-op")
    | none => (st, "bad-op")
  | "C16.hb" :: rest =>
    match splitArrow rest with
    | some (ins, impl) => (match stepHB st ins impl with | some (s', o) => (s', o) | none => (st, "bad-op"))
    | none => (st, "bad-op")
  | "C16.attr" :: rest =>
    match splitArrow rest with
    | some (ins, impl) => (match stepAttr st ins impl with | some (s', o) => (s', o) | none => (st, "bad-op"))
    | none => (st, "bad-op")
  | _ => (st, "bad-op")

def main : IO Unit := run step ({} : St)
