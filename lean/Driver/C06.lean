import Driver.Proto
import AGH.Spec.Rewrites
open Driver AGH AGH.C06

/-
Line:  C06.rw  n  (domain answer kind ip)×n  host  qtype  =>  PR  CH
  kind ∈ {0 (ParseAddr failed), 4, 6}, ip = hex of Addr.String() (oracle)
  PR, CH = result of processRewrites(host, qtype) and of CheckHost(host, qtype):
           R|N  canon  k  ip×k
Agreement: exact (reason, canon, IP list in order, left-over fields) when every
sort the run can reach has ≤ 12 elements (Go's insertion sort, stable).
Otherwise the driver must exhibit a tie-breaking (`Bytes → Sorter`, proofs
included by construction) under which the model yields the implementation's
result up to IP order; left-over fields of a non-rewritten result are ignored.
-/

def parseNat (s : String) : Option Nat := s.toNat?

def takeN {α : Type} (n : Nat) (l : List α) : Option (List α × List α) :=
  if l.length < n then none else some (l.take n, l.drop n)

def parseRaws : Nat → List String → Option (List Raw × List String)
  | 0, rest => some ([], rest)
  | n + 1, d :: a :: k :: ip :: rest => do
    let dom ← hexDecode d
    let ans ← hexDecode a
    let ipb ← hexDecode ip
    let parsed ← (if k == "0" then some none
                  else if k == "4" then some (some (true, ipb))
                  else if k == "6" then some (some (false, ipb)) else none)
    let (rs, rest') ← parseRaws n rest
    pure (⟨dom, ans, parsed⟩ :: rs, rest')
  | _, _ => none

def parseOut : List String → Option (Out × List String)
  | r :: c :: k :: rest => do
    let rew ← (if r == "R" then some true else if r == "N" then some false else none)
    let canon ← hexDecode c
    let n ← parseNat k
    let (ipsS, rest') ← takeN n rest
    let ips ← ipsS.mapM hexDecode
    pure (⟨rew, canon, ips⟩, rest')
  | _ => none

def showOut (o : Out) : String :=
  (if o.rewritten then "R" else "N") ++ "\t" ++ hexEncode o.canon ++ "\t" ++ toString o.ips.length ++
    String.join (o.ips.map (fun ip => "\t" ++ hexEncode ip))

def bytesLe : Bytes → Bytes → Bool
  | [], _ => true
  | _ :: _, [] => false
  | a :: as, b :: bs => if a < b then true else if b < a then false else bytesLe as bs

def insB (x : Bytes) : List Bytes → List Bytes
  | [] => [x]
  | y :: ys => if bytesLe x y then x :: y :: ys else y :: insB x ys

def sortB (l : List Bytes) : List Bytes := l.foldr insB []

/-- Canonical form used when tie order is unspecified. -/
def canonOut (o : Out) : Out := if o.rewritten then ⟨true, o.canon, sortB o.ips⟩ else Out.empty

def srtOf (prefs : List (Bytes × Entry)) : Bytes → Sorter := fun h =>
  match prefs.lookup h with
  | some c => prefer c
  | none => stable

def dedupE : List Entry → List Entry
  | [] => []
  | e :: es => if es.contains e then dedupE es else e :: dedupE es

/-- Search for a tie-breaking (one preferred candidate per looked-up name) under
which the model's result is `target` (canonical form).  Whatever is returned is
re-checked by evaluating the model with the sorter built from it. -/
def searchPrefs (tbl : List Entry) (qt : Nat) (orig : Bytes) (target : Out) :
    Nat → Bytes → List Bytes → List (Bytes × Entry) → Option (List (Bytes × Entry))
  | 0, _, _, _ => none
  | fuel + 1, host, visited, prefs =>
    let cands := candidates tbl host qt
    let mins := dedupE (cands.filter (fun e => cands.all (fun f => decide (cmp e f ≤ 0))))
    let leaf (prefs' : List (Bytes × Entry)) : Option (List (Bytes × Entry)) :=
      if canonOut (processRewritesWith (srtOf prefs') tbl orig qt) == target then some prefs' else none
    if mins.isEmpty then leaf prefs
    else mins.firstM fun c =>
      let prefs' := (host, c) :: prefs
      let fr := findRewritesWith (prefer c) tbl host qt
      match fr.1 with
      | rw :: _ =>
        if rw.typ = .CNAME ∧ ¬ (orig = rw.answer ∨ rw.domain = rw.answer) ∧
            ¬ (host = rw.answer ∧ isWildcard rw.domain = true) ∧ visited.contains rw.answer = false then
          searchPrefs tbl qt orig target fuel rw.answer (rw.answer :: visited) prefs'
        else leaf prefs'
      | [] => leaf prefs'

/-- Does the model explain the implementation's result? -/
def explains (tbl : List Entry) (host : Bytes) (qt : Nat) (impl : Out) : Bool :=
  if !unstableRegime tbl host qt then processRewrites tbl host qt == impl
  else
    match searchPrefs tbl qt host (canonOut impl) (tbl.length + 2) host [] [] with
    | some prefs => canonOut (processRewritesWith (srtOf prefs) tbl host qt) == canonOut impl
    | none => false

/-- Does the model explain the implementation's CheckHost result?  (Empty host →
`Result{}`; only Rewritten results are kept.) -/
def checkAgree (tbl : List Entry) (host : Bytes) (qt : Nat) (iCh : Out) : Bool :=
  let lh := Bytes.lower host
  if host = [] then iCh == Out.empty
  else if iCh.rewritten then explains tbl lh qt iCh
  else iCh == Out.empty &&
    -- some tie-breaking makes processRewrites(lower host) a non-rewritten result
    (if !unstableRegime tbl lh qt then !(processRewrites tbl lh qt).rewritten
     else explains tbl lh qt Out.empty)

def classOf (tbl : List Entry) (host : Bytes) (qt : Nat) : String :=
  let run := processRun (fun _ => stable) tbl host qt
  let o := run.out
  let base :=
    if !(tbl.any (matchesHost · host)) then "nomatch"
    else if !o.rewritten then "exception-pass"
    else if run.visited.contains run.final && run.visited.head? != some run.final then "cname-loop"
    else match o.canon.isEmpty, o.ips.isEmpty with
      | true, true => "nodata"
      | true, false => "addr"
      | false, true => "cname-upstream"
      | false, false => "cname-addr"
  let hops := if run.visited.length ≥ 2 then "+chain" else ""
  base ++ hops ++ (if unstableRegime tbl host qt then "+unstable" else "")

def stepRw (ins impl : List String) : Option String := do
  match ins with
  | nS :: rest =>
    let n ← parseNat nS
    let (raws, rest') ← parseRaws n rest
    match rest' with
    | [hostS, qtS] =>
      let host ← hexDecode hostS
      let qt ← parseNat qtS
      let tbl := prepare raws
      let mPr := processRewrites tbl host qt
      let mCh := checkHost tbl host qt
      let modelS := classOf tbl host qt ++ "\t" ++ showOut mPr ++ "\t|\t" ++ showOut mCh
      match parseOut impl with
      | some (iPr, rest2) =>
        match parseOut rest2 with
        | some (iCh, []) =>
          let lh := Bytes.lower host
          let chAgree := checkAgree tbl host qt iCh
          let agree := explains tbl host qt iPr && chAgree
          let spec :=
            -- processRewrites expects a lower-cased name (CheckHost lower-cases it): the
            -- case-insensitive monitor applies there; a mixed-case name handed to
            -- processRewrites directly is judged byte for byte
            if !(if lh = host then Spec.specOK tbl host qt iPr else Spec.specExact tbl host qt iPr) then
              some (Spec.failClass tbl host qt iPr)
            else if host ≠ [] ∧ !Spec.specOK tbl lh qt iCh then some (Spec.failClass tbl lh qt iCh ++ ".checkhost")
            else if host = [] ∧ iCh.rewritten then some "C06.root-query-rewritten"
            else none
          pure (verdict agree spec modelS)
        | _ => none
      | none =>
        match impl with
        | ["SKIP"] => pure (verdict true none modelS)   -- harness gave up after repeated hangs (already reported)
        | ["HANG"] => pure (verdict false (some "C06.nontermination") modelS)
        | "PANIC" :: _ => pure (verdict false (some "C06.panic") modelS)
        | _ =>
          -- an unexpected Reason (neither NotFilteredNotFound nor Rewritten) or an error
          pure (verdict false (some "C06.unexpected-result") modelS)
    | _ => none
  | _ => none

/-
Line:  C06.dns  n  (domain answer kind ip)×n  host  qtype  upstream-rcode  =>  k asked×k  rcode  qname  m  (typ owner data)×m
-/
def parseRRs : Nat → List String → Option (List RR × List String)
  | 0, rest => some ([], rest)
  | n + 1, t :: o :: d :: rest => do
    let typ ← parseNat t
    let owner ← hexDecode o
    let data ← hexDecode d
    let (rs, rest') ← parseRRs n rest
    pure (⟨typ, owner, data⟩ :: rs, rest')
  | _, _ => none

def parseObs (impl : List String) : Option DnsObs := do
  match impl with
  | kS :: rest =>
    let k ← parseNat kS
    let (askedS, rest1) ← takeN k rest
    let asked ← askedS.mapM hexDecode
    match rest1 with
    | rc :: qn :: mS :: rest2 =>
      let rcode ← parseNat rc
      let qname ← hexDecode qn
      let m ← parseNat mS
      let (rrs, rest3) ← parseRRs m rest2
      if rest3.isEmpty then pure ⟨asked, rcode, qname, rrs⟩ else none
    | _ => none
  | _ => none

def showObs (o : DnsObs) : String :=
  toString o.asked.length ++ String.join (o.asked.map (fun a => "\t" ++ hexEncode a)) ++ "\t" ++
    toString o.rcode ++ "\t" ++ hexEncode o.question ++ "\t" ++ toString o.answer.length ++
    String.join (o.answer.map (fun r => "\t" ++ toString r.typ ++ "\t" ++ hexEncode r.owner ++ "\t" ++ hexEncode r.data))

def dnsClass (tbl : List Entry) (host : Bytes) (qt : Nat) : String :=
  (match dispatch (checkHost tbl host qt) with
   | .pass => if tbl.any (matchesHost · (Bytes.lower host)) then "dns-pass-exception" else "dns-pass-nomatch"
   | .upstream _ => "dns-cname-upstream"
   | .answer c ips => if ips.isEmpty then "dns-local-nodata" else if c.isEmpty then "dns-local-addr" else "dns-local-cname-addr")
  ++ (if unstableRegime tbl (Bytes.lower host) qt then "+unstable" else "")

def stepDns (ins impl : List String) : Option String := do
  match ins with
  | nS :: rest =>
    let n ← parseNat nS
    let (raws, rest') ← parseRaws n rest
    match rest' with
    | [hostS, qtS, rcS] =>
      let host ← hexDecode hostS
      let qt ← parseNat qtS
      let rc ← parseNat rcS
      let tbl := prepare raws
      let m := respond tbl host qt rc
      let modelS := dnsClass tbl host qt ++ "\t" ++ showObs m
      match parseObs impl with
      | some obs =>
        -- the reply must be the rendering of a CheckHost result the model explains
        let agree := match Spec.obsToOut obs host qt rc with
          | some o => render o host qt rc == obs && checkAgree tbl host qt o
          | none => false
        let spec := if Spec.dnsSpecOK tbl host qt rc obs then none
          else match Spec.obsToOut obs host qt rc with
            | none => some "C06.dns-reply-shape"
            | some o => some (Spec.failClass tbl (Bytes.lower host) qt o ++ ".dns")
        pure (verdict agree spec modelS)
      | none =>
        match impl with
        | "PANIC" :: _ => pure (verdict false (some "C06.panic.dns") modelS)
        | _ => pure (verdict false (some "C06.unexpected-result.dns") modelS)
    | _ => none
  | _ => none

def step (_ : Unit) (line : String) : Unit × String :=
  let fs := splitTab line
  match fs with
  | "C06.rw" :: rest =>
    match splitArrow rest with
    | some (ins, impl) => ((), (stepRw ins impl).getD "bad-op")
    | none => ((), "bad-op")
  | "C06.dns" :: rest =>
    match splitArrow rest with
    | some (ins, impl) => ((), (stepDns ins impl).getD "bad-op")
    | none => ((), "bad-op")
  | _ => ((), "bad-op")

def main : IO Unit := run step ()
