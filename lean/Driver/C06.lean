import Driver.Proto
import AGH.Spec.Rewrites
open Driver AGH AGH.C06

/-
Line:  C06.rw  n  (domain answer kind ip)×n  host  qtype  =>  PR  CH
  kind ∈ {0 (ParseAddr failed), 4, 6}, ip = hex of Addr.String() (oracle)
  PR, CH = result of processRewrites(host, qtype) and of CheckHost(host, qtype):
           R|N  canon  k  ip×k
Agreement: exact (reason, canon, IP list in order, left-over fields) when every
sort the run can reach has ≤ 12 elements (Go's insertion sort, stable).
Otherwise the driver must exhibit a tie-breaking (`Bytes → Sorter`, proofs
included by construction) under which the model yields the implementation's
result up to IP order; left-over fields of a non-rewritten result are ignored.
-/

def parseNat (s : String) : Option Nat := s.toNat?

def takeN {α : Type} (n : Nat) (l : List α) : Option (List α × List α) :=
  if l.length < n then none else some (l.take n, l.drop n)

def parseRaws : Nat → List String → Option (List Raw × List String)
  | 0, rest => some ([], rest)
  | n + 1, d :: a :: k :: ip :: rest => do
    let dom ← hexDecode d
    let ans ← hexDecode a
    let ipb ← hexDecode ip
    let parsed ← (if k == "0" then some none
                  else if k == "4" then some (some (true, ipb))
                  else if k == "6" then some (some (false, ipb)) else none)
    let (rs, rest') ← parseRaws n rest
    pure (⟨dom, ans, parsed⟩ :: rs, rest')
  | _, _ => none

def parseOut : List String → Option (Out × List String)
  | r :: c :: k :: rest => do
    let rew ← (if r == "R" then some true else if r == "N" then some false else none)
    let canon ← hexDecode c
    let n ← parseNat k
    let (ipsS, rest') ← takeN n rest
    let ips ← ipsS.mapM hexDecode
    pure (⟨rew, canon, ips⟩, rest')
  | _ => none

def showOut (o : Out) : String :=
  (if o.rewritten then "R" else "N") ++ "\t" ++ hexEncode o.canon ++ "\t" ++ toString o.ips.length ++
    String.join (o.ips.map (fun ip => "\t" ++ hexEncode ip))

def bytesLe : Bytes → Bytes → Bool
  | [], _ => true
  | _ :: _, [] => false
  | a :: as, b :: bs => if a < b then true else if b < a then false else bytesLe as bs

def insB (x : Bytes) : List Bytes → List Bytes
  | [] => [x]
  | y :: ys => if bytesLe x y then x :: y :: ys else y :: insB x ys

def sortB (l : List Bytes) : List Bytes := l.foldr insB []

/-- Canonical form used when tie order is unspecified. -/
def canonOut (o : Out) : Out := if o.rewritten then ⟨true, o.canon, sortB o.ips⟩ else Out.empty

def srtOf (prefs : List (Bytes × Entry)) : Bytes → Sorter := fun h =>
  match prefs.lookup h with
  | some c => prefer c
  | none => stable

def dedupE : List Entry → List Entry
  | [] => []
  | e :: es => if es.contains e then dedupE es else e :: dedupE es

/-- Search for a tie-breaking (one preferred candidate per looked-up name) under
which the model's result is `target` (canonical form).  Whatever is returned is
re-checked by evaluating the model with the sorter built from it. -/
def searchPrefs (tbl : List Entry) (qt : Nat) (orig : Bytes) (target : Out) :
    Nat → Bytes → List Bytes → List (Bytes × Entry) → Option (List (Bytes × Entry))
  | 0, _, _, _ => none
  | fuel + 1, host, visited, prefs =>
    let cands := candidates tbl host qt
    let mins := dedupE (cands.filter (fun e => cands.all (fun f => decide (cmp e f ≤ 0))))
    let leaf (prefs' : List (Bytes × Entry)) : Option (List (Bytes × Entry)) :=
      if canonOut (processRewritesWith (srtOf prefs') tbl orig qt) == target then some prefs' else none
    if mins.isEmpty then leaf prefs
    else mins.firstM fun c =>
      let prefs' := (host, c) :: prefs
      let fr := findRewritesWith (prefer c) tbl host qt
      match fr.1 with
      | rw :: _ =>
        if rw.typ = .CNAME ∧ ¬ (orig = rw.answer ∨ rw.domain = rw.answer) ∧
            ¬ (host = rw.answer ∧ isWildcard rw.domain = true) ∧ visited.contains rw.answer = false then
          searchPrefs tbl qt orig target fuel rw.answer (rw.answer :: visited) prefs'
        else leaf prefs'
      | [] => leaf prefs'

/-- Does the model explain the implementation's result? -/
def explains (tbl : List Entry) (host : Bytes) (qt : Nat) (impl : Out) : Bool :=
  if !unstableRegime tbl host qt then processRewrites tbl host qt == impl
  else
    match searchPrefs tbl qt host (canonOut impl) (tbl.length + 2) host [] [] with
    | some prefs => canonOut (processRewritesWith (srtOf prefs) tbl host qt) == canonOut impl
    | none => false

/-- Does the model explain the implementation's CheckHost result?  (Empty host →
`Result{}`; only Rewritten results are kept.) -/
def checkAgree (tbl : List Entry) (host : Bytes) (qt : Nat) (iCh : Out) : Bool :=
  let lh := Bytes.lower host
  if host = [] then iCh == Out.empty
  else if iCh.rewritten then explains tbl lh qt iCh
  else iCh == Out.empty &&
    -- some tie-breaking makes processRewrites(lower host) a non-rewritten result
    (if !unstableRegime tbl lh qt then !(processRewrites tbl lh qt).rewritten
     else explains tbl lh qt Out.empty)

def classOf (tbl : List Entry) (host : Bytes) (qt : Nat) : String :=
  let run := processRun (fun _ => stable) tbl host qt
  let o := run.out
  let base :=
    if !(tbl.any (matchesHost · host)) then "nomatch"
    else if !o.rewritten then "exception-pass"
    else if run.visited.contains run.final && run.visited.head? != some run.final then "cname-loop"
    else match o.canon.isEmpty, o.ips.isEmpty with
      | true, true => "nodata"
      | true, false => "addr"
      | false, true => "cname-upstream"
      | false, false => "cname-addr"
  let hops := if run.visited.length ≥ 2 then "+chain" else ""
  base ++ hops ++ (if unstableRegime tbl host qt then "+unstable" else "")

/-- The CheckHost part of an observation: `B canon k ips…` is a result blocked
by a filtering rule (Reason FilteredBlockList), otherwise R/N as for
processRewrites. -/
def parseCheck : List String → Option (Bool × Out × List String)
  | "B" :: c :: k :: rest => do
    let (o, rest') ← parseOut ("N" :: c :: k :: rest)
    pure (true, o, rest')
  | l => do
    let (o, rest') ← parseOut l
    pure (false, o, rest')

/-- Letters, digits, '-', '.', not empty: the names for which the `||name^` rule
oracle (`blockedBy`) is taken as exact.  For other names ('*', empty labels, …)
urlfilter's own pattern syntax and hostname checks decide; the driver then accepts
either verdict of the rule engine. -/
def plainName (n : Bytes) : Bool :=
  !n.isEmpty && n.all (fun b => Bytes.isLowerB b || Bytes.isDigitB b || b == 45 || b == 46) &&
    n.head? != some 46 && n.getLast? != some 46

/-- One lookup: `tbl` is the model's live table, `specTbl` the table the spec
judges against (the configured entries, normalized), `rules` the names blocked by
the loaded filter list. -/
def judgeQuery (tbl specTbl : List Entry) (rules : List Bytes) (host : Bytes) (qt : Nat)
    (impl : List String) : Option String := do
  let mPr := processRewrites tbl host qt
  let mV := checkHostFull (fun _ => stable) tbl rules host qt
  let mCh := checkHost tbl host qt
  let modelS := classOf tbl host qt ++ (if mV == Verdict.blocked then "+blocked" else "") ++ "\t" ++
    showOut mPr ++ "\t|\t" ++ (if mV == Verdict.blocked then "B\t-\t0" else showOut mCh)
  match parseOut impl with
  | some (iPr, rest2) =>
    match parseCheck rest2 with
    | some (iBlocked, iCh, []) =>
      let lh := Bytes.lower host
      let known := plainName lh && rules.all plainName
      let covered := decide (host ≠ []) && blockedBy rules lh
      let iV : Verdict := if iBlocked then .blocked else if iCh.rewritten then .rewritten iCh else .notFound
      let chAgree :=
        if iBlocked then iCh == Out.empty && (covered || !known) && checkAgree tbl host qt Out.empty
        else checkAgree tbl host qt iCh && (iCh.rewritten || !covered || !known)
      let agree := explains tbl host qt iPr && chAgree
      let spec :=
        -- processRewrites expects a lower-cased name (CheckHost lower-cases it): the
        -- case-insensitive monitor applies there; a mixed-case name handed to
        -- processRewrites directly is judged byte for byte
        if !(if lh = host then Spec.specOK specTbl host qt iPr else Spec.specExact specTbl host qt iPr) then
          some (Spec.failClass specTbl host qt iPr)
        else if host = [] ∧ (iCh.rewritten ∨ iBlocked) then some "C06.root-query-rewritten"
        else if Spec.verdictOK specTbl rules host qt iV then none
        else if !known ∧ Spec.verdictOK specTbl (if iBlocked then [lh] else []) host qt iV then none
        else if !iBlocked ∧ !iCh.rewritten ∧ covered ∧ Spec.specOK specTbl lh qt Out.empty then
          some "C06.pass-through-skips-filters"
        else some (Spec.failClass specTbl lh qt (if iBlocked then Out.empty else iCh) ++ ".checkhost")
      pure (verdict agree spec modelS)
    | _ => none
  | none =>
    match impl with
    | ["SKIP"] => pure (verdict true none modelS)   -- harness gave up after a hang (already reported)
    | ["HANG"] => pure (verdict false (some "C06.nontermination") modelS)
    | "PANIC" :: _ => pure (verdict false (some "C06.panic") modelS)
    | _ =>
      -- an unexpected Reason or an error
      pure (verdict false (some "C06.unexpected-result") modelS)

def stepRw (ins impl : List String) : Option String := do
  match ins with
  | nS :: rest =>
    let n ← parseNat nS
    let (raws, rest') ← parseRaws n rest
    match rest' with
    | [hostS, qtS] =>
      let host ← hexDecode hostS
      let qt ← parseNat qtS
      let tbl := prepare raws
      judgeQuery tbl tbl [] host qt impl
    | _ => none
  | _ => none

/-
Sequence mode, one long-lived DNSFilter per block (state: the model's live table
and the configured list the spec tracks):
  C06.reset  autosave  b rule×b  n (domain answer kind ip)×n   =>  DUMP      (rules: blocked names, ||name^)
  C06.reload                                         =>  DUMP   (save, YAML round trip, new filter)
  C06.list                                           =>  n (domain answer)×n
  C06.bad    add|del|upd                             =>  status DUMP  (malformed JSON body)
  C06.q      host qtype                              =>  PR CH
  C06.write  same                                    =>  DUMP(live) DUMP(written config)
  C06.add    domain answer kind ip                   =>  status DUMP
  C06.del    domain answer                           =>  status DUMP
  C06.upd    tdomain tanswer domain answer kind ip   =>  status DUMP
  DUMP = n (domain answer type ip)×n of d.conf.Rewrites, derived fields included
-/
structure SeqState where
  tbl : List Entry
  rs : List Raw
  rules : List Bytes

def parseRows : Nat → List String → Option (List Spec.Row × List String)
  | 0, rest => some ([], rest)
  | n + 1, d :: a :: t :: ip :: rest => do
    let dom ← hexDecode d
    let ans ← hexDecode a
    let typ ← parseNat t
    let ipb ← hexDecode ip
    let (rs, rest') ← parseRows n rest
    pure ((dom, ans, typ, ipb) :: rs, rest')
  | _, _ => none

def parseDump : List String → Option (List Spec.Row × List String)
  | nS :: rest => do
    let n ← parseNat nS
    parseRows n rest
  | _ => none

def showDump (t : List Entry) : String :=
  toString t.length ++ String.join (t.map (fun e =>
    "\t" ++ hexEncode e.domain ++ "\t" ++ hexEncode e.answer ++ "\t" ++ toString e.typ.code ++ "\t" ++
      hexEncode (e.ip.getD [])))

/-- Judge the dump(s) after a table operation. -/
def judgeTable (st : SeqState) (opName : String) (wantStatus : Option Nat) (impl : List String) :
    String :=
  let modelS := "table-" ++ opName ++ "\t" ++ showDump st.tbl
  let parsed : Option (Option Nat × List (List Spec.Row)) := do
    let (status, rest) ← (match wantStatus, impl with
      | some _, sS :: rest => (parseNat sS).map (fun v => (some v, rest))
      | none, rest => some (none, rest)
      | _, _ => none)
    let (d1, rest1) ← parseDump rest
    if rest1.isEmpty then pure (status, [d1])
    else
      let (d2, rest2) ← parseDump rest1
      if rest2.isEmpty then pure (status, [d1, d2]) else none
  match parsed with
  | some (status, dumps) =>
    let agree := status == wantStatus && dumps.all (fun d => d == st.tbl.map Spec.rowOf)
    let spec :=
      if !dumps.all (Spec.tableOK st.rs) then some ("C06.table-changed-by-" ++ opName)
      else if status != wantStatus then some ("C06.edit-status-" ++ opName)
      else none
    verdict agree spec modelS
  | none =>
    match impl with
    | "PANIC" :: _ => verdict false (some ("C06.panic-" ++ opName)) modelS
    | _ => verdict false (some ("C06.unexpected-result-" ++ opName)) modelS

def parseRaw1 (d a k ip : String) : Option Raw := do
  let (rs, _) ← parseRaws 1 [d, a, k, ip]
  rs.head?

def stepSeq (st : SeqState) (op : String) (ins impl : List String) : Option (SeqState × String) := do
  match op, ins with
  | "C06.reset", _auto :: bS :: rest0 =>
    let b ← parseNat bS
    let (ruleS, rest) ← takeN b rest0
    let rules ← ruleS.mapM hexDecode
    match rest with
    | nS :: rest1 =>
      let n ← parseNat nS
      let (raws, rest') ← parseRaws n rest1
      if !rest'.isEmpty then none
      let st' : SeqState := ⟨prepare raws, raws, rules⟩
      pure (st', judgeTable st' "reset" none impl)
    | _ => none
  | "C06.q", [hostS, qtS] =>
    let host ← hexDecode hostS
    let qt ← parseNat qtS
    let out ← judgeQuery st.tbl (prepare st.rs) st.rules host qt impl
    pure (st, out)
  | "C06.write", [_same] =>
    let st' : SeqState := ⟨(stepTable st.tbl .write).1, Spec.editRaws st.rs .write, st.rules⟩
    pure (st', judgeTable st' "write" none impl)
  | "C06.reload", [] =>
    let st' : SeqState := ⟨(stepTable st.tbl .reload).1, Spec.editRaws st.rs .reload, st.rules⟩
    pure (st', judgeTable st' "reload" none impl)
  | "C06.bad", [_which] =>
    let (t, ok) := stepTable st.tbl .bad
    let st' : SeqState := ⟨t, Spec.editRaws st.rs .bad, st.rules⟩
    pure (st', judgeTable st' "bad" (some (if ok then 200 else 400)) impl)
  | "C06.race", [td, ta, d, a, k, ip, hostS, qtS, _iters] =>
    -- lookups racing the update handler, which flips one entry between its old
    -- and new value an odd number of times:  =>  status  m result×m  DUMP
    -- (result = hex of the TAB-joined PR CH observation)
    let tdom ← hexDecode td
    let tans ← hexDecode ta
    let r ← parseRaw1 d a k ip
    let host ← hexDecode hostS
    let qt ← parseNat qtS
    let tA := st.tbl
    let (tB, ok) := stepTable tA (.upd tdom tans r)
    let rsB := Spec.editRaws st.rs (.upd tdom tans r)
    -- the generator guarantees that flipping back restores the old table
    let nu := normalize r
    let back : Raw := ⟨tdom, tans, (tA.find? (sameKey tdom tans)).bind (fun e => (reraw e).parsed)⟩
    if ok && (stepTable tB (.upd nu.domain nu.answer back)).1 != tA then none
    let st' : SeqState := ⟨tB, rsB, st.rules⟩
    match impl with
    | stS :: mS :: rest =>
      let status ← parseNat stS
      let m ← parseNat mS
      let (resS, dumpS) ← takeN m rest
      let results ← resS.mapM (fun x => do
        let bs ← hexDecode x
        let fields := splitTab (String.ofList (bs.map Char.ofNat))
        let (iPr, rest2) ← parseOut fields
        let (iCh, rest3) ← parseOut rest2
        if rest3.isEmpty then pure (iPr, iCh) else none)
      let specA := prepare st.rs
      let specB := prepare rsB
      let lh := Bytes.lower host
      let agreeRes := results.all (fun (iPr, iCh) =>
        (explains tA host qt iPr || explains tB host qt iPr) &&
        (checkAgree tA host qt iCh || checkAgree tB host qt iCh))
      let specRes := results.all (fun (iPr, iCh) =>
        (Spec.specOK specA lh qt iPr || Spec.specOK specB lh qt iPr) &&
        (Spec.specOK specA lh qt iCh || Spec.specOK specB lh qt iCh))
      let (dump, restD) ← parseDump dumpS
      if !restD.isEmpty then none
      let wantStatus := if ok then 200 else 400
      let agree := agreeRes && status == wantStatus && dump == tB.map Spec.rowOf
      let spec :=
        if !specRes then some "C06.answer-from-no-table-state"
        else if !Spec.tableOK rsB dump then some "C06.table-changed-by-race"
        else none
      pure (st', verdict agree spec ("race\t" ++ toString results.length ++ "\t" ++ showDump tB))
    | "PANIC" :: _ => pure (st', verdict false (some "C06.panic-race") "race")
    | _ => none
  | "C06.list", [] =>
    let modelS := "table-list\t" ++ toString st.tbl.length
    match impl with
    | nS :: rest =>
      let n ← parseNat nS
      let (fs, rest') ← takeN (2 * n) rest
      if !rest'.isEmpty then none
      let bs ← fs.mapM hexDecode
      let rec pairs : List Bytes → List (Bytes × Bytes)
        | a :: b :: r => (a, b) :: pairs r
        | _ => []
      let shown := pairs bs
      let agree := shown == listTable st.tbl
      let spec := if Spec.listOK st.rs shown then none else some "C06.list-not-configured"
      pure (st, verdict agree spec modelS)
    | _ => pure (st, verdict false (some "C06.unexpected-result-list") modelS)
  | "C06.add", [d, a, k, ip] =>
    let r ← parseRaw1 d a k ip
    let (t, ok) := stepTable st.tbl (.add r)
    let st' : SeqState := ⟨t, Spec.editRaws st.rs (.add r), st.rules⟩
    pure (st', judgeTable st' "add" (some (if ok then 200 else 400)) impl)
  | "C06.del", [d, a] =>
    let dom ← hexDecode d
    let ans ← hexDecode a
    let (t, ok) := stepTable st.tbl (.del dom ans)
    let st' : SeqState := ⟨t, Spec.editRaws st.rs (.del dom ans), st.rules⟩
    pure (st', judgeTable st' "del" (some (if ok then 200 else 400)) impl)
  | "C06.upd", [td, ta, d, a, k, ip] =>
    let tdom ← hexDecode td
    let tans ← hexDecode ta
    let r ← parseRaw1 d a k ip
    let (t, ok) := stepTable st.tbl (.upd tdom tans r)
    let st' : SeqState := ⟨t, Spec.editRaws st.rs (.upd tdom tans r), st.rules⟩
    pure (st', judgeTable st' "upd" (some (if ok then 200 else 400)) impl)
  | _, _ => none

/-
Line:  C06.dns  n  (domain answer kind ip)×n  host  qtype  upstream-rcode  =>  k asked×k  rcode  qname  m  (typ owner data)×m
-/
def parseRRs : Nat → List String → Option (List RR × List String)
  | 0, rest => some ([], rest)
  | n + 1, t :: o :: d :: rest => do
    let typ ← parseNat t
    let owner ← hexDecode o
    let data ← hexDecode d
    let (rs, rest') ← parseRRs n rest
    pure (⟨typ, owner, data⟩ :: rs, rest')
  | _, _ => none

def parseObs (impl : List String) : Option DnsObs := do
  match impl with
  | kS :: rest =>
    let k ← parseNat kS
    let (askedS, rest1) ← takeN k rest
    let asked ← askedS.mapM hexDecode
    match rest1 with
    | rc :: qn :: mS :: rest2 =>
      let rcode ← parseNat rc
      let qname ← hexDecode qn
      let m ← parseNat mS
      let (rrs, rest3) ← parseRRs m rest2
      if rest3.isEmpty then pure ⟨asked, rcode, qname, rrs⟩ else none
    | _ => none
  | _ => none

def showObs (o : DnsObs) : String :=
  toString o.asked.length ++ String.join (o.asked.map (fun a => "\t" ++ hexEncode a)) ++ "\t" ++
    toString o.rcode ++ "\t" ++ hexEncode o.question ++ "\t" ++ toString o.answer.length ++
    String.join (o.answer.map (fun r => "\t" ++ toString r.typ ++ "\t" ++ hexEncode r.owner ++ "\t" ++ hexEncode r.data))

def dnsClass (tbl : List Entry) (host : Bytes) (qt : Nat) : String :=
  (match dispatch (checkHost tbl host qt) with
   | .pass => if tbl.any (matchesHost · (Bytes.lower host)) then "dns-pass-exception" else "dns-pass-nomatch"
   | .upstream _ => "dns-cname-upstream"
   | .answer c ips => if ips.isEmpty then "dns-local-nodata" else if c.isEmpty then "dns-local-addr" else "dns-local-cname-addr")
  ++ (if unstableRegime tbl (Bytes.lower host) qt then "+unstable" else "")

def stepDns (ins impl : List String) : Option String := do
  match ins with
  | nS :: rest =>
    let n ← parseNat nS
    let (raws, rest') ← parseRaws n rest
    match rest' with
    | [hostS, qtS, rcS] =>
      let host ← hexDecode hostS
      let qt ← parseNat qtS
      let rc ← parseNat rcS
      let tbl := prepare raws
      let m := respond tbl host qt rc
      let modelS := dnsClass tbl host qt ++ "\t" ++ showObs m
      match parseObs impl with
      | some obs =>
        -- the reply must be the rendering of a CheckHost result the model explains
        let agree := match Spec.obsToOut obs host qt rc with
          | some o => render o host qt rc == obs && checkAgree tbl host qt o
          | none => false
        let spec := if Spec.dnsSpecOK tbl host qt rc obs then none
          else match Spec.obsToOut obs host qt rc with
            | none => some "C06.dns-reply-shape"
            | some o => some (Spec.failClass tbl (Bytes.lower host) qt o ++ ".dns")
        pure (verdict agree spec modelS)
      | none =>
        match impl with
        | "PANIC" :: _ => pure (verdict false (some "C06.panic.dns") modelS)
        | _ => pure (verdict false (some "C06.unexpected-result.dns") modelS)
    | _ => none
  | _ => none

def step (st : SeqState) (line : String) : SeqState × String :=
  let fs := splitTab line
  match fs with
  | "C06.rw" :: rest =>
    match splitArrow rest with
    | some (ins, impl) => (st, (stepRw ins impl).getD "bad-op")
    | none => (st, "bad-op")
  | "C06.dns" :: rest =>
    match splitArrow rest with
    | some (ins, impl) => (st, (stepDns ins impl).getD "bad-op")
    | none => (st, "bad-op")
  | op :: rest =>
    match splitArrow rest with
    | some (ins, impl) =>
      match stepSeq st op ins impl with
      | some (st', out) => (st', out)
      | none => (st, "bad-op")
    | none => (st, "bad-op")
  | _ => (st, "bad-op")

def main : IO Unit := run step ⟨[], [], []⟩
