import Driver.Proto
import AGH.Spec.SafeFS
open Driver AGH AGH.C17

namespace C17Drv

/-- `n item1 … itemn rest…` → (items, rest) -/
def takeList (fs : List String) : Option (List Bytes × List String) := do
  match fs with
  | [] => none
  | n :: rest =>
    let k ← n.toNat?
    if rest.length < k then none
    else
      let items ← (rest.take k).mapM hexDecode
      pure (items, rest.drop k)

def panicName : Panic → String
  | .notAbs => "notAbs" | .badPattern => "badPattern"

def clsName : Cls → String
  | .ok => "ok" | .stat => "stat" | .noMatch => "nomatch" | .url => "url" | .fetch => "fetch"

def parseCls (s : String) : Option Cls :=
  match s with
  | "ok" => some .ok | "stat" => some .stat | "nomatch" => some .noMatch
  | "url" => some .url | "fetch" => some .fetch | _ => none

def showSrc : Src → String
  | .none => "none\t-" | .old => "old\t-" | .http => "http\t-"
  | .file p => "file\t" ++ hexEncode p | .unknown => "unknown\t-"

def parseSrc (tag val : String) : Option Src :=
  match tag with
  | "none" => some .none | "old" => some .old | "http" => some .http
  | "unknown" => some .unknown
  | "file" => (hexDecode val).map Src.file
  | _ => none

def showObs : Obs → String
  | .confErr i => "conferr\t" ++ toString i
  | .panic p => "panic\t" ++ panicName p
  | .done st c s u => "done\t" ++ toString st ++ "\t" ++ clsName c ++ "\t" ++ showSrc s ++ "\t" ++ (if u then "1" else "0")

def parseObs (impl : List String) : Option Obs :=
  match impl with
  | ["conferr", i] => i.toNat?.map Obs.confErr
  | ["panic", "notAbs"] => some (.panic .notAbs)
  | ["panic", "badPattern"] => some (.panic .badPattern)
  | ["done", st, c, tag, val, u] => do
    pure (.done (← st.toNat?) (← parseCls c) (← parseSrc tag val) (← parseBool u))
  | _ => none

def parseKind (s : String) : Option Kind :=
  match s with
  | "F" => some .file | "D" => some .dir | "N" => some .missing | _ => none

def stepOp (op : Op) (ins impl : List String) : Option String := do
  let (pats, rest) ← takeList ins
  match rest with
  | [loc, kind, urlok, fetchok, enabled] =>
    let e : Env := {
      pats := pats, loc := ← hexDecode loc, kind := ← parseKind kind,
      urlOK := ← parseBool urlok, fetchOK := ← parseBool fetchok, enabled := ← parseBool enabled }
    let m := runOp op e
    -- an observation the driver cannot parse is reported as a disagreement
    -- with the spec evaluated on "unknown content" (never silently accepted)
    match parseObs impl with
    | some o =>
      pure (verdict (showObs m == showObs o) ((specWhy op e o).map ("C17." ++ ·)) (showObs m))
    | none => pure (verdict false none (showObs m))
  | _ => none

def showM : Except MErr Bool → String
  | .ok b => "ok\t" ++ (if b then "1" else "0")
  | .error .badPattern => "err\tbadpattern"
  | .error .fuel => "err\tfuel"

def stepMatch (ins impl : List String) : Option String := do
  match ins with
  | [pat, name] =>
    let pat ← hexDecode pat
    let name ← hexDecode name
    let m := showM (goMatch pat name)
    let i := "\t".intercalate impl
    -- property side: what the implementation calls a match must be one
    let spec := if i == "ok\t1" ∧ !globMatches pat name then some "C17.match-outside-pattern-language" else none
    pure (verdict (m == i) spec m)
  | _ => none

def stepAny (ins impl : List String) : Option String := do
  let (pats, rest) ← takeList ins
  match rest with
  | [p] =>
    let p ← hexDecode p
    let m := match pathMatchesAny pats p with
      | .ok b => "ok\t" ++ (if b then "1" else "0")
      | .error e => "panic\t" ++ panicName e
    let i := "\t".intercalate impl
    let spec := if i == "ok\t1" ∧ !matchesSome pats p then some "C17.any-match-outside-patterns" else none
    pure (verdict (m == i) spec m)
  | _ => none

def stepClean (ins impl : List String) : Option String := do
  match ins, impl with
  | [p], [q] =>
    let p ← hexDecode p
    let m := pathClean p
    let i ← hexDecode q
    -- property side: the cleaned form of an absolute path is what the kernel resolves
    let spec :=
      if isAbs p ∧ comps i != resolve p
      then some "C17.clean-is-not-resolution" else none
    pure (verdict (m == i) spec (hexEncode m))
  | _, _ => none

def stepRune (ins impl : List String) : Option String := do
  match ins with
  | [s] =>
    let d := decodeRune (← hexDecode s)
    let m := toString d.1 ++ "\t" ++ toString d.2
    pure (verdict (m == "\t".intercalate impl) none m)
  | _ => none

/-- Sequence mode: the patterns of the long-lived instance (`none`: no valid
configuration).  The model of a step is the stateless model — the property is
per request, whatever was asked before. -/
abbrev St := Option (List Bytes)

def stepConf (ins impl : List String) : Option (St × String) := do
  let (pats, rest) ← takeList ins
  if !rest.isEmpty then none
  else
    match confError pats 0 with
    | some i =>
      let m := "conferr\t" ++ toString i
      pure (none, verdict (m == "\t".intercalate impl) none m)
    | none => pure (some pats, verdict ("ok" == "\t".intercalate impl) none "ok")

def stepSeq (st : St) (op : Op) (ins impl : List String) : Option String :=
  match st with
  | none => some (verdict ("noconf" == "\t".intercalate impl) none "noconf")
  | some pats => stepOp op (toString pats.length :: pats.map hexEncode ++ ins) impl

/-- `home` harness: which planted file's content reached the data directory. -/
def stepHome (ins impl : List String) : Option String := do
  let (pats, rest) ← takeList ins
  match rest with
  | [loc, kind] =>
    let loc ← hexDecode loc
    let kind ← parseKind kind
    let src : Src := match reader pats loc with
      | .opened p => if kind == .file then .file p else .none
      | _ => .none
    let m := showSrc src
    let e : Env := ⟨pats, loc, kind, false, false, true⟩
    match impl with
    | ["conferr"] => pure (verdict ((confError pats 0).isSome) none "conferr")
    | [tag, val] =>
      match parseSrc tag val with
      | some o => pure (verdict (m == showSrc o && (confError pats 0).isNone) ((srcWhy e o).map ("C17." ++ ·)) m)
      | none => pure (verdict false none m)
    | _ => pure (verdict false none m)
  | _ => none

def step (st : St) (line : String) : St × String :=
  match splitTab line with
  | op :: rest =>
    match splitArrow rest with
    | none => (st, "bad-op")
    | some (ins, impl) =>
      if op == "C17.conf" then
        (match stepConf ins impl with | some (s, o) => (s, o) | none => (st, "bad-op"))
      else
      let r := match op with
        | "C17.hadd" => stepHome ins impl
        | "C17.hseturl" => stepHome ins impl
        | "C17.hrefresh" => stepHome ins impl
        | "C17.sadd" => stepSeq st .add ins impl
        | "C17.sseturl" => stepSeq st .setURL ins impl
        | "C17.srefresh" => stepSeq st .refresh ins impl
        | "C17.add" => stepOp .add ins impl
        | "C17.seturl" => stepOp .setURL ins impl
        | "C17.refresh" => stepOp .refresh ins impl
        | "C17.match" => stepMatch ins impl
        | "C17.any" => stepAny ins impl
        | "C17.clean" => stepClean ins impl
        | "C17.rune" => stepRune ins impl
        | _ => none
      (st, r.getD "bad-op")
  | [] => (st, "bad-op")

end C17Drv

def main : IO Unit := run C17Drv.step none
