import Driver.Proto
import AGH.Spec.FS
open Driver AGH AGH.C14

/-
Line protocol of C14 (blocks start with `C14.reset`):

  C14.reset <kind> <dest> <n> <path>*n            => ok
      fresh model file system in which the n listed files exist (synced,
      each with a one-token content of its own)
  C14.put <path>                                  => ok
      the harness created (or replaced) a file out of band
  C14.save <variant> <size> <seed> <expectCommit> <nExtra> <probe: same|xdev|notmp|faildir>
        => <committed> <newLen> <finalOK> <reads> <badReads> <k> <name>*k <n> <event>*n
      one real save under strace.  events: c:<path>:<fd>  o:<path>:<fd>:<trunc>
      w:<fd>:<len>  s:<fd>  x:<fd>  r:<a>:<b>  u:<a>  q:<name> (unsupported)
  C14.fsop <event>   (W:<fd>:<hexdata> writes literal bytes)
        => <errno|ok> <k> (<path> <present> <content>)*k
      one syscall on the real kernel; visible layer of the model against it
-/

structure St where
  fs : FS
  dest : Path
  known : List Path      -- every path mentioned so far
  saveNo : Nat
  ok : Bool
  fdsSeen : List Nat := []   -- every descriptor number seen in the block (some may still be open)

def St.init : St := ⟨FS.empty, [], [], 0, false, []⟩

def parseNat (s : String) : Option Nat := s.toNat?

/-- Parse one event; `tok` is the token to use for a length-only write. -/
def parseEvent (tok : Nat) (f : String) : Option (Option Sys) :=
  match f.splitOn ":" with
  | ["c", p, fd] => do pure (some (.creat (← hexDecode p) (← parseNat fd)))
  | ["o", p, fd, t] => do pure (some (.openWr (← hexDecode p) (← parseNat fd) (← parseBool t)))
  | ["w", fd, len] => do
    let n ← parseNat len
    pure (some (.write (← parseNat fd) (if n = 0 then [] else [tok])))
  | ["W", fd, d] => do pure (some (.write (← parseNat fd) (← hexDecode d)))
  | ["s", fd] => do pure (some (.fsync (← parseNat fd)))
  | ["x", fd] => do pure (some (.close (← parseNat fd)))
  | ["r", a, b] => do pure (some (.rename (← hexDecode a) (← hexDecode b)))
  | ["u", a] => do pure (some (.unlink (← hexDecode a)))
  | ["d", _] => some (some .fsyncDir)
  | ["q", _] => some none
  | _ => none

def writeLen (f : String) : Nat :=
  match f.splitOn ":" with
  | ["w", _, len] => (parseNat len).getD 0
  | _ => 0

/-- Events of one save; write number k of save n carries the token n·2^32 + k. -/
def parseEvents (saveNo : Nat) : Nat → List String → Option (List Sys)
  | _, [] => some []
  | k, f :: fs => do
    match ← parseEvent (saveNo * 4294967296 + k) f with
    | none => none          -- unsupported syscall in the trace: bad-op
    | some e =>
      let rest ← parseEvents saveNo (k + 1) fs
      pure (e :: rest)

def showEvent : Sys → String
  | .creat p fd => s!"c:{hexEncode p}:{fd}"
  | .openWr p fd t => s!"o:{hexEncode p}:{fd}:{if t then "1" else "0"}"
  | .write fd d => s!"w:{fd}:{",".intercalate (d.map toString)}"
  | .fsync fd => s!"s:{fd}"
  | .close fd => s!"x:{fd}"
  | .rename a b => s!"r:{hexEncode a}:{hexEncode b}"
  | .unlink a => s!"u:{hexEncode a}"
  | .fsyncDir => "d:-"

def showEvents (es : List Sys) : String :=
  "\t".intercalate (toString es.length :: es.map showEvent)

def ltBytes : Bytes → Bytes → Bool
  | [], [] => false
  | [], _ :: _ => true
  | _ :: _, [] => false
  | a :: as, b :: bs => if a < b then true else if b < a then false else ltBytes as bs

def leBytes (a b : Bytes) : Bool := !ltBytes b a

def dedup : List Bytes → List Bytes
  | [] => []
  | p :: ps => if ps.contains p then dedup ps else p :: dedup ps

def showDir (s : FS) (known : List Path) : String :=
  let live := ((dedup known).filter (fun p => (s.names p).isSome)).mergeSort leBytes
  "\t".intercalate (toString live.length :: live.map hexEncode)

/-- Put a synced file with content `c` at `p` (out-of-band creation by the harness). -/
def putFile (s : FS) (p : Path) (c : Content) : FS :=
  let s := exec s (.unlink p)
  run s [.creat p 1000000, .write 1000000 c, .fsync 1000000, .close 1000000]

/-- Re-tabulate the state between saves (same function values on every path,
inode and descriptor seen so far), so that look-ups do not walk an ever longer
chain of `upd` closures over a block of saves.  In addition the settled content
of `dest` — by now a list of one token per chunk of the save that wrote it — is
renamed to the single token `ver`: between saves a version is opaque, and the
next save's instants are then compared against a one-element list.
Representation only. -/
def compact (s : FS) (dest : Path) (ver : Nat) (known : List Path) (fdsSeen : List Nat) : FS :=
  let nameTbl := (dedup known).filterMap (fun p => (s.names p).map (fun i => (p, i)))
  let inodes := List.range s.next
  let relabel : Option Nat :=
    match s.names dest with
    | some i =>
      if !s.dirty i && s.cache i == s.disk i && (s.cache i).length > 1 &&
         fdsSeen.all (fun fd => match s.fds fd with | some (j, _) => j != i | none => true)
      then some i else none
    | none => none
  let content (f : Nat → Content) (i : Nat) : Content := if relabel == some i then [ver] else f i
  let cacheA := (inodes.map (content s.cache)).toArray
  let diskA := (inodes.map (content s.disk)).toArray
  let dirtyA := (inodes.map s.dirty).toArray
  let fdTbl := fdsSeen.eraseDups.filterMap (fun fd => (s.fds fd).map (fun v => (fd, v)))
  { names := fun p => nameTbl.lookup p,
    cache := fun i => cacheA.getD i [],
    disk := fun i => diskA.getD i [],
    dirty := fun i => dirtyA.getD i false,
    fds := fun fd => fdTbl.lookup fd,
    next := s.next }

def fdsOf (es : List Sys) : List Nat :=
  es.filterMap fun
    | .creat _ fd => some fd | .openWr _ fd _ => some fd | _ => none

def paths (es : List Sys) : List Path :=
  es.flatMap fun
    | .creat p _ => [p] | .openWr p _ _ => [p] | .rename a b => [a, b] | .unlink a => [a]
    | _ => []

def allAccepted : FS → List Sys → Bool
  | _, [] => true
  | s, e :: es => match step s e with
    | .ok s' => allAccepted s' es
    | .error _ => false

/-- Recognise the observed trace as an instance of the model's writer: pull the
oracle values (temp names, descriptors, chunking) out of it, rebuild the
program from them and return it.  `probe` (an input: the harness chose where
TMPDIR points and whether the destination directory accepts new entries) fixes
the shape of the start. -/
def instanceOf (dest : Path) (probe : String) (commit : Bool) (nExtra : Nat) (leak : Bool)
    (evs : List Sys) : Option (List Sys) :=
  let body (pr : Probe) (tmp : Path) (fd : Nat) (rest : List Sys) : Option (List Sys) :=
    let ws := rest.takeWhile (fun e => match e with | .write _ _ => true | _ => false)
    let chunks := ws.filterMap (fun e => match e with | .write _ d => some d | _ => none)
    let sv : Save := { pr := pr, tmp := tmp, fd := fd, chunks := chunks, commit := commit }
    -- leak: `CloseReplace` failed at its fsync (injected EIO) and, as the filter
    -- updater is written, nothing closes or removes the temporary file afterwards
    let core := if leak then probeOps pr ++ [.creat tmp fd] ++ chunks.map (.write fd) else sv.prog dest
    let tail := evs.drop core.length
    let tailOK := tail.length == nExtra &&
      tail.all (fun e => match e with | .unlink p => p != dest | _ => false)
    if pr.src != dest && pr.dst != dest && tmp != dest && tailOK then some (core ++ tail) else none
  if probe == "faildir" then
    match evs with
    | .creat a f1 :: _ =>
      let sv : Save := { pr := ⟨a, a, f1, f1, .sameMount⟩, tmp := a, fd := f1, chunks := [],
                         commit := false, started := false }
      if a != dest && nExtra == 0 then some (sv.prog dest) else none
    | _ => none
  else if probe == "notmp" then
    match evs with
    | .creat tmp fd :: rest => body ⟨tmp, tmp, fd, fd, .noTmp⟩ tmp fd rest
    | _ => none
  else
    match evs with
    | .creat a f1 :: _ :: .creat b f2 :: _ :: _ :: _ :: .creat tmp fd :: rest =>
      if probe == "same" then body ⟨a, b, f1, f2, .sameMount⟩ tmp fd rest
      else if probe == "xdev" then body ⟨a, b, f1, f2, .otherMount⟩ tmp fd rest
      else none
    | _ => none

/-- Closes of descriptors that were not opened in the window: a temporary file leaked by an earlier failed `CloseReplace`
whose `*os.File` the Go garbage collector finalises at a time of its own.  They
are replayed (and monitored) but are not part of the save's program. -/
def splitStray (s : FS) : List Nat → List Sys → List Sys × List Sys
  | _, [] => ([], [])
  | opened, e :: es =>
    match e with
    | .close fd =>
      if !opened.contains fd then
        let (k, st) := splitStray s opened es
        (k, e :: st)
      else
        let (k, st) := splitStray s (opened.erase fd) es
        (e :: k, st)
    | .creat _ fd =>
      let (k, st) := splitStray s (fd :: opened) es
      (e :: k, st)
    | .openWr _ fd _ =>
      let (k, st) := splitStray s (fd :: opened) es
      (e :: k, st)
    | _ =>
      let (k, st) := splitStray s opened es
      (e :: k, st)

def whyName : Why → String
  | .visible => "C14.visible" | .crash => "C14.crash" | .final => "C14.final" | .reader => "C14.reader"

def takeList (n : Nat) (fs : List String) : Option (List String × List String) :=
  if fs.length < n then none else some (fs.take n, fs.drop n)

def stepSave (st : St) (ins impl : List String) : Option (St × String) := do
  -- a seventh input field (filter lists): the number of HTTP requests one update makes
  let (ins, expReqs) := match ins with
    | [a, b, c, d, e, f, g] => ([a, b, c, d, e, f], some g)
    | _ => (ins, none)
  match ins, impl with
  | [_variant, _size, _seed, expectCommit, nExtra, probe],
    committed :: newLen :: finalOK :: _reads :: badReads :: k :: rest =>
    let expectCommit ← parseBool expectCommit
    let nExtra ← parseNat nExtra
    let committed ← parseBool committed
    let newLen ← parseNat newLen
    let finalOK ← parseBool finalOK
    let badReads ← parseNat badReads
    let (dirNames, rest) ← takeList (← parseNat k) rest
    match rest with
    | n :: evAndMore =>
      let n ← parseNat n
      if evAndMore.length < n then none
      let evFields := evAndMore.take n
      -- optional trailer: requests seen by the HTTP source, rule lines of the intended list
      let (reqs, wantChunks) ← (match evAndMore.drop n with
        | [] => some (none, none)
        | [r, c] => do pure (some (← parseNat r), some (← parseNat c))
        | _ => none)
      let saveNo := st.saveNo + 1
      let evs ← parseEvents saveNo 0 evFields
      -- the new version: what this save wrote, in order
      let new : Content := (evs.filterMap (fun e => match e with | .write _ d => some d | _ => none)).flatten
      let wrote := (evFields.map writeLen).foldl (· + ·) 0
      let i : In := ⟨st.fs, st.dest, new⟩
      let o : Out := ⟨evs, committed, badReads⟩
      let known := st.known ++ paths evs
      let final := run st.fs evs
      -- model side
      -- "same+fsize=123": the part after '+' is a fault for the harness only
      let leak := probe.endsWith "+leak"
      let probe := (probe.splitOn "+").headD probe
      let (own, stray) := splitStray st.fs [] evs
      let modelProg := instanceOf st.dest probe expectCommit nExtra leak own
      let modelStr := match modelProg with
        | none => "no-instance"
        | some prog =>
          let r := runAbort (run st.fs stray) prog
          "\t".intercalate [if expectCommit && r.2 then "1" else "0", showDir r.1 known, showEvents prog]
      let reqStr (r : Option String) := match r with | some x => "\treqs=" ++ x | none => ""
      let modelStr := modelStr ++ (if modelProg.isSome then reqStr expReqs else "")
      let implStr := "\t".intercalate [if committed then "1" else "0",
        "\t".intercalate (toString dirNames.length :: dirNames), showEvents own] ++
        (match expReqs with | some _ => reqStr (reqs.map toString) | none => "")
      let agree := modelStr == implStr && allAccepted (run st.fs stray) own
      let spec : Option String :=
        match check i o with
        | some w => some (whyName w)
        | none =>
          -- the committed temporary file holds exactly ONE complete version: as many
          -- bytes, and (filter lists: one write per rule line) as many chunks
          if committed && wrote != newLen then some "C14.length"
          else if committed && wantChunks.isSome &&
              wantChunks != some ((evFields.filter (fun f => writeLen f != 0)).length) then
            some "C14.oneversion"
          else if !finalOK then some "C14.content"
          else none
      let fdsSeen := (st.fdsSeen ++ 1000000 :: fdsOf evs).eraseDups
      pure ({ st with fs := compact final st.dest (2305843009213693952 + saveNo) known fdsSeen,
                      known := dedup known, saveNo := saveNo, fdsSeen := fdsSeen },
        verdict agree spec modelStr)
    | _ => none
  | _, _ => none

/-- Contents installed at `dest` by the renames of a replayed trace, in order. -/
def renamedContents (dest : Path) : FS → List Sys → List Content
  | _, [] => []
  | s, e :: es =>
    let here := match e with
      | .rename a b => if b == dest && a != dest then
          (match s.names a with | some i => [s.cache i] | none => []) else []
      | _ => []
    here ++ renamedContents dest (exec s e) es

/-- Decidable form of `GoodTrace` (descriptors: those the trace mentions). -/
def goodTraceB (dest : Path) (fdsSeen : List Nat) : FS → List Sys → Bool
  | _, [] => true
  | s, e :: es =>
    let good := e.safeFor dest || (match e with
      | .rename a b => b == dest && a != dest && (match s.names a with
          | some i => s.cache i == s.disk i && !s.dirty i &&
              fdsSeen.all (fun fd => match s.fds fd with | some (j, _) => j != i | none => true)
          | none => false)
      | _ => false)
    good && goodTraceB dest fdsSeen (exec s e) es

/-- Two (or more) saves of the same path at once: the interleaved trace is
replayed; allowed contents are the old version and whatever complete temporary
files were renamed into place. -/
def stepRace (st : St) (ins impl : List String) : Option (St × String) := do
  match ins, impl with
  | [_variant, _sizeA, _seedA, _sizeB, _seedB, _probe],
    nCommitted :: finalOK :: _reads :: badReads :: k :: rest =>
    let nCommitted ← parseNat nCommitted
    let finalOK ← parseBool finalOK
    let badReads ← parseNat badReads
    let (dirNames, rest) ← takeList (← parseNat k) rest
    match rest with
    | n :: evFields =>
      if evFields.length != (← parseNat n) then none
      let saveNo := st.saveNo + 1
      let evs ← parseEvents saveNo 0 evFields
      let old := visible st.fs st.dest
      let V := renamedContents st.dest st.fs evs
      let allowed : List (Option Content) := old :: V.map some
      let ok : Option Content → Bool := fun c => allowed.contains c
      let known := st.known ++ paths evs
      let final := run st.fs evs
      let fdsSeen := (st.fdsSeen ++ 1000000 :: fdsOf evs).eraseDups
      let good := goodTraceB st.dest fdsSeen st.fs evs && allAccepted st.fs evs
      let modelStr := "\t".intercalate [toString V.length, showDir final known, if good then "good" else "bad"]
      let implStr := "\t".intercalate [toString nCommitted,
        "\t".intercalate (toString dirNames.length :: dirNames), "good"]
      let spec : Option String :=
        match firstBadP ok st.dest st.fs evs with
        | some w => some (whyName w)
        | none =>
          if nCommitted != 0 && !(V.map some).contains (visible final st.dest) then some "C14.final"
          else if badReads != 0 then some "C14.reader"
          else if !finalOK then some "C14.content"
          else none
      pure ({ st with fs := compact final st.dest (2305843009213693952 + saveNo) known fdsSeen,
                      known := dedup known, saveNo := saveNo, fdsSeen := fdsSeen },
        verdict (modelStr == implStr) spec modelStr)
    | _ => none
  | _, _ => none

def errName : Errno → String
  | .eexist => "eexist" | .enoent => "enoent" | .ebadf => "ebadf"

def stepFsop (st : St) (ins impl : List String) : Option (St × String) := do
  match ins with
  | [ev] =>
    let e ← (← parseEvent 0 ev)
    let (res, s') := match step st.fs e with
      | .ok s' => ("ok", s')
      | .error er => (errName er, st.fs)
    let known := dedup (st.known ++ paths [e])
    let dump := ((known.filter (· != [])).mergeSort leBytes).flatMap fun p =>
      match visible s' p with
      | none => [hexEncode p, "0", "-"]
      | some c => [hexEncode p, "1", hexEncode c]
    let modelStr := "\t".intercalate (res :: toString (dump.length / 3) :: dump)
    let implStr := "\t".intercalate impl
    pure ({ st with fs := s', known := known }, verdict (modelStr == implStr) none modelStr)
  | _ => none

def stepReset (ins impl : List String) : Option (St × String) := do
  match ins with
  | _kind :: dest :: n :: files =>
    let dest ← hexDecode dest
    if files.length != (← parseNat n) then none
    let ps ← files.mapM hexDecode
    let fs := (ps.zipIdx).foldl (fun s (p, j) => putFile s p [j]) FS.empty
    pure (⟨fs, dest, dedup (dest :: ps), 0, true, []⟩, verdict (impl == ["ok"]) none "ok")
  | _ => none

def step' (st : St) (line : String) : St × String :=
  let fs := splitTab line
  match fs with
  | op :: rest =>
    match splitArrow rest with
    | none => (st, "bad-op")
    | some (ins, impl) =>
      let r : Option (St × String) :=
        if op == "C14.reset" then stepReset ins impl
        else if !st.ok then none
        else if op == "C14.save" then stepSave st ins impl
        else if op == "C14.fsop" then stepFsop st ins impl
        else if op == "C14.race" then stepRace st ins impl
        else if op == "C14.put" then
          match ins with
          | p :: _ => (hexDecode p).map fun p =>
              -- a token of its own: 2^62 + number of paths known so far + save number
              ({ st with fs := putFile st.fs p [4611686018427387904 + st.known.length * 1024 + st.saveNo],
                         known := dedup (p :: st.known) },
               verdict (impl == ["ok"]) none "ok")
          | _ => none
        else none
      r.getD (st, "bad-op")
  | [] => (st, "bad-op")

def main : IO Unit := run step' St.init
