import Driver.Proto
import AGH.Spec.ScheduleFloat
open Driver AGH AGH.C18

abbrev P := StateT (List String) Option

def tok : P String := fun s => match s with | [] => none | x :: r => some (x, r)
def pInt : P Int := do let t ← tok; match t.toInt? with | some n => pure n | none => failure
def pNat : P Nat := do let t ← tok; match t.toNat? with | some n => pure n | none => failure
def pBool : P Bool := do let t ← tok; match parseBool t with | some b => pure b | none => failure
def pHex : P Bytes := do let t ← tok; match hexDecode t with | some b => pure b | none => failure
def pEnd : P Unit := fun s => match s with | [] => some ((), []) | _ => none
def pRange : P DayRange := do let s ← pInt; let e ← pInt; pure ⟨s, e⟩
def pWeek {α} (p : P α) : P (Week α) := do
  let a0 ← p; let a1 ← p; let a2 ← p; let a3 ← p; let a4 ← p; let a5 ← p; let a6 ← p
  pure ⟨a0, a1, a2, a3, a4, a5, a6⟩
def pOptRange : P (Option DayRange) := do
  let present ← pBool; let r ← pRange
  pure (if present then some r else none)

def runP {α} (p : P α) (fs : List String) : Option α := (do let x ← p; pEnd; pure x : P α).run' fs

def showB (b : Bool) : String := if b then "1" else "0"
def tabs (xs : List String) : String := "\t".intercalate xs

def vErrName : VErr → String
  | .startNeg => "startNeg" | .endNeg => "endNeg" | .startGeEnd => "startGeEnd"
  | .startGeMax => "startGeMax" | .endGtMax => "endGtMax"
  | .startNotMinutes => "startNotMinutes" | .endNotMinutes => "endNotMinutes"

def showDays (d : Week DayRange) : List String :=
  d.toList.flatMap (fun r => [toString r.start, toString r.stop])

/-! C18.contains / C18.applied -/

structure ContainsIn where
  t : Instant
  off : Int
  w : Weekly

def pContainsIn : P ContainsIn := do
  let zone ← pHex; let sec ← pInt; let nsec ← pNat; let off ← pInt
  let days ← pWeek pRange
  pure ⟨⟨sec, nsec⟩, off, ⟨zone, days⟩⟩

def stepContains (ins impl : List String) : Option String := do
  let c ← runP pContainsIn ins
  let off : Int → Int := fun _ => c.off
  let abs := absSec c.off c.t
  let (h, m, s) := clockOf abs
  let mc := contains off c.w c.t
  let model := tabs [showB mc, toString (weekdayOf abs), toString h, toString m, toString s, toString c.off, showB mc]
  -- the property demands an answer at every instant: a panic is a failure
  if impl.head? == some "PANIC" then pure (verdict false (some "C18.contains-panic") model) else
  let spec ← match impl with
    | [b, _, _, _, _, _, bc] => do
      let ib ← parseBool b
      let ic ← parseBool bc
      pure (if !specContainsOK off c.w c.t ib then some "C18.contains-wallclock"
        else if !specContainsOK off c.w c.t ic then some "C18.clone-contains-wallclock"
        else none)
    | _ => none
  pure (verdict (model == tabs impl) spec model)

def stepCtor (ins impl : List String) : Option String := do
  let w ← match ins with
    | ["empty"] => some emptyWeekly
    | ["full"] => some fullWeekly
    | _ => none
  let model := tabs (hexEncode w.loc :: showDays w.days)
  pure (verdict (model == tabs impl) none model)

def stepApplied (ins impl : List String) : Option String := do
  let c ← match ins with
    | site :: rest => if site == "global" || site == "client" then runP pContainsIn rest else none
    | [] => none
  let off : Int → Int := fun _ => c.off
  let ma := servicesApplied off c.w c.t
  let model := tabs [showB ma, toString c.off]
  if impl.head? == some "PANIC" then pure (verdict false (some "C18.applied-panic") model) else
  let spec ← match impl with
    | b :: _ => (parseBool b).map (fun ib =>
        if specAppliedOK off c.w c.t ib then none else some "C18.applied-wallclock")
    | [] => none
  pure (verdict (model == tabs impl) spec model)

/-! C18.validate -/

def stepValidate (ins impl : List String) : Option String := do
  let r ← runP pRange ins
  let model := match validate r with
    | .ok () => "ok"
    | .error e => tabs ["err", vErrName e]
  let acc ← match impl with
    | ["ok"] => some true
    | "err" :: _ => some false
    | _ => none
  let spec := if specValidateOK r acc then none else
    some (if acc then "C18.validate-accepts-forbidden" else "C18.validate-rejects-allowed")
  pure (verdict (model == tabs impl) spec model)

/-! C18.json / C18.yaml -/

structure DecodeIn where
  parseOK : Bool
  tzOK : Bool
  c : Conf
  toks : Option (Week (Option DayToks))     -- the duration tokens, when the generator knows them

def pTok : P (Option Bytes) := do
  let t ← tok
  if t == "~" then pure none else match hexDecode t with | some b => pure (some b) | none => failure

def pDayToks : P (Option DayToks) := do
  let kind ← pBool; let a ← pTok; let b ← pTok
  pure (if kind then some ⟨a, b⟩ else none)

def pDecodeIn : P DecodeIn := do
  let _text ← pHex; let parseOK ← pBool; let tz ← pHex; let tzOK ← pBool
  let days ← pWeek pOptRange
  let rest ← get
  match rest with
  | [] => pure ⟨parseOK, tzOK, ⟨tz, days⟩, none⟩
  | _ =>
    let tokOK ← pBool
    let toks ← pWeek pDayToks
    pure ⟨parseOK, tzOK, ⟨tz, days⟩, if tokOK then some toks else none⟩

/-- impl observation → `DecodeObs` -/
def parseDecodeObs (impl : List String) : Option DecodeObs :=
  match impl with
  | "err" :: _ => some .rejected
  | "ok" :: rest => runP (do
      let loc ← pHex; let days ← pWeek pRange; let _m ← pHex; let rt ← pBool
      pure (DecodeObs.accepted loc days rt)) rest
  | _ => none

/-- How far the decoded value is from what was written. -/
def inexactClass (neg : Bool) (num den : Nat) (decoded : Int) : String :=
  let ex : Int := if neg then -(num : Int) else (num : Int)
  let diff := (decoded * (den : Int) - ex).natAbs
  if diff < den then "sub-ns" else if diff < 2 * den then "1ns" else "coarse"

/-- Reason class for an accepted document with a day the exact-value monitor refuses. -/
def acceptedReason (val : Bytes → TokVal) (toks : Week (Option DayToks)) (days : Week DayRange) : String :=
  let field (t : Option Bytes) (decoded : Int) : Option String :=
    match fieldVal val t with
    | .notNumber => some "C18.decode-accepts-non-number"
    | .notWhole neg num den => some ("C18.decode-inexact:" ++ inexactClass neg num den decoded)
    | _ => none
  let day (p : Option DayToks × DayRange) : Option String :=
    match p.1 with
    | none => if p.2 == DayRange.zero then none else some "C18.decode-changed"
    | some dt =>
      match field dt.start p.2.start, field dt.stop p.2.stop with
      | some r, _ => some r
      | _, some r => some r
      | none, none =>
        match dayVal val p.1 with
        | .range r => if p.2 != r then some "C18.decode-changed"
                      else if mustReject r then some "C18.decode-accepts-forbidden" else none
        | _ => none
  ((toks.toList.zip days.toList).filterMap day).head?.getD "C18.decode-changed"

def stepDecode (yaml : Bool) (coarseErr : Bool) (ins impl : List String) : Option String := do
  let d ← runP pDecodeIn ins
  let tzOK : Bytes → Bool := fun n => (n == d.c.tz && d.tzOK) || (n == locName d.c.tz && d.tzOK)
  -- the configuration struct: from the tokens where they are known (the duration unmarshallers are
  -- modelled), from the library oracle otherwise
  let tc : TokConf := match d.toks with
    | some toks => confOfToks (if yaml then yamlTokNs else jsonTokNs) d.c.tz toks d.c.days
    | none => .conf d.c
  let model :=
    if !d.parseOK then tabs ["err", "parse"]
    else match tc with
    | .parseError => tabs ["err", "parse"]
    | .conf c0 =>
      let c := if yaml then yamlAbsentAsZero c0 else c0
      match decodeConf tzOK c with
      | .error .tz => tabs ["err", "tz"]
      | .error (.day i e) => tabs ["err", "day", toString i, vErrName e]
      | .ok w =>
        let doc := if yaml then encodeYAML w else encodeJSON w
        let bytes := doc.bind (if yaml then renderYAML else renderJSON)
        let rt := roundTripSame yaml tzOK w
        tabs (["ok", hexEncode w.loc] ++ showDays w.days ++
          [match bytes with | some b => hexEncode b | none => "unrenderable", showB rt])
  -- through the HTTP handler only the status code of a rejection is visible
  let model := if coarseErr && model.startsWith "err" then "err\t400" else model
  let obs ← parseDecodeObs impl
  let val := if yaml then yamlTokVal else jsonTokVal
  let spec :=
    -- exact-value monitor first (it is the stricter one)
    match d.toks with
    | some toks =>
      if specDecodeTokOK val d.parseOK d.tzOK d.c.tz toks obs then none else
        some (match obs with
          | .rejected => "C18.decode-rejects-allowed"
          | .accepted _ days same =>
            if !(d.parseOK && d.tzOK) then "C18.decode-accepts-unparsable"
            else if !(Week.zipAll (dayAcceptedOK val) toks days) then acceptedReason val toks days
            else if !same then "C18.roundtrip-changed" else "C18.decode-changed")
    | none => none
  let spec := match spec with
    | some r => some r
    | none =>
      -- the monitor against the library's parse (not shipped with handler cases)
      if coarseErr || specDecodeOK d.parseOK d.tzOK d.c obs then none else
      some (match obs with
        | .rejected => "C18.decode-rejects-allowed"
        | .accepted _ days same =>
          if !same then "C18.roundtrip-changed"
          else if !(days.toList.all (fun r => !mustReject r)) then "C18.decode-accepts-forbidden"
          else "C18.decode-changed")
  pure (verdict (model == tabs impl) spec model)

/-! token level -/

def stepDur (dec : Bytes → Option (Option Int)) (ins impl : List String) : Option String := do
  let t ← runP pHex ins
  match dec t with
  | none => pure (verdict true none "unmodelled")
  | some r =>
    let model := match r with | some ns => tabs ["ok", toString ns] | none => "err"
    pure (verdict (model == tabs impl) none model)

def stepDurEnc (enc : Int → Option Bytes) (ins impl : List String) : Option String := do
  let ns ← runP pInt ins
  match enc ns with
  | none => pure (verdict true none "unmodelled")
  | some b =>
    let model := tabs ["enc", hexEncode b]
    pure (verdict (model == tabs impl) none model)

/-- `JSONDuration.UnmarshalJSON` on a raw token: `some (some ns)`, `some none` = error, `none` = not modelled.
A token that is no JSON number is an error when it is another JSON value; anything else
(`+5`, `0x10`, `Inf`, … — never produced by the JSON scanner) is left alone. -/
def jsonDurDec' (t : Bytes) : Option (Option Int) :=
  match jsonDurDecodeF t with
  | .ok ns => some (some ns)
  | .err => some none
  | .unmodelled => none
  | .notNumber =>
    match t with
    | 34 :: _ => some none | 123 :: _ => some none | 91 :: _ => some none
    | _ => if t == Bytes.ofString "null" || t == Bytes.ofString "true" || t == Bytes.ofString "false" then some none
           else none

def yamlDurDec' (t : Bytes) : Option (Option Int) :=
  match parseDurF t with
  | .ok ns _ _ _ => some (some ns) | .err => some none | .unmodelled => none | .fuel => none

/-- The integer-only models of `Model/Schedule.lean` (the ones the round-trip theorems are about)
must agree with the float-exact ones wherever they answer. -/
def oldNewAgree (yaml : Bool) (t : Bytes) : Bool :=
  if yaml then
    match parseDur t, parseDurF t with
    | .ok a, .ok b _ _ _ => a == b
    | .err, .err => true
    | .unmodelled, _ => true
    | _, _ => false
  else
    match jsonDurDecode t, jsonDurDecodeF t with
    | some a, .ok b => a == b
    | none, _ => true
    | _, _ => false

/-- Token-level monitor: a token that denotes a whole number of minutes decodes to exactly that. -/
def stepDurF (yaml : Bool) (ins impl : List String) : Option String := do
  let t ← runP pHex ins
  if !oldNewAgree yaml t then none else
  match (if yaml then yamlDurDec' t else jsonDurDec' t) with
  | none => pure (verdict true none "unmodelled")
  | some r =>
    let model := match r with | some ns => tabs ["ok", toString ns] | none => "err"
    let spec := match (if yaml then yamlTokVal t else jsonTokVal t), impl with
      | .whole w, ["ok", x] => if x.toInt? == some w then none else some "C18.token-decode-inexact"
      | .whole _, _ => some "C18.token-rejects-whole-minutes"
      | _, _ => none
    pure (verdict (model == tabs impl) spec model)

/-! sequences on one long-lived filter (blocks starting with C18.sreset) -/

/-- Driver state: the model state of the current block (`none` before the first reset). -/
abbrev St := Option ReqState

def pSvcConf : P SvcConf := do
  let zone ← pHex; let days ← pWeek pRange; let n ← pNat
  pure ⟨⟨zone, days⟩, n⟩

def stepSeq (st : St) (op : String) (ins impl : List String) : Option (St × String) :=
  match op with
  | "C18.sreset" =>
    match ins with
    | [] => some (some ReqState.init, verdict (impl == ["ok"]) none "ok")
    | _ => none
  | "C18.supd" => do
    let s ← st
    let g ← runP pSvcConf ins
    -- the harness only sends valid schedules and known service IDs: the handler answers 200
    pure (some (s.step (.update g)), verdict (impl == ["200"]) none "200")
  | "C18.sload" => do
    -- start-up: the file decoded over the default configuration; afterwards the global configuration is `g`
    let s ← st
    let g ← runP pSvcConf ins
    pure (some (s.step (.update g)), verdict (impl == ["ok"]) none "ok")
  | "C18.supdnos" => do
    -- an update without a schedule installs EmptyWeekly()
    let s ← st
    let n ← runP pNat ins
    pure (some (s.step (.update ⟨emptyWeekly, n⟩)), verdict (impl == ["200"]) none "200")
  | "C18.sget" => do
    -- GET /control/blocked_services/get reads back exactly what is stored (zone by its loaded name,
    -- every day range, the number of IDs) — also while no service is blocked
    let s ← st
    if ins != [] then failure
    let d := s.global.sched.days
    let rs := [d.sun, d.mon, d.tue, d.wed, d.thu, d.fri, d.sat]
    let model := tabs (["200", hexEncode (locName s.global.sched.loc)] ++
      rs.flatMap (fun r => [toString r.start, toString r.stop]) ++ [toString s.global.nIDs])
    let spec := if model == tabs impl then none else some "C18.stored-schedule-not-read-back"
    pure (st, verdict (model == tabs impl) spec model)
  | "C18.sset" => do
    let s ← st
    let n ← runP pNat ins
    pure (some (s.step (.setIDs n)), verdict (impl == ["200"]) none "200")
  | "C18.scli" => do
    let s ← st
    let c ← runP (do
      let has ← pNat; let c ← pSvcConf
      -- 0: no own services; 1: own schedule; 2: own services, no schedule of its own = EmptyWeekly()
      if has > 2 then failure
      pure (if has == 0 then none else if has == 2 then some ⟨emptyWeekly, c.nIDs⟩ else some c)) ins
    pure (some (s.step (.client c)), verdict (impl == ["ok"]) none "ok")
  | "C18.sreq" => do
    let s ← st
    let (clientSite, now, offG, offC) ← runP (do
      let site ← tok
      let cs ← (if site == "client" then pure true else if site == "global" then pure false else failure)
      let sec ← pInt; let nsec ← pNat; let og ← pInt; let oc ← pInt
      pure (cs, (⟨sec, nsec⟩ : Instant), og, oc)) ins
    let fG : Int → Int := fun _ => offG
    let fC : Int → Int := fun _ => offC
    let m := requestApplied fG fC s clientSite now
    let model := tabs [toString now.sec, toString now.nsec, toString offG, toString offC, toString m.1, toString m.2]
    if impl.head? == some "PANIC" then pure (st, verdict false (some "C18.request-panic") model) else
    match impl with
    | [isec, insec, iog, ioc, ng, nc] =>
      -- the oracle offsets belong to this instant and these zones only: if the implementation's clock or
      -- zones differ (a shrunk or hand-edited block), there is nothing to judge
      let synced := isec == toString now.sec && insec == toString now.nsec && iog == toString offG && ioc == toString offC
      match ng.toNat?, nc.toNat? with
      | some g, some c =>
        let spec := if !synced || specRequestOK fG fC s clientSite now (g, c) then none
          else some "C18.request-not-decided-at-its-instant"
        pure (st, verdict (model == tabs impl) spec model)
      | _, _ => none
    | _ => none
  | _ => none

/-! aliasing blocks (C18.areset …): several schedule values, decode INTO a pre-filled target -/

def pWeekly : P Weekly := do
  let loc ← pHex; let days ← pWeek pRange
  pure ⟨loc, days⟩

def pMany {α} : Nat → P α → P (List α)
  | 0, _ => pure []
  | k + 1, p => do let x ← p; let xs ← pMany k p; pure (x :: xs)

/-- `E` 14 ints, probe bits, json, yaml; `S` n, n × (loc, 14 ints) -/
def pAliasObs : P AliasObs := do
  let e ← tok
  if e != "E" then failure
  let days ← pWeek pRange
  let probes ← tok
  let _j ← pHex; let _y ← pHex
  let sTag ← tok
  if sTag != "S" then failure
  let n ← pNat
  let slots ← pMany n pWeekly
  pure ⟨days, probes.toList.map (· == '1'), slots⟩

def showAliasObs (nProbes : Nat) (slots : List Weekly) : List String :=
  let e := emptyWeekly
  ["E"] ++ showDays e.days ++ [String.ofList (List.replicate nProbes '0'),
    (match (encodeJSON e).bind renderJSON with | some b => hexEncode b | none => "unrenderable"),
    (match (encodeYAML e).bind renderYAML with | some b => hexEncode b | none => "unrenderable"),
    "S", toString slots.length] ++ slots.flatMap (fun w => hexEncode w.loc :: showDays w.days)

def stepAlias (slots : List Weekly) (op : String) (ins impl : List String) : Option (List Weekly × String) := do
  -- the operation and (for decodes) the model's result
  let (aop, resStr, implObs) ← (match op with
    | "C18.anew" =>
      (match ins with
       | ["empty"] => some (AliasOp.newEmpty, ([] : List String), impl)
       | ["full"] => some (AliasOp.newFull, [], impl)
       | ["clone", k] => k.toNat?.map (fun k => (AliasOp.clone k, [], impl))
       | _ => none)
    | "C18.adec" =>
      (match ins with
       | slot :: fmt :: rest => do
         let i ← slot.toNat?
         let yaml ← (if fmt == "yaml" then some true else if fmt == "json" then some false else none)
         let d ← runP pDecodeIn rest
         let tzOK : Bytes → Bool := fun n => (n == d.c.tz && d.tzOK) || (n == locName d.c.tz && d.tzOK)
         let res : Except DErr Weekly :=
           if !d.parseOK then .error .tz      -- any error: the slot keeps its value
           else decodeConf tzOK (if yaml then yamlAbsentAsZero d.c else d.c)
         let rs := match res with | .ok _ => "ok" | .error _ => "err"
         match impl with
         | r :: obs => if r == "ok" || r == "err" then some (AliasOp.decodeInto i res, [rs], obs) else none
         | [] => none
       | _ => none)
    | _ => none)
  let slots' := aliasStep slots aop
  let obs ← runP pAliasObs implObs
  let model := tabs (resStr ++ showAliasObs obs.emptyProbes.length slots')
  let spec := (specAlias slots aop.target obs).map (fun r => r)
  pure (slots', verdict (model == tabs impl) spec model)

structure DSt where
  req : St := none
  alias : Option (List Weekly) := none

def step (st : DSt) (line : String) : DSt × String :=
  let fs := splitTab line
  match fs with
  | op :: rest =>
    match splitArrow rest with
    | some (ins, impl) =>
      if op == "C18.areset" then
        -- "polluted": an earlier block (which reported it) left package-level state behind; this block is skipped
        if impl == ["polluted"] then ({ st with alias := none }, verdict true none "polluted") else
        ({ st with alias := some [] }, if ins.isEmpty then verdict (impl == ["ok"]) none "ok" else "bad-op")
      else if op == "C18.anew" || op == "C18.adec" then
        if impl.head? == some "PANIC" then (st, verdict false (some "C18.alias-panic") "-") else
        if impl == ["skipped"] && st.alias.isNone then (st, verdict true none "skipped") else
        match st.alias.bind (fun sl => stepAlias sl op ins impl) with
        | some (sl', out) => ({ st with alias := some sl' }, out)
        | none => (st, "bad-op")
      else if op.startsWith "C18.s" then
        if op == "C18.sreset" && impl == ["polluted"] then ({ st with req := none }, verdict true none "polluted") else
        if impl == ["skipped"] && st.req.isNone then (st, verdict true none "skipped") else
        match stepSeq st.req op ins impl with
        | some (r', out) => ({ st with req := r' }, out)
        | none => (st, "bad-op")
      else
      let r := match op with
        | "C18.contains" => stepContains ins impl
        | "C18.applied" => stepApplied ins impl
        | "C18.ctor" => stepCtor ins impl
        | "C18.validate" => stepValidate ins impl
        | "C18.json" => stepDecode false false ins impl
        | "C18.yaml" => stepDecode true false ins impl
        | "C18.httpjson" => stepDecode false true ins impl
        | "C18.jsondur" => stepDurF false ins impl
        | "C18.yamldur" => stepDurF true ins impl
        | "C18.jsondurenc" => stepDurEnc jsonDurEncode ins impl
        | "C18.yamldurenc" => stepDurEnc yamlDurEncode ins impl
        | _ => none
      (st, r.getD "bad-op")
    | none => (st, "bad-op")
  | [] => (st, "bad-op")

def main : IO Unit := run step {}
