import Driver.Proto
import AGH.Spec.Clients
open Driver AGH AGH.C04
open AGH.C03 (IP Prefix)

/-
Block = one `C04.reset` line (the probe universe) followed by operations.

  C04.reset  n (tag f1 … f7)*n                      => ok
     tag n: f1=name            tag c: f1=clientid       tag i: f1..f3 = ipkind addr zone
     tag m: f1=mac             tag a: f1=clientid f2..f4 = ip
     tag f: f1=raw f2=hasIP f3..f5=ip f6=hasMAC f7=mac           (unused fields "-")
  C04.add     <client>                               => <res> <seen>*n R <uid:ver,…>
  C04.update  name <client>                          => …
  C04.remove  name                                   => …
  C04.dhcpset ipkind addr zone mac                   => …
  C04.dhcpdel ipkind addr zone                       => …
  <client> = uid ver name nIP (ipkind addr zone)* nSub (is6 addr bits)* nMAC mac* nCID cid*
             invalidConf useOwn filt ssearch sbrowse parental useOwnSvc svc ssobj tags
  C04.addS / C04.updateS name : the same with the identifiers as STRINGS, through SetIDs:
     uid ver name nID (raw hasIP ipkind addr zone hasPfx is6 addr bits hasMAC mac)*nID  <8 flags/values as above>
  <res>  = ok | err <kind> | panic
  <seen> = - | uid:ver | D | P | S:name:tags:svc:f:ss:ssobj:sb:p:prot:untouched
-/

def beNat (bs : List Nat) : Nat := bs.foldl (fun acc b => acc * 256 + b) 0

def parseIP (kind addr zone : String) : Option IP := do
  let a := beNat (← hexDecode addr)
  let zone ← hexDecode zone
  match kind with
  | "0" => pure .invalid
  | "4" => pure (.v4 a)
  | "6" => pure (.v6 a zone)
  | _ => none

def takeIPs : Nat → List String → Option (List IP × List String)
  | 0, rest => some ([], rest)
  | n + 1, k :: a :: z :: rest => do
    let ip ← parseIP k a z
    let (ips, rest') ← takeIPs n rest
    pure (ip :: ips, rest')
  | _, _ => none

def takeSubnets : Nat → List String → Option (List Prefix × List String)
  | 0, rest => some ([], rest)
  | n + 1, is6 :: a :: b :: rest => do
    let p : Prefix := ⟨← parseBool is6, beNat (← hexDecode a), ← b.toNat?⟩
    let (ps, rest') ← takeSubnets n rest
    pure (p :: ps, rest')
  | _, _ => none

def takeHex : Nat → List String → Option (List (List Nat) × List String)
  | 0, rest => some ([], rest)
  | n + 1, x :: rest => do
    let b ← hexDecode x
    let (bs, rest') ← takeHex n rest
    pure (b :: bs, rest')
  | _, _ => none

def parseClient (fs : List String) : Option (Client × List String) := do
  match fs with
  | uid :: ver :: name :: nIP :: rest =>
    let (ips, rest) ← takeIPs (← nIP.toNat?) rest
    match rest with
    | nSub :: rest =>
      let (subs, rest) ← takeSubnets (← nSub.toNat?) rest
      match rest with
      | nMAC :: rest =>
        let (macs, rest) ← takeHex (← nMAC.toNat?) rest
        match rest with
        | nCID :: rest =>
          let (cids, rest) ← takeHex (← nCID.toNat?) rest
          match rest with
          | inv :: own :: f :: ss :: sb :: par :: ownSvc :: svc :: ssobj :: tags ::
              iql :: ist :: ups :: upsEn :: sched :: ssConf :: rest =>
            let c : Client := {
              ignoreQueryLog := ← parseBool iql, ignoreStatistics := ← parseBool ist
              upstreams := ← ups.toNat?, upstreamsCacheEnabled := ← parseBool upsEn
              sched := ← sched.toNat?, ssConf := ← ssConf.toNat?
              uid := ← uid.toNat?, ver := ← ver.toNat?, name := ← hexDecode name
              ips := ips, subnets := subs, macs := macs, cids := cids
              invalidConf := ← parseBool inv, useOwnSettings := ← parseBool own
              filteringEnabled := ← parseBool f, safeSearchEnabled := ← parseBool ss
              safeBrowsingEnabled := ← parseBool sb, parentalEnabled := ← parseBool par
              useOwnBlockedServices := ← parseBool ownSvc, svc := ← svc.toNat?
              safeSearch := ← ssobj.toNat?, tags := ← tags.toNat? }
            pure (c, rest)
          | _ => none
        | [] => none
      | [] => none
    | [] => none
  | _ => none

def takeIDStrings : Nat → List String → Option (List IDString × List String)
  | 0, rest => some ([], rest)
  | n + 1, raw :: hasIP :: k :: a :: z :: hasPfx :: is6 :: pa :: bits :: hasMAC :: mac :: rest => do
    let asIP ← if (← parseBool hasIP) then (parseIP k a z).map some else pure none
    let asPfx ← if (← parseBool hasPfx) then
        (do pure (some (⟨← parseBool is6, beNat (← hexDecode pa), ← bits.toNat?⟩ : Prefix))) else pure none
    let asMAC ← if (← parseBool hasMAC) then (hexDecode mac).map some else pure none
    let id : IDString := ⟨← hexDecode raw, asIP, asPfx, asMAC⟩
    let (ids, rest') ← takeIDStrings n rest
    pure (id :: ids, rest')
  | _, _ => none

/-- A client given by identifier strings: the typed lists come from the model's `setIDs`. -/
def parseClientS (fs : List String) : Option (Except SetErr Client × List String) := do
  match fs with
  | uid :: ver :: name :: nID :: rest =>
    let (ids, rest) ← takeIDStrings (← nID.toNat?) rest
    match rest with
    | inv :: own :: f :: ss :: sb :: par :: ownSvc :: svc :: ssobj :: tags ::
        iql :: ist :: ups :: upsEn :: sched :: ssConf :: rest =>
      let c : Client := {
        ignoreQueryLog := ← parseBool iql, ignoreStatistics := ← parseBool ist
        upstreams := ← ups.toNat?, upstreamsCacheEnabled := ← parseBool upsEn
        sched := ← sched.toNat?, ssConf := ← ssConf.toNat?
        uid := ← uid.toNat?, ver := ← ver.toNat?, name := ← hexDecode name
        ips := [], subnets := [], macs := [], cids := []
        invalidConf := ← parseBool inv, useOwnSettings := ← parseBool own
        filteringEnabled := ← parseBool f, safeSearchEnabled := ← parseBool ss
        safeBrowsingEnabled := ← parseBool sb, parentalEnabled := ← parseBool par
        useOwnBlockedServices := ← parseBool ownSvc, svc := ← svc.toNat?
        safeSearch := ← ssobj.toNat?, tags := ← tags.toNat? }
      pure (setIDs c ids, rest)
    | _ => none
  | _ => none

def parseProbes : Nat → List String → Option (List Probe × List String)
  | 0, rest => some ([], rest)
  | n + 1, tag :: f1 :: f2 :: f3 :: f4 :: f5 :: f6 :: f7 :: rest => do
    let p : Probe ← match tag with
      | "n" => (hexDecode f1).map Probe.name
      | "c" => (hexDecode f1).map Probe.cid
      | "i" => (parseIP f1 f2 f3).map Probe.ip
      | "m" => (hexDecode f1).map Probe.mac
      | "a" => do pure (Probe.apply (← hexDecode f1) (← parseIP f2 f3 f4))
      | "f" => do
        let raw ← hexDecode f1
        let asIP ← if (← parseBool f2) then (parseIP f3 f4 f5).map some else pure none
        let asMAC ← if (← parseBool f6) then (hexDecode f7).map some else pure none
        pure (Probe.find ⟨raw, asIP, asMAC⟩)
      | _ => none
    let (ps, rest') ← parseProbes n rest
    pure (p :: ps, rest')
  | _, _ => none

structure State where
  /-- which `Persistent.IDs` the tree has: reported by the harness with `reset` -/
  fixEUI64 : Bool
  probes : List Probe
  model : Storage
  world : World

def showB (b : Bool) : String := if b then "1" else "0"

def showSeen : Seen → String
  | .none => "-"
  | .client u v => toString u ++ ":" ++ toString v
  | .broken => "P"
  | .setts s => ":".intercalate ["S", hexEncode s.clientName, toString s.clientTags, toString s.svc,
      showB s.filteringEnabled, showB s.safeSearchEnabled, toString s.clientSafeSearch,
      showB s.safeBrowsingEnabled, showB s.parentalEnabled, showB s.protectionEnabled, showB s.untouched]

def parseSeen (s : String) : Option Seen :=
  if s == "-" then some .none
  else if s == "P" || s == "D" then some .broken
  else match s.splitOn ":" with
    | [u, v] => do pure (.client (← u.toNat?) (← v.toNat?))
    | ["S", n, tags, svc, f, ss, sso, sb, p, prot, unt] => do
      pure (.setts { clientName := ← hexDecode n, clientTags := ← tags.toNat?, svc := ← svc.toNat?,
                     filteringEnabled := ← parseBool f, safeSearchEnabled := ← parseBool ss,
                     clientSafeSearch := ← sso.toNat?, safeBrowsingEnabled := ← parseBool sb,
                     parentalEnabled := ← parseBool p, protectionEnabled := ← parseBool prot,
                     untouched := ← parseBool unt })
    | _ => none

def lookSeen : Look → String
  | .none => "-" | .found c => toString c.uid ++ ":" ++ toString c.ver | .dangling => "D"

def gotSeen : Got → String
  | .none => "-" | .client c => toString c.uid ++ ":" ++ toString c.ver | .panic => "P"

/-- What the model shows for a probe. -/
def modelProbe (s : Storage) : Probe → String
  | .name n => gotSeen (s.findByName n)
  | .cid c => lookSeen (s.index.findByClientID c)
  | .ip a => lookSeen (s.index.findByIP a)
  | .mac m => match s.index.findByMAC m with
    | some l => lookSeen l
    | none => "P"
  | .apply cid a => match s.applyClientFiltering cid a globalSettings with
    | some st => showSeen (.setts st)
    | none => "P"
  | .find id => gotSeen (s.find id)

def errName : Err → String
  | .emptyName => "emptyName" | .noIDs => "noIDs" | .noUID => "noUID" | .invalidConf => "invalidConf"
  | .uidClash => "uidClash" | .nameClash => "nameClash" | .cidClash => "cidClash" | .ipClash => "ipClash"
  | .subnetClash => "subnetClash" | .macClash => "macClash" | .notFound => "notFound"
  | .restartFailed => "restartFailed"

def showRes : Res → List String
  | .ok => ["ok"] | .err e => ["err", errName e] | .panic => ["panic"]

def showAll (l : List (Nat × Nat)) : String :=
  if l.isEmpty then "-" else ",".intercalate (l.map fun (u, v) => toString u ++ ":" ++ toString v)

def parseAll (s : String) : Option (List (Nat × Nat)) :=
  if s == "-" then some [] else
  (s.splitOn ",").mapM fun x => match x.splitOn ":" with
    | [u, v] => do pure (← u.toNat?, ← v.toNat?)
    | _ => none

/-- Every field of every client, in listing order (compared with the
implementation only: the spec speaks through the probes). -/
def showFull (l : List Client) : String :=
  if l.isEmpty then "-" else
  ",".intercalate (l.map fun c => "/".intercalate [toString c.uid, toString c.ver,
    toString c.ips.length, toString c.subnets.length, toString c.macs.length, toString c.cids.length,
    String.join ([c.useOwnSettings, c.filteringEnabled, c.safeSearchEnabled, c.safeBrowsingEnabled,
      c.parentalEnabled, c.useOwnBlockedServices, c.ignoreQueryLog, c.ignoreStatistics,
      c.upstreamsCacheEnabled].map showB),
    toString c.svc, toString c.safeSearch, toString c.tags, toString c.upstreams, toString c.sched,
    toString c.ssConf])

inductive Line where
  | op (o : Op)
  | badIDs (e : SetErr)
  | restart (src : RuntimeSources)

def parseOp (op : String) (ins : List String) : Option Line := do
  match op, ins with
  | "C04.add", fs =>
    let (c, rest) ← parseClient fs
    if rest ≠ [] then none
    pure (.op (.add c))
  | "C04.update", name :: fs =>
    let (c, rest) ← parseClient fs
    if rest ≠ [] then none
    pure (.op (.update (← hexDecode name) c))
  | "C04.addS", fs =>
    let (c, rest) ← parseClientS fs
    if rest ≠ [] then none
    pure (match c with | .ok c => .op (.add c) | .error e => .badIDs e)
  | "C04.updateS", name :: fs =>
    let (c, rest) ← parseClientS fs
    if rest ≠ [] then none
    let name ← hexDecode name
    pure (match c with | .ok c => .op (.update name c) | .error e => .badIDs e)
  | "C04.remove", [name] => pure (.op (.remove (← hexDecode name)))
  | "C04.dhcpset", [k, a, z, mac] => pure (.op (.dhcpSet (← parseIP k a z) (← hexDecode mac)))
  | "C04.dhcpdel", [k, a, z] => pure (.op (.dhcpDel (← parseIP k a z)))
  | "C04.restart", [] => pure (.restart ⟨false, false, false, false, false⟩)
  | "C04.restart", [w, a, r, d, h] =>
    pure (.restart ⟨← parseBool w, ← parseBool a, ← parseBool r, ← parseBool d, ← parseBool h⟩)
  | _, _ => none

/-- Split the implementation's observation: result, one field per probe, "R", all clients. -/
def splitImpl (nProbes : Nat) (impl : List String) : Option (Bool × List String × String) :=
  let (res, rest) : List String × List String := match impl with
    | "ok" :: rest => (["ok"], rest)
    | "err" :: k :: rest => (["err", k], rest)
    | "panic" :: rest => (["panic"], rest)
    | _ => ([], impl)
  if res.isEmpty then none
  else
    let seen := rest.take nProbes
    match rest.drop nProbes with
    | ["R", all, "F", _] => if seen.length = nProbes then some (res == ["ok"], seen, all) else none
    | _ => none

def stepOp (st : State) (ln : Line) (impl : List String) : State × String :=
  -- a client whose identifier strings SetIDs rejects never reaches the storage;
  -- a restart must leave the registry as it was (the spec's world is not touched)
  let (m', resS, op, isRestart) : Storage × List String × Op × Bool := match ln with
    | .op op => let (m', res) := step st.model op; (m', showRes res, op, false)
    | .badIDs .empty => (st.model, ["err", "emptyID"], .remove [], false)
    | .badIDs .badClientID => (st.model, ["err", "badID"], .remove [], false)
    | .restart src => let (m', res) := st.model.restart st.fixEUI64 src; (m', showRes res, .remove [], true)
  let out := resS ++ st.probes.map (modelProbe m') ++
    ["R", showAll (m'.index.rangeByName.map fun c => (c.uid, c.ver)), "F", showFull m'.index.rangeByName]
  let agree := out == impl
  -- spec monitor on the implementation's observation
  let (w', spec) : World × Option String :=
    match splitImpl st.probes.length impl with
    | none => (st.world, some "C04.unparsable-observation")
    | some (accepted, seenS, allS) =>
      match seenS.mapM parseSeen, parseAll allS with
      | some seen, some all =>
        -- restart: whatever the implementation says, the registry the user built is
        -- still the one that must be served afterwards
        let (w', why) := specStep st.world op (accepted && !isRestart) (st.probes.zip seen) all
        let why := if isRestart && !accepted then some Why.restart else why
        (w', why.map Why.token)
      | _, _ => (st.world, some "C04.unparsable-observation")
  ({ st with model := m', world := w' }, verdict agree spec ("\t".intercalate out))

def step' (st : Option State) (line : String) : Option State × String :=
  let fs := splitTab line
  match fs with
  | "C04.reset" :: rest =>
    match splitArrow rest with
    | some (n :: ins, impl) =>
      match n.toNat?.bind (fun n => parseProbes n ins) with
      | some (probes, _runtimeSources) =>
        -- "ok" (tree as it is) or "ok fix-eui64" (repaired `IDs`)
        let fix := impl == ["ok", "fix-eui64"]
        (some ⟨fix, probes, Storage.empty, World.empty⟩,
          verdict (impl == ["ok"] || fix) none ("\t".intercalate impl))
      | _ => (none, "bad-op")
    | _ => (none, "bad-op")
  | op :: rest =>
    match st, splitArrow rest with
    | some st, some (ins, impl) =>
      match parseOp op ins with
      | some o => let (st', out) := stepOp st o impl; (some st', out)
      | none => (some st, "bad-op")
    | _, _ => (st, "bad-op")
  | [] => (st, "bad-op")

def main : IO Unit := run step' none
