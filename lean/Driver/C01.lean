import Driver.FilterIO
import AGH.Model.FilterConfig
open Driver Driver.FilterIO AGH AGH.Filter

/-- reload mode: the configuration and engines of the current block -/
structure Block where
  cs : Case
  e : Engines

/-- One case.  The model runs on Layer B engines (computed from the rule texts);
the real urlfilter verdicts shipped with the case are only a cross-check. -/
def stepQ (fs : List String) : Option String := do
  let (ins, impl) ← splitArrow fs
  let (cs, _) ← parseCase.run ins
  let e ← ruleEnginesOf cs
  let m := handle e cs.conf cs.up cs.q
  let mOut := renderOutcome m
  let shown := classOf cs.conf m ++ "\t" ++ mOut
  if impl.head? == some "PANIC" then
    pure (verdict false (some "impl-panic") shown)
  else if isHang impl then
    pure (verdict false (some "request-hangs") shown)
  else
    let (obs, _) ← outcomeP.run impl
    match engineMismatch cs e with
    | some why => pure (verdict false (C01.check (oracleEngines cs) cs.conf cs.up cs.q obs) (why ++ "\t" ++ shown))
    | none =>
      let agree := mOut == renderOutcome obs
      pure (verdict agree (C01.check e cs.conf cs.up cs.q obs) shown)

/-- `C01.rl nfill <case>`: start of a reload block -/
def stepRL (fs : List String) : Option (Block × String) := do
  let (ins, impl) ← splitArrow fs
  match ins with
  | nfill :: rest =>
    let n ← nfill.toNat?
    let (cs0, _) ← parseCase.run rest
    let cs := cs0.withFiller n
    let e ← ruleEnginesOf cs
    pure ({ cs := cs, e := e }, verdict (impl == ["started"]) none "started")
  | [] => none

/-- `C01.rq name type par reps`: every outcome observed while the engines were
being rebuilt must be the model's (the rule set is unchanged) and satisfy the spec -/
def stepRQ (b : Block) (fs : List String) : Option String := do
  let (ins, impl) ← splitArrow fs
  match ins with
  | [qn, qt, _, _] =>
    let q : Query := { name := ← hexDecode qn, qtype := ← qt.toNat? }
    let m := handle b.e b.cs.conf b.cs.up q
    let mOut := renderOutcome m
    let shown := "reload:" ++ classOf b.cs.conf m ++ "\t" ++ mOut
    if impl.head? == some "PANIC" then pure (verdict false (some "impl-panic") shown)
    else
      let (obs, _) ← outcomesP.run impl
      let agree := !obs.isEmpty && obs.all (fun o => renderOutcome o == mOut)
      let bad := obs.findSome? (fun o => C01.check b.e b.cs.conf b.cs.up q o)
      pure (verdict agree (bad.map (fun w => "during-reload:" ++ w)) shown)
  | _ => none

/-! ### configuration-sequence mode -/

open AGH.Filter.Cfg in
def renderEntries (l : List Cfg.Entry) : String :=
  if l.isEmpty then "-" else
  ",".intercalate (l.map (fun en => toString en.src ++ ":" ++ (if en.enabled then "1" else "0") ++ ":" ++ toString en.count))

def renderCfg (code : Nat) (s : Cfg.State) : String :=
  "\t".intercalate [toString code, renderEntries s.block, renderEntries s.allow,
    (if s.filtering then "1" else "0"), toString s.userRules.length]

def hexLines (fs : List String) : Option (List Bytes) := fs.mapM hexDecode

/-- one configuration op: `(status, new state)`; the observation is the HTTP
status and what GET /control/filtering/status reports afterwards -/
def cfgOp (s : Cfg.State) (op : String) (args : List String) : Option (String × Cfg.State) := do
  match op, args with
  | "C01.creset", n :: rest =>
    -- n sources, each: k lines
    let cnt ← n.toNat?
    let rec srcs : Nat → List String → Option (List (List Bytes))
      | 0, [] => some []
      | 0, _ => none
      | k + 1, m :: more => do
        let mm ← m.toNat?
        let ls ← hexLines (more.take mm)
        let restS ← srcs k (more.drop mm)
        some (ls :: restS)
      | _, [] => none
    let ss ← srcs cnt rest
    pure ("reset", { sources := ss })
  | "C01.csrc", i :: lines =>
    let idx ← i.toNat?
    let ls ← hexLines lines
    pure ("ok", { s with sources := s.sources.set idx ls })
  | "C01.cadd", [i, w] =>
    let (code, s') := Cfg.addURL s (← i.toNat?) (← parseBool w)
    pure (renderCfg code s', s')
  | "C01.cset", [i, w, j, en] =>
    let (code, s') := Cfg.setURL s (← i.toNat?) (← parseBool w) (← j.toNat?) (← parseBool en)
    pure (renderCfg code s', s')
  | "C01.cremove", [i, w] =>
    let (code, s') := Cfg.removeURL s (← i.toNat?) (← parseBool w)
    pure (renderCfg code s', s')
  | "C01.crefresh", [w] =>
    let (code, s') := Cfg.refresh s (← parseBool w)
    pure (renderCfg code s', s')
  | "C01.crules", lines =>
    let ls ← hexLines lines
    let s' := { s with userRules := ls }
    pure (renderCfg 200 s', s')
  | "C01.cfilt", [en] =>
    let s' := { s with filtering := ← parseBool en }
    pure (renderCfg 200 s', s')
  | "C01.cprot", [en] =>
    let s' := { s with protection := ← parseBool en }
    pure (renderCfg 200 s', s')
  | _, _ => none

/-- the scripted upstream of the configuration-sequence mode: one TXT record "up" -/
def cfgUpstream (q : Query) : Upstream :=
  { rcode := 0, answer := [{ name := q.name, ttl := 60, data := .other 16 [117, 112] }] }

/-- `C01.cq name type`: a query under the configured state -/
def cfgQuery (s : Cfg.State) (fs : List String) : Option String := do
  let (ins, impl) ← splitArrow fs
  match ins with
  | [qn, qt] =>
    let q : Query := { name := ← hexDecode qn, qtype := ← qt.toNat? }
    let block ← parseLines s.blockLines
    let allow ← parseLines s.allowLines
    let e := ruleEngines block allow
    let c := s.conf
    let u := cfgUpstream q
    let m := handle e c u q
    let mOut := renderOutcome m
    let shown := "config:" ++ classOf c m ++ "\t" ++ mOut
    if impl.head? == some "PANIC" then pure (verdict false (some "impl-panic") shown)
    else if isHang impl then pure (verdict false (some "request-hangs") shown)
    else
      let (obs, _) ← outcomeP.run impl
      pure (verdict (mOut == renderOutcome obs) ((C01.check e c u q obs).map (fun w => "config-seq:" ++ w)) shown)
  | _ => none

structure St where
  block : Option Block := none
  cfg : Option Cfg.State := none

def step (st : St) (line : String) : St × String :=
  match splitTab line with
  | "C01.q" :: rest => (st, (stepQ rest).getD "bad-op")
  | "C01.rl" :: rest =>
    match stepRL rest with
    | some (b, out) => ({ st with block := some b }, out)
    | none => ({ st with block := none }, "bad-op")
  | "C01.rq" :: rest =>
    match st.block with
    | some b => (st, (stepRQ b rest).getD "bad-op")
    | none => (st, "bad-op")
  | "C01.cq" :: rest =>
    match st.cfg with
    | some s => (st, (cfgQuery s rest).getD "bad-op")
    | none => (st, "bad-op")
  | op :: rest =>
    if op.startsWith "C01.c" then
      match splitArrow rest with
      | some (ins, impl) =>
        let s0 : Cfg.State := st.cfg.getD { sources := [] }
        match cfgOp s0 op ins with
        | some (expect, s') =>
          ({ st with cfg := some s' }, verdict (expect == "\t".intercalate impl) none ("config:" ++ expect))
        | none => (st, "bad-op")
      | none => (st, "bad-op")
    else (st, "bad-op")
  | [] => (st, "bad-op")

def main : IO Unit := run step {}
