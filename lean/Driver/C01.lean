import Driver.FilterIO
open Driver Driver.FilterIO AGH AGH.Filter

/-- reload mode: the configuration and engines of the current block -/
structure Block where
  cs : Case
  e : Engines

/-- One case.  The model runs on Layer B engines (computed from the rule texts);
the real urlfilter verdicts shipped with the case are only a cross-check. -/
def stepQ (fs : List String) : Option String := do
  let (ins, impl) ← splitArrow fs
  let (cs, _) ← parseCase.run ins
  let e ← ruleEnginesOf cs
  let m := handle e cs.conf cs.up cs.q
  let mOut := renderOutcome m
  let shown := classOfQ cs.conf cs.q m ++ "\t" ++ mOut
  if impl.head? == some "PANIC" then
    pure (verdict false (some "impl-panic") shown)
  else if isHang impl then
    pure (verdict false (some "request-hangs") shown)
  else
    let (obs, _) ← outcomeP.run impl
    match engineMismatch cs e with
    | some why => pure (verdict false (C01.check (oracleEngines cs) cs.conf cs.up cs.q obs) (why ++ "\t" ++ shown))
    | none =>
      let agree := mOut == renderOutcome obs
      pure (verdict agree (C01.check e cs.conf cs.up cs.q obs) shown)

/-- `C01.rl nfill <case>`: start of a reload block -/
def stepRL (fs : List String) : Option (Block × String) := do
  let (ins, impl) ← splitArrow fs
  match ins with
  | nfill :: rest =>
    let n ← nfill.toNat?
    let (cs0, _) ← parseCase.run rest
    let cs := cs0.withFiller n
    let e ← ruleEnginesOf cs
    pure ({ cs := cs, e := e }, verdict (impl == ["started"]) none "started")
  | [] => none

/-- `C01.rq name type par reps`: every outcome observed while the engines were
being rebuilt must be the model's (the rule set is unchanged) and satisfy the spec -/
def stepRQ (b : Block) (fs : List String) : Option String := do
  let (ins, impl) ← splitArrow fs
  match ins with
  | [qn, qt, _, _] =>
    let q : Query := { name := ← hexDecode qn, qtype := ← qt.toNat? }
    let m := handle b.e b.cs.conf b.cs.up q
    let mOut := renderOutcome m
    let shown := "reload:" ++ classOfQ b.cs.conf q m ++ "\t" ++ mOut
    if impl.head? == some "PANIC" then pure (verdict false (some "impl-panic") shown)
    else
      let (obs, _) ← outcomesP.run impl
      let agree := !obs.isEmpty && obs.all (fun o => renderOutcome o == mOut)
      let bad := obs.findSome? (fun o => C01.check b.e b.cs.conf b.cs.up q o)
      pure (verdict agree (bad.map (fun w => "during-reload:" ++ w)) shown)
  | _ => none

structure St where
  block : Option Block := none
  cfg : Option Cfg.State := none

def step (st : St) (line : String) : St × String :=
  match splitTab line with
  | "C01.q" :: rest => (st, (stepQ rest).getD "bad-op")
  | "C01.rl" :: rest =>
    match stepRL rest with
    | some (b, out) => ({ st with block := some b }, out)
    | none => ({ st with block := none }, "bad-op")
  | "C01.rq" :: rest =>
    match st.block with
    | some b => (st, (stepRQ b rest).getD "bad-op")
    | none => (st, "bad-op")
  | op :: rest =>
    if op.startsWith "C01.c" then
      let (cfg', out) := cfgStep C01.check st.cfg (op.drop 4).toString rest
      ({ st with cfg := cfg' }, out)
    else (st, "bad-op")
  | [] => (st, "bad-op")

def main : IO Unit := run step {}
