import Driver.FilterIO
open Driver Driver.FilterIO AGH AGH.Filter

/-- One case.  The model runs on Layer B engines (computed from the rule texts);
the real urlfilter verdicts shipped with the case are only a cross-check. -/
def stepQ (fs : List String) : Option String := do
  let (ins, impl) ← splitArrow fs
  let (cs, _) ← parseCase.run ins
  let e ← ruleEnginesOf cs
  let m := handle e cs.conf cs.up cs.q
  let mOut := renderOutcome m
  let shown := classOf cs.conf m ++ "\t" ++ mOut
  if impl.head? == some "PANIC" then
    pure (verdict false (some "impl-panic") shown)
  else
    let (obs, _) ← outcomeP.run impl
    match engineMismatch cs e with
    | some why => pure (verdict false (C01.check (oracleEngines cs) cs.conf cs.up cs.q obs) (why ++ "\t" ++ shown))
    | none =>
      let agree := mOut == renderOutcome obs
      pure (verdict agree (C01.check e cs.conf cs.up cs.q obs) shown)

def step (_ : Unit) (line : String) : Unit × String :=
  match splitTab line with
  | "C01.q" :: rest => ((), (stepQ rest).getD "bad-op")
  | _ => ((), "bad-op")

def main : IO Unit := run step ()
