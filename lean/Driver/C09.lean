import Driver.Proto
import AGH.Spec.Stats
open Driver AGH.C09

/-! Line-protocol driver for C09 (statistics).  Stateful: a block starts with
`C09.reset`.  `C09.conc` lines are self-contained. -/

structure DState where
  st : Option (State × Ghost) := none

def joinWith (sep : String) (l : List String) : String := sep.intercalate l

def showCounters (n : Nat → Nat) : String :=
  joinWith "," ((List.range 6).map fun i => toString (n i))

def showDB (db : DB) : String :=
  if db.isEmpty then "empty" else
  joinWith ";" (db.map fun (k, v) => toString k ++ ":" ++ toString v.nTotal ++ ":" ++ showCounters v.nResult)

/-- `len|i:v,i:v,…` (non-zero slots only). -/
def showSeries (l : List Nat) : String :=
  let rec go : List Nat → Nat → List String → List String
    | [], _, acc => acc.reverse
    | x :: xs, i, acc => go xs (i + 1) (if x = 0 then acc else (toString i ++ ":" ++ toString x) :: acc)
  toString l.length ++ "|" ++ joinWith "," (go l 0 [])

def setAt : List Nat → Nat → Nat → List Nat
  | [], _, _ => []
  | _ :: rest, 0, x => x :: rest
  | a :: rest, i + 1, x => a :: setAt rest i x

def parseSeries (s : String) : Option (List Nat) := do
  match s.splitOn "|" with
  | [ls, body] =>
    let len ← ls.toNat?
    if len > 100000 then none else
    let items := if body.isEmpty then [] else body.splitOn ","
    items.foldlM (fun acc it => do
      match it.splitOn ":" with
      | [i, v] =>
        let i ← i.toNat?
        let v ← v.toNat?
        if i < len then pure (setAt acc i v) else none
      | _ => none) (List.replicate len 0)
  | _ => none

def showRead : Except Fault Resp → List String
  | .error _ => ["panic"]
  | .ok r => ["ok", if r.days then "d" else "h",
      showSeries r.dnsQueries, showSeries r.blockedFiltering,
      showSeries r.replacedSafebrowsing, showSeries r.replacedParental,
      toString r.numDNSQueries, toString r.numBlockedFiltering, toString r.numReplacedSafebrowsing,
      toString r.numReplacedSafesearch, toString r.numReplacedParental]

/-- What the implementation said its read was; `none` = unparsable. -/
def parseRead : List String → Option (Except Fault Resp)
  | ["panic"] => some (.error .indexOutOfRange)
  | ["e500"] => some (.error .unitsLen)
  | ["ok", u, q, b, sb, p, nq, nb, nsb, nss, np] => do
    let days ← (if u == "d" then some true else if u == "h" then some false else none)
    pure (.ok { days := days, dnsQueries := ← parseSeries q, blockedFiltering := ← parseSeries b
                replacedSafebrowsing := ← parseSeries sb, replacedParental := ← parseSeries p
                numDNSQueries := ← nq.toNat?, numBlockedFiltering := ← nb.toNat?
                numReplacedSafebrowsing := ← nsb.toNat?, numReplacedSafesearch := ← nss.toNat?
                numReplacedParental := ← np.toNat? })
  | _ => none

def showState (s : State) (withDB : Bool) (panics : Nat) : List String :=
  ["p" ++ toString panics, if s.enabled then "1" else "0", toString s.limit, toString s.curr.id,
   toString s.curr.nTotal, showCounters s.curr.nResult, if withDB then showDB s.db else "-"]

def nz (r : Except Fault Resp) : String :=
  match r with
  | .ok r => if r.numDNSQueries > 0 then "1" else "0"
  | .error _ => "x"

/-- Build the answer for one op, given the new model state and ghost. -/
def answer (cls : String) (s : State) (g : Ghost) (withDB : Bool) (panics : Nat) (impl : List String) : Option String := do
  let rd := getData s
  let modelObs := showState s withDB panics ++ showRead rd
  -- the implementation's read is the tail after the 7 state fields
  let implRead ← parseRead (impl.drop 7)
  let agree := modelObs == impl
  let spec := if specOK g implRead then none else some ("C09." ++ specWhy g implRead)
  let head := cls ++ ":" ++ (if g.dom then "1" else "0") ++ ":" ++ nz rd
  -- the model observation is printed in full only when it is news (it equals
  -- the implementation's fields on the same line otherwise)
  let shown := if agree && spec.isNone then [head, "=impl"] else head :: modelObs
  pure (verdict agree spec (joinWith "\t" shown))

def parseU32 (s : String) : Option Nat := do
  let n ← s.toNat?
  if n < U32 then some n else none

def stepOp (st : State × Ghost) (op : String) (ins impl : List String) : Option ((State × Ghost) × String) := do
  let (s, g) := st
  match op, ins with
  | "C09.upd", [r, n, de, ce] =>
    let e : Entry := { result := ← r.toInt?, domainEmpty := ← parseBool de, clientEmpty := ← parseBool ce }
    let n ← n.toNat?
    let (s', p) := updateN s e n
    let g' := ghostStep g (.upd e n)
    let cls := if p > 0 then "upd.panic" else if s'.curr.nTotal > s.curr.nTotal then "upd.acc" else "upd.rej"
    pure ((s', g'), ← answer cls s' g' false p impl)
  | "C09.tick", [id] =>
    let id ← parseU32 id
    let s' := tick s id
    let g' := ghostStep g (.tick id)
    let cls := if s'.curr.id = s.curr.id then "tick.same" else "tick.roll"
    pure ((s', g'), ← answer cls s' g' true 0 impl)
  | "C09.restart", [id, l, en] =>
    let id ← parseU32 id
    let l ← l.toNat?
    let en ← parseBool en
    let s' ← restart s id l en
    let g' := ghostStep g (.restart id l en)
    let cls := if id = s.curr.id then "restart.same" else "restart.later"
    pure ((s', g'), ← answer cls s' g' true 0 impl)
  | "C09.setdays", [d] =>
    let d ← d.toNat?
    let s' := setLimitDays s d
    let g' := ghostStep g (.setDays d)
    let cls := if !checkInterval d then "setdays.bad" else if d = 0 then "setdays.off" else "setdays.set"
    pure ((s', g'), ← answer cls s' g' true 0 impl)
  | "C09.putconf", [ms, en] =>
    let ms ← ms.toNat?
    let en ← parseBool en
    let s' := putConf s ms en
    let g' := ghostStep g (.putConf ms en)
    let cls := if validIvl ms then "putconf.ok" else "putconf.bad"
    pure ((s', g'), ← answer cls s' g' false 0 impl)
  | "C09.clear", [] =>
    let s' := clear s
    let g' := ghostStep g .clear
    pure ((s', g'), ← answer "clear" s' g' true 0 impl)
  | "C09.read", [] =>
    pure ((s, g), ← answer "read" s g false 0 impl)
  | _, _ => none

/-- `C09.conc clock limitMs writers per ticks`: `writers` goroutines each do
`per` Updates (writer `i` uses category `i % 5 + 1`) while the clock is ticked
`ticks` times and readers read.  Whatever the interleaving, the model's final
totals are those of any sequential order as long as `ticks < limit` hours. -/
def stepConc (ins impl : List String) : Option String := do
  match ins with
  | [clock, l, w, per, ticks] =>
    let clock ← parseU32 clock
    let l ← l.toNat?
    let w ← w.toNat?
    let per ← per.toNat?
    let ticks ← ticks.toNat?
    let s0 ← new [] clock l true
    let g0 := Ghost.init clock l true
    let ops : List Op :=
      (List.range w).map (fun i => Op.upd ⟨(i % 5 + 1 : Nat), false, false⟩ per) ++
      (List.range ticks).map (fun k => Op.tick (clock + 1 + k))
    let s ← runOps s0 ops
    let g := ghostRun g0 ops
    let rd := getData s
    let tot : List String := match rd with
      | .ok r => [toString r.numDNSQueries, toString r.numBlockedFiltering, toString r.numReplacedSafebrowsing,
                  toString r.numReplacedSafesearch, toString r.numReplacedParental]
      | .error _ => ["panic"]
    -- impl: 5 totals, then "mono" flag (reads never decreased and never exceeded the final total)
    let modelObs := tot ++ ["1"]
    let implResp : Except Fault Resp ← (match impl with
      | [a, b, c, d, e, _] => do
        pure (.ok { days := true, dnsQueries := [], blockedFiltering := [], replacedSafebrowsing := [], replacedParental := []
                    numDNSQueries := ← a.toNat?, numBlockedFiltering := ← b.toNat?, numReplacedSafebrowsing := ← c.toNat?
                    numReplacedSafesearch := ← d.toNat?, numReplacedParental := ← e.toNat? })
      | _ => some (.error .unitsLen))
    let specTot := specOK g implResp
    let mono := impl.getLast? == some "1"
    let spec := if !specTot then some ("C09.conc-" ++ specWhy g implResp)
                else if !mono then some "C09.conc-read-not-monotone" else none
    pure (verdict (modelObs == impl) spec (joinWith "\t" (("conc:" ++ (if g.dom then "1" else "0") ++ ":1") :: modelObs)))
  | _ => none

/-! `C09.locks`: the model treats Update, the hourly flush and a read as mutually
atomic.  The harness lists, from the sources of the tree under test, which
locks are held (Lock immediately followed by the deferred Unlock) around the
calls that touch the current unit / the window.  Expected facts = the locking
discipline the model was written against; the requirement below is the part
the atomicity assumption needs. -/
def expectedLockFacts : List String := [
  "call:add@Update:confMu.Lock+currMu.Lock",
  "call:clear@handleStatsReset:none",
  "call:clear@setLimit:none",
  "call:dataFromUnits@getData:none",
  "call:deserialize@New:none",
  "call:flushDB@flush:confMu.Lock+currMu.Lock",
  "call:getData@handleStats:confMu.RLock",
  "call:loadUnits@TopClientsIP:confMu.RLock",
  "call:loadUnits@getData:none",
  "call:serialize@Close:currMu.RLock",
  "call:serialize@flushDB:none",
  "call:serialize@loadUnits:currMu.RLock",
  "call:setLimit@handleStatsConfig:confMu.Lock",
  "set:curr@New:none",
  "set:curr@clear:currMu.Lock",
  "set:curr@flushDB:none"]

def factHolds (f : String) (lock : String) : Bool := ((f.splitOn ":").getLast?.getD "").splitOn "+" |>.contains lock

def holdsAny (f : String) (locks : List String) : Bool := locks.any (factHolds f)

/-- The obligation on the (regenerated) facts.  Every `add` runs under the
exclusive current-unit lock and some configuration lock; every `flushDB` (swap
+ persist + delete) under both exclusive locks; every read of the window
(`getData`, or `loadUnits` outside `getData`) under a configuration lock, which
excludes the flush; `loadUnits` serialises the current unit under its lock;
`clear` swaps the unit under the exclusive lock; no unpaired Lock; and the
three entry points exist (a rename must not pass vacuously). -/
def locksOK (facts : List String) : Bool :=
  facts.any (·.startsWith "call:add@Update:") &&
  facts.any (·.startsWith "call:flushDB@flush:") &&
  facts.any (·.startsWith "call:getData@") &&
  facts.any (·.startsWith "call:serialize@loadUnits:") &&
  facts.all (fun f =>
    (if f.startsWith "call:add@" then
       factHolds f "currMu.Lock" && holdsAny f ["confMu.Lock", "confMu.RLock"] else true) &&
    (if f.startsWith "call:flushDB@" then factHolds f "currMu.Lock" && factHolds f "confMu.Lock" else true) &&
    (if f.startsWith "call:getData@" then holdsAny f ["confMu.Lock", "confMu.RLock"] else true) &&
    (if f.startsWith "call:loadUnits@" && !f.startsWith "call:loadUnits@getData:" then
       holdsAny f ["confMu.Lock", "confMu.RLock"] else true) &&
    (if f.startsWith "call:serialize@loadUnits:" then holdsAny f ["currMu.Lock", "currMu.RLock"] else true) &&
    (if f.startsWith "set:curr@clear:" then factHolds f "currMu.Lock" else true) &&
    !f.startsWith "unpaired:" && !f.startsWith "parse-error:")

def stepLocks (impl : List String) : Option String := do
  match impl with
  | n :: facts =>
    let n ← n.toNat?
    if facts.length ≠ n then none else
    -- a T-style tie: the facts are regenerated from the tree and the obligation is
    -- re-checked on them; `expectedLockFacts` is shown for comparison only
    let ok := locksOK facts
    let spec := if ok then none else some "C09.atomicity-locks"
    let same := if facts == expectedLockFacts then "as-modelled" else "changed"
    pure (verdict ok spec ("locks:1:1\t" ++ same ++ "\t" ++ joinWith "\t" expectedLockFacts))
  | [] => none

def step (d : DState) (line : String) : DState × String :=
  let fs := splitTab line
  match fs with
  | [] => (d, "bad-op")
  | op :: rest =>
    match splitArrow rest with
    | none => (d, "bad-op")
    | some (ins, impl) =>
      if op == "C09.reset" then
        match ins with
        | [clock, l, en] =>
          match (do
            let clock ← parseU32 clock
            let l ← l.toNat?
            let en ← parseBool en
            let s ← new [] clock l en
            let g := Ghost.init clock l en
            pure ((s, g), ← answer "reset" s g true 0 impl)) with
          | some (st, o) => ({ st := some st }, o)
          | none => ({ st := none }, "bad-op")
        | _ => ({ st := none }, "bad-op")
      else if op == "C09.conc" then
        (d, (stepConc ins impl).getD "bad-op")
      else if op == "C09.locks" then
        (d, (stepLocks impl).getD "bad-op")
      else
        match d.st with
        | none => (d, "bad-op")
        | some st =>
          match stepOp st op ins impl with
          | some (st', o) => ({ st := some st' }, o)
          | none => (d, "bad-op")

def main : IO Unit := run step {}
