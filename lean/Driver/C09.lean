import Driver.Proto
import AGH.Spec.Stats
import AGH.Spec.StatsLocks
import AGH.Model.StatsFaults
import AGH.Spec.StatsTop
import AGH.Spec.StatsLoop
open Driver AGH.C09

/-! Line-protocol driver for C09 (statistics).  Stateful: a block starts with
`C09.reset`.  `C09.conc` lines are self-contained. -/

structure DState where
  st : Option (State × Ghost) := none
  /-- between `C09.close` and `C09.open`: only the file and the clock exist -/
  closed : Bool := false
  /-- loop mode (`C09.loopstart`): the real `periodicFlush` runs; model of the loop,
  ghost, and since when the clock has shown its present hour -/
  loop : Option (Loop × Ghost × Nat) := none

def joinWith (sep : String) (l : List String) : String := sep.intercalate l

def showCounters (n : Nat → Nat) : String :=
  joinWith "," ((List.range 6).map fun i => toString (n i))

def showDB (db : DB) : String :=
  if db.isEmpty then "empty" else
  joinWith ";" (db.map fun (k, v) => toString k ++ ":" ++ toString v.nTotal ++ ":" ++ showCounters v.nResult)

/-- `len|i:v,i:v,…` (non-zero slots only). -/
def showSeries (l : List Nat) : String :=
  let rec go : List Nat → Nat → List String → List String
    | [], _, acc => acc.reverse
    | x :: xs, i, acc => go xs (i + 1) (if x = 0 then acc else (toString i ++ ":" ++ toString x) :: acc)
  toString l.length ++ "|" ++ joinWith "," (go l 0 [])

def setAt : List Nat → Nat → Nat → List Nat
  | [], _, _ => []
  | _ :: rest, 0, x => x :: rest
  | a :: rest, i + 1, x => a :: setAt rest i x

def parseSeries (s : String) : Option (List Nat) := do
  match s.splitOn "|" with
  | [ls, body] =>
    let len ← ls.toNat?
    if len > 100000 then none else
    let items := if body.isEmpty then [] else body.splitOn ","
    items.foldlM (fun acc it => do
      match it.splitOn ":" with
      | [i, v] =>
        let i ← i.toNat?
        let v ← v.toNat?
        if i < len then pure (setAt acc i v) else none
      | _ => none) (List.replicate len 0)
  | _ => none

def showRead : Except Fault Resp → List String
  | .error _ => ["panic"]
  | .ok r => ["ok", if r.days then "d" else "h",
      showSeries r.dnsQueries, showSeries r.blockedFiltering,
      showSeries r.replacedSafebrowsing, showSeries r.replacedParental,
      toString r.numDNSQueries, toString r.numBlockedFiltering, toString r.numReplacedSafebrowsing,
      toString r.numReplacedSafesearch, toString r.numReplacedParental,
      -- sums of top_clients / top_queried_domains / top_blocked_domains (C09_top_lists_sum)
      toString r.numDNSQueries,
      toString (r.numDNSQueries - (r.numBlockedFiltering + r.numReplacedSafebrowsing + r.numReplacedSafesearch + r.numReplacedParental)),
      toString (r.numBlockedFiltering + r.numReplacedSafebrowsing + r.numReplacedSafesearch + r.numReplacedParental)]

/-- What the implementation said its read was; `none` = unparsable. -/
def parseRead : List String → Option (Except Fault Resp)
  | ["panic"] => some (.error .indexOutOfRange)
  | ["e500"] => some (.error .unitsLen)
  | ["ok", u, q, b, sb, p, nq, nb, nsb, nss, np, _, _, _] => do
    let days ← (if u == "d" then some true else if u == "h" then some false else none)
    pure (.ok { days := days, dnsQueries := ← parseSeries q, blockedFiltering := ← parseSeries b
                replacedSafebrowsing := ← parseSeries sb, replacedParental := ← parseSeries p
                numDNSQueries := ← nq.toNat?, numBlockedFiltering := ← nb.toNat?
                numReplacedSafebrowsing := ← nsb.toNat?, numReplacedSafesearch := ← nss.toNat?
                numReplacedParental := ← np.toNat? })
  | _ => none

def showState (s : State) (withDB : Bool) (panics : Nat) : List String :=
  ["p" ++ toString panics, if s.enabled then "1" else "0", toString s.limit, toString s.curr.id,
   toString s.curr.nTotal, showCounters s.curr.nResult, if withDB then showDB s.db else "-"]

def nz (r : Except Fault Resp) : String :=
  match r with
  | .ok r => if r.numDNSQueries > 0 then "1" else "0"
  | .error _ => "x"

/-- Build the answer for one op, given the new model state and ghost. -/
def answer (cls : String) (s : State) (g : Ghost) (withDB : Bool) (panics : Nat) (impl : List String) : Option String := do
  let rd := getData s
  let modelObs := showState s withDB panics ++ showRead rd
  -- the implementation's read is the tail after the 7 state fields
  let implRead ← parseRead (impl.drop 7)
  let agree := modelObs == impl
  let topsBad : Bool := match implRead, impl.drop 7 with
    | .ok r, [_, _, _, _, _, _, _, _, _, _, _, tc, tq, tb] =>
      (match tc.toNat?, tq.toNat?, tb.toNat? with
       | some tc, some tq, some tb => !topsOK r tc tq tb
       | _, _, _ => true)
    | _, _ => false
  let spec := if !specOK g implRead then some ("C09." ++ specWhy g implRead)
              else if g.dom && topsBad then some "C09.top-lists" else none
  let head := cls ++ ":" ++ (if g.dom then "1" else "0") ++ ":" ++ nz rd
  -- the model observation is printed in full only when it is news (it equals
  -- the implementation's fields on the same line otherwise)
  let shown := if agree && spec.isNone then [head, "=impl"] else head :: modelObs
  pure (verdict agree spec (joinWith "\t" shown))

/-- Observation while the context is closed: the in-memory unit as it was, the
file, and no read. -/
def answerClosed (cls : String) (s : State) (g : Ghost) (impl : List String) : Option String := do
  let modelObs := showState s true 0 ++ ["closed"]
  pure (verdict (modelObs == impl) none (joinWith "\t" ((cls ++ ":" ++ (if g.dom then "1" else "0") ++ ":0") :: modelObs)))

/-- Scripted-clock variants of `New`: the observation starts with `g<n>`, how
often `New` read the UnitID generator.  The model reads it once. -/
def withCalls (impl : List String) (line : String) : String :=
  if impl.head? == some "g1" then line
  else if line.startsWith "AGREE" then "DISAGREE" ++ (line.drop 5).toString ++ "\tmodel-clock-reads=g1" else line

/-- `New` at the hour the clock shows; the hour flips right after the `k`-th
read of the clock inside `New` (there is exactly one). -/
def openFlip (s : State) (g : Ghost) (l : Nat) (en : Bool) (k : Nat) : Option (State × Ghost) := do
  let s' ← openOp s l en
  let g' := ghostStep g (.restart g.clock l en)
  if k = 1 then pure (advance s' (s'.clock + 1), ghostStep g' (.advance (g'.clock + 1)))
  else pure (s', g')

def parseU32 (s : String) : Option Nat := do
  let n ← s.toNat?
  if n < U32 then some n else none

def stepOp (st : State × Ghost) (op : String) (ins impl : List String) : Option ((State × Ghost) × String) := do
  let (s, g) := st
  match op, ins with
  | "C09.upd", [r, n, de, ce] =>
    let e : Entry := { result := ← r.toInt?, domainEmpty := ← parseBool de, clientEmpty := ← parseBool ce }
    let n ← n.toNat?
    let (s', p) := updateN s e n
    let g' := ghostStep g (.upd e n)
    let cls := if p > 0 then "upd.panic" else if s'.curr.nTotal > s.curr.nTotal then "upd.acc" else "upd.rej"
    pure ((s', g'), ← answer cls s' g' false p impl)
  | "C09.advance", [h] =>
    -- the UnitID generator moves, nothing else happens (no flush)
    let h ← parseU32 h
    let s' := advance s h
    let g' := ghostStep g (.advance h)
    pure ((s', g'), ← answer "advance" s' g' false 0 impl)
  | "C09.tick", [id] =>
    let id ← parseU32 id
    let s' := tick s id
    let g' := ghostStep g (.tick id)
    let cls := if s'.curr.id = s.curr.id then "tick.same" else "tick.roll"
    pure ((s', g'), ← answer cls s' g' true 0 impl)
  | "C09.restart", [id, l, en] =>
    let id ← parseU32 id
    let l ← l.toNat?
    let en ← parseBool en
    let s' ← restart s id l en
    let g' := ghostStep g (.restart id l en)
    let cls := if id = s.curr.id then "restart.same" else "restart.later"
    pure ((s', g'), ← answer cls s' g' true 0 impl)
  | "C09.restartflip", [id, l, en, k] =>
    let id ← parseU32 id
    let l ← l.toNat?
    let en ← parseBool en
    let k ← k.toNat?
    let sc := advance (closeOp s) id
    let gc := ghostStep g (.advance id)
    let (s', g') ← openFlip sc gc l en k
    pure ((s', g'), withCalls impl (← answer "restart.flip" s' g' true 0 (impl.drop 1)))
  | "C09.setdays", [d] =>
    let d ← d.toNat?
    let s' := setLimitDays s d
    let g' := ghostStep g (.setDays d)
    let cls := if !checkInterval d then "setdays.bad" else if d = 0 then "setdays.off" else "setdays.set"
    pure ((s', g'), ← answer cls s' g' true 0 impl)
  | "C09.putconf", [ms, en] =>
    let ms ← ms.toNat?
    let en ← parseBool en
    let s' := putConf s ms en
    let g' := ghostStep g (.putConf ms en)
    let cls := if validIvl ms then "putconf.ok" else "putconf.bad"
    pure ((s', g'), ← answer cls s' g' false 0 impl)
  | "C09.clear", [] =>
    let s' := clear s
    let g' := ghostStep g .clear
    pure ((s', g'), ← answer "clear" s' g' true 0 impl)
  | "C09.read", [] =>
    pure ((s, g), ← answer "read" s g false 0 impl)
  -- fault / race variants (findings; never generated, only replayed)
  | "C09.tickfail", [id] =>
    let id ← parseU32 id
    let s' := tickFail s id
    -- the property expects counts to survive the rollover
    let g' := ghostStep g (.tick id)
    pure ((s', g'), ← answer "tickfail" s' g' true 0 impl)
  | "C09.tickfail", [id, "repaired"] =>
    -- with fixes/c09/flush_keep_unit_on_write_error.patch a failed flush keeps the
    -- old unit: for the module the hour has not changed yet — the model's `advance`
    let id ← parseU32 id
    let s' := advance s id
    let g' := ghostStep g (.advance id)
    pure ((s', g'), ← answer "tickfail.repaired" s' g' true 0 impl)
  | "C09.readinreset", [] =>
    -- a read while a reset is in flight must still be answered (with the data of
    -- before or after the reset); the model has no state "no database"
    match impl with
    | mid :: rest =>
      let s' := clear s
      let g' := ghostStep g .clear
      let line ← answer "readinreset" s' g' true 0 rest
      if mid == "mid=ok" || mid == "mid=blocked" then pure ((s', g'), line)
      else
        let rd := getData s'
        pure ((s', g'), verdict false (some "C09.read-fails-during-reset")
          (joinWith "\t" ("readinreset:1:x" :: "mid=ok" :: (showState s' true 0 ++ showRead rd))))
    | [] => none
  | "C09.resetrace", [id] =>
    let id ← parseU32 id
    let s' := resetRace s id
    -- a clear and a rollover, in either order, leave nothing counted
    let g' := ghostStep (ghostStep g .clear) (.tick id)
    pure ((s', g'), ← answer "resetrace" s' g' true 0 impl)
  | _, _ => none

/-- `C09.conc clock limitMs writers per ticks`: `writers` goroutines each do
`per` Updates (writer `i` uses category `i % 5 + 1`) while the clock is ticked
`ticks` times and readers read.  Whatever the interleaving, the model's final
totals are those of any sequential order as long as `ticks < limit` hours. -/
def stepConc (ins impl : List String) : Option String := do
  match ins with
  | [clock, l, w, per, ticks] =>
    let clock ← parseU32 clock
    let l ← l.toNat?
    let w ← w.toNat?
    let per ← per.toNat?
    let ticks ← ticks.toNat?
    let s0 ← new [] clock l true
    let g0 := Ghost.init clock l true
    let ops : List Op :=
      (List.range w).map (fun i => Op.upd ⟨(i % 5 + 1 : Nat), false, false⟩ per) ++
      (List.range ticks).map (fun k => Op.tick (clock + 1 + k))
    let s ← runOps s0 ops
    let g := ghostRun g0 ops
    let rd := getData s
    let tot : List String := match rd with
      | .ok r => [toString r.numDNSQueries, toString r.numBlockedFiltering, toString r.numReplacedSafebrowsing,
                  toString r.numReplacedSafesearch, toString r.numReplacedParental]
      | .error _ => ["panic"]
    -- impl: 5 totals, then "mono" flag (reads never decreased and never exceeded the final total)
    let modelObs := tot ++ ["1"]
    let implResp : Except Fault Resp ← (match impl with
      | [a, b, c, d, e, _] => do
        pure (.ok { days := true, dnsQueries := [], blockedFiltering := [], replacedSafebrowsing := [], replacedParental := []
                    numDNSQueries := ← a.toNat?, numBlockedFiltering := ← b.toNat?, numReplacedSafebrowsing := ← c.toNat?
                    numReplacedSafesearch := ← d.toNat?, numReplacedParental := ← e.toNat? })
      | _ => some (.error .unitsLen))
    let specTot := specOK g implResp
    let mono := impl.getLast? == some "1"
    let spec := if !specTot then some ("C09.conc-" ++ specWhy g implResp)
                else if !mono then some "C09.conc-read-not-monotone" else none
    pure (verdict (modelObs == impl) spec (joinWith "\t" (("conc:" ++ (if g.dom then "1" else "0") ++ ":1") :: modelObs)))
  | _ => none

/-! `C09.locks`: the harness lists, from the sources of the tree under test,
which locks are held (Lock immediately followed by the deferred Unlock) around
the calls and assignments that touch the current unit, the window and the
configuration.  The facts are turned into a `LockFacts` value and the
hypothesis of `C09_interleavings_serializable` (`LockFacts.ok` = `okFor` for
Update, flush, read, setDays, putConf) is evaluated on it: a T-style tie — the
facts are regenerated, the obligation is re-checked; `LockFacts.real` (what the
model was written against) is shown for comparison only. -/
def showMode : Option Mode → String
  | none => "-"
  | some .R => "R"
  | some .W => "W"

def showFacts (F : LockFacts) : String :=
  "upd=" ++ showMode F.updConf ++ "/" ++ showMode F.updCurr ++
  " flush=" ++ showMode F.flushConf ++ "/" ++ showMode F.flushCurr ++
  " read=" ++ showMode F.readConf ++ "/" ++ showMode F.loadCurr ++
  " setdays=" ++ showMode F.setDaysConf ++ " putconf=" ++ showMode F.putConfConf ++
  " clear=" ++ showMode F.clearCurr ++ " reset=" ++ showMode F.resetConf

def stepLocks (impl : List String) : Option String := do
  match impl with
  | n :: facts =>
    let n ← n.toNat?
    if facts.length ≠ n then none else
    let F := LockFacts.ofStrings facts
    let ok := F.okAll && factsClean facts
    let spec := if ok then none else some "C09.atomicity-locks"
    let same := if F == LockFacts.real then "as-modelled" else "changed"
    pure (verdict ok spec ("locks:1:1\t" ++ same ++ "\t" ++ showFacts F ++ "\thypothesis-of-C09_interleavings_serializable=" ++
      (if ok then "holds" else "BROKEN") ++ "\treset-covered=" ++ (if okFor F .reset then "yes" else "no")))
  | [] => none

/-- `C09.top seed n clients domains`: a burst of accepted entries on a fresh unit;
observation = `TopObs` (see AGH/Spec/StatsTop.lean). -/
def showTopObs (o : TopObs) : List String :=
  [toString o.nTotal, joinWith "," (o.nResult.map toString),
   toString o.clientsLen, toString o.clientsSum, toString o.domainsLen, toString o.domainsSum,
   toString o.blockedLen, toString o.blockedSum,
   toString o.serClientsLen, toString o.serClientsSum, toString o.serClientsMin,
   toString o.serDomainsLen, toString o.serDomainsSum, toString o.serBlockedLen, toString o.serBlockedSum,
   toString o.backClientsSum]

def parseTopObs : List String → Option TopObs
  | [a, r, b, c, d, e, f, g, h, i, j, k, l, m, n, o] => do
    pure { nTotal := ← a.toNat?, nResult := ← (r.splitOn ",").mapM (·.toNat?)
           clientsLen := ← b.toNat?, clientsSum := ← c.toNat?, domainsLen := ← d.toNat?, domainsSum := ← e.toNat?
           blockedLen := ← f.toNat?, blockedSum := ← g.toNat?
           serClientsLen := ← h.toNat?, serClientsSum := ← i.toNat?, serClientsMin := ← j.toNat?
           serDomainsLen := ← k.toNat?, serDomainsSum := ← l.toNat?
           serBlockedLen := ← m.toNat?, serBlockedSum := ← n.toNat?, backClientsSum := ← o.toNat? }
  | _ => none

def stepTop (ins impl : List String) : Option String := do
  match ins with
  | [seed, n, nc, nd] =>
    let seed ← seed.toNat?
    let n ← n.toNat?
    let nc ← nc.toNat?
    let nd ← nd.toNat?
    if nc = 0 ∨ nd = 0 ∨ n > 100000 then none else
    let m := topObsOf (genEntries n seed nc nd)
    let io ← parseTopObs impl
    let spec := if topSpecOK io then none else some "C09.top-maps"
    let cls := if m.clientsLen > 100 ∨ m.domainsLen > 100 then "top.truncated:1:1" else "top.full:1:1"
    pure (verdict (showTopObs m == impl) spec (joinWith "\t" (cls :: showTopObs m)))
  | _ => none

/-! Loop mode: the harness runs the real `Start`/`periodicFlush` in a
`testing/synctest` bubble (virtual time), the UnitID generator shows the virtual
wall-clock hour plus a skew it steps by hand. -/

/-- The wake-ups of `Loop.wait`, with the ghost told about every rotation. -/
def pollsGhost (L : Loop) (g : Ghost) : Nat → Loop × Ghost
  | 0 => (L, g)
  | n + 1 =>
    let h := hourAt L.next L.skew
    let g' := if h = L.s.curr.id then g else ghostStep g (.tick h)
    pollsGhost (L.poll docPeriodMs) g' n

def markRollover (ok : Bool) (line : String) : String :=
  if ok then line else line.replace "\tspec=ok\t" "\tspec=FAIL:C09.rollover-late\t"

def implUnitId (impl : List String) : Nat := ((impl.drop 3).head?.bind String.toNat?).getD 0

def stepLoop (st : Loop × Ghost × Nat) (op : String) (ins impl : List String) : Option ((Loop × Ghost × Nat) × String) := do
  let (L, g, since) := st
  let check := fun (L : Loop) (since : Nat) (line : String) =>
    markRollover (rolloverOK docPeriodMs L.t since (hourAt L.t L.skew) (implUnitId impl)) line
  match op, ins with
  | "C09.step", [gap] =>
    let gap ← gap.toNat?
    let L' := L.step gap
    let g' := ghostStep g (.advance (hourAt L'.t L'.skew))
    let since' := if gap = 0 then since else L.t
    let line ← answer "loop.step" L'.s g' false 0 impl
    pure ((L', g', since'), check L' since' line)
  | "C09.wait", [ms] =>
    let ms ← ms.toNat?
    if ms > 36000000 then none else
    let t' := L.t + ms
    let n := if L.next ≤ t' then (t' - L.next) / docPeriodMs + 1 else 0
    let (Lp, gp) := pollsGhost L g n
    let L' := { Lp with t := t' }
    let wall := hourAt t' L'.skew
    let g' := if wall = gp.clock then gp else ghostStep gp (.advance wall)
    let since' := if hourAt t' L.skew = hourAt L.t L.skew then since else (t' / msPerHour) * msPerHour
    let cls := if L'.s.curr.id = L.s.curr.id then "loop.wait" else "loop.wait.roll"
    let line ← answer cls L'.s g' true 0 impl
    pure ((L', g', since'), check L' since' line)
  | "C09.upd", _ =>
    let ((s', g'), line) ← stepOp (L.s, g) op ins impl
    pure (({ L with s := s' }, g', since), check L since line)
  | "C09.read", _ =>
    let ((s', g'), line) ← stepOp (L.s, g) op ins impl
    pure (({ L with s := s' }, g', since), check L since line)
  | _, _ => none

def step (d : DState) (line : String) : DState × String :=
  let fs := splitTab line
  match fs with
  | [] => (d, "bad-op")
  | op :: rest =>
    match splitArrow rest with
    | none => (d, "bad-op")
    | some (ins, impl) =>
      if op == "C09.reset" then
        match ins with
        | [clock, l, en] =>
          match (do
            let clock ← parseU32 clock
            let l ← l.toNat?
            let en ← parseBool en
            let s ← new [] clock l en
            let g := Ghost.init clock l en
            pure ((s, g), ← answer "reset" s g true 0 impl)) with
          | some (st, o) => ({ st := some st, closed := false, loop := none }, o)
          | none => ({ st := none }, "bad-op")
        | _ => ({ st := none }, "bad-op")
      else if op == "C09.loopstart" then
        match ins with
        | [h, off, l] =>
          match (do
            let h ← parseU32 h
            let off ← off.toNat?
            let l ← l.toNat?
            let t0 := h * msPerHour + off * 1000
            let L ← Loop.start docPeriodMs t0 0 l true
            let g := Ghost.init (hourAt t0 0) l true
            pure ((L, g, h * msPerHour), ← answer "loop.start" L.s g true 0 impl)) with
          | some (st, o) => ({ loop := some st }, o)
          | none => ({}, "bad-op")
        | _ => ({}, "bad-op")
      else if d.loop.isSome && (op == "C09.step" || op == "C09.wait" || op == "C09.upd" || op == "C09.read") then
        match d.loop with
        | some st =>
          match stepLoop st op ins impl with
          | some (st', o) => ({ d with loop := some st' }, o)
          | none => (d, "bad-op")
        | none => (d, "bad-op")
      else if op == "C09.conc" then
        (d, (stepConc ins impl).getD "bad-op")
      else if op == "C09.locks" then
        (d, (stepLocks impl).getD "bad-op")
      else if op == "C09.top" then
        (d, (stepTop ins impl).getD "bad-op")
      else
        match d.st with
        | none => (d, "bad-op")
        | some (s, g) =>
          if d.closed then
            -- only time passing and New are possible on a closed context
            match op, ins with
            | "C09.advance", [h] =>
              match (do
                let h ← parseU32 h
                let s' := advance s h
                let g' := ghostStep g (.advance h)
                pure ((s', g'), ← answerClosed "down.advance" s' g' impl)) with
              | some (st', o) => ({ st := some st', closed := true }, o)
              | none => (d, "bad-op")
            | "C09.openflip", [l, en, k] =>
              match (do
                let l ← l.toNat?
                let en ← parseBool en
                let k ← k.toNat?
                let (s', g') ← openFlip s g l en k
                pure ((s', g'), withCalls impl (← answer "open.flip" s' g' true 0 (impl.drop 1)))) with
              | some (st', o) => ({ st := some st', closed := false }, o)
              | none => (d, "bad-op")
            | "C09.open", [l, en] =>
              match (do
                let l ← l.toNat?
                let en ← parseBool en
                let s' ← openOp s l en
                let g' := ghostStep g (.restart g.clock l en)
                let cls := if s'.curr.id = s.curr.id then "open.same" else "open.later"
                pure ((s', g'), ← answer cls s' g' true 0 impl)) with
              | some (st', o) => ({ st := some st', closed := false }, o)
              | none => (d, "bad-op")
            | _, _ => (d, "bad-op")
          else if op == "C09.close" then
            let s' := closeOp s
            match answerClosed (if s.clock = s.curr.id then "close" else "close.lag") s' g impl with
            | some o => ({ st := some (s', g), closed := true }, o)
            | none => (d, "bad-op")
          else
            match stepOp (s, g) op ins impl with
            | some (st', o) => ({ st := some st' }, o)
            | none => (d, "bad-op")

def main : IO Unit := run step {}
