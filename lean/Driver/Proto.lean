/-
Line protocol shared by all drivers (DESIGN §1.8).
One case per line:  f1 TAB f2 … TAB "=>" TAB impl-output-fields…
The driver answers one line:  AGREE|DISAGREE TAB spec=ok|spec=FAIL:<why> TAB model=<canonical model output>
or `bad-op` for anything it cannot parse (never a default value).
Strings are hex encoded ("-" is the empty string so that fields are never empty).
-/
namespace Driver

def hexDigit (c : Char) : Option Nat :=
  if '0' ≤ c ∧ c ≤ '9' then some (c.toNat - 48)
  else if 'a' ≤ c ∧ c ≤ 'f' then some (c.toNat - 87)
  else none

def hexDecodeAux : List Char → List Nat → Option (List Nat)
  | [], acc => some acc.reverse
  | [_], _ => none
  | a :: b :: rest, acc =>
    match hexDigit a, hexDigit b with
    | some x, some y => hexDecodeAux rest ((x * 16 + y) :: acc)
    | _, _ => none

def hexDecode (s : String) : Option (List Nat) :=
  if s == "-" then some [] else hexDecodeAux s.toList []

def hexChar (n : Nat) : Char := if n < 10 then Char.ofNat (48 + n) else Char.ofNat (87 + n)

def hexEncode (b : List Nat) : String :=
  if b.isEmpty then "-" else
  String.ofList (b.foldr (fun x acc => hexChar ((x / 16) % 16) :: hexChar (x % 16) :: acc) [])

def parseBool (s : String) : Option Bool :=
  if s == "1" then some true else if s == "0" then some false else none

def splitTab (s : String) : List String := s.splitOn "\t"

/-- Split the fields at the "=>" marker into (input fields, impl fields). -/
def splitArrow (fs : List String) : Option (List String × List String) :=
  let pre := fs.takeWhile (· != "=>")
  let post := fs.dropWhile (· != "=>")
  match post with
  | _ :: impl => some (pre, impl)
  | [] => none

def stripNL (s : String) : String :=
  let s := if s.endsWith "\n" then (s.dropEnd 1).toString else s
  if s.endsWith "\r" then (s.dropEnd 1).toString else s

/-- Verdict line. -/
def verdict (agree : Bool) (spec : Option String) (model : String) : String :=
  (if agree then "AGREE" else "DISAGREE") ++ "\t" ++
  (match spec with | none => "spec=ok" | some why => "spec=FAIL:" ++ why) ++ "\t" ++
  "model=" ++ model

partial def loop {σ : Type} (h : IO.FS.Stream) (out : IO.FS.Stream) (step : σ → String → σ × String) (s : σ) : IO Unit := do
  let line ← h.getLine
  if line.isEmpty then
    out.flush
    return ()
  let (s', o) := step s (stripNL line)
  out.putStrLn o
  loop h out step s'

def run {σ : Type} (step : σ → String → σ × String) (init : σ) : IO Unit := do
  let stdin ← IO.getStdin
  let stdout ← IO.getStdout
  loop stdin stdout step init

end Driver
