import Driver.Proto
import AGH.Spec.DHCP
import AGH.Model.LeaseDB
open Driver AGH AGH.C10

/-! Line-protocol driver of C10 (DHCPv4 lease table).  Block = `C10.reset` + operations. -/

abbrev P := StateT (List String) Option

def tok : P String := do
  match (← get) with
  | [] => failure
  | x :: xs => set xs; pure x

def pNat : P Nat := do
  match (← tok).toNat? with
  | some n => pure n
  | none => failure

def pBool : P Bool := do
  match parseBool (← tok) with
  | some b => pure b
  | none => failure

def pHex : P Bytes := do
  match hexDecode (← tok) with
  | some b => pure b
  | none => failure

def pMany {α : Type} (p : P α) : Nat → P (List α)
  | 0 => pure []
  | n + 1 => do
    let x ← p
    let xs ← pMany p n
    pure (x :: xs)

def pLease : P LeaseV := do
  let mac ← pHex
  let ip ← pNat
  let host ← pHex
  let st ← pBool
  let exp ← pNat
  pure { mac := mac, ip := ip, host := host, static := st, exp := exp }

def pPos : P (Option Nat) := do
  let t ← tok
  if t == "x" then pure none else
  match t.toNat? with
  | some n => pure (some n)
  | none => failure

def pEntry {κ : Type} (pk : P κ) : P (Entry κ) := do
  let k ← pk
  let pos ← pPos
  let l ← pLease
  pure { key := k, pos := pos, tgt := l }

def pBits : P (List Bool) := do
  let t ← tok
  let cs := t.toList
  if cs.all (fun ch => ch == '0' || ch == '1') then pure (cs.map (· == '1')) else failure

def pDisk : P (Option (List LeaseV)) := do
  let t ← tok
  if t == "nofile" then pure none else
  match t.toNat? with
  | some n => do
    let ls ← pMany pLease n
    pure (some ls)
  | none => failure

def pObs : P Obs := do
  let now ← pNat
  let n ← pNat
  let leases ← pMany pLease n
  let nh ← pNat
  let hosts ← pMany (pEntry pHex) nh
  let ni ← pNat
  let ips ← pMany (pEntry pNat) ni
  let bits ← pBits
  let extra ← pNat
  let disk ← pDisk
  let nq ← pNat
  let byIP ← pMany (do let ip ← pNat; let h ← pHex; let m ← pHex; pure (ip, h, m)) nq
  let nh2 ← pNat
  let byHost ← pMany (do let h ← pHex; let ip ← pNat; pure (h, ip)) nh2
  pure { now := now, leases := leases, hosts := hosts, ips := ips, bits := bits, extraBits := extra, disk := disk,
         byIP := byIP, byHost := byHost }

def pInt : P Int := do
  let t ← tok
  if t.startsWith "-" then
    match (t.drop 1).toNat? with
    | some n => pure (-(n : Int))
    | none => failure
  else match t.toNat? with
    | some n => pure (n : Int)
    | none => failure

def pReply : P Reply := do
  let rc ← pInt
  let typ ← pNat
  let yi ← pNat
  let err ← tok
  pure { rc := rc, typ := typ, yi := yi, err := err }

def pEnd : P Unit := do
  match (← get) with
  | [] => pure ()
  | _ => failure

/-! canonical printing (same syntax as the harness) -/

def showLease (l : LeaseV) : List String :=
  [hexEncode l.mac, toString l.ip, hexEncode l.host, if l.static then "1" else "0", toString l.exp]

def showPos : Option Nat → String
  | none => "x"
  | some i => toString i

def insertBy {α : Type} (lt : α → α → Bool) (x : α) : List α → List α
  | [] => [x]
  | y :: ys => if lt x y then x :: y :: ys else y :: insertBy lt x ys

def sortBy {α : Type} (lt : α → α → Bool) (l : List α) : List α := l.foldl (fun acc x => insertBy lt x acc) []

def showObs (o : Obs) : List String :=
  let hosts := sortBy (fun (a b : Entry Bytes) => bytesLt a.key b.key) o.hosts
  let ips := sortBy (fun (a b : Entry Nat) => a.key < b.key) o.ips
  [toString o.now, toString o.leases.length] ++ o.leases.flatMap showLease ++
  [toString hosts.length] ++ hosts.flatMap (fun e => [hexEncode e.key, showPos e.pos] ++ showLease e.tgt) ++
  [toString ips.length] ++ ips.flatMap (fun e => [toString e.key, showPos e.pos] ++ showLease e.tgt) ++
  [String.ofList (o.bits.map (fun b => if b then '1' else '0')), toString o.extraBits] ++
  (match o.disk with
   | none => ["nofile"]
   | some d => [toString d.length] ++ d.flatMap showLease) ++
  (let byIP := sortBy (fun (a b : Nat × Bytes × Bytes) => a.1 < b.1) o.byIP
   let byHost := sortBy (fun (a b : Bytes × Nat) => bytesLt a.1 b.1) o.byHost
   [toString byIP.length] ++ byIP.flatMap (fun (ip, h, m) => [toString ip, hexEncode h, hexEncode m]) ++
   [toString byHost.length] ++ byHost.flatMap (fun (h, ip) => [hexEncode h, toString ip]))

def showReply (r : Reply) : List String := [toString r.rc, toString r.typ, toString r.yi, r.err]

/-! driver state -/

structure Tab where
  rows : List (Bytes × Bool × Bytes × Bool)

def Tab.oracle (t : Tab) : Oracle :=
  { norm := fun raw => match t.rows.find? (fun r => r.1 == raw) with
      | some (_, err, norm, _) => if err then none else some norm
      | none => none
    valid := fun raw => match t.rows.find? (fun r => r.1 == raw) with
      | some (_, _, _, v) => v
      | none => false }

def Tab.has (t : Tab) (raw : Bytes) : Bool := t.rows.any (fun r => r.1 == raw)

structure DS where
  conf : Conf
  tab : Tab
  st : State
  prev : Obs
  ready : Bool
  /-- wall-clock second of model time 1000 -/
  base : Nat := 0

def DS.init : DS :=
  { conf := default, tab := ⟨[]⟩, st := State.init, prev := Obs.empty, ready := false }

/-- The assumptions the theorems make about the hostname oracle (`OracleOK`),
checked on the shipped table: normalising a normalised name changes nothing, and
the generated names of the pool are normalised and valid. -/
def oracleSane (c : Conf) (rows : List (Bytes × Bool × Bytes × Bool)) : Bool :=
  rows.all (fun (_, err, norm, _) => err || norm == [] ||
    rows.any (fun (raw', err', norm', _) => raw' == norm && !err' && norm' == norm)) &&
  ((List.range (c.stop + 1 - c.start)).map (c.start + ·)).all (fun a =>
    rows.any (fun (raw', err', norm', v') => raw' == genHost a && !err' && norm' == genHost a && v'))

def pRow : P (Bytes × Bool × Bytes × Bool) := do
  let raw ← pHex
  let err ← pBool
  let norm ← pHex
  let v ← pBool
  pure (raw, err, norm, v)

def pOp (name : String) : P Op := do
  match name with
  | "C10.discover" => do
    let m ← pHex
    pure (.discover m)
  | "C10.request" => do
    let m ← pHex
    let sid ← pNat
    let rp ← pBool
    let rip ← pNat
    let ci ← pNat
    let h ← pHex
    pure (.request m sid rp rip ci h)
  | "C10.decline" => do
    let m ← pHex
    let rp ← pBool
    let rip ← pNat
    let ci ← pNat
    pure (.decline m rp rip ci)
  | "C10.release" => do
    let m ← pHex
    let rp ← pBool
    let rip ← pNat
    let ci ← pNat
    pure (.release m rp rip ci)
  | "C10.addStatic" => do
    let m ← pHex
    let ip ← pNat
    let h ← pHex
    pure (.addStatic m ip h)
  | "C10.updStatic" => do
    let m ← pHex
    let ip ← pNat
    let h ← pHex
    pure (.updStatic m ip h)
  | "C10.rmStatic" => do
    let m ← pHex
    let ip ← pNat
    let h ← pHex
    pure (.rmStatic m ip h)
  | "C10.sleep" => do
    let d ← pNat
    pure (.sleep d)
  | "C10.restart" => pure .restart
  | "C10.resetleases" => pure .resetLeases
  | _ => failure

def AGH.C10.Op.rawHost? : Op → Option Bytes
  | .request _ _ _ _ _ h => some h
  | .addStatic _ _ h => some h
  | .updStatic _ _ h => some h
  | _ => none

def runP {α : Type} (p : P α) (fs : List String) : Option α :=
  match (do let x ← p; pEnd; pure x).run fs with
  | some (x, _) => some x
  | none => none

def implOut (impl : List String) : Option (Reply × Obs) :=
  runP (do let r ← pReply; let o ← pObs; pure (r, o)) (impl.filter (fun f => !f.startsWith "file="))

/-- The bytes the model says are in `leases.json` (`file=-`: no file). -/
def fileToken (base : Nat) (st : State) : String :=
  match st.disk with
  | none => "file=-"
  | some d => "file=" ++ hexEncode (encodeDB (fmtExpAt base) d)

/-- The model's decoder reads the real bytes as the real `dbLoad` did (the records the harness parsed). -/
def decodesAlike (base : Nat) (impl : List String) (o : Obs) : Bool :=
  match impl.find? (fun f => f.startsWith "file="), o.disk with
  | some f, some d =>
    (match hexDecode (f.drop 5).toString with
     | some bytes => decodeDB (parseExpAt base) bytes == some (d.map LeaseV.norm)
     | none => false)
  | some f, none => f == "file=-"
  | none, _ => true

def stepLine (ds : DS) (line : String) : DS × String :=
  match splitTab line with
  | [] => (ds, "bad-op")
  | name :: rest =>
    match splitArrow rest with
    | none => (ds, "bad-op")
    | some (ins0, impl0) =>
      let impl := impl0.filter (fun f => !f.startsWith "fix=" && !f.startsWith "base=")
      -- the trailing history tag of an operation line is not part of the case
      let ins := ins0.filter (fun f => !f.startsWith "h=" && !f.startsWith "en=")
      -- the tree's repair level (R3, R4), reported by the harness with the reset line; absent = the tree as it is
      let tagged := impl0.any (fun f => f.startsWith "fix=")
      let fixR3 := !tagged || impl0.any (fun f => f == "fix=10" || f == "fix=11")
      let fixR4 := !tagged || impl0.any (fun f => f == "fix=01" || f == "fix=11")
      if name == "C10.reset" then
        let parsed := runP (do
          let gw ← pNat
          let mask ← pNat
          let start ← pNat
          let stop ← pNat
          let lt ← pNat
          let n ← pNat
          let rows ← pMany pRow n
          pure (({ gw := gw, maskLen := mask, start := start, stop := stop, leaseTime := lt, sid := 3232238082, fixR3 := fixR3, fixR4 := fixR4 } : Conf), rows)) ins
        match parsed with
        | none => (ds, "bad-op")
        | some (c, rows) =>
          if !oracleSane c rows then (ds, "bad-op") else
          let st := State.init
          -- the model's verdict on the configuration (`V4ServerConf.Validate`)
          let base := (impl0.find? (fun f => f.startsWith "base=")).bind (fun f => (f.drop 5).toString.toNat?) |>.getD 0
          let model :=
            if validate c then String.intercalate "\t" (showReply (Reply.api "ok") ++ showObs (obsOf c st) ++ [fileToken base st])
            else "1\t0\t0\trejected"
          let agree := model == String.intercalate "\t" impl
          if impl == ["1", "0", "0", "rejected"] then
            -- the implementation refused the configuration: the block ends here
            ({ ds with ready := false }, verdict agree none model)
          else match implOut impl with
            | some (r, o) =>
              -- the implementation runs with this configuration (whatever the model thinks of it):
              -- the history is followed and monitored
              let why := specWhy c Obs.empty (.sleep 0) r o
              ({ conf := c, tab := ⟨rows⟩, st := st, prev := o, ready := true, base := base }, verdict agree why model)
            | none => (ds, "bad-op")
      else if !ds.ready then (ds, "bad-op")
      else
        -- `C10.addStaticInj mac ip host mac2`: AddStaticLease, and — if the call sends a
        -- database-store notification (it does unless it fails in its own validation) — the
        -- DISCOVER + REQUEST of `mac2` that the harness runs inside that notification.  On HEAD
        -- the notification comes after the table is final, so this is the sequence of three ops.
        let (name, ins, inj) :=
          if name == "C10.addStaticInj" then
            ("C10.addStatic", ins.take 3, (ins.drop 3).head?.bind hexDecode)
          else (name, ins, none)
        match runP (pOp name) ins, implOut impl with
        | some op, some (r, o) =>
          if (match op.rawHost? with | some h => !ds.tab.has h | none => false) then (ds, "bad-op")
          else
            let (st0, mr) := step ds.tab.oracle ds.conf ds.st op
            let st1 := match inj with
              | some mac2 =>
                if mr.err == "gateway" || mr.err == "badMAC" || mr.err == "hostname" then st0 else
                let (sa, offer) := step ds.tab.oracle ds.conf st0 (.discover mac2)
                if offer.rc == 1 then (step ds.tab.oracle ds.conf sa (.request mac2 ds.conf.sid true offer.yi 0 [])).1 else sa
              | none => st0
            -- `writeDB` sorts with an unstable sort: if the file holds another sorted
            -- permutation of the same records, the model takes that order (`Op.reorder`,
            -- which checks that it is one)
            let st' := match o.disk with
              | some d => if st1.disk == some d then st1 else (step ds.tab.oracle ds.conf st1 (.reorder d)).1
              | none => st1
            let mo := obsOf ds.conf st'
            let model := String.intercalate "\t" (showReply mr ++ showObs mo ++ [fileToken ds.base st'])
            let agree := model == String.intercalate "\t" impl && decodesAlike ds.base impl o
            let why := specWhy ds.conf ds.prev op r o
            ({ ds with st := st', prev := o }, verdict agree why model)
        | some op, none =>
          -- the implementation panicked or printed something unreadable: the model still advances
          let (st', mr) := step ds.tab.oracle ds.conf ds.st op
          let mo := obsOf ds.conf st'
          let model := String.intercalate "\t" (showReply mr ++ showObs mo)
          ({ ds with st := st' }, verdict false (some "implementation-crashed") model)
        | none, _ => (ds, "bad-op")

def main : IO Unit := run stepLine DS.init
