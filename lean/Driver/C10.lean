import Driver.Proto
import AGH.Spec.DHCP
open Driver AGH AGH.C10

/-! Line-protocol driver of C10 (DHCPv4 lease table).  Block = `C10.reset` + operations. -/

abbrev P := StateT (List String) Option

def tok : P String := do
  match (← get) with
  | [] => failure
  | x :: xs => set xs; pure x

def pNat : P Nat := do
  match (← tok).toNat? with
  | some n => pure n
  | none => failure

def pBool : P Bool := do
  match parseBool (← tok) with
  | some b => pure b
  | none => failure

def pHex : P Bytes := do
  match hexDecode (← tok) with
  | some b => pure b
  | none => failure

def pMany {α : Type} (p : P α) : Nat → P (List α)
  | 0 => pure []
  | n + 1 => do
    let x ← p
    let xs ← pMany p n
    pure (x :: xs)

def pLease : P LeaseV := do
  let mac ← pHex
  let ip ← pNat
  let host ← pHex
  let st ← pBool
  let exp ← pNat
  pure { mac := mac, ip := ip, host := host, static := st, exp := exp }

def pPos : P (Option Nat) := do
  let t ← tok
  if t == "x" then pure none else
  match t.toNat? with
  | some n => pure (some n)
  | none => failure

def pEntry {κ : Type} (pk : P κ) : P (Entry κ) := do
  let k ← pk
  let pos ← pPos
  let l ← pLease
  pure { key := k, pos := pos, tgt := l }

def pBits : P (List Bool) := do
  let t ← tok
  let cs := t.toList
  if cs.all (fun ch => ch == '0' || ch == '1') then pure (cs.map (· == '1')) else failure

def pDisk : P (Option (List LeaseV)) := do
  let t ← tok
  if t == "nofile" then pure none else
  match t.toNat? with
  | some n => do
    let ls ← pMany pLease n
    pure (some ls)
  | none => failure

def pObs : P Obs := do
  let now ← pNat
  let n ← pNat
  let leases ← pMany pLease n
  let nh ← pNat
  let hosts ← pMany (pEntry pHex) nh
  let ni ← pNat
  let ips ← pMany (pEntry pNat) ni
  let bits ← pBits
  let extra ← pNat
  let disk ← pDisk
  pure { now := now, leases := leases, hosts := hosts, ips := ips, bits := bits, extraBits := extra, disk := disk }

def pInt : P Int := do
  let t ← tok
  if t.startsWith "-" then
    match (t.drop 1).toNat? with
    | some n => pure (-(n : Int))
    | none => failure
  else match t.toNat? with
    | some n => pure (n : Int)
    | none => failure

def pReply : P Reply := do
  let rc ← pInt
  let typ ← pNat
  let yi ← pNat
  let err ← tok
  pure { rc := rc, typ := typ, yi := yi, err := err }

def pEnd : P Unit := do
  match (← get) with
  | [] => pure ()
  | _ => failure

/-! canonical printing (same syntax as the harness) -/

def showLease (l : LeaseV) : List String :=
  [hexEncode l.mac, toString l.ip, hexEncode l.host, if l.static then "1" else "0", toString l.exp]

def showPos : Option Nat → String
  | none => "x"
  | some i => toString i

def insertBy {α : Type} (lt : α → α → Bool) (x : α) : List α → List α
  | [] => [x]
  | y :: ys => if lt x y then x :: y :: ys else y :: insertBy lt x ys

def sortBy {α : Type} (lt : α → α → Bool) (l : List α) : List α := l.foldl (fun acc x => insertBy lt x acc) []

def showObs (o : Obs) : List String :=
  let hosts := sortBy (fun (a b : Entry Bytes) => bytesLt a.key b.key) o.hosts
  let ips := sortBy (fun (a b : Entry Nat) => a.key < b.key) o.ips
  [toString o.now, toString o.leases.length] ++ o.leases.flatMap showLease ++
  [toString hosts.length] ++ hosts.flatMap (fun e => [hexEncode e.key, showPos e.pos] ++ showLease e.tgt) ++
  [toString ips.length] ++ ips.flatMap (fun e => [toString e.key, showPos e.pos] ++ showLease e.tgt) ++
  [String.ofList (o.bits.map (fun b => if b then '1' else '0')), toString o.extraBits] ++
  (match o.disk with
   | none => ["nofile"]
   | some d => [toString d.length] ++ d.flatMap showLease)

def showReply (r : Reply) : List String := [toString r.rc, toString r.typ, toString r.yi, r.err]

/-! driver state -/

structure Tab where
  rows : List (Bytes × Bool × Bytes × Bool)

def Tab.oracle (t : Tab) : Oracle :=
  { norm := fun raw => match t.rows.find? (fun r => r.1 == raw) with
      | some (_, err, norm, _) => if err then none else some norm
      | none => none
    valid := fun raw => match t.rows.find? (fun r => r.1 == raw) with
      | some (_, _, _, v) => v
      | none => false }

def Tab.has (t : Tab) (raw : Bytes) : Bool := t.rows.any (fun r => r.1 == raw)

structure DS where
  conf : Conf
  tab : Tab
  st : State
  prev : Obs
  ready : Bool

def DS.init : DS :=
  { conf := default, tab := ⟨[]⟩, st := State.init, prev := Obs.empty, ready := false }

def pRow : P (Bytes × Bool × Bytes × Bool) := do
  let raw ← pHex
  let err ← pBool
  let norm ← pHex
  let v ← pBool
  pure (raw, err, norm, v)

def pOp (name : String) : P Op := do
  match name with
  | "C10.discover" => do
    let m ← pHex
    pure (.discover m)
  | "C10.request" => do
    let m ← pHex
    let sid ← pNat
    let rp ← pBool
    let rip ← pNat
    let ci ← pNat
    let h ← pHex
    pure (.request m sid rp rip ci h)
  | "C10.decline" => do
    let m ← pHex
    let rp ← pBool
    let rip ← pNat
    let ci ← pNat
    pure (.decline m rp rip ci)
  | "C10.release" => do
    let m ← pHex
    let rp ← pBool
    let rip ← pNat
    let ci ← pNat
    pure (.release m rp rip ci)
  | "C10.addStatic" => do
    let m ← pHex
    let ip ← pNat
    let h ← pHex
    pure (.addStatic m ip h)
  | "C10.updStatic" => do
    let m ← pHex
    let ip ← pNat
    let h ← pHex
    pure (.updStatic m ip h)
  | "C10.rmStatic" => do
    let m ← pHex
    let ip ← pNat
    let h ← pHex
    pure (.rmStatic m ip h)
  | "C10.sleep" => do
    let d ← pNat
    pure (.sleep d)
  | "C10.restart" => pure .restart
  | _ => failure

def AGH.C10.Op.rawHost? : Op → Option Bytes
  | .request _ _ _ _ _ h => some h
  | .addStatic _ _ h => some h
  | .updStatic _ _ h => some h
  | _ => none

def runP {α : Type} (p : P α) (fs : List String) : Option α :=
  match (do let x ← p; pEnd; pure x).run fs with
  | some (x, _) => some x
  | none => none

def implOut (impl : List String) : Option (Reply × Obs) :=
  runP (do let r ← pReply; let o ← pObs; pure (r, o)) impl

def stepLine (ds : DS) (line : String) : DS × String :=
  match splitTab line with
  | [] => (ds, "bad-op")
  | name :: rest =>
    match splitArrow rest with
    | none => (ds, "bad-op")
    | some (ins0, impl) =>
      -- the trailing history tag of an operation line is not part of the case
      let ins := ins0.filter (fun f => !f.startsWith "h=")
      if name == "C10.reset" then
        let parsed := runP (do
          let gw ← pNat
          let mask ← pNat
          let start ← pNat
          let stop ← pNat
          let lt ← pNat
          let n ← pNat
          let rows ← pMany pRow n
          pure (({ gw := gw, maskLen := mask, start := start, stop := stop, leaseTime := lt, sid := 3232238082 } : Conf), rows)) ins
        match parsed with
        | none => (ds, "bad-op")
        | some (c, rows) =>
          let st := State.init
          -- the model's verdict on the configuration (`V4ServerConf.Validate`)
          let model :=
            if validate c then String.intercalate "\t" (showReply (Reply.api "ok") ++ showObs (obsOf c st))
            else "1\t0\t0\trejected"
          let agree := model == String.intercalate "\t" impl
          if impl == ["1", "0", "0", "rejected"] then
            -- the implementation refused the configuration: the block ends here
            ({ ds with ready := false }, verdict agree none model)
          else match implOut impl with
            | some (r, o) =>
              -- the implementation runs with this configuration (whatever the model thinks of it):
              -- the history is followed and monitored
              let why := specWhy c Obs.empty (.sleep 0) r o
              ({ conf := c, tab := ⟨rows⟩, st := st, prev := o, ready := true }, verdict agree why model)
            | none => (ds, "bad-op")
      else if !ds.ready then (ds, "bad-op")
      else
        match runP (pOp name) ins, implOut impl with
        | some op, some (r, o) =>
          if (match op.rawHost? with | some h => !ds.tab.has h | none => false) then (ds, "bad-op")
          else
            let (st', mr) := step ds.tab.oracle ds.conf ds.st op
            let mo := obsOf ds.conf st'
            let model := String.intercalate "\t" (showReply mr ++ showObs mo)
            let agree := model == String.intercalate "\t" impl
            let why := specWhy ds.conf ds.prev op r o
            ({ ds with st := st', prev := o }, verdict agree why model)
        | some op, none =>
          -- the implementation panicked or printed something unreadable: the model still advances
          let (st', mr) := step ds.tab.oracle ds.conf ds.st op
          let mo := obsOf ds.conf st'
          let model := String.intercalate "\t" (showReply mr ++ showObs mo)
          ({ ds with st := st' }, verdict false (some "implementation-crashed") model)
        | none, _ => (ds, "bad-op")

def main : IO Unit := run stepLine DS.init
