import Driver.Proto
import AGH.Spec.QLog
import AGH.Model.QLogJSON
open Driver AGH AGH.C07

/-! Line-protocol driver for C07 (query log).  Stateful: a block starts with
`C07.reset`.  See harness/querylog/c07_test.go for the line formats. -/

structure DSt where
  s : State
  g : Ghost
  /-- fake clock, ns since the block's base time -/
  clock : Int
  /-- full dumps (ids) or counts only -/
  full : Bool
  /-- time of the latest record submitted -/
  lastTs : Option Int := none
  /-- some record got a time not after the time of the record before it (the
  clock was stepped back): answers are judged by `specSearchStepped` -/
  stepped : Bool := false

structure DState where
  st : Option DSt := none

def joinWith (sep : String) (l : List String) : String := sep.intercalate l

def showIds (full : Bool) (l : List Entry) : String :=
  if full then (if l.isEmpty then "-" else joinWith "," (l.map fun e => toString e.id))
  else "#" ++ toString l.length

def showDump (full : Bool) (s : State) : List String :=
  [showIds full s.mem, showIds full s.cur, showIds full s.rot]

def parseIdList (s : String) : Option (List Nat) :=
  if s == "-" then some [] else (s.splitOn ",").mapM String.toNat?

/-- Items of a page: `id@client` or `id!@client` (payload differs); client hex. -/
def parseItems (s : String) : Option (List Item) :=
  if s == "-" then some [] else
  (s.splitOn ",").mapM fun it =>
    match it.splitOn "@" with
    | [idp, cl] => do
      let client ← hexDecode cl
      if idp.endsWith "!" then (idp.dropEnd 1).toString.toNat?.map (⟨·, false, client⟩)
      else idp.toNat?.map (⟨·, true, client⟩)
    | _ => none

def parseCount (s : String) : Option Nat :=
  if s.startsWith "#" then (s.drop 1).toString.toNat? else none

/-- Take `n` hex strings from the field list. -/
def takeHex : Nat → List String → Option (List Bytes × List String)
  | 0, fs => some ([], fs)
  | n + 1, f :: fs => do
    let b ← hexDecode f
    let (bs, rest) ← takeHex n fs
    pure (b :: bs, rest)
  | _ + 1, [] => none

def takeClients : Nat → List String → Option (List (Bytes × ClientInfo) × List String)
  | 0, fs => some ([], fs)
  | n + 1, id :: name :: ign :: fs => do
    let id ← hexDecode id
    let name ← hexDecode name
    let ign ← parseBool ign
    let (cs, rest) ← takeClients n fs
    pure ((id, { name := name, ignore := ign }) :: cs, rest)
  | _ + 1, _ => none

/-- `nRules rules… nHosts hosts…` → ignored hosts (the rules are for the harness). -/
def takeIgnored (fs : List String) : Option (List Bytes × List String) := do
  match fs with
  | nr :: rest =>
    let nr ← nr.toNat?
    let (_, rest) ← takeHex nr rest
    match rest with
    | nh :: rest =>
      let nh ← nh.toNat?
      takeHex nh rest
    | [] => none
  | [] => none

/-- Spec verdict on the implementation's dump. -/
def dumpSpec (d : DSt) (g : Ghost) (impl : List String) : Option String :=
  match impl with
  | [m, c, r] =>
    if d.full then
      match parseIdList m, parseIdList c, parseIdList r with
      | some m, some c, some r => specDump g m c r
      | _, _, _ => some "C07.dump-unreadable"
    else
      match parseCount m, parseCount c, parseCount r with
      | some m, some c, some r =>
        if m = countLoc .mem g.log ∧ c = countLoc .cur g.log ∧ r = countLoc .rot g.log then none
        else some "C07.log"
      | _, _, _ => some "C07.dump-unreadable"
  | _ => some "C07.dump-unreadable"

/-- Answer for a state-changing op: `pre` are extra observation fields before the dump. -/
def answerOp (cls : String) (d : DSt) (s' : State) (g' : Ghost) (clock' : Int) (pre : List String)
    (impl : List String) : DSt × String :=
  let modelObs := pre ++ showDump d.full s'
  let agree := modelObs == impl
  let spec :=
    if impl.take pre.length != pre then some "C07.op-result"
    else dumpSpec d g' (impl.drop pre.length)
  ({ d with s := s', g := g', clock := clock' }, verdict agree spec (joinWith "\t" (cls :: modelObs)))

def parseOlder (kind val : String) : Option OlderIn :=
  match kind with
  | "none" => some .absent
  | "rel" => val.toInt?.map .at
  | "rawbad" => some .bad
  | "rawzero" => some .zero
  | _ => none

def showOldest : Option Int → String
  | none => "-"
  | some t => toString t

def showResp (c : Conf) : Except Fault Resp → List String
  | .error _ => ["PANIC"]
  | .ok .bad => ["400", "-", "-"]
  | .ok (.ok es o) =>
    ["200", (if es.isEmpty then "-" else
      joinWith "," (es.map fun e => toString e.id ++ "@" ++ hexEncode (shownClient c e))), showOldest o]

def parseAnswer (impl : List String) : Option Answer :=
  match impl with
  | "PANIC" :: _ => some .crash
  | [code, items, oldest] => do
    let code ← code.toNat?
    if code != 200 then pure (.status code) else
    let items ← parseItems items
    let oldest ← (if oldest == "-" then some none else oldest.toInt?.map some)
    pure (.ok { items := items, oldest := oldest })
  | _ => none

def stepSearch (d : DSt) (ins impl : List String) : Option String := do
  match ins with
  | [scan, ok, ov, lim, off, srch, lowered, ascii, aerr, status] =>
    let scan ← scan.toNat?
    let req : Req := {
      older := ← parseOlder ok ov
      limitRaw := ← hexDecode lim
      offsetRaw := ← hexDecode off
      searchRaw := ← hexDecode srch
      loweredRaw := ← hexDecode lowered
      asciiRet := ← hexDecode ascii
      asciiErr := ← parseBool aerr
      statusRaw := ← hexDecode status }
    let scanDefault : Int := if scan = 0 then 50000 else scan
    let m := handle scanDefault d.s req
    let modelObs := showResp d.s.conf m
    let agree := (match impl with
      | "PANIC" :: _ => modelObs == ["PANIC"]
      | _ => modelObs == impl)
    let spec := match parseAnswer impl with
      | some a => if d.stepped then specSearchStepped d.g req a else specSearch d.g req a
      | none => some "C07.answer-unreadable"
    let cls := match m with
      | .error _ => "search:panic"
      | .ok .bad => "search:400"
      | .ok (.ok es _) => "search:200:" ++ toString es.length
    pure (verdict agree spec (joinWith "\t" (cls :: modelObs)))
  | _ => none

/-- `C07.add` (Add, then the flush goroutine it started runs) and `C07.addthen`
(Add, then clear / shutdown / restart BEFORE that goroutine runs, then it runs). -/
def addLike (d : DSt) (impl : List String) (t : Option Then) (isAt : Bool)
    (id dt qname cid ip ipAnon reason isF : String) : Option (DSt × String) := do
  let dt ← dt.toNat?
  -- `C07.addat`: the field is the record's time itself; the fake clock stays
  let clock := if isAt then d.clock else d.clock + dt
  let ts : Int := if isAt then dt else clock
  let e : Entry := {
    ts := ts, host := normalizeDomain (← hexDecode qname), cid := ← hexDecode cid, ip := ← hexDecode ip
    ipAnon := ← hexDecode ipAnon
    reason := ← reason.toNat?, isFiltered := ← parseBool isF, id := ← id.toNat? }
  let op : Op := match t with
    | none => .add e
    | some t => .addThen e t
  let s' := step d.s op
  let g' := gStep d.g op
  let spawned := (addRaw d.s e).tasks > d.s.tasks
  let back := match d.lastTs with
    | some l => decide (ts ≤ l)
    | none => false
  let kind : String := match t with
    | none => if isAt then (if back then "addat.back" else "addat") else "add"
    | some Then.clear => "addthen.clear"
    | some Then.shutdown => "addthen.shutdown"
    | some (Then.restart _ _ _) => "addthen.restart"
  let cls := kind ++ (if !d.s.conf.enabled then ".off" else if spawned then ".flush" else ".mem")
  -- the first observation field is the decode(encode e) = e test of the harness
  let (d', out) := answerOp cls d s' g' clock ["1"] impl
  let out := if impl.head? == some "0" then
    verdict (out.startsWith "AGREE") (some "C07.roundtrip") (joinWith "\t" (cls :: "1" :: showDump d.full s')) else out
  let d' := if d.s.conf.enabled then { d' with lastTs := some ts, stepped := d.stepped || back } else d'
  pure (d', out)

def stepOp (d : DSt) (op : String) (ins impl : List String) : Option (DSt × String) := do
  match op, ins with
  | "C07.add", [id, dt, qname, cid, ip, ipAnon, reason, isF, _variant] =>
    addLike d impl none false id dt qname cid ip ipAnon reason isF
  | "C07.addat", [id, rel, qname, cid, ip, ipAnon, reason, isF, _variant] =>
    addLike d impl none true id rel qname cid ip ipAnon reason isF
  | "C07.addthen", id :: dt :: qname :: cid :: ip :: ipAnon :: reason :: isF :: _variant :: thn =>
    let t : Then ← (match thn with
      | ["clear"] => some Then.clear
      | ["shutdown"] => some Then.shutdown
      | ["restart", m, f, en] => do pure (Then.restart (← m.toNat?) (← parseBool f) (← parseBool en))
      | _ => none)
    addLike d impl (some t) false id dt qname cid ip ipAnon reason isF
  | "C07.shutdown", [] =>
    pure (answerOp "shutdown" d (step d.s .shutdown) (gStep d.g .shutdown) d.clock [] impl)
  | "C07.rotate", [] =>
    let cls := if d.s.cur.isEmpty then "rotate.nofile" else "rotate"
    pure (answerOp cls d (step d.s .rotate) (gStep d.g .rotate) d.clock [] impl)
  -- the optional second field (a zero-byte current file is there when the
  -- check runs) is for the harness: to the model and to the spec "no current
  -- file" and "current file without a record" are the same state
  | "C07.rotcheck", dt :: touch =>
    if touch.length > 1 then none else
    let dt ← dt.toNat?
    let clock := d.clock + dt
    let s' := step d.s (.rotCheck clock)
    let cls := (if s'.rot == d.s.rot && s'.cur == d.s.cur then "rotcheck.keep" else "rotcheck.rotate") ++
      (if touch == ["1"] && d.s.cur.isEmpty then ".zerofile" else "")
    pure (answerOp cls d s' (gStep d.g (.rotCheck clock)) clock [] impl)
  | "C07.clear", [] =>
    pure (answerOp "clear" d (step d.s .clear) (gStep d.g .clear) d.clock [] impl)
  | "C07.restart", [m, f, en] =>
    let op : Op := .restart (← m.toNat?) (← parseBool f) (← parseBool en)
    pure (answerOp "restart" d (step d.s op) (gStep d.g op) d.clock [] impl)
  | "C07.putconf", en :: an :: ivl :: rest =>
    let en ← parseBool en
    let an ← parseBool an
    let ivl ← ivl.toInt?
    let (hosts, rest) ← takeIgnored rest
    if !rest.isEmpty then none else
    let op : Op := .putConf en an ivl hosts
    let code := if ivl < minIvlMs ∨ ivl > maxIvlMs then "422" else "200"
    pure (answerOp ("putconf." ++ code) d (step d.s op) (gStep d.g op) d.clock [code] impl)
  | "C07.clients", n :: rest =>
    let n ← n.toNat?
    let (tbl, rest) ← takeClients n rest
    if !rest.isEmpty then none else
    let op : Op := .setClients tbl
    pure (answerOp "clients" d (step d.s op) (gStep d.g op) d.clock [] impl)
  | "C07.search", _ =>
    pure (d, ← stepSearch d ins impl)
  | _, _ => none

def stepReset (ins impl : List String) : Option (DSt × String) := do
  match ins with
  | full :: m :: f :: en :: ivl :: rest =>
    let full ← parseBool full
    let (hosts, rest) ← takeIgnored rest
    match rest with
    | n :: rest =>
      let n ← n.toNat?
      let (tbl, rest) ← takeClients n rest
      if !rest.isEmpty then none else
      let c : Conf := { enabled := ← parseBool en, fileEnabled := ← parseBool f, memSize := ← m.toNat?, anonymize := false
                        ivl := (← ivl.toInt?) * msNs, ignored := hosts, clients := tbl }
      let d : DSt := { s := init c, g := gInit c, clock := 0, full := full }
      pure (answerOp "reset" d d.s d.g 0 [] impl)
    | [] => none
  | _ => none

/-- The constants the model hard-codes, as the `C07.consts` line lists them. -/
def modelConsts : List String :=
  let emptyReq : Req := { older := .absent, limitRaw := [], offsetRaw := [], searchRaw := [], loweredRaw := [],
                          asciiRet := [], asciiErr := false, statusRaw := [] }
  let defaults : List String := match parseParams 50000 emptyReq with
    | some p => [toString p.limit, toString p.scan, toString p.offset]
    | none => ["?", "?", "?"]
  defaults ++ [toString statusNames.length] ++ statusNames.map (fun x => hexEncode x.1) ++
    [toString reasonNames.length] ++
    (List.range reasonNames.length).map (fun i =>
      match reasonNames.find? (fun x => x.1 == i) with
      | some x => hexEncode (AGH.Bytes.ofString x.2)
      | none => "?") ++
    [hexEncode (AGH.Bytes.ofString logFileName), toString maxEntrySize, toString readBufferSize]

def step' (d : DState) (line : String) : DState × String :=
  let fs := splitTab line
  match fs with
  | [] => (d, "bad-op")
  | op :: rest =>
    match splitArrow rest with
    | none => (d, "bad-op")
    | some (ins, impl) =>
      if op == "C07.fold" then
        match ins with
        | [ax, bx] =>
          match hexDecode ax, hexDecode bx with
          | some a, some b =>
            let modelObs := [if equalFold a b then "1" else "0", if containsFold a b then "1" else "0"]
            -- the spec's relation, on what the IMPLEMENTATION answered
            let want := if containsSpec a b then "1" else "0"
            let spec := match impl with
              | [_, c] => if c == want then none else some "C07.contains-fold"
              | _ => some "C07.answer-unreadable"
            let cls := "fold:" ++ (if equalFold a b then "eq" else if containsFold a b then "sub" else "no")
            (d, verdict (modelObs == impl) spec (joinWith "\t" (cls :: modelObs)))
          | _, _ => (d, "bad-op")
        | _ => (d, "bad-op")
      else if op == "C07.str" then
        match ins, impl with
        | [sx], [encx, rawx, rt] =>
          match hexDecode sx, hexDecode encx with
          | some sb, some enc =>
            let menc := escape sb
            let mraw := rawValue (menc ++ 34 :: [44])
            let modelObs := [hexEncode menc, hexEncode mraw, "1"]
            -- the model decoder on the REAL encoder's bytes
            let spec := if unescape enc != some sb then some "C07.json-string-decode"
              else if rt != "1" then some "C07.json-string-roundtrip" else none
            let cls := if jsonEscaped sb then "str.escaped" else "str.raw"
            (d, verdict (modelObs == [encx, rawx, rt]) spec (joinWith "\t" (cls :: modelObs)))
          | _, _ => (d, "bad-op")
        | _, _ => (d, "bad-op")
      else if op == "C07.consts" then
        let agree := modelConsts == impl
        (d, verdict agree (if agree then none else some "C07.consts") (joinWith "\t" ("consts" :: modelConsts)))
      else if op == "C07.reset" then
        match stepReset ins impl with
        | some (st, o) => ({ st := some st }, o)
        | none => ({ st := none }, "bad-op")
      else
        match d.st with
        | none => (d, "bad-op")
        | some st =>
          match stepOp st op ins impl with
          | some (st', o) => ({ st := some st' }, o)
          | none => (d, "bad-op")

def main : IO Unit := run step' {}
