import Driver.Proto
import AGH.Spec.Auth
open Driver AGH.C12

structure DSt where
  st : St
  sp : Spec
  now : Nat
  mslots : FMap Nat   -- slot → token, by the model's results
  islots : FMap Nat   -- slot → token, by the implementation's results
  ok : Bool
  dbOK : Bool := true      -- sessions.db can be written
  fix : Bool := false      -- code level: horizon repair present
  fixB : Bool := false     -- code level: Basic-auth repair present
  faulted : Bool := false  -- some operation of this block ran while it could not
  floodNext : Nat := 1000  -- next never-used address number for C12.flood

def startNs : Nat := 946684800 * nsPerSec   -- synctest bubbles start at 2000-01-01T00:00:00Z

def DSt.init : DSt := ⟨St.init 0 0 0, Spec.init 0 0 0, startNs, FMap.empty, FMap.empty, false, true, false, false, false, 1000⟩

def nAddrs : Nat := 16

def dumpMap {β} (m : FMap β) (n : Nat) (f : Nat → β → List String) : List String :=
  let items := (List.range n).filterMap (fun k => (m k).map (f k))
  toString items.length :: items.flatten

def userName (k : Nat) : List Nat := [117, 48 + k]   -- "u<k>"

def showDumpF (floodNext : Nat) (st : St) : List String :=
  (match st.rl with
   | none => ["R", "off"]
   | some l => "R" :: dumpMap l.recs nAddrs (fun k r => [toString k, toString r.untl, toString r.num]) ++
       -- records of the addresses of floods: their number only
       ["F", toString ((List.range (floodNext - 1000)).filter (fun j => (l.recs (1000 + j)).isSome)).length]) ++
  ("M" :: dumpMap st.mem st.nextTok (fun k s => [toString k, toString s.expire, toString s.user])) ++
  -- the bucket: raw record bytes as session.serialize writes them
  ("D" :: dumpMap st.db st.nextTok (fun k s => [toString k, hexEncode (encodeSess (userName s.user) s.expire)]))

def showLogin : LoginRes → List String
  | .tooMany r => ["429", toString r, "-"]
  | .forbidden => ["403", "-", "-"]
  | .ok tok => ["200", "-", toString tok]
  | .passed => ["pass", "-", "-"]

def parseLogin : List String → Option LoginRes
  | "429" :: r :: _ => r.toNat?.map .tooMany
  | "403" :: _ => some .forbidden
  | "200" :: _ :: tok :: _ => tok.toNat?.map .ok
  | _ => none

def bogusTok (slot : Nat) : Nat := 1000000000 + slot

def finish (d : DSt) (op : Op) (obsM : Obs) (st' : St) (implObs : Option Obs) (modelStr : List String)
    (impl : List String) (cls : String) (ms is : FMap Nat) : DSt × String :=
  let mstr := "\t".intercalate modelStr
  let agree := mstr == "\t".intercalate impl
  match implObs with
  | none => ({ d with st := st', mslots := ms }, verdict false (some (cls ++ ":unparsable")) mstr)
  | some io =>
    let ok := specOK d.sp d.now op io
    let sp' := (specStep d.sp d.now op io).2
    let _ := obsM
    let cls' := if !noWrap d.sp d.now then cls ++ ":uint32-horizon"
      else if d.faulted || !d.dbOK then cls ++ ":after-db-write-failure" else cls
    ({ d with st := st', sp := sp', mslots := ms, islots := is, faulted := d.faulted || !d.dbOK },
     verdict agree (if ok then none else some cls') mstr)

def step1 (d : DSt) (line : String) : DSt × String :=
  let fs := splitTab line
  match fs with
  | op :: rest =>
    match splitArrow rest with
    | none => (d, "bad-op")
    | some (ins, impl) =>
      match op, ins.map String.toNat? with
      | "C12.reset", [some ma, some bm, some ttl, some _] =>
        -- no code level in the line (corpus): the harness reports its own with the answer
        let fix := ((impl.drop 1).headD "0").toNat?.getD 0
        (⟨St.init ma bm ttl, Spec.init ma bm ttl, startNs, FMap.empty, FMap.empty, true, true,
          fix / 2 % 2 == 1, fix % 2 == 1, false, 1000⟩,
         verdict (impl.headD "" == "ok") none "ok")
      | "C12.reset", [some ma, some bm, some ttl, some _, some fix] =>
        -- code level: bit 1 = horizon repair, bit 0 = Basic-auth repair
        (⟨St.init ma bm ttl, Spec.init ma bm ttl, startNs, FMap.empty, FMap.empty, true, true,
          fix / 2 % 2 == 1, fix % 2 == 1, false, 1000⟩,
         verdict (impl.headD "" == "ok") none "ok")
      | "C12.callorder", [] =>
        -- extracted facts: handleLogin asks the limiter before newCookie (which evaluates the
        -- password); newCookie stores the session before it builds the cookie; checkBasicAuth
        -- returns on a block before findUser
        let want := "check<newCookie;addSession<cookie;check<findUser"
        (d, verdict (impl == [want]) (if impl == [want] then none else some "C12.call-order") want)
      | "C12.basic", [some _, some peer, some _, some good, some strict] =>
        if !d.ok then (d, "bad-op") else
        let req : Req := ⟨peer, none, false⟩
        let o := Op.basic req (good == 1)
        let r := stepFX d.fix d.fixB d.st d.now d.dbOK o
        let passed := match r.1 with | .login .passed => true | _ => false
        let mstr := "\t".intercalate ((if passed then "1" else "0") :: showDumpF d.floodNext r.2)
        -- HTTP shows only let through / refused; a refusal is read as the answer the spec allows
        let authed := impl.headD "" == "1"
        let io : LoginRes := if authed then .passed
          else if mustReject d.sp peer d.now then .tooMany 0 else .forbidden
        -- the monitor counts Basic credentials as a login attempt at the repaired code level
        -- (or with VERIF_C12_EXTRA=basic); below it the tree ignores them and so does the monitor
        if d.fixB || strict == 1 then
          let s := specStep d.sp d.now o (.login io)
          ({ d with st := r.2, sp := s.2 }, verdict (mstr == "\t".intercalate impl)
            (if s.1 then none else some "C12.throttle:basic-auth") mstr)
        else ({ d with st := r.2 }, verdict (mstr == "\t".intercalate impl) none mstr)
      | "C12.sleep", [some ns] =>
        if !d.ok then (d, "bad-op") else
        ({ d with now := d.now + ns }, verdict (impl == ["ok"]) none "ok")
      | "C12.logoutorder", [] =>
        -- extracted fact: in removeSession the map entry is deleted before the file entry
        -- (hypothesis `.memFirst` of C12_logout_final_interleaved)
        (d, verdict (impl == ["memfirst"]) (if impl == ["memfirst"] then none else some "C12.logout-order") "memfirst")
      | "C12.flood", [some n] =>
        -- n failed logins from n never-seen addresses, straight at the limiter
        if !d.ok then (d, "bad-op") else
        let st' := flood d.st d.now d.floodNext n
        let d' := { d with st := st', floodNext := d.floodNext + n }
        let mstr := "\t".intercalate ("ok" :: showDumpF d'.floodNext st')
        (d', verdict (mstr == "\t".intercalate impl) none mstr)
      | "C12.heldprobe", [some form, some _, some peer, some good, some _] =>
        -- is the password evaluated?  (observed on the real code as "parks in findUser")
        if !d.ok || form > 1 then (d, "bad-op") else
        let req : Req := ⟨peer, none, false⟩
        let o : Op := if form == 0 then .login req false 0 else .basic req (good == 1)
        let r := stepFX d.fix d.fixB d.st d.now d.dbOK o
        let evaluated := r.2.evals != d.st.evals
        let resStr := match r.1 with
          | .login (.tooMany _) => if form == 0 then "429" else "0"
          | .login .forbidden => if form == 0 then "403" else "0"
          | .login .passed => "1"
          | _ => "?"
        let mstr := "\t".intercalate ((if evaluated then "1" else "0") :: resStr :: showDumpF d.floodNext r.2)
        let iEval := impl.headD "" == "1"
        let rej := mustReject d.sp peer d.now && (form == 0 || d.fixB)
        -- keep the monitor's count in step with what was observed
        let io : LoginRes := match (impl.drop 1).headD "" with
          | "1" => .passed | "429" => .tooMany 0 | "403" => .forbidden
          | _ => if mustReject d.sp peer d.now then .tooMany 0 else .forbidden
        let sp' := if form == 1 && !d.fixB then d.sp else (specStep d.sp d.now o (.login io)).2
        ({ d with st := r.2, sp := sp' }, verdict (mstr == "\t".intercalate impl)
          (if rej && iEval then some "C12.evaluated-while-blocked" else none) mstr)
      | "C12.findusersites", [] =>
        -- extracted fact: the functions of package home that call findUser
        let want := "checkBasicAuth getCurrentUser newCookie"
        (d, verdict (impl == [want]) (if impl == [want] then none else some "C12.finduser-sites") want)
      | "C12.areq", [some _, some peer, some ck, some slot, some ak, some _] =>
        -- a request to a protected route: cookie form x Authorization form
        if !d.ok || ck > 7 || ak > 8 then (d, "bad-op") else
        let tokOf (slots : FMap Nat) : CookieForm :=
          if ck == 0 then .absent
          else if ck == 1 || ck == 5 || ck == 7 then .token ((slots slot).getD (bogusTok slot))
          else .token (bogusTok (100 + slot))   -- unknown / malformed / upper-cased / bogus first
        let af : AuthForm := if ak == 0 then .absent else if ak == 1 then .basic true
          else if ak == 2 || ak == 3 || ak ≥ 6 then .basic false else .unparsed
        let req : Req := ⟨peer, none, false⟩
        let authed := impl.headD "" == "1"
        match authOp (tokOf d.mslots) af req, authOp (tokOf d.islots) af req with
        | none, _ =>
          let mstr := "\t".intercalate ("0" :: showDumpF d.floodNext d.st)
          (d, verdict (mstr == "\t".intercalate impl) (if authed then some "C12.session" else none) mstr)
        | some om, oi =>
          let r := stepFX d.fix d.fixB d.st d.now d.dbOK om
          let passed := match r.1 with | .auth b => b | .login .passed => true | _ => false
          let mstr := "\t".intercalate ((if passed then "1" else "0") :: showDumpF d.floodNext r.2)
          let oi := oi.getD om
          let io : Obs := match oi with
            | .basic _ _ => .login (if authed then .passed else if mustReject d.sp peer d.now then .tooMany 0 else .forbidden)
            | _ => .auth authed
          let skip := match oi with | .basic _ _ => !d.fixB | _ => false
          if skip then ({ d with st := r.2 }, verdict (mstr == "\t".intercalate impl) none mstr) else
          let ok := specOK d.sp d.now oi io
          let s := specStep d.sp d.now oi io
          let cls := match oi with | .basic _ _ => "C12.throttle:basic-auth" | _ => "C12.session"
          let cls' := if !noWrap d.sp d.now then cls ++ ":uint32-horizon" else cls
          ({ d with st := r.2, sp := s.2 }, verdict (mstr == "\t".intercalate impl) (if ok then none else some cls') mstr)
      | "C12.loginlock", [] =>
        -- fact: controlLock is held while the registered login handler evaluates the password
        -- (hypothesis `lock = true` of C12_logins_serialised_under_lock)
        (d, verdict (impl == ["held"]) (if impl == ["held"] then none else some "C12.login-lock") "held")
      | "C12.burst", [some _, some peer, some k] =>
        if !d.ok then (d, "bad-op") else
        -- K simultaneous wrong passwords: serialised, i.e. one after the other
        let req : Req := ⟨peer, none, false⟩
        let run := (List.range k).foldl (fun (acc : St × Nat × Nat) _ =>
          let r := handleLogin acc.1 d.now req false 0
          match r.1 with
          | .forbidden => (r.2, acc.2.1 + 1, acc.2.2)
          | _ => (r.2, acc.2.1, acc.2.2 + 1)) (d.st, 0, 0)
        let mstr := "\t".intercalate ([toString run.2.1, toString run.2.2, "0"] ++ showDumpF d.floodNext run.1)
        -- monitor: the observed answers, the evaluated ones first, must each be allowed
        let i403 := (impl.headD "x").toNat?.getD 0
        let i429 := ((impl.drop 1).headD "x").toNat?.getD 0
        let iOther := ((impl.drop 2).headD "x").toNat?.getD 1
        let obsList : List LoginRes := List.replicate i403 .forbidden ++ List.replicate i429 (.tooMany 0)
        let fin := obsList.foldl (fun (acc : Bool × Spec) r =>
          let s := specStep acc.2 d.now (.login req false 0) (.login r)
          (acc.1 && s.1, s.2)) (true, d.sp)
        let ok := fin.1 && iOther == 0 && i403 + i429 == k
        ({ d with st := run.1, sp := fin.2 },
         verdict (mstr == "\t".intercalate impl) (if ok then none else some "C12.throttle:burst") mstr)
      | "C12.logoutrace", [some slot] =>
        if !d.ok || !d.dbOK then (d, "bad-op") else
        let tokM := (d.mslots slot).getD (bogusTok slot)
        let r := logoutRace .memFirst d.st d.now tokM
        -- the racing request may go either way; the monitor only records the logout
        let sp' := (specStep d.sp d.now (.logout ((d.islots slot).getD (bogusTok slot))) .done).2
        let mstr := "\t".intercalate ((if r.1 then "1" else "0") :: showDumpF d.floodNext r.2)
        ({ d with st := r.2, sp := sp' }, verdict (mstr == "\t".intercalate impl) none mstr)
      | "C12.dbfail", [some b] =>
        if !d.ok || b > 1 then (d, "bad-op") else
        ({ d with dbOK := b == 0 }, verdict (impl == ["ok"]) none "ok")
      | "C12.login", [some _, some peer, some _, some _, some _, some _, some _, some hdr, some tr,
                      some good, some user, some slot] =>
        if !d.ok || good > 1 || tr > 1 then (d, "bad-op") else
        -- 999 = no proxy header yielded an address
        let o := Op.login ⟨peer, if hdr == 999 then none else some hdr, tr == 1⟩ (good == 1) user
        let r := stepFX d.fix d.fixB d.st d.now d.dbOK o
        let lr := match r.1 with | .login lr => lr | _ => .forbidden
        let ms := match lr with | .ok tok => d.mslots.set slot tok | _ => d.mslots
        let il := parseLogin impl
        let is := match il with | some (.ok tok) => d.islots.set slot tok | _ => d.islots
        finish d o r.1 r.2 (il.map Obs.login) (showLogin lr ++ showDumpF d.floodNext r.2) impl "C12.throttle" ms is
      | "C12.req", [some slot] =>
        if !d.ok then (d, "bad-op") else
        let r := stepFX d.fix d.fixB d.st d.now d.dbOK (.request ((d.mslots slot).getD (bogusTok slot)))
        let b := match r.1 with | .auth b => b | _ => false
        let io := match impl with
          | "1" :: _ => some (Obs.auth true) | "0" :: _ => some (Obs.auth false) | _ => none
        finish d (.request ((d.islots slot).getD (bogusTok slot))) r.1 r.2 io
          ((if b then "1" else "0") :: showDumpF d.floodNext r.2) impl "C12.session" d.mslots d.islots
      | "C12.logout", [some slot] =>
        if !d.ok then (d, "bad-op") else
        let r := stepFX d.fix d.fixB d.st d.now d.dbOK (.logout ((d.mslots slot).getD (bogusTok slot)))
        finish d (.logout ((d.islots slot).getD (bogusTok slot))) r.1 r.2
          (match impl with | "ok" :: _ => some Obs.done | _ => none)
          ("ok" :: showDumpF d.floodNext r.2) impl "C12.session" d.mslots d.islots
      | "C12.restart", [] =>
        if !d.ok then (d, "bad-op") else
        let r := stepFX d.fix d.fixB d.st d.now true .restart
        finish { d with dbOK := true } .restart r.1 r.2 (match impl with | "ok" :: _ => some Obs.done | _ => none)
          ("ok" :: showDumpF d.floodNext r.2) impl "C12.session" d.mslots d.islots
      | _, _ => (d, "bad-op")
  | [] => (d, "bad-op")

def main : IO Unit := run step1 DSt.init
