import Driver.Proto
import AGH.Spec.HashPrefix
open Driver AGH AGH.C19

/-- Driver state of one block. -/
structure St where
  cf : Conf
  db : List Hash
  cache : Cache
  now : Nat
  ok : Bool     -- a reset line has been seen
  base : Nat := 0   -- Unix second of model time 0 (read off the clock by the harness)

def St.init : St := ⟨⟨[], 0⟩, [], Cache.new 0, 0, false, 0⟩

abbrev P := StateT (List String) Option

def tok : P String := fun s => match s with | [] => none | x :: r => some (x, r)
def pNat : P Nat := do let t ← tok; match t.toNat? with | some n => pure n | none => failure
def pBool : P Bool := do let t ← tok; match parseBool t with | some b => pure b | none => failure
def pHex : P Bytes := do let t ← tok; match hexDecode t with | some b => pure b | none => failure
def pMany {α} (n : Nat) (p : P α) : P (List α) :=
  match n with
  | 0 => pure []
  | k + 1 => do let x ← p; let xs ← pMany k p; pure (x :: xs)
def pList {α} (p : P α) : P (List α) := do let n ← pNat; pMany n p
def pEnd : P Unit := fun s => match s with | [] => some ((), []) | _ => none

def showVerdict : Verdict → String
  | .blocked true => "1" | .blocked false => "0" | .upstreamErr => "err"

/-- the cache as golibs/cache holds it: key and raw value bytes, least recently used first -/
def showDump (base : Nat) (c : Cache) : List String :=
  toString c.lru.length :: c.lru.flatMap (fun it => [hexEncode it.key, hexEncode (encodeItem base it)])

def showOut (base : Nat) (o : Outcome) (c : Cache) : String :=
  "\t".intercalate ([showVerdict o.verdict,
    (match o.question with | some _ => "1" | none => "0"),
    (match o.question with | some q => hexEncode q | none => "-")] ++ showDump base c)

def perms {α} : List α → List (List α)
  | [] => [[]]
  | x :: xs => (perms xs).flatMap (fun p => (List.range (p.length + 1)).map (fun i => p.take i ++ x :: p.drop i))

def parseVerdict (s : String) : Option Verdict :=
  match s with
  | "1" => some (.blocked true) | "0" => some (.blocked false) | "err" => some .upstreamErr | _ => none

def stepCheck (st : St) (ins impl : List String) : Option (St × String) := do
  let ((host, ps, icann, pairs, sc), _) ← (do
      let host ← pHex; let ps ← pHex; let icann ← pBool
      let pairs ← pList (do let s ← pHex; let h ← pHex; pure (s, h))
      let err ← pBool; let upper ← pBool; let chunk ← pNat; let nonTXT ← pBool
      let junk ← pList pHex
      pEnd
      pure (host, ps, icann, pairs, (⟨err, upper, chunk, nonTXT, junk⟩ : Script)) : P _).run ins
  -- the oracle must cover every name the model or the spec may hash
  if !(subdomains host).all (fun s => (pairs.lookup s).isSome) then none
  if !pairs.all (fun p => p.2.length == 32) then none
  let H : Bytes → Hash := fun s => (pairs.lookup s).getD []
  let hashes := hostnameToHashes H ps icann host
  let exch := serve st.db sc
  let implStr := "\t".intercalate impl
  let run (ord : List Hash → List (Prefix × List Hash)) := check st.cf st.now hashes exch ord st.cache
  let canon := run canonGroups
  -- Go's map iteration order is not determined: accept any order of the groups
  let pick : Outcome × Cache :=
    if showOut st.base canon.1 canon.2 == implStr then canon else
    match canon.1.question.bind exch with
    | none => canon
    | some answer =>
      let gs := canonGroups (receivedHashes answer)
      if gs.length < 2 || gs.length > 6 then canon else
      match (perms gs).find? (fun p => validGroups (receivedHashes answer) p &&
          (let r := run (fun _ => p); showOut st.base r.1 r.2 == implStr)) with
      | some p => run (fun _ => p)
      | none => canon
  let modelStr := showOut st.base pick.1 pick.2
  -- monitor on the implementation's observation
  let (iv, iasked, iq) ← (match impl with
    | v :: a :: q :: _ => do
      let v ← parseVerdict v; let a ← parseBool a; let q ← hexDecode q
      pure (v, a, q)
    | _ => none)
  let io : Outcome := ⟨iv, if iasked then some iq else none⟩
  let ci : CheckIn := ⟨st.cf.suffix, st.db, host, ps, icann, H, sc.err⟩
  let agree := modelStr == implStr
  let spec : Option String :=
    if specOK ci io then none
    else if !(privacyOK H st.cf.suffix ps icann host io.question) then some "C19.privacy"
    else if agree && !(cacheComplete st.db pick.2 && cacheComplete st.db st.cache) then
      some "C19.verdict:small-cache-poisoned"
    else some "C19.verdict"
  pure ({ st with cache := pick.2 }, verdict agree spec modelStr)

def showReason : HostReason → String
  | .notFiltered => "none" | .safeBrowsing => "sb" | .parental => "pc" | .failed => "err"

def parseReason (s : String) : Option HostReason :=
  match s with
  | "none" => some .notFiltered | "sb" => some .safeBrowsing | "pc" => some .parental | "err" => some .failed
  | _ => none

def showQ : Option Bytes → String
  | none => "-"
  | some q => hexEncode q

def parseQ (s : String) : Option (Option Bytes) :=
  if s == "-" then some none else (hexDecode s).map some

/-- C19.host: one CheckHost call with fresh checkers (stateless). -/
def stepHost (ins impl : List String) : Option String := do
  let ((host, setts, sufS, sufP, ps, icann, pairs, dbS, dbP), _) ← (do
      let host ← pHex
      let f ← pBool; let sb ← pBool; let pc ← pBool; let pr ← pBool
      let sufS ← pHex; let sufP ← pHex; let ps ← pHex; let icann ← pBool
      let pairs ← pList (do let s ← pHex; let h ← pHex; pure (s, h))
      let dbS ← pList pHex; let dbP ← pList pHex
      pEnd
      pure (host, (⟨f, sb, pc, pr⟩ : HostSetts), sufS, sufP, ps, icann, pairs, dbS, dbP) : P _).run ins
  let name := AGH.Bytes.lower host
  if !(subdomains name).all (fun s => (pairs.lookup s).isSome) then none
  if !pairs.all (fun p => p.2.length == 32) || !(dbS ++ dbP).all (fun h => h.length == 32) then none
  if sufS.isEmpty || sufP.isEmpty then none
  let H : Bytes → Hash := fun s => (pairs.lookup s).getD []
  let psOf : Bytes → Bytes × Bool := fun _ => (ps, icann)
  let m := checkHostSB setts sufS sufP H psOf (serve dbS plainScript) (serve dbP plainScript) host
  let showO (o : HostOut) := "\t".intercalate [showReason o.reason, showQ o.sbQuestion, showQ o.pcQuestion]
  let io : HostOut ← (match impl with
    | [r, a, b] => do pure ⟨← parseReason r, ← parseQ a, ← parseQ b⟩
    | _ => none)
  let ci : HostIn := ⟨setts, sufS, sufP, dbS, dbP, host, H, psOf⟩
  let spec : Option String :=
    if hostSpecOK ci io then none
    else if io.reason == hostVerdict ci then some "C19.host-privacy" else some "C19.host-verdict"
  pure (verdict (showO m == "\t".intercalate impl) spec (showO m))

/-- C19.par: overlapping lookups on the block's Checker — every lookup scans the
cache (in the order given), then those that have to ask get their answer and
store it (in the same order). -/
def stepPar (st : St) (ins impl : List String) : Option (St × String) := do
  let (calls, _) ← (do
      let calls ← pList (do
        let host ← pHex; let ps ← pHex; let icann ← pBool
        let pairs ← pList (do let s ← pHex; let h ← pHex; pure (s, h))
        pure (host, ps, icann, pairs))
      pEnd
      pure calls : P _).run ins
  if !calls.all (fun c => (subdomains c.1).all (fun s => (c.2.2.2.lookup s).isSome) &&
      c.2.2.2.all (fun p => p.2.length == 32)) then none
  let exch := serve st.db plainScript
  let hOf (c : Bytes × Bytes × Bool × List (Bytes × Hash)) : Bytes → Hash := fun s => (c.2.2.2.lookup s).getD []
  -- phase 1: the cache scans
  let ph1 := calls.foldl (fun (acc : Cache × List (Option (List Hash) × Outcome)) c =>
    match findInCache st.now (hostnameToHashes (hOf c) c.2.1 c.2.2.1 c.1) acc.1 with
    | (.cached b, c1) => (c1, acc.2 ++ [(none, ⟨.blocked b, none⟩)])
    | (.ask toReq, c1) => (c1, acc.2 ++ [(some toReq, ⟨.upstreamErr, none⟩)])) (st.cache, [])
  -- phase 2: exchange and store
  let ph2 := ph1.2.foldl (fun (acc : Cache × List Outcome) r =>
    match r.1 with
    | none => (acc.1, acc.2 ++ [r.2])
    | some toReq =>
      let a := checkAnswer st.cf st.now toReq exch canonGroups acc.1
      (a.2, acc.2 ++ [a.1])) (ph1.1, [])
  let showCall (o : Outcome) := [showVerdict o.verdict,
    (match o.question with | some _ => "1" | none => "0"),
    (match o.question with | some q => hexEncode q | none => "-")]
  let modelStr := "\t".intercalate (ph2.2.flatMap showCall ++ showDump st.base ph2.1)
  -- monitor: every call against ITS OWN name
  let rec mon (cs : List (Bytes × Bytes × Bool × List (Bytes × Hash))) (im : List String) : Option String :=
    match cs, im with
    | [], _ => none
    | c :: cs', v :: a :: q :: im' =>
      match parseVerdict v, parseBool a, hexDecode q with
      | some iv, some ia, some iq =>
        let io : Outcome := ⟨iv, if ia then some iq else none⟩
        let ci : CheckIn := ⟨st.cf.suffix, st.db, c.1, c.2.1, c.2.2.1, hOf c, false⟩
        if specOK ci io then mon cs' im'
        else if !(privacyOK (hOf c) st.cf.suffix c.2.1 c.2.2.1 c.1 io.question) then some "C19.foreign-prefix-sent"
        else some "C19.verdict:concurrent"
      | _, _, _ => some "C19.par:unparsable"
    | _, _ => some "C19.par:unparsable"
  pure ({ st with cache := ph2.1 }, verdict (modelStr == "\t".intercalate impl) (mon calls impl) modelStr)

def step (st : St) (line : String) : St × String :=
  let fs := splitTab line
  match fs with
  | "C19.reset" :: rest =>
    match splitArrow rest with
    | some (ins, impl) =>
      match ((do
          let ttl ← pNat; let maxSize ← pNat; let suffix ← pHex
          let db ← pList pHex
          pEnd
          pure (ttl, maxSize, suffix, db) : P _).run ins) with
      | some ((ttl, maxSize, suffix, db), _) =>
        if !db.all (fun h => h.length == 32) then (st, "bad-op") else
        let base := ((impl.drop 1).headD "0").toNat?.getD 0
        (⟨⟨suffix, ttl⟩, db, Cache.new maxSize, 0, true, base⟩, verdict (impl.headD "" == "ok") none "ok")
      | none => (st, "bad-op")
    | none => (st, "bad-op")
  | "C19.checkfields" :: rest =>
    -- extracted fact: the Checker fields the body of Check touches (the request is built from locals)
    match splitArrow rest with
    | some (_, impl) =>
      (st, verdict (impl == ["svc upstream"]) (if impl == ["svc upstream"] then none else some "C19.shared-request-state")
        "svc upstream")
    | none => (st, "bad-op")
  | "C19.par" :: rest =>
    match splitArrow rest with
    | some (ins, impl) =>
      if !st.ok then (st, "bad-op") else
      match stepPar st ins impl with
      | some r => r
      | none => (st, "bad-op")
    | none => (st, "bad-op")
  | "C19.consts" :: rest =>
    -- extracted constants of hashprefix.go against the model's (`C19_constants`)
    let want := " ".intercalate ([prefixLen, hashSize, hexSize, subDomainNum, expirySize].map toString)
    match splitArrow rest with
    | some (_, impl) =>
      (st, verdict (impl == [want]) (if impl == [want] then none else some "C19.constants") want)
    | none => (st, "bad-op")
  | "C19.host" :: rest =>
    match splitArrow rest with
    | some (ins, impl) => (st, (stepHost ins impl).getD "bad-op")
    | none => (st, "bad-op")
  | "C19.steer" :: rest =>
    -- the harness slept until the clock had the wanted low bytes; the time slept is read off its answer
    match splitArrow rest with
    | some ([_, _], impl) =>
      match ((impl.drop 1).headD "x").toNat? with
      | some dd => if st.ok then ({ st with now := st.now + dd }, verdict (impl.headD "" == "ok") none "ok") else (st, "bad-op")
      | none => (st, "bad-op")
    | _ => (st, "bad-op")
  | "C19.sleep" :: rest =>
    match splitArrow rest with
    | some ([d], impl) =>
      match d.toNat? with
      | some d => if st.ok then ({ st with now := st.now + d }, verdict (impl == ["ok"]) none "ok") else (st, "bad-op")
      | none => (st, "bad-op")
    | _ => (st, "bad-op")
  | "C19.setdb" :: rest =>
    match splitArrow rest with
    | some (ins, impl) =>
      match ((do let db ← pList pHex; pEnd; pure db : P _).run ins) with
      | some (db, _) =>
        if !st.ok || !db.all (fun h => h.length == 32) then (st, "bad-op") else
        ({ st with db := db }, verdict (impl == ["ok"]) none "ok")
      | none => (st, "bad-op")
    | none => (st, "bad-op")
  | "C19.check" :: rest =>
    match splitArrow rest with
    | some (ins, impl) =>
      if !st.ok then (st, "bad-op") else
      match stepCheck st ins impl with
      | some r => r
      | none => (st, "bad-op")
    | none => (st, "bad-op")
  | _ => (st, "bad-op")

def main : IO Unit := run step St.init
