import Driver.Proto
import AGH.Spec.Access
open Driver AGH AGH.C03

/-
Lines (block = one configuration followed by requests):
  C03.conf  srvName strict  nA (raw kind addr bits zone)*nA  nB (…)*nB  nH host*nH  =>  ok | errA <i> | errB <i>
  C03.set   (same fields as C03.conf; POST /control/access/set on the live server)  =>  ok | dupA | dupB | dupH | both | errA <i> | errB <i>
  C03.q     proto ipkind addr zone hasPath path sni connOK nq hostBlocked qname qtype qclass
                                          =>  blocked rule action cached | noconf
kind ∈ a4 a6 p4 p6 x ; ipkind ∈ 0 4 6 ; addr = big-endian bytes in hex.
-/

def beNat (bs : List Nat) : Nat := bs.foldl (fun acc b => acc * 256 + b) 0

def parseProto (s : String) : Option C16.Proto :=
  match s with
  | "udp" => some .udp | "tcp" => some .tcp | "tls" => some .tls
  | "https" => some .https | "quic" => some .quic | "dnscrypt" => some .dnscrypt
  | _ => none

def parseEntry (raw kind addr bits zone : String) : Option Entry := do
  let raw ← hexDecode raw
  let a := beNat (← hexDecode addr)
  let bits ← bits.toNat?
  let zone ← hexDecode zone
  match kind with
  | "a4" => pure ⟨raw, .addr (.v4 a)⟩
  | "a6" => pure ⟨raw, .addr (.v6 a zone)⟩
  | "p4" => pure ⟨raw, .pfx ⟨false, a, bits⟩⟩
  | "p6" => pure ⟨raw, .pfx ⟨true, a, bits⟩⟩
  | "x" => pure ⟨raw, .none⟩
  | _ => none

/-- Parse `n` entries, return them with the remaining fields. -/
def parseEntries : Nat → List String → Option (List Entry × List String)
  | 0, rest => some ([], rest)
  | n + 1, raw :: kind :: addr :: bits :: zone :: rest => do
    let e ← parseEntry raw kind addr bits zone
    let (es, rest') ← parseEntries n rest
    pure (e :: es, rest')
  | _, _ => none

def parseIP (kind addr zone : String) : Option IP := do
  let a := beNat (← hexDecode addr)
  let zone ← hexDecode zone
  match kind with
  | "0" => pure .invalid
  | "4" => pure (.v4 a)
  | "6" => pure (.v6 a zone)
  | _ => none

structure Conf where
  /-- the lists the MODEL's manager was built from -/
  allowed : List Entry
  blocked : List Entry
  access : Access
  srvName : Bytes
  strict : Bool
  /-- the lists in force according to the IMPLEMENTATION's verdicts on
  `/control/access/set` (what the spec monitor judges requests against) -/
  specAllowed : List Entry := allowed
  specBlocked : List Entry := blocked

abbrev State := Option Conf

structure Lists5 where
  srv : Bytes
  strict : Bool
  al : List Entry
  bl : List Entry
  hosts : List Bytes

def takeHexN : Nat → List String → Option (List Bytes × List String)
  | 0, rest => some ([], rest)
  | n + 1, x :: rest => do
    let b ← hexDecode x
    let (bs, rest') ← takeHexN n rest
    pure (b :: bs, rest')
  | _, _ => none

/-- Parse `srvName strict nA entries nB entries nH hosts`; returns the remaining fields. -/
def parseLists (ins : List String) : Option (Lists5 × List String) := do
  match ins with
  | srv :: strict :: nA :: rest =>
    let srv ← hexDecode srv
    let strict ← parseBool strict
    let (al, rest) ← parseEntries (← nA.toNat?) rest
    match rest with
    | nB :: rest =>
      let (bl, rest) ← parseEntries (← nB.toNat?) rest
      match rest with
      | nH :: rest =>
        let (hosts, rest) ← takeHexN (← nH.toNat?) rest
        pure (⟨srv, strict, al, bl, hosts⟩, rest)
      | [] => none
    | [] => none
  | _ => none

/-- Parse the configuration fields; returns the model's verdict on it and the
fields that follow the blocked-hosts list (an oracle for the model). -/
def parseConf (ins : List String) : Option (Except ConfErr Conf × List String) := do
  let (l, rest) ← parseLists ins
  let m := match newAccessCtx l.al l.bl with
    | .ok a => Except.ok ({ allowed := l.al, blocked := l.bl, access := a, srvName := l.srv, strict := l.strict } : Conf)
    | .error e => .error e
  pure (m, rest)

def showConf : Except ConfErr Conf → String
  | .ok _ => "ok"
  | .error (.allowed i) => "errA\t" ++ toString i
  | .error (.blocked i) => "errB\t" ++ toString i

def stepConf (ins impl : List String) : Option (State × String) := do
  let (m, rest) ← parseConf ins
  if rest ≠ [] then none
  let st : State := match m with
    | .ok c => some c
    | .error _ => none
  let out := showConf m
  pure (st, verdict (out == "\t".intercalate impl) none out)

def setErrName : Option C03.SetErr → String
  | none => "ok"
  | some .dupAllowed => "dupA" | some .dupDisallowed => "dupB" | some .dupHosts => "dupH"
  | some .intersect => "both"
  | some (.conf (.allowed i)) => "errA\t" ++ toString i
  | some (.conf (.blocked i)) => "errB\t" ++ toString i

/-- `POST /control/access/set` against the live configuration. -/
def stepSet (st : State) (ins impl : List String) : Option (State × String) := do
  let (l, rest) ← parseLists ins
  if rest ≠ [] then none
  match st with
  | none => pure (none, verdict (impl == ["noconf"]) none "noconf")
  | some c =>
    let (a', e) := accessSet c.access l.al l.bl l.hosts
    let out := setErrName e
    let c1 : Conf := if e.isNone then { c with allowed := l.al, blocked := l.bl, access := a' } else c
    -- the spec's lists follow the implementation's verdict
    let c2 : Conf := if impl == ["ok"] then { c1 with specAllowed := l.al, specBlocked := l.bl } else c1
    pure (some c2, verdict (out == "\t".intercalate impl) none out)

def ruleName : Rule → String
  | .none => "none" | .ip => "ip" | .net => "net" | .clientID => "cid"

def actionName : Action → String
  | .pass => "pass" | .drop => "drop" | .refused => "refused" | .servfail => "servfail"

def parseAction (s : String) : Option Action :=
  match s with
  | "pass" => some .pass | "drop" => some .drop | "refused" => some .refused
  | "servfail" => some .servfail | _ => none

def stepQ (st : State) (ins impl : List String) : Option String := do
  match ins with
  | [proto, ipk, addr, zone, hasPath, path, sni, connOK, nq, hostBlocked, _qname, qtype, qclass] =>
    let proto ← parseProto proto
    let ip ← parseIP ipk addr zone
    let hasPath ← parseBool hasPath
    let path ← hexDecode path
    let sni ← hexDecode sni
    let connOK ← parseBool connOK
    let nq ← nq.toNat?
    let hostBlocked ← parseBool hostBlocked
    match st with
    | none => pure (verdict (impl == ["noconf"]) none "noconf")
    | some c =>
      let ctx : C16.Ctx := {
        proto := proto
        path := if hasPath then some path else none
        httpTLS := if hasPath then some sni else none
        hostHdr := []
        hostSplit := none
        connSNI := if connOK then some sni else none
        hostSrvName := c.srvName
        strict := c.strict }
      let cid := C16.clientIDFromCtx ctx
      let r : Request := { proto := proto, addr := ip, clientID := cid, nq := nq, hostBlocked := hostBlocked,
                           qclass := ← qclass.toNat?, qtype := ← qtype.toNat? }
      let (mb, mrule) := c.access.isBlockedClient ip r.effectiveID
      let (mact, mcached) := handleBefore c.access r
      let out := "\t".intercalate [if mb then "1" else "0", ruleName mrule, actionName mact, hexEncode mcached]
      let spec : Option String :=
        match impl with
        | [ib, _, iact, _] =>
          match parseBool ib, parseAction iact with
          | some ib, some iact =>
            (specFail ⟨c.specAllowed, c.specBlocked, r⟩ ⟨ib, iact⟩).map Why.token
          | _, _ => some "C03.unparsable-observation"
        | _ => some "C03.unparsable-observation"
      pure (verdict (out == "\t".intercalate impl) spec out)
  | _ => none

/-! Socket run: one line = configuration + K real requests (harness
c03sock_test.go).  The model is `serve` with a `process` that resolves,
filters, logs and counts every request it is given exactly once. -/

def processAll (r : Request) : Effects × Option Reply :=
  ({ filtered := [r], upstream := [r], logged := [r], counted := [r] }, some .processed)

def replyName : Option Reply → String
  | none => "none" | some .refused => "refused" | some .servfail => "servfail"
  | some .processed => "processed"

/-- Per request: model output fields, number of requests filtered, spec failure. -/
def sockReqs (c : Conf) : List String → List String → Option (List String × Nat × Option String)
  | [], _ => some ([], 0, none)
  | proto :: ipk :: addr :: zone :: sni :: hostBlocked :: _qname :: qtype :: path :: qclass :: rest, impl => do
    let proto ← parseProto proto
    let ip ← parseIP ipk addr zone
    let sni ← hexDecode sni
    let hostBlocked ← parseBool hostBlocked
    let path ← hexDecode path
    -- a DoH request always has a URL path and a TLS state on a real listener
    let ctx : C16.Ctx := {
      proto := proto, path := if proto == .https then some path else none
      httpTLS := if proto == .https then some sni else none, hostHdr := [], hostSplit := none
      connSNI := some sni, hostSrvName := c.srvName, strict := c.strict }
    let r : Request := { proto := proto, addr := ip, clientID := C16.clientIDFromCtx ctx, nq := 1,
                         hostBlocked := hostBlocked, qclass := ← qclass.toNat?, qtype := ← qtype.toNat? }
    let (eff, rep) := serve c.access processAll r
    let out := [replyName rep, toString eff.upstream.length, toString eff.logged.length,
                toString eff.counted.length]
    -- spec on the implementation's observation of this request
    let (spec, implRest) : Option String × List String :=
      match impl with
      | irep :: iup :: ilog :: icnt :: implRest =>
        let act : Option Action := match irep with
          | "none" => some .drop | "refused" => some .refused | "servfail" => some .servfail
          | "processed" => some .pass | _ => none
        let ex := excluded c.allowed c.blocked ip r.effectiveID
        let touched := iup != "0" || ilog != "0" || icnt != "0"
        let s : Option String :=
          match act with
          | none => some "C03.sock-unexpected-reply"
          | some act =>
            -- `blocked` is not observable on the wire: judge the action with the expected decision
            match specFail ⟨c.allowed, c.blocked, r⟩ ⟨ex, act⟩ with
            | some w => some (w.token ++ "-on-the-wire")
            | none =>
              if (ex || nameBlocked r) && touched then some "C03.refused-request-left-traces" else none
        (s, implRest)
      | _ => (some "C03.unparsable-observation", [])
    let (outs, nf, spec') ← sockReqs c rest implRest
    pure (out ++ outs, nf + eff.filtered.length, spec.orElse fun _ => spec')
  | _, _ => none

def stepSock (ins impl : List String) : Option String := do
  let (l, rest) ← parseLists ins
  match prepare l.al l.bl l.hosts with
  | .error _ => pure (verdict (impl.head? == some "starterr") none "starterr")
  | .ok pr =>
    let c : Conf := { allowed := l.al, blocked := l.bl, access := pr.access, srvName := l.srv, strict := l.strict }
    match rest with
    | _reconf :: k :: reqs =>
      -- (`Reconfigure(nil)` = `Prepare` once more on the stored configuration:
      -- the model's lists are already the defaulted ones, nothing changes)
      if reqs.length ≠ 10 * (← k.toNat?) then none
      -- the observation ends with: filtered "H" n reported-host*n
      let hIdx := impl.idxOf "H"
      let implReq := impl.take hIdx
      let implHosts ← (impl.drop (hIdx + 2)).mapM hexDecode
      let (outs, nf, spec) ← sockReqs c reqs implReq
      let hostsOut := ["H", toString pr.reportedHosts.length] ++ pr.reportedHosts.map hexEncode
      let out := "\t".intercalate (outs ++ [toString nf] ++ hostsOut)
      -- the filtering hook may run more than once per processed request: compare "≥"
      let implF := implReq.getLast?.bind String.toNat?
      let agree := implReq.dropLast == outs && impl.drop hIdx == hostsOut &&
        (match implF with | some f => (nf == 0 && f == 0) || (nf > 0 && f ≥ nf) | none => false)
      -- the requests were judged against the engine list the property implies
      -- (the configured list, or the default names when it is empty; the oracle
      -- bits come from it); what the server REPORTS as blocked must be that list
      let spec := (if implHosts != initDefaultHosts l.hosts then some "C03.reported-blocked-hosts" else none).orElse
        fun _ => spec.orElse fun _ =>
        match implF with
        | some f => if nf == 0 && f != 0 then some "C03.refused-request-was-filtered" else none
        | none => none
      pure (verdict agree spec out)
    | _ => none

def step (st : State) (line : String) : State × String :=
  let fs := splitTab line
  match fs with
  | "C03.conf" :: rest =>
    match splitArrow rest with
    | some (ins, impl) =>
      match stepConf ins impl with
      | some (st', o) => (st', o)
      | none => (none, "bad-op")
    | none => (none, "bad-op")
  | "C03.q" :: rest =>
    match splitArrow rest with
    | some (ins, impl) => (st, (stepQ st ins impl).getD "bad-op")
    | none => (st, "bad-op")
  | "C03.set" :: rest =>
    match splitArrow rest with
    | some (ins, impl) =>
      match stepSet st ins impl with
      | some (st', o) => (st', o)
      | none => (st, "bad-op")
    | none => (st, "bad-op")
  | "C03.sblock" :: rest =>
    match splitArrow rest with
    | some (ins, impl) => (st, (stepSock ins impl).getD "bad-op")
    | none => (st, "bad-op")
  | _ => (st, "bad-op")

def main : IO Unit := run step none
