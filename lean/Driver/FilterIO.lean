/-
Shared line-protocol plumbing of the C01 and C02 drivers: parsing of a
`Cxx.q` case, of the implementation's observation, and canonical rendering
of a model `Outcome`.
-/
import Driver.Proto
import AGH.Spec.Filter
import AGH.Model.FilterRules
import AGH.Model.FilterConfig
namespace Driver.FilterIO
open Driver AGH AGH.Filter

/-! ## a tiny field-stream parser -/

abbrev P := StateT (List String) Option

def next : P String := fun s => match s with | [] => none | x :: xs => some (x, xs)
def nat : P Nat := do let s ← next; s.toNat?
def bool : P Bool := do let s ← next; parseBool s
def bytes : P Bytes := do let s ← next; hexDecode s
def fail {α} : P α := fun _ => none
def ofOpt {α} (o : Option α) : P α := fun s => o.map (·, s)

def rep {α} (p : P α) : Nat → P (List α)
  | 0 => pure []
  | n + 1 => do let x ← p; let xs ← rep p n; pure (x :: xs)

def listOf {α} (p : P α) : P (List α) := do let n ← nat; rep p n

def atEnd : P Unit := fun s => match s with | [] => some ((), []) | _ => none

/-! ## tokens -/

def parseIPTok (s : String) : Option (Option IP) :=
  if s == "nil" then some none else
  match s.splitOn "." with
  | [fam, n, str] => do
    let v6 ← (if fam == "4" then some false else if fam == "6" then some true else none)
    let val ← n.toNat?
    let st ← hexDecode str
    some (some { v6 := v6, val := val, str := st })
  | _ => none

def parseIPTok! (s : String) : Option IP := do
  let r ← parseIPTok s
  r

def renderIP : Option IP → String
  | none => "nil"
  | some ip => (if ip.v6 then "6." else "4.") ++ toString ip.val ++ ".-"

def parseIPList (s : String) : Option (List IP) :=
  if s == "-" then some [] else (s.splitOn ",").mapM parseIPTok!

def renderIPList (l : List IP) : String :=
  if l.isEmpty then "-" else ",".intercalate (l.map (fun ip => renderIP (some ip)))

def parseParam (s : String) : Option SvcParam :=
  match s.splitOn "=" with
  | ["4", l] => (parseIPList l).map SvcParam.hint4
  | ["6", l] => (parseIPList l).map SvcParam.hint6
  | ["o", k] => k.toNat?.map SvcParam.other
  | _ => none

def renderParam : SvcParam → String
  | .hint4 l => "4=" ++ renderIPList l
  | .hint6 l => "6=" ++ renderIPList l
  | .other k => "o=" ++ toString k

def parseRR (s : String) : Option RR :=
  match s.splitOn ":" with
  | ["A", n, ttl, ip] => do
    some { name := ← hexDecode n, ttl := ← ttl.toNat?, data := .a (← parseIPTok ip) }
  | ["AAAA", n, ttl, ip] => do
    some { name := ← hexDecode n, ttl := ← ttl.toNat?, data := .aaaa (← parseIPTok ip) }
  | ["CNAME", n, ttl, t] => do
    some { name := ← hexDecode n, ttl := ← ttl.toNat?, data := .cname (← hexDecode t) }
  | ["SOA", n, ttl, mb] => do
    some { name := ← hexDecode n, ttl := ← ttl.toNat?, data := .soa (← hexDecode mb) }
  | ["PTR", n, ttl, t] => do
    some { name := ← hexDecode n, ttl := ← ttl.toNat?, data := .ptr (← hexDecode t) }
  | ["O", n, ttl, ty, d] => do
    some { name := ← hexDecode n, ttl := ← ttl.toNat?, data := .other (← ty.toNat?) (← hexDecode d) }
  | ["HTTPS", n, ttl, pr, t, ps] => do
    let params ← (if ps == "-" then some [] else (ps.splitOn ";").mapM parseParam)
    some { name := ← hexDecode n, ttl := ← ttl.toNat?, data := .https (← pr.toNat?) (← hexDecode t) params }
  | _ => none

def renderRR (rr : RR) : String :=
  let hd (k : String) := k ++ ":" ++ hexEncode rr.name ++ ":" ++ toString rr.ttl ++ ":"
  match rr.data with
  | .a ip => hd "A" ++ renderIP ip
  | .aaaa ip => hd "AAAA" ++ renderIP ip
  | .cname t => hd "CNAME" ++ hexEncode t
  | .soa mb => hd "SOA" ++ hexEncode mb
  | .ptr t => hd "PTR" ++ hexEncode t
  | .other ty d => hd "O" ++ toString ty ++ ":" ++ hexEncode d
  | .https pr t ps =>
    hd "HTTPS" ++ toString pr ++ ":" ++ hexEncode t ++ ":" ++
      (if ps.isEmpty then "-" else ";".intercalate (ps.map renderParam))

def rr : P RR := do let s ← next; ofOpt (parseRR s)
def ipOpt : P (Option IP) := do let s ← next; ofOpt (parseIPTok s)

def parseMode (s : String) : Option Mode :=
  match s with
  | "default" => some .default | "null_ip" => some .nullIP | "custom_ip" => some .customIP
  | "nxdomain" => some .nxdomain | "refused" => some .refused | _ => none

def parsePause (s : String) : Option Pause :=
  match s with
  | "none" => some .none | "past" => some .past | "future" => some .future | _ => none

def service : P Service := do
  let name ← bytes
  let rules ← listOf bytes
  pure { name := name, rules := rules }

def ruleList : P (Bool × List Bytes) := do
  let en ← bool
  let lines ← listOf bytes
  pure (en, lines)

def parseEngTok (s : String) : Option (Option EngRes) :=
  if s == "none" then some none else
  match s.splitOn ":" with
  | ["net", wl] => (parseBool wl).map (fun b => some (.net b))
  | ["hosts", a, b] => do
    let v4 ← parseIPList a
    let v6 ← parseIPList b
    some (some (.hosts v4 v6))
  | _ => none

def renderEngTok : Option EngRes → String
  | none => "none"
  | some (.net wl) => "net:" ++ (if wl then "1" else "0")
  | some (.hosts a b) => "hosts:" ++ renderIPList a ++ ":" ++ renderIPList b

structure OracleEntry where
  host : Bytes
  rrtype : Nat
  allow : Option EngRes
  block : Option EngRes

def oracleEntry : P OracleEntry := do
  let h ← bytes
  let t ← nat
  let a ← next
  let b ← next
  pure { host := h, rrtype := t, allow := ← ofOpt (parseEngTok a), block := ← ofOpt (parseEngTok b) }

structure Case where
  conf : Conf
  custom : List Bytes
  blockLists : List (Bool × List Bytes)
  allowLists : List (Bool × List Bytes)
  q : Query
  up : Upstream
  oracles : List OracleEntry
  /-- names of the shipped services having a rule that matches the queried host -/
  svcOracle : List Bytes
  /-- oracle: `netutil.IPFromReversedAddr` of the queried host -/
  arpa : Option IP := none
  /-- the hosts the scripted safe-browsing / parental checkers block -/
  sbSet : List Bytes := []
  parentalSet : List Bytes := []

/-- one configured legacy rewrite with the `netip.ParseAddr(Answer)` oracle -/
def rawRewrite : P C06.Raw := do
  let d ← bytes
  let a ← bytes
  let p ← next
  let parsed : Option (Bool × Bytes) ←
    (if p == "none" then pure none else
     match p.splitOn ":" with
     | ["4", s] => do let b ← ofOpt (hexDecode s); pure (some (true, b))
     | ["6", s] => do let b ← ofOpt (hexDecode s); pure (some (false, b))
     | _ => fail)
  pure { domain := d, answer := a, parsed := parsed }

def hostsRec : P HostsRec := do
  let ip ← ipOpt
  let ip ← ofOpt ip
  let names ← listOf bytes
  pure { addr := ip, names := names }

def blockHost : P BlockHost := do
  let s ← next
  if s == "-" then pure .empty
  else match s.splitOn "=" with
    | ["ip", t] => do
      let ip ← ofOpt (parseIPTok! t)
      pure (.ip ip)
    | ["name", h] => do
      let n ← ofOpt (hexDecode h)
      pure (.name n)
    | _ => fail

def parseCase : P Case := do
  -- the extension group: rewrites, hosts container, safe browsing / parental
  let rws ← listOf rawRewrite
  let hosts ← listOf hostsRec
  let arpa ← ipOpt
  let sbEnabled ← bool
  let parEnabled ← bool
  let sbHost ← blockHost
  let parHost ← blockHost
  let csb ← bool
  let cpar ← bool
  let sbSet ← listOf bytes
  let parSet ← listOf bytes
  -- the authority section of the scripted upstream answer
  let uns ← listOf rr
  -- the built-in DHCP server: enabled?, leases (host name, address)
  let dhcpOn ← bool
  let leases ← listOf (do let n ← bytes; let ip ← ipOpt; let ip ← ofOpt ip; pure (n, ip))
  let mode ← (do let s ← next; ofOpt (parseMode s))
  let bip4 ← ipOpt
  let bip6 ← ipOpt
  let ttl ← nat
  let prot ← bool
  let pause ← (do let s ← next; ofOpt (parsePause s))
  let gfilt ← bool
  let aaaaDis ← bool
  let gSched ← bool
  let gSvc ← listOf service
  let hasClient ← bool
  let cname ← bytes
  let useOwn ← bool
  let cfilt ← bool
  let useOwnBS ← bool
  let cSched ← bool
  let cSvc ← listOf service
  let cip ← ipOpt
  let cip ← ofOpt cip
  let custom ← listOf bytes
  let bl ← listOf ruleList
  let al ← listOf ruleList
  let qname ← bytes
  let qtype ← nat
  let urcode ← nat
  let uans ← listOf rr
  let oracles ← listOf oracleEntry
  let svcO ← listOf bytes
  atEnd
  let client : Option ClientConf :=
    if hasClient then some { name := cname, useOwnSettings := useOwn, filtering := cfilt,
                             useOwnBlockedServices := useOwnBS, schedNow := cSched, services := cSvc,
                             safeBrowsing := csb, parental := cpar }
    else none
  pure {
    conf := { mode := mode, bip4 := bip4, bip6 := bip6, ttl := ttl, protEnabled := prot, pause := pause,
              filtering := gfilt, aaaaDisabled := aaaaDis, schedNow := gSched, services := gSvc,
              client := client, clientIP := cip,
              rewrites := C06.prepare rws, hosts := hosts, sbEnabled := sbEnabled, parentalEnabled := parEnabled,
              sbHost := sbHost, parentalHost := parHost, dhcpEnabled := dhcpOn, dhcpLeases := leases },
    custom := custom, blockLists := bl, allowLists := al,
    q := { name := qname, qtype := qtype }, up := { rcode := urcode, answer := uans, ns := uns },
    oracles := oracles, svcOracle := svcO, arpa := arpa, sbSet := sbSet, parentalSet := parSet }

/-! ## observation -/

def parseReason (n : Nat) : Option Reason :=
  match n with
  | 0 => some .notFound | 1 => some .allowList | 3 => some .blockList | 8 => some .blockedService
  | 4 => some .safeBrowsing | 5 => some .parental | 9 => some .rewritten | 10 => some .autoHosts
  | _ => none

def msgP : P Msg := do
  let rcode ← nat
  let qn ← bytes
  let qt ← nat
  let ans ← listOf rr
  let ns ← listOf rr
  pure { rcode := rcode, qname := qn, qtype := qt, answer := ans, ns := ns }

def queryTok : P Query := do
  let s ← next
  match s.splitOn ":" with
  | [n, t] => do
    let nm ← ofOpt (hexDecode n)
    let ty ← ofOpt t.toNat?
    pure { name := nm, qtype := ty }
  | _ => fail

def qlogP : P (Option QLog) := do
  let tag ← next
  if tag == "noqlog" then pure none
  else if tag == "qlog" then do
    let r ← nat
    let reason ← ofOpt (parseReason r)
    let filt ← bool
    let svc ← bytes
    let hasOrig ← bool
    let orig ← listOf rr
    pure (some { reason := reason, isFiltered := filt, svcName := svc,
                 origAnswer := if hasOrig then some orig else none })
  else fail

/-- `err` | `ok` msg log qlog (one outcome, more fields may follow) -/
def outcomeP1 : P Outcome := do
  let tag ← next
  if tag == "err" then pure .err
  else if tag == "ok" then do
    let m ← msgP
    let log ← listOf queryTok
    let ql ← qlogP
    pure (.done m log ql)
  else fail

def outcomeP : P Outcome := do
  let o ← outcomeP1
  atEnd
  pure o

/-- the harness's watchdog fired: the request never returned -/
def isHang (impl : List String) : Bool := impl == ["hang"]

/-- reload mode: the distinct outcomes observed for one query line -/
def outcomesP : P (List Outcome) := do
  let l ← listOf outcomeP1
  atEnd
  pure l

def renderMsg (m : Msg) : List String :=
  [toString m.rcode, hexEncode m.qname, toString m.qtype, toString m.answer.length] ++
  m.answer.map renderRR ++ [toString m.ns.length] ++ m.ns.map renderRR

def renderOutcome : Outcome → String
  | .err => "err"
  | .done m log ql =>
    "\t".intercalate (
      ["ok"] ++ renderMsg m ++ [toString log.length] ++
      log.map (fun q => hexEncode q.name ++ ":" ++ toString q.qtype) ++
      (match ql with
       | none => ["noqlog"]
       | some l =>
         ["qlog", toString l.reason.code, (if l.isFiltered then "1" else "0"), hexEncode l.svcName] ++
         (match l.origAnswer with
          | none => ["0", "0"]
          | some oa => ["1", toString oa.length] ++ oa.map renderRR)))

/-- a short class of the model outcome (first field of the model output; feeds the
histogram in the evidence) -/
def classOf (c : Conf) : Outcome → String
  | .err => "err"
  | .done _ log ql =>
    let mode := match c.mode with
      | .default => "default" | .nullIP => "null_ip" | .customIP => "custom_ip"
      | .nxdomain => "nxdomain" | .refused => "refused"
    match ql with
    | none => "reserved"
    | some l =>
      if l.reason == .rewritten then (if log.isEmpty then "rewrite-local" else "rewrite-cname")
      else if l.reason == .autoHosts then "hosts-container"
      else if l.reason == .safeBrowsing then "blocked-safebrowsing"
      else if l.reason == .parental then "blocked-parental"
      else if l.isFiltered then
        if log.isEmpty then
          (if l.reason == .blockedService then "blocked-service-" else "blocked-rule-") ++ mode
        else "replaced-" ++ mode
      else if l.reason == .allowList then "forward-allow"
      else if !protectionOn c then "forward-protection-off"
      else if !filteringOn c then "forward-filtering-off"
      else "forward-nomatch"

/-- class with the DHCP-host stage made visible -/
def classOfQ (c : Conf) (q : Query) (o : Outcome) : String :=
  match dhcpHost c q with
  | none => classOf c o
  | some h =>
    if (c.dhcpLeases.find? (fun l => l.1 == h)).isSome then "dhcp-lease"
    else match o with
      | .done _ _ none => "dhcp-nolease-nxdomain"
      | _ => "dhcp-nolease:" ++ classOf c o

/-! ## engines -/

/-- Layer A stage: the engines' verdicts as shipped by the harness (computed
there by real urlfilter engines built from the same enabled rule texts). -/
def oracleEngines (cs : Case) : Engines where
  allow := fun r => match cs.oracles.find? (fun o => o.host == r.host && o.rrtype == r.qtype) with
    | some o => o.allow | none => none
  block := fun r => match cs.oracles.find? (fun o => o.host == r.host && o.rrtype == r.qtype) with
    | some o => o.block | none => none
  svc := fun sv h => h == qhost cs.q && cs.svcOracle.contains sv.name
  sb := fun h => cs.sbSet.contains h
  parental := fun h => cs.parentalSet.contains h
  arpa := fun h => if h == qhost cs.q then cs.arpa else none

/-- the bulk list of the reload mode (same lines as `c01Filler` in the harness) -/
def fillerLines (n : Nat) : List Bytes :=
  (List.range n).map (fun i => Bytes.ofString ("||f" ++ toString i ++ ".bulk-filler.test^"))

def Case.withFiller (cs : Case) (n : Nat) : Case :=
  { cs with blockLists := cs.blockLists ++ [(true, fillerLines n)] }

/-- Layer B: the engines computed from the rule texts of the case by the model
of urlfilter.  `none` if some line is outside the modelled grammar. -/
def ruleEnginesOf (cs : Case) : Option Engines := do
  let rs : RuleSets := { custom := cs.custom, blockLists := cs.blockLists, allowLists := cs.allowLists }
  let block ← parseLines rs.blockLines
  let allow ← parseLines rs.allowLines
  let svcs := cs.conf.services ++ (match cs.conf.client with | some cl => cl.services | none => [])
  if svcs.all (fun sv => (parseServiceRules sv.rules).isSome) then
    pure { ruleEngines block allow with
           sb := fun h => cs.sbSet.contains h
           parental := fun h => cs.parentalSet.contains h
           arpa := fun h => if h == qhost cs.q then cs.arpa else none }
  else none

/-- Compare Layer B with the real urlfilter engines' verdicts shipped with the
case; returns a description of the first difference. -/
def engineMismatch (cs : Case) (e : Engines) : Option String :=
  let bad := cs.oracles.find? (fun o =>
    let r := reqFor cs.conf o.host o.rrtype
    renderEngTok (e.allow r) != renderEngTok o.allow || renderEngTok (e.block r) != renderEngTok o.block)
  match bad with
  | some o =>
    let r := reqFor cs.conf o.host o.rrtype
    some ("ENGINE-MISMATCH host=" ++ hexEncode o.host ++ " type=" ++ toString o.rrtype ++
      " allow=" ++ renderEngTok (e.allow r) ++ "/" ++ renderEngTok o.allow ++
      " block=" ++ renderEngTok (e.block r) ++ "/" ++ renderEngTok o.block)
  | none =>
    let svcs := cs.conf.services ++ (match cs.conf.client with | some cl => cl.services | none => [])
    match svcs.find? (fun sv => e.svc sv (qhost cs.q) != cs.svcOracle.contains sv.name) with
    | some sv => some ("SERVICE-MISMATCH " ++ hexEncode sv.name)
    | none => none

/-! ## configuration-sequence mode (shared by the C01 and C02 drivers) -/

def renderEntries (l : List Cfg.Entry) : String :=
  if l.isEmpty then "-" else
  ",".intercalate (l.map (fun en => toString en.src ++ ":" ++ (if en.enabled then "1" else "0") ++ ":" ++ toString en.count))

def renderCfg (code : Nat) (s : Cfg.State) : String :=
  "\t".intercalate [toString code, renderEntries s.block, renderEntries s.allow,
    (if s.filtering then "1" else "0"), toString s.userRules.length]

def hexLines (fs : List String) : Option (List Bytes) := fs.mapM hexDecode

/-- one configuration op: `(status, new state)`; the observation is the HTTP
status and what GET /control/filtering/status reports afterwards -/
def cfgOp (s : Cfg.State) (op : String) (args : List String) : Option (String × Cfg.State) := do
  match op, args with
  | "creset", n :: rest =>
    -- n sources, each: k lines
    let cnt ← n.toNat?
    let rec srcs : Nat → List String → Option (List (List Bytes))
      | 0, [] => some []
      | 0, _ => none
      | k + 1, m :: more => do
        let mm ← m.toNat?
        let ls ← hexLines (more.take mm)
        let restS ← srcs k (more.drop mm)
        some (ls :: restS)
      | _, [] => none
    let ss ← srcs cnt rest
    pure ("reset", { sources := ss })
  | "csrc", i :: lines =>
    let idx ← i.toNat?
    let ls ← hexLines lines
    pure ("ok", { s with sources := s.sources.set idx ls })
  | "cadd", [i, w] =>
    let (code, s') := Cfg.addURL s (← i.toNat?) (← parseBool w)
    pure (renderCfg code s', s')
  | "cset", [i, w, j, en] =>
    let (code, s') := Cfg.setURL s (← i.toNat?) (← parseBool w) (← j.toNat?) (← parseBool en)
    pure (renderCfg code s', s')
  | "cremove", [i, w] =>
    let (code, s') := Cfg.removeURL s (← i.toNat?) (← parseBool w)
    pure (renderCfg code s', s')
  | "crefresh", [w] =>
    let (code, s') := Cfg.refresh s (← parseBool w)
    pure (renderCfg code s', s')
  | "crules", lines =>
    let ls ← hexLines lines
    let s' := { s with userRules := ls }
    pure (renderCfg 200 s', s')
  | "cfilt", [en] =>
    let s' := { s with filtering := ← parseBool en }
    pure (renderCfg 200 s', s')
  | "cprot", [en] =>
    let (code, s') := Cfg.setProtection s (← parseBool en) 0
    pure (renderCfg code s', s')
  | "cprot", [en, dur] =>
    let d ← (if dur == "-" then some 0 else dur.toNat?)
    let (code, s') := Cfg.setProtection s (← parseBool en) d
    pure (renderCfg code s', s')
  | "cprotlegacy", [en] =>
    let s' := Cfg.setProtectionLegacy s (← parseBool en)
    pure (renderCfg 200 s', s')
  | "cwait", [ms] => pure ("ok", Cfg.wait s (← ms.toNat?))
  | "chold", [_] => pure ("ok", s)
  | "cdrain", [] => pure ("ok", s)
  | "cbreak", [i] =>
    let (ok, s') := Cfg.freeze s (← i.toNat?)
    pure (if ok then "ok" else "skip", s')
  | "cstall", [i] =>
    let (ok, s') := Cfg.freeze s (← i.toNat?)
    pure (if ok then "ok" else "skip", { s' with stalled := ok })
  | "cfix", [] => pure ("ok", Cfg.thaw s)
  | "cunstall", [] => pure ("ok", Cfg.thaw s)
  | _, _ => none

/-- the scripted upstream of the configuration-sequence mode: one TXT record "up" -/
def cfgUpstream (q : Query) : Upstream :=
  { rcode := 0, answer := [{ name := q.name, ttl := 60, data := .other 16 [117, 112] }] }

/-- the upstream of `cqa`: `name CNAME target.` followed by an address record -/
def cfgUpstreamCNAME (q : Query) (target : Bytes) : Upstream :=
  { rcode := 0, answer := [
      { name := q.name, ttl := 60, data := .cname (target ++ [46]) },
      { name := target ++ [46], ttl := 60,
        data := .a (some { v6 := false, val := 3221225985, str := [49, 57, 50, 46, 48, 46, 50, 46, 49] }) }] }

/-- `cq name type` / `cqa name type target`: a query under the rules in force -/
def cfgQuery (check : Engines → Conf → Upstream → Query → Outcome → Option String)
    (s : Cfg.State) (withAnswer : Bool) (fs : List String) : Option String := do
  let (ins, impl) ← splitArrow fs
  let (qn, qt, tg) ← (match ins, withAnswer with
    | [qn, qt], false => some (qn, qt, "-")
    | [qn, qt, tg], true => some (qn, qt, tg)
    | _, _ => none)
  let q : Query := { name := ← hexDecode qn, qtype := ← qt.toNat? }
  let block ← parseLines s.engBlock
  let allow ← parseLines s.engAllow
  let e := ruleEngines block allow
  let c := s.conf
  let tgB ← hexDecode tg
  let u := if withAnswer then cfgUpstreamCNAME q tgB else cfgUpstream q
  let m := handle e c u q
  let mOut := renderOutcome m
  let shown := "config:" ++ classOf c m ++ "\t" ++ mOut
  if impl.head? == some "PANIC" then pure (verdict false (some "impl-panic") shown)
  else if isHang impl then pure (verdict false (some "request-hangs") shown)
  else
    let (obs, _) ← outcomeP.run impl
    pure (verdict (mOut == renderOutcome obs) ((check e c u q obs).map (fun w => "config-seq:" ++ w)) shown)

/-- one line of a configuration sequence (op name without the property prefix) -/
def cfgStep (check : Engines → Conf → Upstream → Query → Outcome → Option String)
    (st : Option Cfg.State) (op : String) (rest : List String) : Option Cfg.State × String :=
  if op == "cq" || op == "cqa" then
    match st with
    | some s => (some (Cfg.afterQuery s), (cfgQuery check s (op == "cqa") rest).getD "bad-op")
    | none => (st, "bad-op")
  else
    match splitArrow rest with
    | some (ins, impl) =>
      let s0 : Cfg.State := st.getD { sources := [] }
      -- a configuration call while a rebuild is stalled: the harness lets the rebuild finish first
      let s0 := if s0.stalled && op != "cunstall" then Cfg.thaw s0 else s0
      match cfgOp s0 op ins with
      | some (expect, s') => (some s', verdict (expect == "\t".intercalate impl) none ("config:" ++ expect))
      | none => (st, "bad-op")
    | none => (st, "bad-op")


end Driver.FilterIO
