/-
Line-protocol driver of C11 (model + spec monitor).  Ops:

  C11.req    firstRun usersExist method target cookie basic ctype bodyLen [hdrs]
             => path muxkind pattern kind status location contentLengthSeen
     bodyLen is `n` (known length) or `u<n>` (unknown length, n bytes sent).
     hdrs (optional) is `-` or a comma-separated list of tokens naming further
     request headers the harness adds (Origin, Access-Control-Request-*, ...).
     one request served by the real admin mux.  `path` (URL.Path as the
     handlers see it), `muxkind` (route | muxredir | muxnotfound) and `pattern`
     (the pattern `ServeMux.Handler` reports) are observations of net/http that
     the model takes as inputs; `kind` is the classified outcome.
  C11.wire   same fields as C11.req: the request is written byte by byte on a TCP
             connection to an httptest server running the same handler (real
             chunked bodies: ContentLength -1 as net/http produces it)
  C11.gl     firstRun usersExist method target cookie basic ctype bodyLen hdrs glRaw host
             => path muxkind pattern kind status location contentLengthSeen glSeen stat issued now
     the same in gl-inet mode (GLMode on) with an Admin-Token cookie `glRaw`.
  C11.gltok  value => stat issued now 0|1     the real glCheckToken(value)
  C11.start  store userList => started authNil kind usersKept
     the real initUsers on a data directory whose sessions.db is in state `store`.
  C11.chain  chain firstRun usersExist method path cookie basic ctype bodyLen => kind
     the real wrapper functions composed as `chain` around a stub handler.
  C11.public path => 0|1          the real isPublicResource
  C11.table  pattern => 0|1       is the pattern registered on the real mux / in the extracted table
-/
import Driver.Proto
import AGH.Spec.Http
import AGH.Gen.C11Routes
open Driver AGH AGH.C11

def parseCookie : String → Option Cookie
  | "none" => some .none | "unknown" => some .unknown
  | "expired" => some .expired | "valid" => some .valid | _ => none

/-- The fixture's administrator and what verifies against the stored hash. -/
def fxUser : Bytes := Bytes.ofString "admin"
def fxPass : Bytes := Bytes.ofString "correct horse"
def fxUsers (usersExist : Bool) : List (Bytes × Bytes) := if usersExist then [(fxUser, [72])] else []
def fxVerifies (hash pass : Bytes) : Bool := hash == [72] && pass == fxPass

def basicUserOf : Char → Option Bytes
  | 'r' => some fxUser
  | 'c' => some (Bytes.ofString "Admin")
  | 'k' => some (Bytes.ofString "nobody")
  | 'e' => some []
  | 's' => some (Bytes.ofString "admin ")
  | 'l' => some (List.replicate 300 97)
  | _ => none

def basicPassOf : Char → Option Bytes
  | 'r' => some fxPass
  | 'w' => some (Bytes.ofString "wrong password")
  | 'e' => some []
  | 'l' => some (List.replicate 300 97)
  | _ => none

/-- The class of the Authorization header of a line.  The (user, password) forms
`u<U>p<P>` and the malformed headers are judged by the model's `basicClass`
(an existing user of exactly that name whose password verifies); the older
tokens keep their fixed class. -/
def parseBasic (tok : String) (usersExist : Bool := true) : Option Basic :=
  let t := if tok.endsWith "blocked" then (tok.dropEnd 7).toString else tok
  let cls (c : Option (Bytes × Bytes)) := some (basicClass (fxUsers usersExist) fxVerifies c)
  match t with
  | "none" => some .none
  | "right" => some .right
  | "wrong" | "wronguser" | "emptypw" | "malformed" | "bearer" => some .wrong
  -- malformed headers: r.BasicAuth() gives nothing
  | "m-nopayload" | "m-b64" | "m-nocolon" => cls none
  -- the scheme is matched case-insensitively; several colons: the password is the rest
  | "m-lower" => cls (some (fxUser, fxPass))
  | "m-colons" => cls (some (fxUser, fxPass ++ Bytes.ofString ":extra"))
  | "m-twice" => cls (some (fxUser, Bytes.ofString "wrong password"))
  | _ =>
    match t.toList with
    | ['u', u, 'p', p] => do
      let un ← basicUserOf u
      let pw ← basicPassOf p
      cls (some (un, pw))
    | _ => none

def respName : Resp → String
  | .ran => "ran"
  | .forbiddenAuth => "forbiddenAuth"
  | .forbiddenPre => "forbiddenPre"
  | .methodNotAllowed => "methodNotAllowed"
  | .unsupportedMedia => "unsupportedMedia"
  | .redirect .login => "redirLogin"
  | .redirect .install => "redirInstall"
  | .redirect .dash => "redirDash"
  | .redirect .glRouter => "redirGL"

def parseResp : String → Option Resp
  | "ran" => some .ran
  | "forbiddenAuth" => some .forbiddenAuth
  | "forbiddenPre" => some .forbiddenPre
  | "methodNotAllowed" => some .methodNotAllowed
  | "unsupportedMedia" => some .unsupportedMedia
  | "redirLogin" => some (.redirect .login)
  | "redirInstall" => some (.redirect .install)
  | "redirDash" => some (.redirect .dash)
  | "redirGL" => some (.redirect .glRouter)
  | _ => none

def obsName : Obs → String
  | .mux false => "muxRedirect"
  | .mux true => "muxNotFound"
  | .resp r => respName r

def parseObs : String → Option Obs
  | "muxRedirect" => some (.mux false)
  | "muxNotFound" => some (.mux true)
  | s => (parseResp s).map Obs.resp

/-- Body field: `n` = known length n; `u<n>` = unknown length (ContentLength -1)
with n bytes actually sent. -/
def parseLen (s : String) : Option Int :=
  if s.startsWith "u" then (s.drop 1).toNat?.map (fun _ => (-1 : Int))
  else s.toNat?.map Int.ofNat

def showLen (s : String) : Option Int := s.toInt?

/-- The other headers of the request: a comma-separated list of tokens of the
harness's vocabulary (`-` = none).  The model carries them and ignores them. -/
def parseHdrs (s : String) : List (Bytes × Bytes) :=
  if s == "-" then [] else (s.splitOn ",").map (fun t => (Bytes.ofString t, []))

def parseReq (firstRun usersExist method path cookie basic ctype bodyLen : String)
    (hdrs : String := "-") : Option Req := do
  pure {
    addrBlocked := basic.endsWith "blocked"
    headers := parseHdrs hdrs
    path := ← hexDecode path
    method := ← hexDecode method
    cookie := ← parseCookie cookie
    basic := ← parseBasic basic (← parseBool usersExist)
    ctype := ← hexDecode ctype
    contentLength := ← parseLen bodyLen
    firstRun := ← parseBool firstRun
    usersExist := ← parseBool usersExist }

def specField (req : Req) (declared : Option Bytes) (o : Obs) : Option String :=
  specCheck req declared o

def stepReq (ins impl : List String) : Option String := do
  -- the header field is optional (older corpus lines do not have it)
  let (ins, hdrs) := match ins with
    | [a, b, c, d, e, f, g, h, hdrs] => ([a, b, c, d, e, f, g, h], hdrs)
    | other => (other, "-")
  match ins, impl with
  | [firstRun, usersExist, method, _target, cookie, basic, ctype, bodyLen],
    [path, muxkind, pattern, kind, _status, _location, cl] =>
    let req ← parseReq firstRun usersExist method path cookie basic ctype bodyLen hdrs
    let pat ← hexDecode pattern
    let implObs ← parseObs kind
    let seen ← showLen cl
    -- the ContentLength the handlers saw is an observation of net/http; the model
    -- is only meaningful if it is the one the input line announces
    if seen != req.contentLength then
      pure (verdict false (specField { req with contentLength := seen } none implObs)
        "content-length-oracle-violated")
    else
    match muxkind with
    | "muxredir" =>
      let m := serve .muxRedirect req
      pure (verdict (m == implObs) (specField req none implObs) (obsName m))
    | "muxnotfound" =>
      let m := serve .muxNotFound req
      pure (verdict (m == implObs) (specField req none implObs) (obsName m))
    | "route" =>
      match lookupRoute Gen.routes pat with
      | none =>
        -- the real mux serves a pattern the extractor did not find: broken tie
        pure (verdict false (specField req none implObs) "unknown-route")
      | some r =>
        if !servedBy r.pattern req.path then
          pure (verdict false (specField req (some r.declared) implObs) "mux-oracle-violated")
        else
          let m := serve (.route r) req
          pure (verdict (m == implObs) (specField req (some r.declared) implObs) (obsName m))
    | _ => none
  | _, _ => none

def parseGLStat (s : String) : Option GLStat :=
  if s == "missing" then some .missing
  else if s == "short" then some .short
  else match s.splitOn ":" with
    | ["date", n] => n.toNat?.map GLStat.date
    | _ => none

def parseOptHex (s : String) : Option (Option Bytes) :=
  if s == "none" then some none else (hexDecode s).map some

/-- gl-inet mode.  `glSeen` (the value of the first Admin-Token cookie as net/http
parses it), `stat` (what the OS finds at glFilePrefix ++ value), `now` are
observations given to the model; `issued` (the token the harness planted under
exactly that name) is given to the spec only. -/
def stepGL (ins impl : List String) : Option String := do
  match ins, impl with
  | [firstRun, usersExist, method, _target, cookie, basic, ctype, bodyLen, hdrs, _glRaw, _host],
    [path, muxkind, pattern, kind, _status, _location, cl, glSeen, stat, issued, now] =>
    let req0 ← parseReq firstRun usersExist method path cookie basic ctype bodyLen hdrs
    let req : Req := { req0 with glMode := true, glCookie := ← parseOptHex glSeen,
                                 glStat := ← parseGLStat stat, now := ← now.toNat? }
    let issued ← parseGLStat issued
    let pat ← hexDecode pattern
    let implObs ← parseObs kind
    let seen ← showLen cl
    if seen != req.contentLength then
      pure (verdict false (specCheck { req with contentLength := seen } none implObs issued)
        "content-length-oracle-violated")
    else
    match muxkind with
    | "muxredir" =>
      let m := serve .muxRedirect req
      pure (verdict (m == implObs) (specCheck req none implObs issued) (obsName m))
    | "muxnotfound" =>
      let m := serve .muxNotFound req
      pure (verdict (m == implObs) (specCheck req none implObs issued) (obsName m))
    | "route" =>
      match lookupRoute Gen.routes pat with
      | none => pure (verdict false (specCheck req none implObs issued) "unknown-route")
      | some r =>
        if !servedBy r.pattern req.path then
          pure (verdict false (specCheck req (some r.declared) implObs issued) "mux-oracle-violated")
        else
          let m := serve (.route r) req
          pure (verdict (m == implObs) (specCheck req (some r.declared) implObs issued) (obsName m))
    | _ => none
  | _, _ => none

/-- The real glCheckToken on an arbitrary byte string (no cookie parsing). -/
def stepGLTok (ins impl : List String) : Option String := do
  match ins, impl with
  | [value], [stat, issued, now, res] =>
    let req : Req := { path := [], method := [], cookie := .none, basic := .none, ctype := [],
                       contentLength := 0, firstRun := false, usersExist := false,
                       glMode := true, glCookie := some (← hexDecode value), glStat := ← parseGLStat stat,
                       now := ← now.toNat? }
    let issued ← parseGLStat issued
    let i ← parseBool res
    let m := glCheckToken req
    let spec := if i && !tokenFresh req.now issued
      then some "C11.gl-token-not-issued-under-that-name" else none
    pure (verdict (m == i) spec (if m then "token-ok" else "token-rejected"))
  | _, _ => none

def parseStore : String → Option StoreState
  | "missing" => some .missing | "fine" => some .fine | "empty" => some .empty
  | "garbage" | "garbage-short" => some .garbage
  | "truncated" => some .truncated | "directory" => some .directory
  | _ => none

/-- The start-up path: the real initUsers on a sessions.db in the given state;
`started` = it returned no error (run() goes on), `authNil` = the module it
returned is nil, `kind` = the answer to GET /control/status without credentials. -/
def stepStart (ins impl : List String) : Option String := do
  match ins, impl with
  | [store, userList], [started, authNil, kind, kept] =>
    let st ← parseStore store
    -- number of configured administrators; what their hashes look like is not
    -- the model's business: InitAuth keeps every entry
    let nUsers : Nat ← match userList with
      | "0" => some 0
      | "1" | "bad-plain" | "bad-empty" | "bad-trunc" | "bad-prefix" => some 1
      | "mixed" | "mixed-badfirst" | "several" | "allbad2" => some 2
      | _ => none
    let cfg := List.replicate nUsers ()
    let users := usersExistAfter cfg
    let keptOK := kept == "-" || kept.toNat? == some (initAuthUsers cfg).length
    let started ← parseBool started
    let probe : Option Obs ← if kind == "-" then some none else (parseObs kind).map some
    let implNil ← if authNil == "-" then some none else (parseBool authNil).map some
    let req : Req := { path := [47, 99, 111, 110, 116, 114, 111, 108, 47, 115, 116, 97, 116, 117, 115],
                       method := sGET, cookie := .none, basic := .none, ctype := [], contentLength := 0,
                       firstRun := false, usersExist := users }
    let model : Option (Bool × Obs) := (startup st).map fun n =>
      (n, Obs.resp (run [.postInstall, .optionalAuth, .gzip, .ensure sGET] (fun _ => .ran)
        { req with authNil := n }))
    let showM := match model with
      | none => "stopped"
      | some (n, o) => "started\t" ++ (if n then "auth-nil" else "auth-ok") ++ "\t" ++ obsName o
    let agree := match model with
      | none => !started
      | some (n, o) => started && implNil == some n && probe == some o && keptOK
    pure (verdict agree (startCheck (nUsers != 0) started probe) showM)
  | _, _ => none

def parseWrapper (s : String) : Option Wrapper :=
  match s.splitOn ":" with
  | ["post"] => some .postInstall
  | ["pre"] => some .preInstall
  | ["auth"] => some .optionalAuth
  | ["gzip"] => some .gzip
  | ["ensure", m] => (hexDecode m).map Wrapper.ensure
  | _ => none

def parseChain (s : String) : Option (List Wrapper) :=
  if s == "-" then some [] else (s.splitOn ",").mapM parseWrapper

def stepChain (ins impl : List String) : Option String := do
  let (ins, hdrs) := match ins with
    | [a, b, c, d, e, f, g, h, i, hdrs] => ([a, b, c, d, e, f, g, h, i], hdrs)
    | other => (other, "-")
  match ins, impl with
  | [chain, firstRun, usersExist, method, path, cookie, basic, ctype, bodyLen], [kind] =>
    let ch ← parseChain chain
    let req ← parseReq firstRun usersExist method path cookie basic ctype bodyLen hdrs
    let implObs ← parseObs kind
    let m := Obs.resp (run ch (fun _ => .ran) req)
    -- the declared method of a free-standing chain is that of its ensure wrapper
    let declared := ch.findSome? (fun w => match w with | .ensure m => some m | _ => none)
    -- the authentication clause of the spec speaks about routes of the program;
    -- on a free-standing chain only the method/content-type clause applies
    let spec : Option String :=
      if implObs == .resp .ran && badStateChange req declared
      then some "C11.state-change-wrong-method-or-ctype" else none
    pure (verdict (m == implObs) spec (obsName m))
  | _, _ => none

def stepPublic (ins impl : List String) : Option String := do
  match ins, impl with
  | [p], [v] =>
    let path ← hexDecode p
    let i ← parseBool v
    let m := isPublicResource path
    -- the code's public-resource test must stay inside what the property allows
    let spec := if i && !specPublicPath path then some "C11.public-resource-too-wide" else none
    pure (verdict (m == i) spec (if m then "public" else "private"))
  | _, _ => none

def stepTable (ins impl : List String) : Option String := do
  match ins, impl with
  | [p], [v] =>
    let pat ← hexDecode p
    let i ← parseBool v
    let r := lookupRoute Gen.routes pat
    let m := r.isSome
    -- a pattern that is registered on the real mux and whose extracted chain does
    -- not meet the per-route obligation: names the route that lost its gate
    let spec := match r with
      | some r => if i && !routeOK r then some "C11.route-not-gated" else none
      | none => none
    pure (verdict (m == i) spec (if m then "in-table" else "not-in-table"))
  | _, _ => none

def step (_ : Unit) (line : String) : Unit × String :=
  let fs := splitTab line
  let go (f : List String → List String → Option String) (rest : List String) : Unit × String :=
    match splitArrow rest with
    | some (ins, impl) => ((), (f ins impl).getD "bad-op")
    | none => ((), "bad-op")
  match fs with
  | "C11.req" :: rest => go stepReq rest
  | "C11.wire" :: rest => go stepReq rest
  | "C11.gl" :: rest => go stepGL rest
  | "C11.gltok" :: rest => go stepGLTok rest
  | "C11.start" :: rest => go stepStart rest
  | "C11.chain" :: rest => go stepChain rest
  | "C11.public" :: rest => go stepPublic rest
  | "C11.table" :: rest => go stepTable rest
  | _ => ((), "bad-op")

def main : IO Unit := run step ()
