/-
C15 — a failed filter refresh changes nothing; a successful one stores a
stable normal form.  Property theorems only.

Status (see the report):
  * failure / unchanged-checksum / sequence theorems: full strength, for every
    list state, every body and every cut position;
  * normal-form theorems: what is written is proved exactly (`C15_output_shape`);
    the fixed point is proved unconditionally; the three facts about
    `bytes.TrimSpace` it rests on (sublist, idempotent, no trailing CR) are
    proved for the model of Go's algorithm over all byte strings, invalid
    UTF-8 included (`C15_trimspace_facts`);
  * rules in force: proved for every history of refreshes AND set_url requests
    (`C15_insync_invariant`, `C15_failed_refresh_keeps_rules_in_force`) for the
    code as repaired by commits f646577 (rebuild although the other array failed
    completely) and c5ab9db (rebuild when URL / enabled flag changed although the
    download brought nothing new).  Both defects were found by this check; the
    witnesses are kept in corpus/C15/refresh.txt as regression cases.
-/
import AGH.Spec.RuleList
import AGH.Lemmas.RuleListRefresh
import AGH.Lemmas.RuleListParse
import AGH.Lemmas.RuleListTrimFacts
import AGH.Lemmas.RuleListLink
import AGH.Lemmas.RuleListBurst
import AGH.Lemmas.RuleListAccept
import AGH.Gen.C15Refresh
namespace AGH.C15
open AGH AGH.Bytes

/-! ### A failed refresh changes nothing -/

/-- Whatever makes `update` return an error — no connection, non-200,
unreadable local file, HTML, binary, a line too long, a body cut at ANY byte —
leaves file, rule count and checksum of the list exactly as they were. -/
theorem C15_failure_changes_nothing (flt : Flt) (f : Fetch) (h : fetchFails f = true) :
    refreshOne flt f = flt :=
  refreshOne_of_none (updateIntl_none_of_fails h)

/-- A body that is cut short is a failure wherever the cut falls (before the
first byte, mid-line, at a line boundary): for every delivered prefix. -/
theorem C15_cut_body_fails (data : Bytes) : fetchFails (.body data false) = true := by
  simp only [fetchFails]
  cases h : (parse data false).err with
  | none => exact absurd h (parse_incomplete data)
  | some e => rfl

/-- HTML where the list should start, and binary bytes in a rule line, make
the parse fail (stated on the scanner's lines). -/
theorem C15_html_binary_fail (src : Bytes) (c : Bool) (h : (parse src c).err = none) :
    (∀ k rest, keptLines (scanLines (src.length + 1) src c).1 = k :: rest → isHTMLLine k = false) ∧
    (∀ k ∈ keptLines (scanLines (src.length + 1) src c).1, k.any likelyBinary = false) := by
  have he : (scanLines (src.length + 1) src c).2 = .eof :=
    parse_ok_eof h
  rw [parse_def, he] at h
  obtain ⟨_, _, _, _, h5, h6⟩ := runLines_ok _ _ _ _ _ rfl h
  exact ⟨h6 rfl, h5⟩

/-- Content whose checksum is unchanged is not rewritten: file, count and
checksum stay (only the modification time moves, which the model omits). -/
theorem C15_same_checksum_no_rewrite (flt : Flt) (data : Bytes) (c : Bool)
    (h : (parse data c).st.crc = flt.checksum) : refreshOne flt (.body data c) = flt := by
  apply refreshOne_of_none
  simp only [updateIntl]
  rw [if_neg]
  intro hh
  exact hh.2 h

/-- A refresh that does replace the file stores exactly the parser's output
of one complete body, with that parse's count and checksum. -/
theorem C15_success_stores_parse (flt : Flt) (f : Fetch) (h : refreshOne flt f ≠ flt) :
    ∃ data, f = .body data true ∧ (parse data true).err = none ∧
      (refreshOne flt f).file = some (parse data true).out ∧
      (refreshOne flt f).count = (parse data true).st.count ∧
      (refreshOne flt f).checksum = (parse data true).st.crc := by
  unfold refreshOne at h ⊢
  cases hu : updateIntl flt.checksum f with
  | none => rw [hu] at h; exact absurd rfl h
  | some p =>
    obtain ⟨c, ck, out⟩ := p
    obtain ⟨data, rfl, he, _, rfl, rfl, rfl⟩ := updateIntl_some hu
    exact ⟨data, rfl, he, rfl, rfl, rfl⟩

/-- Over ANY sequence of refreshes with arbitrary per-request outcome, the
list is at every moment either pristine or exactly in the state produced by
ONE successful complete download (never a mixture, never a partial file). -/
theorem C15_refresh_sequence (flt : Flt) (fs : List Fetch) (h : Consistent flt) :
    Consistent (fs.foldl refreshOne flt) := by
  induction fs generalizing flt with
  | nil => exact h
  | cons f fs ih => exact ih _ (refreshOne_consistent f h)

/-- … and a suffix of failures does not move it: the state after the whole
history is the state after its last successful, checksum-changing refresh. -/
theorem C15_failures_are_invisible (flt : Flt) (fs : List Fetch) (h : ∀ f ∈ fs, fetchFails f = true) :
    fs.foldl refreshOne flt = flt := by
  induction fs generalizing flt with
  | nil => rfl
  | cons f fs ih =>
    simp only [List.foldl_cons]
    rw [C15_failure_changes_nothing flt f (h f (by simp))]
    exact ih flt (fun g hg => h g (by simp [hg]))

/-- In a whole `tryRefreshFilters` call over both arrays: a list that is not
attempted, or whose download fails, keeps file, count and checksum — also
when other lists of the batch succeed. -/
theorem C15_batch_failure_changes_nothing (rq : Req) (ls : List LState) (ins : List (Bool × Fetch))
    (i : Nat) (l : LState) (due : Bool) (f : Fetch) (hl : ls[i]? = some l) (hi : ins[i]? = some (due, f))
    (hf : attempted rq l due = false ∨ fetchFails f = true) :
    ((refreshStep rq ls ins)[i]?).map (·.flt) = some l.flt := by
  have hp := phase1_get rq ls ins i l due f hl hi
  have hflt : (if attempted rq l due then { l with flt := refreshOne l.flt f } else l).flt = l.flt := by
    rcases hf with hf | hf
    · simp [hf]
    · split
      · simp [C15_failure_changes_nothing l.flt f hf]
      · rfl
  unfold refreshStep
  simp only [List.getElem?_map]
  cases hg : (phase1 rq ls ins)[i]? with
  | none => rw [hg] at hp; simp at hp
  | some r =>
    rw [hg] at hp
    simp only [Option.map_some, Option.some.injEq] at hp
    simp only [Option.map_some, Option.some.injEq]
    rw [reload_flt, hp]; exact hflt

/-! ### The stored form -/

/-- The stored form is the normal form of what the scanner delivered: the
trimmed lines that are neither blank nor comments, in order, each followed by
`\n`; the count is their number and the checksum the CRC over them. -/
theorem C15_output_shape (src : Bytes) (h : (parse src true).err = none) :
    (parse src true).out = joinLines (keptLines (scanLines (src.length + 1) src true).1) ∧
    (parse src true).st.count = (keptLines (scanLines (src.length + 1) src true).1).length ∧
    (parse src true).st.crc = crcLines 0 (keptLines (scanLines (src.length + 1) src true).1) := by
  have he : (scanLines (src.length + 1) src true).2 = .eof := parse_ok_eof h
  rw [parse_def, he] at h ⊢
  obtain ⟨h1, h2, h3, _⟩ := runLines_ok _ _ _ _ _ rfl h
  refine ⟨by simpa using h1, by simpa [PState.init] using h2, by simpa [PState.init] using h3⟩

/-- `bytes.TrimSpace` (Go 1.26 algorithm, every byte string): the result is a
sublist of the input, trimming is idempotent, and the result never ends in a
carriage return. -/
theorem C15_trimspace_facts :
    (∀ x : Bytes, (trimSpace x).Sublist x) ∧ (∀ x : Bytes, trimSpace (trimSpace x) = trimSpace x) ∧
    (∀ x : Bytes, (trimSpace x).getLast? ≠ some 13) :=
  ⟨trimSpace_sub, trimSpace_idem, trimSpace_noCR⟩

/-- The stored form is a fixed point of the parser: parsing it again (what
`load` does after a restart) succeeds, writes the same bytes and yields the
same rule count and checksum. -/
theorem C15_normal_form_fixed_point (src : Bytes) (h : (parse src true).err = none) :
    (parse (parse src true).out true).err = none ∧
    (parse (parse src true).out true).out = (parse src true).out ∧
    (parse (parse src true).out true).st.count = (parse src true).st.count ∧
    (parse (parse src true).out true).st.crc = (parse src true).st.crc := by
  have T := trimFacts
  have he : (scanLines (src.length + 1) src true).2 = .eof := parse_ok_eof h
  obtain ⟨ho, hc, hk⟩ := C15_output_shape src h
  have htok := scanLines_tokens _ _ _ he
  generalize hL : (scanLines (src.length + 1) src true).1 = L at ho hc hk htok
  have hrun : runLines PState.init [] L 1 .eof = parse src true := by
    rw [parse_def, he, hL]
  obtain ⟨_, _, _, _, hbin, hhtml⟩ := runLines_ok _ _ _ _ _ hrun h
  -- every kept line is fixed by trimSpace, has no newline, is short, has no trailing CR
  have hkept : ∀ k ∈ keptLines L, trimSpace k = k ∧ isContent k = true ∧ k.any likelyBinary = false ∧
      nl ∉ k ∧ k.length < maxToken ∧ dropCR k = k := by
    intro k hk'
    simp only [keptLines, List.mem_filter, List.mem_map] at hk'
    obtain ⟨⟨l, hl, rfl⟩, hcont⟩ := hk'
    obtain ⟨hnl, hlen⟩ := htok l hl
    have hsub := T.sub l
    refine ⟨T.idem l, hcont, hbin _ (by simp only [keptLines, List.mem_filter, List.mem_map]; exact ⟨⟨l, hl, rfl⟩, hcont⟩),
      fun hm => hnl (hsub.subset hm), Nat.lt_of_le_of_lt hsub.length_le hlen, ?_⟩
    have := T.noCR l
    unfold dropCR
    split
    · rename_i hx; exact absurd hx this
    · rfl
  have hscan := scanLines_join (keptLines L) ((joinLines (keptLines L)).length + 1)
    (fun k hk' => ⟨(hkept k hk').2.2.2.1, (hkept k hk').2.2.2.2.1, (hkept k hk').2.2.2.2.2⟩) (Nat.le_refl _)
  have hre := runLines_kept (keptLines L) PState.init [] 1
    (fun k hk' => ⟨(hkept k hk').1, (hkept k hk').2.1, (hkept k hk').2.2.1⟩) (fun _ => hhtml rfl)
  rw [ho, hc, hk]
  rw [parse_def (joinLines (keptLines L)) true, hscan]
  obtain ⟨h1, h2, h3, h4⟩ := hre
  exact ⟨h1, by simpa using h2, by simpa [PState.init] using h3, by simpa [PState.init] using h4⟩

/-- At every point of every refresh history the stored count and checksum are
what a restart (`load`: parse the file) computes from the file. -/
theorem C15_metadata_describes_file (flt : Flt) (fs : List Fetch) (h : Consistent flt)
    (out : Bytes) (hf : (fs.foldl refreshOne flt).file = some out) :
    (parse out true).err = none ∧ (parse out true).out = out ∧
    (parse out true).st.count = (fs.foldl refreshOne flt).count ∧
    (parse out true).st.crc = (fs.foldl refreshOne flt).checksum := by
  rcases C15_refresh_sequence flt fs h with ⟨hn, _, _⟩ | ⟨data, he, hfile, hcnt, hck⟩
  · rw [hn] at hf; cases hf
  · rw [hfile] at hf
    simp only [Option.some.injEq] at hf
    subst hf
    obtain ⟨h1, h2, h3, h4⟩ := C15_normal_form_fixed_point data he
    exact ⟨h1, h2, by rw [h3, hcnt], by rw [h4, hck]⟩

/-! ### Rules in force -/

/-- The engine's view of every list stays equal to its file (`none` for a
disabled list) across every history of `tryRefreshFilters` calls and set_url
requests with arbitrary selections, due flags and download outcomes (code as
repaired by f646577 and c5ab9db). -/
theorem C15_insync_invariant (ls : List LState) (h : List HOp)
    (h0 : ∀ l ∈ ls, InSync l) : ∀ l ∈ runHist h ls, InSync l := by
  induction h generalizing ls with
  | nil => exact h0
  | cons c h ih =>
    simp only [runHist, List.foldl_cons]
    apply ih
    cases c with
    | refresh rq ins => exact refreshStep_insync rq ls ins h0
    | setURL i rq f => exact setURLStep_insync ls i rq f h0

/-- With bursts of handler calls (each only REQUESTS the rebuild; the latest
request replaces the one still waiting; `updatesLoop` runs later): at every
moment the waiting task describes the list set as it is now, and whenever
nothing is waiting — in particular right after the loop step — the engine's
view equals the files of the lists enabled in the configuration accepted last. -/
theorem C15_burst_invariant (s : BState) (ops : List BOp) (h : BInv s) : BInv (runB ops s) := by
  induction ops generalizing s with
  | nil => exact h
  | cons op ops ih => exact ih _ (stepB_inv s op h)

/-- After the loop step nothing is waiting, so the engine is in sync. -/
theorem C15_burst_drained_in_sync (s : BState) (ops : List BOp) (h : BInv s) :
    (runB (ops ++ [.loop]) s).pending = none ∧ ∀ l ∈ (runB (ops ++ [.loop]) s).ls, InSync l := by
  have hi := C15_burst_invariant s (ops ++ [.loop]) h
  have hp : (runB (ops ++ [.loop]) s).pending = none := by
    simp only [runB, List.foldl_append, List.foldl_cons, List.foldl_nil, stepB, drain]
    cases hp : (List.foldl stepB s ops).pending with
    | none => simpa using hp
    | some snap => rfl
  exact ⟨hp, hi.2 hp⟩

/-- In any state in which the engine agrees with the files — every state
reached by a history of refreshes and set_url requests (`C15_insync_invariant`)
and every drained state of a history with bursts (`C15_burst_invariant`) — a
refresh that fails for a list, or does not attempt it, leaves its file, count,
checksum AND its rules in force exactly as they were, whatever happens to the
other lists in the same call. -/
theorem C15_failed_refresh_keeps_rules_in_force (ls : List LState)
    (h0 : ∀ l ∈ ls, InSync l) (rq : Req) (ins : List (Bool × Fetch))
    (i : Nat) (l : LState) (due : Bool) (f : Fetch) (hl : ls[i]? = some l)
    (hi : ins[i]? = some (due, f)) (hf : attempted rq l due = false ∨ fetchFails f = true) :
    ((refreshStep rq ls ins)[i]?).map (·.inForce) = some l.inForce ∧
    ((refreshStep rq ls ins)[i]?).map (·.flt) = some l.flt := by
  have hs : InSync l := h0 l (List.mem_of_getElem? hl)
  refine ⟨?_, C15_batch_failure_changes_nothing rq _ ins i l due f hl hi hf⟩
  have hp := phase1_get rq ls ins i l due f hl hi
  have hsame : (if attempted rq l due then { l with flt := refreshOne l.flt f } else l) = l := by
    rcases hf with hf | hf
    · simp [hf]
    · split
      · rw [C15_failure_changes_nothing l.flt f hf]
      · rfl
  rw [hsame] at hp
  unfold refreshStep
  simp only [List.getElem?_map]
  cases hg : (phase1 rq ls ins)[i]? with
  | none => rw [hg] at hp; simp at hp
  | some r =>
    rw [hg] at hp
    simp only [Option.map_some, Option.some.injEq] at hp
    simp only [Option.map_some, Option.some.injEq]
    rw [reload_inForce, hp]
    have hs' : (if l.flt.enabled = true then l.flt.file else none) = l.inForce := hs.symm
    rw [hs']
    exact ite_self _

/-! ### The model against the monitor -/

/-- What a successful refresh stores is the monitor's normal form of the
fetched body — split at LF, each line trimmed, blank lines and `#`/`!`
comments dropped, each kept line followed by LF — with the number of kept
lines as count and their CRC-32 as checksum; HTML documents and bodies with
binary rule lines never parse.  (This ties the scanner-based parser — 64 KiB
token limit, `dropCR` — to the LF-split definition of the property text, on
every body.) -/
theorem C15_stored_form_is_normal_form (src : Bytes) (h : (parse src true).err = none) :
    (parse src true).out = normalForm src ∧
    (parse src true).st.count = (specLines src).length ∧
    (parse src true).st.crc = crcLines 0 (specLines src) ∧
    htmlDoc src = false ∧ binaryDoc src = false :=
  parse_normal src h

/-- **The byte-level parser equals the declarative normal form.**  For every
byte string the parser accepts (`bufio.Scanner` line splitting with `dropCR`
and the 64 KiB token limit, `bytes.TrimSpace` with its Unicode set on valid and
invalid UTF-8, `#`/`!` comment classes — `##…` cosmetic rules are comments too,
there is no exception —, title extraction, the HTML test on the first line that
would be written, the binary test on rule lines, running CRC-32 over the
trimmed rule lines): bytes written = `normalForm src`, count = number of its
lines, checksum = CRC over them. -/
theorem C15_parser_equals_normal_form (src : Bytes) (h : (parse src true).err = none) :
    (parse src true).out = normalForm src ∧
    (parse src true).st.count = (specLines src).length ∧
    (parse src true).st.crc = crcLines 0 (specLines src) :=
  ⟨(parse_normal src h).1, (parse_normal src h).2.1, (parse_normal src h).2.2.1⟩

/-- **Which byte strings are accepted** — declaratively, for every byte
string: the parser succeeds on a complete body exactly when the body is not an
HTML document (first kept line starts with `<html` / `<!doctype`, any case),
no kept line has a control byte other than TAB (CR/LF cannot occur), and no
LF-terminated line — CR included — is 65 536 bytes or longer.  Together with
`C15_parser_equals_normal_form` the parser is fully described on complete
bodies; on a cut body it always fails (`C15_cut_body_fails`). -/
theorem C15_acceptance_characterised (src : Bytes) :
    (parse src true).err = none ↔
      (htmlDoc src = false ∧ binaryDoc src = false ∧ ∀ l ∈ splitOn nl src, l.length < maxToken) :=
  parse_accepts_iff src

/-- The normal form is idempotent — for EVERY byte string, accepted or not. -/
theorem C15_normal_form_idempotent (src : Bytes) : normalForm (normalForm src) = normalForm src := by
  unfold normalForm
  rw [specLines_joinLines (specLines src) (specLines_facts src)]

/-- Re-parsing the stored form (what `load` does at start-up) yields the same
bytes, the same rule count and the same checksum, at byte level. -/
theorem C15_reparse_same_count_and_checksum (src : Bytes) (h : (parse src true).err = none) :
    (parse (normalForm src) true).err = none ∧
    (parse (normalForm src) true).out = normalForm src ∧
    (parse (normalForm src) true).st.count = (parse src true).st.count ∧
    (parse (normalForm src) true).st.crc = (parse src true).st.crc := by
  have := C15_normal_form_fixed_point src h
  rw [(parse_normal src h).1] at this
  exact this

/-- Each failure the property enumerates (cut body, HTML, binary content,
failed transfer / unreadable file) is a failure of `update`. -/
theorem C15_enumerated_failures_fail (f : Fetch) (h : fetchBad f = true) : fetchFails f = true :=
  fetchBad_fails f h

/-- The model's parser satisfies the parser monitor on every text, complete or
cut short. -/
theorem C15_parse_meets_spec (src : Bytes) (complete : Bool) :
    parseSpecWhy src complete (parseObsOf src complete) = none := by
  unfold parseSpecWhy parseObsOf
  cases he : (parse src complete).err with
  | some e => simp
  | none =>
    cases complete with
    | false => exact absurd he (parse_incomplete src)
    | true =>
      obtain ⟨h1, h2, h3, h4, h5⟩ := parse_normal src he
      obtain ⟨f1, f2, f3, f4⟩ := C15_normal_form_fixed_point src he
      simp [h4, h5, h1.symm, h2.symm, h3.symm, f1, f2, f3, f4]

/-- **The model satisfies the refresh monitor in every in-sync state (every
reachable state, see `C15_insync_invariant` / `C15_burst_invariant`), for
every list of every call**: not attempted, failed, succeeded with unchanged
checksum, succeeded and rewritten.  `rew` is the model's "file was replaced". -/
theorem C15_model_meets_spec (ls : List LState)
    (h0 : ∀ l ∈ ls, InSync l) (rq : Req) (ins : List (Bool × Fetch))
    (i : Nat) (l l' : LState) (due : Bool) (f : Fetch) (hl : ls[i]? = some l)
    (hi : ins[i]? = some (due, f)) (hl' : (refreshStep rq ls ins)[i]? = some l') :
    refreshSpecWhy i (obsOf i l false) f (attempted rq l due)
      (obsOf i l' (attempted rq l due && (updateIntl l.flt.checksum f).isSome)) = none := by
  by_cases hf : attempted rq l due = false ∨ fetchFails f = true
  · -- nothing may change, and nothing does
    obtain ⟨h2, h1⟩ := C15_failed_refresh_keeps_rules_in_force ls h0 rq ins i l due f hl hi hf
    rw [hl'] at h1 h2
    simp only [Option.map_some, Option.some.injEq] at h1 h2
    have hrew : (attempted rq l due && (updateIntl l.flt.checksum f).isSome) = false := by
      rcases hf with hf | hf
      · simp [hf]
      · simp [updateIntl_none_of_fails hf]
    have hobs : obsOf i l' false = obsOf i l false := by simp [obsOf, h1, h2]
    rw [hrew, hobs]
    unfold refreshSpecWhy
    cases ha : attempted rq l due with
    | false => simp [obsOf]
    | true =>
      simp only [Bool.not_true, Bool.false_eq_true, if_false]
      by_cases hb : fetchBad f = true
      · simp [hb, obsOf]
      · simp only [hb, if_false]
        cases f with
        | fail => rfl
        | body data c =>
          simp [obsOf]
          -- the body failed for a reason the property does not list: some line is too long
          intro hshort
          exfalso
          have hff : fetchFails (.body data c) = true := by
            rcases hf with hf | hf
            · rw [ha] at hf; cases hf
            · exact hf
          cases c with
          | false => simp [fetchBad] at hb
          | true =>
            simp only [fetchBad, Bool.not_true, Bool.false_or, Bool.or_eq_true, not_or, Bool.not_eq_true] at hb
            have hacc := (C15_acceptance_characterised data).mpr ⟨hb.1, hb.2, hshort⟩
            simp [fetchFails, hacc] at hff
  · -- a successful download of a complete body
    simp only [not_or, Bool.not_eq_false, Bool.not_eq_true] at hf
    obtain ⟨hatt, hnf⟩ := hf
    have hflt := refreshStep_flt rq _ ins i l l' due f hl hi hl'
    rw [hatt] at hflt
    simp only [if_true] at hflt
    have hnb : fetchBad f = false := by
      cases hb : fetchBad f with
      | false => rfl
      | true => rw [fetchBad_fails f hb] at hnf; cases hnf
    cases f with
    | fail => simp [fetchFails] at hnf
    | body data c =>
      cases c with
      | false => rw [C15_cut_body_fails data] at hnf; cases hnf
      | true =>
        have hok : (parse data true).err = none := by
          simp only [fetchFails] at hnf
          cases hp : (parse data true).err with
          | none => rfl
          | some e => rw [hp] at hnf; cases hnf
        obtain ⟨hout, hcnt, hcrc, _, _⟩ := parse_normal data hok
        unfold refreshSpecWhy
        rw [hatt, hnb]
        simp only [Bool.not_true, Bool.false_eq_true, if_false, Bool.true_and]
        by_cases hsame : (parse data true).st.crc = l.flt.checksum
        · have hu : updateIntl l.flt.checksum (.body data true) = none := by
            simp [updateIntl, hsame]
          rw [refreshOne_of_none hu] at hflt
          simp [obsOf, hu, hflt]
          intro _
          rw [← hcrc]; exact hsame
        · have hu : updateIntl l.flt.checksum (.body data true) =
              some ((parse data true).st.count, (parse data true).st.crc, (parse data true).out) := by
            simp [updateIntl, hok, hsame]
          have hflt' : l'.flt =
              ⟨l.flt.enabled, (parse data true).st.count, (parse data true).st.crc, some (parse data true).out⟩ := by
            rw [hflt]; simp [refreshOne, hu]
          have hne : (l'.flt.checksum == l.flt.checksum) = false := by
            rw [hflt']; simpa using hsame
          obtain ⟨_, _, fx3, fx4⟩ := C15_normal_form_fixed_point data hok
          rw [hout, hcnt] at fx3
          rw [hout, hcrc] at fx4
          simp only [obsOf, hne, Bool.false_eq_true, if_false]
          simp [hflt', hout, hcnt, hcrc, fx3, fx4]

/-! ### set_url (not a refresh: what the code guarantees there) -/

/-- A refused set_url request (duplicate URL, or the download for the new URL
/ newly enabled list failed) leaves the list's URL, enabled flag, rule count
and file as they were.  The checksum is the one exception (observation O1):
it is what the download was compared against — zero after a URL change. -/
theorem C15_seturl_failure_guarantee (flt : Flt) (rq : SetReq) (f : Fetch)
    (h : (setProps flt rq f).res = .err) :
    (setProps flt rq f).urlChanged = false ∧ (setProps flt rq f).flt.enabled = flt.enabled ∧
    (setProps flt rq f).flt.count = flt.count ∧ (setProps flt rq f).flt.file = flt.file ∧
    ((setProps flt rq f).flt.checksum = flt.checksum ∨
      (rq.changed = true ∧ (setProps flt rq f).flt.checksum = 0)) := by
  rcases setProps_cases flt rq f with h1 | ⟨_, r, h2⟩ | ⟨_, _, h3⟩ | ⟨_, h4⟩
  · rw [h1]; exact ⟨rfl, rfl, rfl, rfl, Or.inl rfl⟩
  · rw [h2] at h; cases h
  · rw [h3] at h; cases h
  · rw [h4] at h ⊢
    rcases setDownload_cases flt _ rq.changed f with ⟨c, k, out, _, hs⟩ | ⟨_, _, hs⟩ | ⟨_, _, hs⟩
    · rw [hs] at h; cases h
    · rw [hs]
      refine ⟨rfl, rfl, rfl, rfl, ?_⟩
      cases hc : rq.changed with
      | false => left; simp
      | true => right; simp
    · rw [hs] at h; cases h

/-- Observation O1, consequence: after a FAILED set_url that tried a new URL,
the next refresh of the old URL stores byte-identical content again — the
file is rewritten although the checksum of the content did not change. -/
theorem C15_observation_O1_rewrite_after_failed_seturl (flt : Flt) (rq : SetReq) (f : Fetch) (data : Bytes)
    (hok : (parse data true).err = none) (hfile : flt.file = some (parse data true).out)
    (hck : flt.checksum = (parse data true).st.crc) (hnz : (parse data true).st.crc ≠ 0)
    (hch : rq.changed = true) (hdup : rq.dup = false) (hen : rq.enabled = true) (hff : fetchFails f = true) :
    (setProps flt rq f).res = .err ∧
    (updateIntl (setProps flt rq f).flt.checksum (.body data true)).isSome = true ∧
    (refreshOne (setProps flt rq f).flt (.body data true)).file = flt.file := by
  have hsp : setProps flt rq f = ⟨⟨flt.enabled, flt.count, 0, flt.file⟩, false, .err⟩ := by
    rcases setProps_cases flt rq f with h1 | ⟨he, _⟩ | ⟨_, hc, _⟩ | ⟨_, h4⟩
    · -- the duplicate branch is excluded
      exfalso
      have : setProps flt rq f = setProps flt rq f := rfl
      unfold setProps at h1
      simp [hch, hdup, hen] at h1
      rcases setDownload_cases flt ⟨true, 0, 0, flt.file⟩ true f with ⟨c, k, out, hu, _⟩ | ⟨_, _, hs⟩ | ⟨_, hn, _⟩
      · rw [updateIntl_none_of_fails hff] at hu; cases hu
      · rw [hs] at h1
        simp only [SetOut.mk.injEq, and_true] at h1
        have := congrArg Flt.checksum h1
        simp only at this
        rw [hck] at this
        exact hnz this.symm
      · rw [hff] at hn; cases hn
    · rw [hen] at he; cases he
    · rw [hch] at hc; cases hc
    · rw [h4]
      simp only [hch, if_true]
      rcases setDownload_cases flt ⟨true, 0, 0, flt.file⟩ true f with ⟨c, k, out, hu, _⟩ | ⟨_, _, hs⟩ | ⟨_, hn, _⟩
      · rw [updateIntl_none_of_fails hff] at hu; cases hu
      · exact hs
      · rw [hff] at hn; cases hn
  rw [hsp]
  have hu : updateIntl 0 (.body data true) =
      some ((parse data true).st.count, (parse data true).st.crc, (parse data true).out) := by
    simp [updateIntl, hok, hnz]
  refine ⟨rfl, by simp [hu], ?_⟩
  simp [refreshOne, hu, hfile]

/-- Whenever a set_url request replaces the list's file, it stores exactly
what a refresh would: the normal form of the complete body, its line count and
checksum. -/
theorem C15_seturl_success_stores_normal_form (flt : Flt) (rq : SetReq) (f : Fetch)
    (h : (setProps flt rq f).flt.file ≠ flt.file) :
    ∃ data, f = .body data true ∧ (parse data true).err = none ∧
      (setProps flt rq f).res = .ok true ∧
      (setProps flt rq f).flt.file = some (normalForm data) ∧
      (setProps flt rq f).flt.count = (specLines data).length ∧
      (setProps flt rq f).flt.checksum = crcLines 0 (specLines data) := by
  rcases setProps_cases flt rq f with h1 | ⟨_, r, h2⟩ | ⟨_, _, h3⟩ | ⟨_, h4⟩
  · rw [h1] at h; exact absurd rfl h
  · rw [h2] at h; exact absurd rfl h
  · rw [h3] at h; exact absurd rfl h
  · rw [h4] at h ⊢
    rcases setDownload_cases flt _ rq.changed f with ⟨c, k, out, hu, hs⟩ | ⟨_, _, hs⟩ | ⟨_, _, hs⟩
    · obtain ⟨data, rfl, hok, _, rfl, rfl, rfl⟩ := updateIntl_some hu
      obtain ⟨h1, h2, h3, _, _⟩ := parse_normal data hok
      rw [hs]
      exact ⟨data, rfl, hok, rfl, by simp [h1], h2, h3⟩
    · rw [hs] at h; exact absurd rfl h
    · rw [hs] at h; exact absurd rfl h

/-- Observation O2 (outside C15's refresh wording; code as repaired by
c5ab9db): a set_url to a NEW URL whose list has no rules (checksum 0, e.g. an
empty body) is accepted; the list now carries the new URL with count 0 and
checksum 0, nothing is stored, the engine IS rebuilt — from the stored file of
that list id, which is still the OLD URL's content: the old URL's rules stay
on disk and in force under the new URL. -/
theorem C15_observation_O2_empty_list_keeps_old_file (ls : List LState) (i : Nat) (l : LState)
    (old : Bytes) (hl : ls[i]? = some l) (hf : l.flt.file = some old) :
    (setProps l.flt ⟨true, false, true⟩ (.body [] true)) = ⟨⟨true, 0, 0, some old⟩, true, .ok true⟩ ∧
    ((setURLStep ls i ⟨true, false, true⟩ (.body [] true)).1[i]?).map (fun x => (x.flt.file, x.inForce)) =
      some (some old, some old) := by
  have hsp : setProps l.flt ⟨true, false, true⟩ (.body [] true) = ⟨⟨true, 0, 0, some old⟩, true, .ok true⟩ := by
    obtain ⟨⟨fe, cnt, ck, file⟩, al, inf⟩ := l
    simp only at hf
    subst hf
    cases fe <;> simp [setProps, setDownload, updateIntl, fetchFails, parse, scanLines, runLines, PState.init]
  refine ⟨hsp, ?_⟩
  unfold setURLStep
  rw [hl]
  simp only [hsp]
  have hi : i < ls.length := (List.getElem?_eq_some_iff.mp hl).1
  simp [List.getElem?_map, List.getElem?_set, hi]

/-- Over ANY history of refreshes and set_url requests on a list: there is no
file and the metadata are zero, or the file is exactly the stored form of one
complete successful download, and count and checksum are each zero or those of
that download — never those of other content. -/
theorem C15_mixed_history_invariant (flt : Flt) (ops : List LOp) (h : WeakConsistent flt) :
    WeakConsistent (ops.foldl applyOp flt) := by
  induction ops generalizing flt with
  | nil => exact h
  | cons op ops ih =>
    apply ih
    cases op with
    | refresh f =>
      simp only [applyOp, refreshOne]
      cases hu : updateIntl flt.checksum f with
      | none => simpa using h
      | some p =>
        obtain ⟨c, k, out⟩ := p
        obtain ⟨data, _, he, _, rfl, rfl, rfl⟩ := updateIntl_some hu
        exact Or.inr ⟨data, he, rfl, Or.inr rfl, Or.inr rfl⟩
    | setURL rq f =>
      simp only [applyOp]
      have zero : ∀ (e : Bool), WeakConsistent ⟨e, 0, 0, flt.file⟩ := by
        intro e
        rcases h with ⟨hn, _, _⟩ | ⟨data, he, hf, _, _⟩
        · exact Or.inl ⟨hn, rfl, rfl⟩
        · exact Or.inr ⟨data, he, hf, Or.inl rfl, Or.inl rfl⟩
      have same : ∀ (e : Bool), WeakConsistent ⟨e, flt.count, flt.checksum, flt.file⟩ := by
        intro e
        rcases h with ⟨hn, hc, hk⟩ | ⟨data, he, hf, hc, hk⟩
        · exact Or.inl ⟨hn, hc, hk⟩
        · exact Or.inr ⟨data, he, hf, hc, hk⟩
      have mixed : ∀ (e : Bool), WeakConsistent ⟨e, flt.count, 0, flt.file⟩ := by
        intro e
        rcases h with ⟨hn, hc, _⟩ | ⟨data, he, hf, hc, _⟩
        · exact Or.inl ⟨hn, hc, rfl⟩
        · exact Or.inr ⟨data, he, hf, hc, Or.inl rfl⟩
      rcases setProps_cases flt rq f with h1 | ⟨_, r, h2⟩ | ⟨_, _, h3⟩ | ⟨_, h4⟩
      · rw [h1]; exact same flt.enabled
      · rw [h2]; exact zero false
      · rw [h3]; exact same true
      · rw [h4]
        rcases setDownload_cases flt _ rq.changed f with ⟨c, k, out, hu, hs⟩ | ⟨_, _, hs⟩ | ⟨_, _, hs⟩
        · obtain ⟨data, _, he, _, rfl, rfl, rfl⟩ := updateIntl_some hu
          rw [hs]
          exact Or.inr ⟨data, he, rfl, Or.inr rfl, Or.inr rfl⟩
        · rw [hs]
          cases hc : rq.changed with
          | false => simpa using same flt.enabled
          | true => simpa using mixed flt.enabled
        · rw [hs]
          cases hc : rq.changed with
          | false => simpa using same true
          | true => simpa using zero true

/-- **The stored file is always ONE body.**  After any history of refreshes and
set_url requests on a list that started without a file: there is no file, or
the file is the normal form of exactly one complete response body that the
parser accepted — never a mixture of two answers, never a prefix.  (Follows
from `C15_mixed_history_invariant` and `C15_parser_equals_normal_form`; the
code makes one request per list and update and writes each pending file from
one response only.) -/
theorem C15_stored_is_one_body (en : Bool) (ops : List LOp) :
    (ops.foldl applyOp ⟨en, 0, 0, none⟩).file = none ∨
    ∃ data, (parse data true).err = none ∧
      (ops.foldl applyOp ⟨en, 0, 0, none⟩).file = some (normalForm data) := by
  rcases C15_mixed_history_invariant ⟨en, 0, 0, none⟩ ops (Or.inl ⟨rfl, rfl, rfl⟩) with ⟨h, _, _⟩ | ⟨data, he, hf, _, _⟩
  · exact Or.inl h
  · exact Or.inr ⟨data, he, by rw [hf, (parse_normal data he).1]⟩

/-! ### Non-vacuity -/

-- a successful parse with title, comment, blank line, CRLF and surrounding spaces
example : (parse [33, 32, 84, 105, 116, 108, 101, 58, 32, 88, 10, 35, 99, 10, 10, 32, 124, 124, 97, 94, 9, 13, 10, 98] true)
    = ⟨⟨[88], true, 2, 7, (parse [124, 124, 97, 94, 10, 98, 10] true).st.crc⟩, [124, 124, 97, 94, 10, 98, 10], none⟩ := by
  decide +kernel
-- HTML, binary and a cut body fail
example : (parse [60, 72, 84, 77, 76, 62] true).err = some .html := by decide +kernel
example : (parse [97, 10, 98, 0, 99] true).err = some (.binary 2 2 0) := by decide +kernel
example : (parse [97, 10, 98] false).err = some .read := by decide +kernel
-- a consistent, non-pristine list state exists and a refresh does change it
example : refreshOne ⟨true, 0, 0, none⟩ (.body [97, 10] true) ≠ ⟨true, 0, 0, none⟩ := by decide +kernel

-- observations about the parser, as the code is (none contradicts C15):
-- a UTF-8 BOM is not white space for `bytes.TrimSpace`, so "\ufeff! c" is kept as a RULE line
example : (parse [0xEF, 0xBB, 0xBF, 33, 32, 99, 10] true).st.count = 1 := by decide +kernel
-- "##.ad" (a cosmetic rule) starts with '#': dropped as a comment, like every "#…" line
example : (parse [35, 35, 46, 97, 100, 10, 97, 10] true).out = [97, 10] := by decide +kernel
-- an HTML opener AFTER a rule line is stored as a rule (the test only guards the first written line)
example : (parse [97, 10, 60, 104, 116, 109, 108, 62, 10] true).err = none := by decide +kernel
-- … while one after comments and blank lines only is refused
example : (parse [35, 99, 10, 10, 60, 104, 116, 109, 108, 62, 10] true).err = some .html := by decide +kernel

-- regression case of the defect repaired by f646577 (corpus/C15/refresh.txt): lists 0 = allow,
-- 1 = block, 2 = block; the allow array fails completely while block list 1 is updated —
-- its new rules are in force at once.
example :
    ((refreshStep ⟨true, true, true⟩
        [⟨⟨true, 0, 0, none⟩, true, none⟩, ⟨⟨true, 0, 0, none⟩, false, none⟩, ⟨⟨true, 0, 0, none⟩, false, none⟩]
        [(true, .fail), (true, .body [124, 124, 97, 10] true), (true, .fail)])[1]?).map (·.inForce)
      = some (some [124, 124, 97, 10]) := by decide +kernel


/-! ## Translator tie: the commit / abandon decision as the source states it (regenerated per run)

`extract/cmd/c15` rewrites `Gen/C15Refresh.lean` from the typed syntax of
`internal/filtering/filter.go`.  The model's refresh step (`Model/RuleList.lean`,
`Model/FilterConfig.lean`) commits exactly when the parse succeeded AND the
checksum differs, touches the list's recorded state only after the file was
replaced, and abandons the pending file otherwise; these theorems say the
current source has that shape. -/

/-- `updateIntl`: the pending file exists and `finalizeUpdate` is registered
BEFORE the source is opened and parsed (so every later failure goes through
it); the refresh counts as updated only when the checksum differs AND no error
occurred, and the error is handed on. -/
theorem C15_T_update_skeleton :
    Gen.C15.updateSteps =
      ["NewPendingFile", "defer:finalizeUpdate", "reader", "defer:Close", "Get", "defer:Put", "NewParser", "Parse"] ∧
      Gen.C15.updatedConj = [("res.Checksum", "!=", "flt.checksum"), ("err", "==", "nil")] ∧
      Gen.C15.updatedErrResult = "err" := by
  decide

/-- `finalizeUpdate`: not updated ⇒ the pending file is cleaned up and nothing
else happens; updated ⇒ the file is replaced first, a failure of the
replacement returns before anything is recorded, and only then title,
checksum and rule count of the list change. -/
theorem C15_T_finalize_skeleton :
    Gen.C15.abandonGuard = "!updated" ∧
      Gen.C15.abandonEvents = [("return", ""), ("call", "file.Cleanup")] ∧
      Gen.C15.commitEvents =
        [("call", "file.CloseReplace"), ("return", ""), ("call", "flt.ensureName"), ("assign", "flt.checksum"),
         ("assign", "flt.RulesCount"), ("return", "")] := by
  decide

/-- On the regenerated facts: an error never counts as an update (the conjunct
`err == nil` is present), and no field of the list is assigned on the abandon
branch or before the replacement on the commit path. -/
theorem C15_T_failure_records_nothing :
    Gen.C15.updatedConj.contains ("err", "==", "nil") = true ∧
      Gen.C15.abandonEvents.all (fun e => e.1 != "assign" && (e.1 != "call" || e.2 == "file.Cleanup")) = true ∧
      (Gen.C15.commitEvents.takeWhile (· != ("call", "file.CloseReplace"))).all (fun e => e.1 != "assign") = true ∧
      Gen.C15.commitEvents.head? = some ("call", "file.CloseReplace") ∧
      (Gen.C15.commitEvents.drop 1).head? = some ("return", "") := by
  decide

end AGH.C15
