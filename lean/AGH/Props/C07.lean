/-
C07 — query log: every recorded query is returned exactly once, newest first,
with paging, term and status filters meaning what they say; no parameter value
crashes the request.

Property theorems only; the lemmas are in AGH/Lemmas/QLog*.lean.  The model
(`AGH/Model/QLog.lean`) follows the tree with the repaired defects F1–F3, F12,
F13 and the C08 repair of `searchMemory`; nothing here is `_partial`.

Vocabulary
* `State`/`step`/`handle`/`search`: the executable model of internal/querylog.
* `Ghost`/`gStep`/`visible`/`specSearch`/`specDump`: the spec (one tagged
  chronological list; what a request must return).
* `Inv s`: the log `rot ++ cur ++ mem` is strictly increasing in time — an
  invariant of every history whose clock moves forward (`C07_inv_reachable`).
* `vis s p`: the visible sequence of the model state for parameters `p`
  (`C07_vis_is_spec_visible` equates it with the spec's `visible`).
-/
import AGH.Lemmas.QLogAging
import AGH.Lemmas.QLogJSON
import AGH.Lemmas.QLogStepped
namespace AGH.C07
open AGH AGH.Bytes

/-! ## The monitor accepts the model on every history -/

/-- MODEL MEETS SPEC, stateful form: for every configuration and every history of
record / shutdown-flush / rotate / time-based rotation / clear / restart /
config change / client-registry change operations and API requests (any query
string), in which the clock moves forward between records and the scan budget
is ≥ 2 or unlimited, the spec monitor accepts the model after EVERY event: the
state dump equals the spec's log with every entry where the spec says, and every
answer is a sound, complete page of the spec's visible sequence. -/
theorem C07_model_meets_spec (c : Conf) (last : Int) (evs : List Event) (h : histOK last evs) :
    runOK (gInit c) (init c) evs = true := by
  suffices H : ∀ (evs : List Event) (g : Ghost) (s : State) (last : Int),
      Refines g s → Quiet s → InvT s last → histOK last evs → runOK g s evs = true from
    H evs (gInit c) (init c) last ⟨by simp [gInit, init, tagged], rfl⟩ ⟨rfl, rfl⟩ (invT_init c last) h
  intro evs
  induction evs with
  | nil => intros; rfl
  | cons ev rest ih =>
    intro g s last hr hq hi hh
    cases ev with
    | search sd r =>
      obtain ⟨hsd, hh'⟩ := hh
      simp only [runOK, modelEventOK, Bool.and_eq_true, Option.isNone_iff_eq_none]
      exact ⟨specSearch_ok g s sd r hr hi.1 hsd, ih g s last hr hq hi hh'⟩
    | op o =>
      have hr' := refines_step g s o hr hq
      have hq' := quiet_step s o hq
      have hd : modelEventOK g s (.op o) = true := by
        simp only [modelEventOK, Option.isNone_iff_eq_none]
        exact specDump_ok _ _ hr'
      simp only [runOK, hd, Bool.true_and]
      have hstep := invT_step s last o hi
      cases o with
      | add e =>
        obtain ⟨hlt, hh'⟩ := hh
        exact ih _ _ e.ts hr' hq' (hstep hlt) hh'
      | addThen e t =>
        obtain ⟨hlt, hh'⟩ := hh
        exact ih _ _ e.ts hr' hq' (hstep hlt) hh'
      | shutdown => exact ih _ _ last hr' hq' hstep hh
      | rotate => exact ih _ _ last hr' hq' hstep hh
      | rotCheck now => exact ih _ _ last hr' hq' hstep hh
      | clear => exact ih _ _ last hr' hq' hstep hh
      | restart m f en => exact ih _ _ last hr' hq' hstep hh
      | putConf en an ivl ign => exact ih _ _ last hr' hq' hstep hh
      | setClients tbl => exact ih _ _ last hr' hq' hstep hh

/-- Every state reached by a history whose clock moves forward satisfies the
time invariant, has nothing in flight (no flush goroutine waiting, the
`flushPending` flag down), and is, entry for entry and location for location,
the spec's log (refinement). -/
theorem C07_inv_reachable (c : Conf) (ops : List Op) (last : Int)
    (h : histOK last (ops.map .op)) :
    ∃ last', InvT (run (init c) ops) last' ∧ Quiet (run (init c) ops) ∧
      Refines (ops.foldl gStep (gInit c)) (run (init c) ops) := by
  suffices H : ∀ (ops : List Op) (g : Ghost) (s : State) (last : Int),
      Refines g s → Quiet s → InvT s last → histOK last (ops.map .op) →
      ∃ last', InvT (run s ops) last' ∧ Quiet (run s ops) ∧ Refines (ops.foldl gStep g) (run s ops) from
    H ops (gInit c) (init c) last ⟨by simp [gInit, init, tagged], rfl⟩ ⟨rfl, rfl⟩ (invT_init c last) h
  intro ops
  induction ops with
  | nil => intro g s last hr hq hi _; exact ⟨last, hi, hq, hr⟩
  | cons o rest ih =>
    intro g s last hr hq hi hh
    have hr' := refines_step g s o hr hq
    have hq' := quiet_step s o hq
    have hstep := invT_step s last o hi
    simp only [run, List.foldl_cons]
    cases o with
    | add e =>
      obtain ⟨hlt, hh'⟩ := hh
      exact ih _ _ e.ts hr' hq' (hstep hlt) hh'
    | addThen e t =>
      obtain ⟨hlt, hh'⟩ := hh
      exact ih _ _ e.ts hr' hq' (hstep hlt) hh'
    | shutdown => exact ih _ _ last hr' hq' hstep hh
    | rotate => exact ih _ _ last hr' hq' hstep hh
    | rotCheck now => exact ih _ _ last hr' hq' hstep hh
    | clear => exact ih _ _ last hr' hq' hstep hh
    | restart m f en => exact ih _ _ last hr' hq' hstep hh
    | putConf en an ivl ign => exact ih _ _ last hr' hq' hstep hh
    | setClients tbl => exact ih _ _ last hr' hq' hstep hh

/-- The flush goroutine that `Add` starts and a clear / shutdown / restart issued
before it runs commute: either order ends in the same state, with nothing in
flight — in particular the `flushPending` flag is down again, so later records
are flushed as usual. -/
theorem C07_flush_race_confluent (s : State) (e : Entry) (t : Then) (hq : Quiet s) :
    step s (.addThen e t) = applyThen (step s (.add e)) t ∧ Quiet (step s (.addThen e t)) := by
  refine ⟨?_, quiet_step s _ hq⟩
  simp only [step, addThen_confluent s e t hq, runTasks_addRaw s e hq]

/-! ## What the operations do to the log -/

/-- A flush (shutdown, or the flush `Add` starts) moves the memory entries to
the current file and loses nothing: the log is unchanged. -/
theorem C07_log_preserved_flush (s : State) : logOf (flush s) = logOf s := logOf_flush s

/-- With logging and file logging on and fewer entries in memory than the ring
holds, recording appends exactly the new entry: nothing is dropped, nothing is
duplicated. -/
theorem C07_log_preserved_add (s : State) (e : Entry) (hq : Quiet s) (hen : s.conf.enabled = true)
    (hcap : s.mem.length < ringCap s.conf) : logOf (step s (.add e)) = logOf s ++ [e] := by
  have hp : push (ringCap s.conf) s.mem e = s.mem ++ [e] := by
    rw [push_eq_drop]
    have : (s.mem ++ [e]).length - ringCap s.conf = 0 := by simp; omega
    rw [this]; rfl
  simp only [step, runTasks_addRaw s e hq, addEntry, hen, Bool.not_true, Bool.false_eq_true, if_false, hp]
  split
  · rw [logOf_flush]; simp [logOf]
  · simp [logOf]

/-- The ring never fills up while file logging is on: after every operation of a
history, fewer entries are in memory than the ring holds (so `C07_log_preserved_add`
applies to every record). -/
theorem C07_ring_never_full (s : State) (o : Op) (hq : Quiet s)
    (h : s.conf.fileEnabled = true → s.mem.length < ringCap s.conf) :
    (step s o).conf.fileEnabled = true → (step s o).mem.length < ringCap (step s o).conf := by
  have ringFree : ∀ s : State, 0 < ringCap s.conf := fun s => ringCap_pos s.conf
  have hAdd : ∀ e, (addEntry s e).conf.fileEnabled = true →
      (addEntry s e).mem.length < ringCap (addEntry s e).conf := by
    intro e
    simp only [addEntry]
    split
    · exact h
    · split
      · rename_i hf
        intro _
        simp only [flush]
        split <;> simp_all
      · rename_i hf
        intro hfe
        simp only at hfe
        simp only [Bool.and_eq_true, decide_eq_true_eq, not_and, hfe, true_implies] at hf
        simp only
        have hle : s.conf.memSize ≤ ringCap s.conf := by unfold ringCap; split <;> omega
        omega
  have hThen : ∀ (s' : State) (t : Then),
      (s'.conf.fileEnabled = true → s'.mem.length < ringCap s'.conf) →
      (applyThen s' t).conf.fileEnabled = true →
      (applyThen s' t).mem.length < ringCap (applyThen s' t).conf := by
    intro s' t h'
    cases t with
    | clear => intro _; simpa [applyThen, clear] using ringFree s'
    | shutdown =>
      simp only [applyThen, shutdown]
      split
      · intro _; simp only [flush]; split <;> simp_all
      · exact h'
    | restart m f en =>
      intro _
      simp only [applyThen, restart, List.length_nil, ringCap]
      by_cases hm : m = 0 <;> simp [hm]
      omega
  cases o with
  | add e => simp only [step, runTasks_addRaw s e hq]; exact hAdd e
  | addThen e t =>
    simp only [step, addThen_confluent s e t hq]
    exact hThen _ t (hAdd e)
  | shutdown => exact hThen s .shutdown h
  | rotate => simp only [step, rotate]; split <;> exact h
  | rotCheck now =>
    simp only [step, rotCheck]
    split
    · exact h
    · split
      · exact h
      · simp only [rotate]; split <;> exact h
  | clear => exact hThen s .clear h
  | restart m f en => exact hThen s (.restart m f en) h
  | putConf en an ivl ign =>
    simp only [step, putConf]
    split
    · exact h
    · exact h
  | setClients tbl => exact h

/-- Rotation, when there is a current file, removes exactly the entries of the
rotated file; without a current file it changes nothing. -/
theorem C07_log_preserved_rotate (s : State) :
    logOf (rotate s) = if s.cur = [] then logOf s else s.cur ++ s.mem := by
  unfold rotate
  split <;> simp [logOf]

theorem C07_log_clear (s : State) : logOf (clear s) = [] := by simp [clear, logOf]

/-- A clean restart with file logging on keeps the whole log. -/
theorem C07_log_preserved_restart (s : State) (m : Nat) (f en : Bool) (hf : s.conf.fileEnabled = true) :
    logOf (restart s m f en) = logOf s := by
  simp only [restart, shutdown, hf, if_true]
  have := logOf_flush s
  unfold flush at this ⊢
  split <;> simp_all [logOf]

/-- EXACTLY ONCE: in every state reached with a forward-moving clock no two
entries of the log have the same time, and (hence) no entry occurs twice — in
memory, in the current file and in the rotated file together. -/
theorem C07_exactly_once (s : State) (h : Inv s) : (logOf s).Nodup ∧ ((logOf s).map (·.ts)).Nodup := by
  constructor
  · refine List.Pairwise.imp ?_ h
    intro a b hab heq
    subst heq; omega
  · rw [List.Nodup, List.pairwise_map]
    refine List.Pairwise.imp ?_ h
    intro a b hab heq
    omega

/-- Memory-only logging keeps the newest `memSize` (at least one) entries: the
documented window, not the whole history. -/
theorem C07_memonly_window (s : State) (e : Entry) (hq : Quiet s) (hen : s.conf.enabled = true)
    (hf : s.conf.fileEnabled = false) :
    (step s (.add e)).mem = (s.mem ++ [e]).drop ((s.mem ++ [e]).length - ringCap s.conf) ∧
    (step s (.add e)).cur = s.cur ∧ (step s (.add e)).rot = s.rot := by
  simp [step, runTasks_addRaw s e hq, addEntry, hen, hf, push_eq_drop]

/-! ## Requests -/

/-- NO CRASH: for every state, every scan budget and every query string (every
`limit`, `offset`, `older_than`, `search`, `response_status` text) the handler
answers 400 or 200; it never faults. -/
theorem C07_no_crash (sd : Int) (s : State) (r : Req) (f : Fault) : handle sd s r ≠ .error f := by
  obtain ⟨resp, h⟩ := handle_no_fault sd s r
  rw [h]; intro hh; cases hh

/-- What `parseSearchParams` lets through can never make `search` slice out of
bounds: `0 ≤ offset`, `0 ≤ limit`, and `offset + limit` does not overflow. -/
theorem C07_params_in_range (sd : Int) (r : Req) (p : Params) (h : parseParams sd r = some p) :
    0 ≤ p.limit ∧ 0 ≤ p.offset ∧ p.offset + p.limit ≤ maxInt := by
  obtain ⟨_, h2, h3, _⟩ := parseParams_inv sd r p h
  have hr := parseLimit_range r p.limit h2
  rcases parseOffset_range sd r p.limit p.offset p.scan h3 with ⟨h4, h5⟩ | ⟨h4, _⟩ <;> omega

/-- Every well-formed request (per the spec's reading of the query string) is
accepted by the parser with exactly that meaning: same cursor, same limit,
same paging mode, and the same entries satisfy it. -/
theorem C07_wellformed_accepted (sd : Int) (r : Req) (a : Ask) (h : ask r = some a) :
    ∃ p, parseParams sd r = some p ∧ p.olderThan = a.olderThan ∧ p.limit = a.limit ∧
      (match a.offset with
       | some o => p.offset = o ∧ p.scan = 0
       | none => p.offset = 0 ∧ p.scan = sd) ∧
      ∀ c e, matchE c p e = satisfies c a e :=
  parse_of_ask sd r a h

/-- The model's visible sequence is the spec's, for a state that refines the
ghost log and parameters meaning what the request asks. -/
theorem C07_vis_is_spec_visible (g : Ghost) (s : State) (a : Ask) (p : Params) (h : Refines g s)
    (hm : ∀ c e, matchE c p e = satisfies c a e) : visible g a = vis s p :=
  visible_eq_vis g s a p h hm

/-- Without filters, without cursor and with nothing ignored, the visible
sequence is the whole log, newest first: memory, then the current file, then
the rotated file. -/
theorem C07_visible_is_whole_log (s : State) (p : Params) (hm : s.conf.memSize ≠ 0)
    (hc : p.criteria = []) (ho : p.olderThan = none)
    (hign : ∀ e ∈ logOf s, ignoredNow s.conf e = false) : vis s p = (logOf s).reverse := by
  have hrev : logRev s = (logOf s).reverse := by
    simp [logRev, memRev, hm, filesRev, logOf]
  unfold vis
  rw [hrev]
  apply List.filter_eq_self.mpr
  intro e he
  have := hign e (List.mem_reverse.mp he)
  simp only [ignoredNow, Bool.or_eq_false_iff] at this
  simp [keepMem, matchE, hc, ho, this.1, this.2]

/-- NEWEST FIRST for every state and all parameters — no hypothesis on the
recorded times, so also when the clock was stepped back between records and
whichever of memory, current file and rotated file contributed: no returned
entry comes before one with a later time (the clause `C07.order` of
`specSearchStepped`, in the form the monitor evaluates). -/
theorem C07_search_newest_first (s : State) (p : Params) (es : List Entry) (o : Option Int)
    (h : search s p = .ok (es, o)) :
    es.Pairwise (fun a b => b.ts ≤ a.ts) ∧ newestFirst (es.map (·.ts)) = true :=
  ⟨search_descLe s p es o h, newestFirst_of_descLe es (search_descLe s p es o h)⟩

/-- A current file WITHOUT A RECORD — absent, or present with zero bytes — is
never rotated by the rotation check, in the model and in the spec: the records
of the rotated file stay where they are. -/
theorem C07_rotcheck_empty_current_keeps (s : State) (g : Ghost) (now : Int) :
    (s.cur = [] → step s (.rotCheck now) = s) ∧
    (countLoc .cur g.log = 0 → gStep g (.rotCheck now) = g) := by
  refine ⟨fun h => by simp [step, rotCheck, h], fun h => ?_⟩
  have hn : g.log.find? (fun x => x.2 = .cur) = none := by
    rw [List.find?_eq_none]
    intro x hx hcur
    have hmem : x ∈ g.log.filter (fun x => x.2 = .cur) := List.mem_filter.mpr ⟨hx, hcur⟩
    unfold countLoc at h
    rw [List.length_eq_zero_iff.mp h] at hmem
    simp at hmem
  simp only [gStep, hn]

/-- SOUNDNESS of every answer: a sub-sequence of the visible sequence (only
entries that satisfy the filters and are not ignored, newest first, none
twice), at most `limit` long. -/
theorem C07_search_sound (s : State) (p : Params) (hi : Inv s) (hv : ValidP p) :
    ∃ D O, search s p = .ok (D, O) ∧ D.Sublist (vis s p) ∧ (D.length : Int) ≤ p.limit :=
  search_sound s p hi hv

/-- OFFSET/LIMIT paging returns exactly the slice `[offset, offset+limit)` of
the visible sequence (the scan is unlimited whenever `offset` is given), so
consecutive slices partition it. -/
theorem C07_search_offset_limit (s : State) (p : Params) (hi : Inv s) (hv : ValidP p)
    (hscan : p.scan ≤ 0) (hc : CursorOK s p) :
    ∃ O, search s p = .ok (((vis s p).drop p.offset.toNat).take p.limit.toNat, O) :=
  search_offset s p hi hv hscan hc

/-- CURSOR paging, one page: at most `limit` entries; if no cursor is returned the
page is the whole visible sequence; if cursor `c` is returned the page is
exactly the visible entries not older than `c` — and `c` is older than the
cursor that was sent (scan budget ≥ 2 or unlimited) and is the time of an entry
of the log (so it can be sent back). -/
theorem C07_cursor_page (s : State) (p : Params) (hi : Inv s) (hv : ValidP p) (hoff : p.offset = 0)
    (hc : CursorOK s p) :
    ∃ D O, search s p = .ok (D, O) ∧ (D.length : Int) ≤ p.limit ∧
      (O = none → D = vis s p) ∧
      (∀ c, O = some c → D = (vis s p).filter (fun e => decide (e.ts ≥ c)) ∧
        (∀ t, p.olderThan = some t → (2 ≤ p.scan ∨ p.scan ≤ 0) → c < t) ∧
        (∃ e ∈ s.rot ++ s.cur ++ s.mem, e.ts = c)) :=
  search_cursor s p hi hv hoff hc

/-- CURSOR PARTITION: starting without a cursor and sending back the returned
`oldest` each time, the chain of requests ends (an answer without cursor)
within `|log| + 2` requests, and the pages concatenated are exactly the visible
sequence — no gap, no duplicate, newest first — for every page size ≥ 1, every
scan budget ≥ 2 (or unlimited), every filter, wherever the entries sit. -/
theorem C07_cursor_partition (s : State) (p : Params) (hi : Inv s) (hv : ValidP p) (hoff : p.offset = 0)
    (hscan : 2 ≤ p.scan ∨ p.scan ≤ 0) :
    (pageChain s p ((logOf s).length + 2) none).2 = true ∧
    (pageChain s p ((logOf s).length + 2) none).1.flatten = vis s (withOlder p none) := by
  apply pageChain_spec s p hi hv hoff hscan
  · simp [CursorOK, withOlder]
  · simp [remaining, logOf]

/-- ...and from any returned cursor (the time of a log entry) the remaining pages
are exactly the visible entries older than it. -/
theorem C07_cursor_partition_from (s : State) (p : Params) (hi : Inv s) (hv : ValidP p) (hoff : p.offset = 0)
    (hscan : 2 ≤ p.scan ∨ p.scan ≤ 0) (t : Int) (ht : ∃ e ∈ logOf s, e.ts = t) :
    (pageChain s p ((logOf s).length + 1) (some t)).2 = true ∧
    (pageChain s p ((logOf s).length + 1) (some t)).1.flatten =
      (vis s (withOlder p none)).filter (fun e => decide (e.ts < t)) := by
  rw [← vis_withOlder]
  apply pageChain_spec s p hi hv hoff hscan
  · simpa [CursorOK, withOlder, logOf] using ht
  · have := List.length_filter_le (fun e => decide (e.ts < t)) (s.rot ++ s.cur ++ s.mem)
    simp only [remaining, logOf]
    omega

/-! ### Paging while the log changes -/

/-- A cursor stays KNOWN — the time of an entry still in the log, or older than
everything left — across any operation between two pages (record, flush,
rotation ageing out the oldest file at any instant, clear, clean restart,
config change), with file logging on and a forward-moving clock. -/
theorem C07_cursor_survives (s : State) (last : Int) (op : Op) (t : Int) (hi : InvT s last) (hq : Quiet s)
    (hf : s.conf.fileEnabled = true) (hcap : s.mem.length < ringCap s.conf) (ht : t ≤ last)
    (hclock : ∀ e, opEntry op = some e → last < e.ts) (hk : Known s t) : Known (step s op) t :=
  known_step s last op t hi hq hf hcap ht hclock hk

/-- ...and from a known cursor the remaining pages are exactly the visible entries
of the CURRENT log older than the cursor: among the entries that survive there
is no gap and no duplicate (entries recorded meanwhile are newer than the
cursor and belong to a fresh listing). -/
theorem C07_cursor_partition_known (s : State) (p : Params) (hi : Inv s) (hv : ValidP p) (hoff : p.offset = 0)
    (hscan : 2 ≤ p.scan ∨ p.scan ≤ 0) (t : Int) (hk : Known s t) :
    (pageChain s p ((logOf s).length + 1) (some t)).2 = true ∧
    (pageChain s p ((logOf s).length + 1) (some t)).1.flatten =
      (vis s (withOlder p none)).filter (fun e => decide (e.ts < t)) :=
  pageChain_known s p hi hv hoff hscan t hk

/-- A cursor whose entry has aged out (everything left is newer) gets one empty
page without cursor. -/
theorem C07_aged_cursor_page (s : State) (p : Params) (hi : Inv s) (hv : ValidP p) (t : Int)
    (hot : p.olderThan = some t) (hall : ∀ e ∈ logOf s, t < e.ts) :
    search s p = .ok ([], none) ∧ vis s p = [] :=
  search_aged s p hi hv t hot hall

/-- Consecutive offset/limit slices are adjacent: together they are the longer
slice (no gap, no overlap). -/
theorem C07_offset_pages_adjacent (V : List Entry) (o l l' : Nat) :
    (V.drop o).take l ++ (V.drop (o + l)).take l' = (V.drop o).take (l + l') := by
  rw [List.take_add, List.drop_drop]

/-- The quick pre-match on the raw line over-approximates the full match: no
file record that matches is rejected early. -/
theorem C07_quick_overapprox (c : Conf) (p : Params) (e : Entry) (h : matchE c p e = true) :
    quickE c p e = true := quickE_of_matchE c p e h

/-- Memory and file records are kept by the same test. -/
theorem C07_same_test_memory_and_files (c : Conf) (p : Params) (e : Entry) :
    keepE c p e = keepMem c p e := keepE_eq_keepMem c p e

/-! ## The string level of the file format -/

/-- ROUND TRIP of every string value (names, ClientIDs, upstreams, rule texts):
what the JSON encoder writes between the quotes — with `"` `\` control bytes
`<` `>` `&` escaped — is read back by the decoder as the same bytes. -/
theorem C07_string_roundtrip (s : Bytes) : unescape (escape s) = some s := unescape_escape s

/-- The test of `quickMatch` "the raw value contains a backslash" holds exactly for
the values the model calls `jsonEscaped`. -/
theorem C07_raw_backslash_exact (s : Bytes) : (escape s).contains 92 = jsonEscaped s :=
  escape_contains_backslash s

/-- Without an escape, the raw text `readJSONValue` cuts out of the line IS the
decoded value: quick match and full match see the same host / ClientID. -/
theorem C07_raw_value_unescaped (s rest : Bytes) (h : jsonEscaped s = false) :
    rawValue (escape s ++ 34 :: rest) = s := rawValue_unescaped s rest h

/-! ## Criteria -/

/-- The transcription of `ctFilteringStatusCase` agrees with the documented
meaning of every `response_status` value, for every reason code and flag. -/
theorem C07_status_table (v : Status) (reason : Nat) (isF : Bool) :
    statusMatch v reason isF = statusSat v reason isF := statusMatch_eq_sat v reason isF

/-- Every filtering result lands in exactly the documented statuses: `all` always;
`blocked` is `blocked_services` or a block-list hit; the four `blocked_*` /
`safe_search` classes and `rewritten`, `whitelisted` are pairwise disjoint and
each inside `filtered`; `processed` is exactly "not blocked, not blocked
service, not allow-listed"; nothing is both `whitelisted` and `processed` or
both `blocked` and `processed`. -/
theorem C07_status_partition (reason : Nat) (isF : Bool) :
    statusMatch .all reason isF = true ∧
    (statusMatch .blocked reason isF =
      (statusMatch .blockedService reason isF || (isF && reason == rBlockList))) ∧
    (statusMatch .blockedService reason isF = true → statusMatch .filtered reason isF = true) ∧
    (statusMatch .blockedSafebrowsing reason isF = true → statusMatch .filtered reason isF = true) ∧
    (statusMatch .blockedParental reason isF = true → statusMatch .filtered reason isF = true) ∧
    (statusMatch .safeSearch reason isF = true → statusMatch .filtered reason isF = true) ∧
    (statusMatch .rewritten reason isF = true → statusMatch .filtered reason isF = true) ∧
    (statusMatch .whitelisted reason isF = true → statusMatch .filtered reason isF = true) ∧
    (statusMatch .whitelisted reason isF = true → statusMatch .processed reason isF = false) ∧
    (statusMatch .blocked reason isF = true → statusMatch .processed reason isF = false) ∧
    (statusMatch .processed reason isF = (!(reason == rBlockList || reason == rBlockedService || reason == rAllowList))) := by
  cases isF <;>
    simp [statusMatch, isFilteredWithReason, reasonIn, rAllowList, rRewritten, rRewrittenAutoHosts,
      rRewrittenRule, rBlockList, rBlockedService, rParental, rSafeBrowsing, rSafeSearch] <;>
    (refine ⟨?_, ?_, ?_, ?_⟩ <;> first | omega | (rw [Bool.eq_iff_iff]; simp; try omega))

/-- At most one of the exclusive classes holds for a filtering result. -/
theorem C07_status_exclusive (reason : Nat) (isF : Bool) :
    ([Status.blockedService, .blockedSafebrowsing, .blockedParental, .safeSearch, .rewritten, .whitelisted].filter
      (fun v => statusMatch v reason isF)).length ≤ 1 := by
  cases isF <;>
    simp [statusMatch, isFilteredWithReason, reasonIn, rAllowList, rRewritten, rRewrittenAutoHosts,
      rRewrittenRule, rBlockList, rBlockedService, rParental, rSafeBrowsing, rSafeSearch, List.filter_cons] <;>
    (repeat' split) <;> simp_all <;> omega

/-- The table of `response_status` names covers the ten values, each once. -/
theorem C07_status_names_complete :
    statusNames.map (·.2) = [.all, .filtered, .blocked, .blockedService, .blockedSafebrowsing, .blockedParental,
      .whitelisted, .rewritten, .safeSearch, .processed] ∧ (statusNames.map (·.1)).Nodup := by
  decide

/-- The substring test of the package is exact: `containsFold s t` holds iff the
field contains a substring equal to the term under Unicode simple case folding
— the folded runes of the term occur contiguously in the folded runes of the
field (runes as Go decodes them, invalid bytes as U+FFFD; folding from the
generated unicode.SimpleFold table).  Every rune start of the field is tried,
whatever the UTF-8 lengths of the letters involved (F13 and F-fold repaired). -/
theorem C07_contains_fold_exact (s t : Bytes) :
    containsFold s t = true ↔ ∃ pre post, foldRunes s = pre ++ foldRunes t ++ post := by
  rw [containsFold_eq_spec]
  exact infixAt_iff (foldRunes s) (foldRunes t)

/-- The loop before the repair a9f2bbd (finding F-fold): a window of `len(substr)`
BYTES at every rune start, compared with `strings.EqualFold`. -/
def containsFoldWindowN : Nat → Bytes → Bytes → Bool
  | 0, _, _ => false
  | fuel + 1, sub, s =>
    if s = [] then false
    else if s.length < sub.length then false
    else if equalFold (s.take sub.length) sub then true
    else containsFoldWindowN fuel sub (s.drop (decodeFirst s).2)

def containsFoldWindow (s sub : Bytes) : Bool :=
  if sub.length = 0 then true else containsFoldWindowN s.length sub s

/-- Before the repair the substring test was NOT exact: letters equal under case
folding can differ in UTF-8 length.  Field "ſ" (U+017F, 2 bytes), term "s"; field
"STRAẞE" (ẞ = U+1E9E, 3 bytes), term "straße" (ß = 2 bytes). -/
theorem C07_contains_fold_counterexample_before_fix :
    (containsFoldWindow [0xC5, 0xBF] [115] = false ∧ containsSpec [0xC5, 0xBF] [115] = true) ∧
    (containsFoldWindow [83, 84, 82, 65, 0xE1, 0xBA, 0x9E, 69] [115, 116, 114, 97, 0xC3, 0x9F, 101] = false ∧
     containsFold [83, 84, 82, 65, 0xE1, 0xBA, 0x9E, 69] [115, 116, 114, 97, 0xC3, 0x9F, 101] = true) := by
  decide +kernel

/-- Non-vacuity beyond ASCII: "ΝΙΚΟΣ" contains "ικος" (final sigma) under case
folding, does not contain "ικοτ"; an invalid byte equals U+FFFD. -/
example :
    containsFold [0xCE, 0x9D, 0xCE, 0x99, 0xCE, 0x9A, 0xCE, 0x9F, 0xCE, 0xA3]
                 [0xCE, 0xB9, 0xCE, 0xBA, 0xCE, 0xBF, 0xCF, 0x82] = true ∧
    containsFold [0xCE, 0x9D, 0xCE, 0x99, 0xCE, 0x9A, 0xCE, 0x9F, 0xCE, 0xA3]
                 [0xCE, 0xB9, 0xCE, 0xBA, 0xCE, 0xBF, 0xCF, 0x84] = false ∧
    equalFold [0xFF] [0xEF, 0xBF, 0xBD] = true := by
  decide +kernel

/-- ...and it is the spec's relation (used by `C07_term_exact`). -/
theorem C07_contains_exact (s sub : Bytes) : containsFold s sub = containsSpec s sub :=
  containsFold_eq_spec s sub

/-- The term criterion looks at domain, its IDNA form, ClientID, client name
and IP — strictly or as a substring — and nothing else. -/
theorem C07_term_exact (c : Conf) (strict : Bool) (term ascii : Bytes) (e : Entry) :
    termMatch strict term ascii e.cid (clientName c e.cid e.ip) e.host e.ip = termSat c strict term ascii e :=
  termMatch_eq_sat c strict term ascii e

/-! ## Non-vacuity -/

section Examples

/-- "192.168.1.5" -/
private def ip1 : Bytes := [49,57,50,46,49,54,56,46,49,46,53]
/-- "192.168.0.0" -/
private def ip1Anon : Bytes := [49,57,50,46,49,54,56,46,48,46,48]
/-- "My Kitchen" -/
private def nameKitchen : Bytes := [77,121,32,75,105,116,99,104,101,110]

private def ex (ts : Int) (host : Bytes) (id : Nat) (reason : Nat := 0) (isF : Bool := false) : Entry :=
  { ts := ts, host := host, cid := [], ip := ip1, ipAnon := ip1Anon, reason := reason, isFiltered := isF, id := id }

private def conf0 : Conf :=
  { enabled := true, fileEnabled := true, memSize := 3, anonymize := false, ivl := 86400000000000, ignored := [],
    clients := [(ip1, { name := nameKitchen, ignore := false })] }

/-- hosts "a.example", "b.example", "c.example" -/
private def hA : Bytes := [97,46,101,120,97,109,112,108,101]
private def hB : Bytes := [98,46,101,120,97,109,112,108,101]
private def hC : Bytes := [99,46,101,120,97,109,112,108,101]

/-- A history crossing all three places: e1,e2,e3 → flushed; rotate; e4,e5,e6 →
flushed; e7,e8 in memory. -/
private def hist : List Op :=
  [.add (ex 1 hA 1), .add (ex 2 hB 2 3 true), .add (ex 3 hC 3), .rotate,
   .add (ex 4 hA 4), .add (ex 5 hB 5 3 true), .add (ex 6 hC 6),
   .add (ex 7 hA 7), .add (ex 8 hC 8)]

private def st : State := run (init conf0) hist

example : (st.rot.map (·.id), st.cur.map (·.id), st.mem.map (·.id)) = ([1, 2, 3], [4, 5, 6], [7, 8]) := by
  decide

private def req (limit offset search status : Bytes) (older : OlderIn := .absent) : Req :=
  { older := older, limitRaw := limit, offsetRaw := offset, searchRaw := search,
    loweredRaw := search, asciiRet := search, asciiErr := false, statusRaw := status }

private def idsOf : Except Fault Resp → Option (List Nat × Option Int)
  | .ok (.ok es o) => some (es.map (·.id), o)
  | _ => none

/-- "3", "2", "kit", "blocked", "-1", "9223372036854775807", "1" -/
private def b3 : Bytes := [51]
private def b2 : Bytes := [50]
private def bKit : Bytes := [107,105,116]
private def bBlocked : Bytes := [98,108,111,99,107,101,100]
private def bMinus1 : Bytes := [45, 49]
private def bMax : Bytes := [57,50,50,51,51,55,50,48,51,54,56,53,52,55,55,53,56,48,55]
private def b1 : Bytes := [49]

/-- cursor paging across memory, current file and rotated file: 3 + 3 + 2, then the end -/
example : idsOf (handle 50000 st (req b3 [] [] [])) = some ([8, 7, 6], some 6) := by decide
example : idsOf (handle 50000 st (req b3 [] [] [] (.at 6))) = some ([5, 4, 3], some 3) := by decide
example : idsOf (handle 50000 st (req b3 [] [] [] (.at 3))) = some ([2, 1], some 1) := by decide
example : idsOf (handle 50000 st (req b3 [] [] [] (.at 1))) = some ([], none) := by decide
/-- offset/limit, a status filter, a client-name term with the letter the old substring search missed -/
example : idsOf (handle 50000 st (req b2 b3 [] [])) = some ([5, 4], some 4) := by decide
example : idsOf (handle 50000 st (req [] [] [] bBlocked)) = some ([5, 2], some 2) := by decide
example : (idsOf (handle 50000 st (req [] [] bKit []))).map (·.1.length) = some 8 := by decide
/-- the clock stepped back between the second and the third record (times 10, 11,
1, 2), everything in the current file, nothing in memory: still newest first -/
private def stBack : State :=
  run (init { conf0 with memSize := 100 }) [.add (ex 10 hA 1), .add (ex 11 hB 2), .add (ex 1 hC 3), .add (ex 2 hA 4), .shutdown]
example : (stBack.mem.map (·.id), stBack.cur.map (·.id)) = ([], [1, 2, 3, 4]) := by decide
example : idsOf (handle 50000 stBack (req [] [] [] [])) = some ([2, 1, 4, 3], some 1) := by decide
/-- an empty current file next to a young rotated file: the rotation check keeps the rotated records -/
example : ((step (step st .rotate) (.rotCheck 9)).rot.map (·.id)) = [4, 5, 6] := by decide
/-- out-of-range numbers are answered 400, not a fault (F1) -/
example : (match handle 50000 st (req bMinus1 [] [] []) with | .ok .bad => true | _ => false) = true := by decide
example : (match handle 50000 st (req bMax b1 [] []) with | .ok .bad => true | _ => false) = true := by decide
/-- the hypotheses of the history theorem are satisfiable by this non-trivial history -/
example : histOK 0 ((hist.map .op) ++ [.search 50000 (req b3 [] [] [] (.at 6))]) := by
  simp [hist, histOK, ex]

end Examples

end AGH.C07
