/-
C16 — ClientIDs come only from a well-formed DoH path or server-name label.
Property theorems only (helper lemmas live in AGH/Lemmas/ClientID.lean).
All theorems quantify over every byte string / request context.
-/
import AGH.Lemmas.ClientID
import AGH.Lemmas.ClientIDE2E
import AGH.Gen.C16Sources
namespace AGH.C16
open AGH AGH.Bytes

/-- Plain DNS and DNSCrypt requests never carry a ClientID (and never fail). -/
theorem C16_plain_none (c : Ctx) (h : c.proto = .udp ∨ c.proto = .tcp ∨ c.proto = .dnscrypt) :
    clientIDFromCtx c = .ok [] := by
  rcases h with h | h | h <;> simp [clientIDFromCtx, h]

/-- A ClientID taken from a server name is the lower-cased valid label `l` of
`l.<configured name>`: immediate sub-domain only (no sub-sub-domain, sibling or
suffix look-alike). -/
theorem C16_sni_shape (host cli : Bytes) (strict : Bool) (id : Bytes)
    (hr : clientIDFromServerName host cli strict = .ok id) (hne : id ≠ []) :
    ∃ l, validLabel l = true ∧ dot ∉ l ∧ cli = l ++ dot :: host ∧ id = lower l := by
  unfold clientIDFromServerName at hr
  split at hr
  · cases hr; exact absurd rfl hne
  · split at hr
    · split at hr
      · cases hr; exact absurd rfl hne
      · cases hr
    · next himm =>
      simp at himm
      simp only at hr
      split at hr
      · next hv =>
        cases hr
        unfold isImmediateSubdomain at himm
        simp only [Bool.and_eq_true, beq_iff_eq] at himm
        obtain ⟨hsub, hcount⟩ := himm
        obtain ⟨hsplit, _⟩ := isSubdomain_split cli host hsub
        refine ⟨_, hv, ?_, hsplit, rfl⟩
        -- the dots: count cli = count l + 1 + count host, so count l = 0
        intro hmem
        have hc := congrArg (List.count dot) hsplit
        rw [List.count_append, List.count_cons_self] at hc
        have : 0 < List.count dot (List.take (cli.length - host.length - 1) cli) :=
          List.count_pos_iff.mpr hmem
        omega
      · cases hr

/-- A candidate label that is not a valid host-name label makes the request
fail; it is never attributed to nobody or to somebody else. -/
theorem C16_sni_invalid_fails (host cli : Bytes) (strict : Bool)
    (hne : host ≠ cli) (himm : isImmediateSubdomain cli host = true)
    (hbad : validLabel (cli.take (cli.length - host.length - 1)) = false) :
    clientIDFromServerName host cli strict = .error .badLabel := by
  unfold clientIDFromServerName
  simp [hne, himm, hbad]

/-- With strict server-name checking, a name that is neither the configured
one nor its immediate sub-domain is rejected. -/
theorem C16_strict_rejects (host cli : Bytes)
    (hne : host ≠ cli) (himm : isImmediateSubdomain cli host = false) :
    clientIDFromServerName host cli true = .error .sniMismatch := by
  unfold clientIDFromServerName
  simp [hne, himm]

/-- A ClientID taken from a DoH path is the lower-cased valid label `l` of a
path that cleans to `/dns-query/l` (`dns-query/l` for a relative path, which
net/http never produces).  Extra segments never yield an id. -/
theorem C16_path_shape (p id : Bytes) (hr : clientIDFromPath p = .ok id) (hne : id ≠ []) :
    ∃ l, validLabel l = true ∧ slash ∉ l ∧
      (pathClean p = slash :: dnsQuery ++ slash :: l ∨ pathClean p = dnsQuery ++ slash :: l) ∧
      id = lower l := by
  have hjoin := joinWith_splitOn slash (pathClean p)
  have hnosep := splitOn_no_sep slash (pathClean p)
  unfold clientIDFromPath at hr
  simp only at hr
  -- case analysis on the split of the cleaned path
  cases hs : splitOn slash (pathClean p) with
  | nil => exact absurd hs (splitOn_ne_nil _ _)
  | cons a rest =>
    rw [hs] at hr hjoin hnosep
    cases a with
    | nil =>
      -- rooted: parts = rest
      simp only at hr
      cases rest with
      | nil => simp at hr
      | cons first rest2 =>
        simp only at hr
        split at hr
        · cases hr
        · next hfirst =>
          simp only [ne_eq, Decidable.not_not] at hfirst
          cases rest2 with
          | nil => simp at hr; exact absurd hr hne
          | cons l rest3 =>
            cases rest3 with
            | nil =>
              simp only at hr
              split at hr
              · next hv =>
                cases hr
                refine ⟨l, hv, hnosep l (by simp), Or.inl ?_, rfl⟩
                rw [← hjoin, hfirst]; simp [joinWith]
              · cases hr
            | cons _ _ => simp at hr
    | cons b bs =>
      simp only at hr
      split at hr
      · cases hr
      · next hfirst =>
        simp only [ne_eq, Decidable.not_not] at hfirst
        cases rest with
        | nil => simp at hr; exact absurd hr hne
        | cons l rest3 =>
          cases rest3 with
          | nil =>
            simp only at hr
            split at hr
            · next hv =>
              cases hr
              refine ⟨l, hv, hnosep l (by simp), Or.inr ?_, rfl⟩
              rw [← hjoin, hfirst]; simp [joinWith]
            · cases hr
          | cons _ _ => simp at hr

/-- What the whole extraction returns, when it returns an id: the lower-cased
valid label of `/dns-query/<l>` (DoH only) or of `<l>.<configured name>`
(DoH, DoT, DoQ, configured name non-empty). -/
theorem C16_ctx_shape (c : Ctx) (id : Bytes) (hr : clientIDFromCtx c = .ok id) (hne : id ≠ []) :
    (c.proto = .https ∧ ∃ p l, c.path = some p ∧ validLabel l = true ∧ slash ∉ l ∧
        (pathClean p = slash :: dnsQuery ++ slash :: l ∨ pathClean p = dnsQuery ++ slash :: l) ∧
        id = lower l)
    ∨ ((c.proto = .https ∨ c.proto = .tls ∨ c.proto = .quic) ∧ c.hostSrvName ≠ [] ∧
        ∃ cli l, clientServerName c = .ok cli ∧ validLabel l = true ∧ dot ∉ l ∧
          cli = l ++ dot :: c.hostSrvName ∧ id = lower l) := by
  have sni : ∀ (hp : c.proto = .https ∨ c.proto = .tls ∨ c.proto = .quic),
      fromSNI c = .ok id →
      ((c.proto = .https ∨ c.proto = .tls ∨ c.proto = .quic) ∧ c.hostSrvName ≠ [] ∧
        ∃ cli l, clientServerName c = .ok cli ∧ validLabel l = true ∧ dot ∉ l ∧
          cli = l ++ dot :: c.hostSrvName ∧ id = lower l) := by
    intro hp h
    unfold fromSNI at h
    split at h
    · cases h; exact absurd rfl hne
    · next hh =>
      split at h
      · cases h
      · next cli hcli =>
        obtain ⟨l, hv, hd, hs, hid⟩ := C16_sni_shape _ _ _ _ h hne
        exact ⟨hp, hh, cli, l, hcli, hv, hd, hs, hid⟩
  unfold clientIDFromCtx at hr
  split at hr
  · next hp =>
    split at hr
    · cases hr
    · next p hpath =>
      split at hr
      · cases hr
      · next id' hid' =>
        split at hr
        · next hne' =>
          cases hr
          obtain ⟨l, hv, hs, hc, hl⟩ := C16_path_shape p id hid' hne
          exact Or.inl ⟨hp, p, l, hpath, hv, hs, hc, hl⟩
        · exact Or.inr (sni (Or.inl hp) hr)
  · next hp => exact Or.inr (sni (Or.inr (Or.inl hp)) hr)
  · next hp => exact Or.inr (sni (Or.inr (Or.inr hp)) hr)
  · cases hr; exact absurd rfl hne

/-- Every ClientID handed on is itself a valid host-name label and is in
lower case (lower-casing is idempotent). -/
theorem C16_result_valid (c : Ctx) (id : Bytes) (hr : clientIDFromCtx c = .ok id) (hne : id ≠ []) :
    validLabel id = true ∧ lower id = id := by
  rcases C16_ctx_shape c id hr hne with ⟨_, _, l, _, hv, _, _, hid⟩ | ⟨_, _, _, l, _, hv, _, _, hid⟩
  · subst hid; exact ⟨by rw [validLabel_lower]; exact hv, lower_idem l⟩
  · subst hid; exact ⟨by rw [validLabel_lower]; exact hv, lower_idem l⟩

/-- The model satisfies the spec monitor that the driver evaluates on the implementation's
output, for every request context: the monitor never raises an alarm on
behaviour that agrees with the model. -/
theorem C16_model_meets_spec (c : Ctx) : specOK c (clientIDFromCtx c) = true := by
  have hsni := sni_meets c.hostSrvName c.strict (clientServerName c)
  rw [← fromSNI_eq] at hsni
  rcases c with ⟨proto, path, httpTLS, hostHdr, hostSplit, connSNI, host, strict⟩
  cases proto
  case udp => simp [specOK, clientIDFromCtx, sniCapable]
  case tcp => simp [specOK, clientIDFromCtx, sniCapable]
  case dnscrypt => simp [specOK, clientIDFromCtx, sniCapable]
  case tls =>
    simp only [specOK, clientIDFromCtx, sniCapable]
    simp only at hsni
    split at hsni
    · next id heq =>
      rw [heq]
      by_cases hid : id = []
      · simp [hid] at hsni ⊢; exact hsni
      · simp [hid] at hsni ⊢; exact hsni
    · next e heq => rw [heq]; simp; exact hsni
  case quic =>
    simp only [specOK, clientIDFromCtx, sniCapable]
    simp only at hsni
    split at hsni
    · next id heq =>
      rw [heq]
      by_cases hid : id = []
      · simp [hid] at hsni ⊢; exact hsni
      · simp [hid] at hsni ⊢; exact hsni
    · next e heq => rw [heq]; simp; exact hsni
  case https =>
    simp only [specOK, clientIDFromCtx, sniCapable]
    cases path with
    | none => simp
    | some p =>
      simp only [path_char]
      cases hpl : pathLabel p with
      | some l =>
        simp only
        by_cases hsl : slash ∈ l
        · simp [hsl, not_valid_of_slash l hsl]
        · by_cases hv : validLabel l = true
          · have := lower_ne_nil (validLabel_ne_nil hv)
            simp [hsl, hv, this, idOf]
          · simp [hsl, hv]
      | none =>
        simp only
        by_cases hq : pathClean p = slash :: dnsQuery ∨ pathClean p = dnsQuery
        · simp only [hq, if_true, ne_eq, not_true_eq_false, if_false]
          simp only at hsni
          split at hsni
          · next id heq =>
            rw [heq]
            by_cases hid : id = []
            · simp [hid] at hsni ⊢; exact hsni
            · simp [hid] at hsni ⊢; exact hsni
          · next e heq => rw [heq]; simp; exact Or.inr hsni
        · simp only [hq, if_false]
          simp at hq ⊢
          exact Or.inl hq

-- Non-vacuity: concrete requests that yield an id from the path and from the SNI
-- ("Cli-1" = [67,108,105,45,49]; "example.org" as bytes below).
def exHost : Bytes := [101,120,97,109,112,108,101,46,111,114,103]
example : clientIDFromPath (slash :: dnsQuery ++ slash :: [67,108,105,45,49]) = .ok [99,108,105,45,49] := by decide
example : clientIDFromServerName exHost ([67,108,105] ++ dot :: exHost) true = .ok [99,108,105] := by decide
-- a.b.example.org with strict checking
example : clientIDFromServerName exHost ([97,46,98] ++ dot :: exHost) true = .error .sniMismatch := by decide
-- suffix look-alike xexample.org, not strict: nobody
example : clientIDFromServerName exHost (120 :: exHost) false = .ok [] := by decide
-- /dns-query/a_b : invalid label fails
example : clientIDFromPath (slash :: dnsQuery ++ slash :: [97,95,98]) = .error .badLabel := by decide

end AGH.C16

namespace AGH.C16
open AGH AGH.Bytes

theorem Cache.get_set (c : Cache) (r : Nat) (id : Bytes) : (c.set r id).get r = id := by
  simp [Cache.set, Cache.get]

theorem Cache.get_del (c : Cache) (r : Nat) : (c.del r).get r = [] := by
  unfold Cache.get Cache.del
  cases h : List.find? (fun x => x.1 == r) (List.filter (fun x => x.1 != r) c) with
  | none => rfl
  | some p =>
    have h1 := List.find?_some h
    have h2 := List.mem_of_find?_eq_some h
    simp at h2
    simp at h1
    exact absurd h1 h2.2

/-- A request that passed `HandleBefore` is attributed to exactly the ClientID
extracted from THAT request — whatever the cache held before (any history of
earlier requests, any reuse of request numbers after the proxy was re-created).
In particular a plain or DNSCrypt request is attributed to nobody. -/
theorem C16_attribution_is_own (c : Cache) (r : Nat) (ctx : Ctx) (id : Bytes)
    (h : (handleBefore c r ctx).2 = .ok id) :
    attributed (handleBefore c r ctx).1 r = id ∧ clientIDFromCtx ctx = .ok id := by
  unfold handleBefore at h ⊢
  cases hc : clientIDFromCtx ctx with
  | error e => simp [hc] at h
  | ok id' =>
    simp only [hc] at h ⊢
    by_cases hid : id' = []
    · simp [hid] at h ⊢
      subst h
      exact ⟨Cache.get_del c r, rfl⟩
    · simp [hid] at h ⊢
      subst h
      exact ⟨Cache.get_set c r id', rfl⟩

/-- …over every history of requests sharing one cache. -/
theorem C16_attribution_history (hist : List (Nat × Ctx)) (r : Nat) (ctx : Ctx) (id : Bytes) :
    let c := hist.foldl (fun c p => (handleBefore c p.1 p.2).1) ([] : Cache)
    (handleBefore c r ctx).2 = .ok id → attributed (handleBefore c r ctx).1 r = id :=
  fun h => (C16_attribution_is_own _ r ctx id h).1

theorem C16_plain_attributed_to_nobody (c : Cache) (r : Nat) (ctx : Ctx)
    (hp : ctx.proto = .udp ∨ ctx.proto = .tcp ∨ ctx.proto = .dnscrypt) :
    attributed (handleBefore c r ctx).1 r = [] := by
  have h := C16_plain_none ctx hp
  have : (handleBefore c r ctx).2 = .ok [] := by simp [handleBefore, h]
  exact (C16_attribution_is_own c r ctx [] this).1

end AGH.C16

/-! ## End to end: from the wire to the consumers of the ClientID

`E2E.step` is one request through the whole server: request-target parsing and
percent-decoding (net/url), routing (`ServeMux` with the two patterns AdGuard
Home registers), the unencrypted-DoH gate, dnsproxy's DNS-message check, the
strict-SNI handshake gate of DoT/DoQ, `HandleBefore`, the ClientID cache under
dnsproxy's request counter, `processInitial`.  `E2E.specE2E` is the monitor the
driver evaluates on what a REAL server did (answer / SERVFAIL / HTTP status /
reset / refused handshake, and the identity seen by the query log, the
statistics, the client-upstream lookup and the client-filtering lookup). -/
namespace AGH.C16.E2E
open AGH AGH.Bytes AGH.C16

theorem specOK_error_irrel (c : Ctx) (e e' : Err) : specOK c (.error e) = specOK c (.error e') := rfl

/-- What `step` does with a request that reaches the ClientID stage: the
request counter and the cache never change the attribution. -/
theorem step_ok (cf : Conf) (st : St) (r : Req) (c : Ctx) (h : front cf r = .ok c) :
    (step cf st r).2 =
      match clientIDFromCtx c with
      | .ok id => .ans id
      | .error _ => .servfail := by
  unfold step
  simp only [h]
  cases hc : clientIDFromCtx c with
  | error e => simp [handleBefore, hc]
  | ok id =>
    by_cases hid : id = []
    · simp [handleBefore, hc, hid, attributed, Cache.get_del]
    · simp [handleBefore, hc, hid, attributed, Cache.get_set]

theorem step_error (cf : Conf) (st : St) (r : Req) (o : Out) (h : front cf r = .error o) :
    step cf st r = (st, o) := by
  unfold step; simp only [h]

/-- Go's `url.unescape` (the two index loops, `EscapeError` on a bad escape) is
percent-decoding as RFC 3986 defines it — for every byte string. -/
theorem C16_unescape_is_pct_decoding (s : Bytes) : unescape s = pctDecode s :=
  unescape_eq_pctDecode s

/-- **The whole pipeline meets the spec**, for every configuration, every server
state (any request-counter value, any content of the ClientID cache — hence any
history, any number of reconfigurations) and every request: raw target, server
name, Host header, headers, EDNS options, peer. -/
theorem C16_e2e_meets_spec (cf : Conf) (st : St) (r : Req) :
    specE2E cf r (obsOf (step cf st r).2) = true := by
  cases hf : front cf r with
  | error o =>
    rw [step_error cf st r o hf]
    rcases front_error_cls cf r o hf with ⟨n, rfl⟩ | rfl | rfl
    · simp [specE2E, obsOf, attributedJustified, Obs.seen, answeredAttributed, failedNotProcessed,
        servfailHasReason, hsOnlyStrict]
    · simp [specE2E, obsOf, attributedJustified, Obs.seen, answeredAttributed, failedNotProcessed,
        servfailHasReason, hsOnlyStrict]
    · obtain ⟨hs, htr⟩ := front_hs cf r hf
      rcases htr with htr | htr <;>
      simp [specE2E, obsOf, attributedJustified, Obs.seen, answeredAttributed, failedNotProcessed,
        servfailHasReason, hsOnlyStrict, hs, htr]
  | ok c =>
    rw [step_ok cf st r c hf]
    have hs := front_specCtx cf r c hf
    have hm := C16_model_meets_spec c
    cases hc : clientIDFromCtx c with
    | ok id =>
      rw [hc] at hm
      simp [specE2E, obsOf, attributedJustified, Obs.seen, answeredAttributed, failedNotProcessed,
        servfailHasReason, hsOnlyStrict, hs, hm]
    | error e =>
      rw [hc] at hm
      rw [specOK_error_irrel c e .badLabel] at hm
      simp [specE2E, obsOf, attributedJustified, Obs.seen, answeredAttributed, failedNotProcessed,
        servfailHasReason, hsOnlyStrict, hs, hm]

/-- …in particular along every history of requests and reconfigurations on one
long-lived server. -/
theorem C16_e2e_history (cf : Conf) (hist : List (Option Req)) (r : Req) :
    let st := hist.foldl (fun st o => match o with
      | some q => (step cf st q).1
      | none => reconf st) ({} : St)
    specE2E cf r (obsOf (step cf st r).2) = true :=
  C16_e2e_meets_spec cf _ r

/-- `clientIDFromCtx` on a DoH context reads the path, the client server name,
the configured name and the strict flag — nothing else. -/
theorem ctx_https_congr (c c' : Ctx) (hp : c.proto = .https) (hp' : c'.proto = .https)
    (hpath : c.path = c'.path) (hcs : clientServerName c = clientServerName c')
    (hh : c.hostSrvName = c'.hostSrvName) (hst : c.strict = c'.strict) :
    clientIDFromCtx c = clientIDFromCtx c' := by
  unfold clientIDFromCtx
  simp only [hp, hp', hpath]
  have : fromSNI c = fromSNI c' := by unfold fromSNI; rw [hh, hcs, hst]
  rw [this]

/-- What the ClientID stage says about a request, or how the request ended
before reaching it. -/
def verdictOf (x : Except Out Ctx) : Except Out (Except Err Bytes) :=
  match x with
  | .error o => .error o
  | .ok c => .ok (clientIDFromCtx c)

theorem step_verdict (cf : Conf) (st : St) (r : Req) :
    (step cf st r).2 =
      match verdictOf (front cf r) with
      | .error o => o
      | .ok (.ok id) => .ans id
      | .ok (.error _) => .servfail := by
  cases hf : front cf r with
  | error o => rw [step_error cf st r o hf]; rfl
  | ok c =>
    rw [step_ok cf st r c hf]
    simp only [verdictOf]
    cases clientIDFromCtx c <;> rfl

/-- Over a TLS transport the verdict is a function of the transport, the server
name, the raw target and the presence of a DNS message. -/
theorem verdict_congr_tls (cf : Conf) (r1 r2 : Req) (h1 : r1.tr = r2.tr) (h2 : r1.tr ≠ .hp)
    (h3 : r1.sni = r2.sni) (h4 : r1.target = r2.target) (h5 : r1.dnsOK = r2.dnsOK)
    (h6 : r1.sniValidHost = r2.sniValidHost) (h7 : r1.ipLitOK = r2.ipLitOK)
    (h8 : hostFieldOK r1.tr r1.host = hostFieldOK r2.tr r2.host) :
    verdictOf (front cf r1) = verdictOf (front cf r2) := by
  have http : r1.tr = .h1 ∨ r1.tr = .h2 →
      verdictOf (frontHTTP cf r1) = verdictOf (frontHTTP cf r2) := by
    intro ht
    unfold frontHTTP
    rw [← h8, ← h1, ← h4, ← h5, ← h7]
    split
    · rfl
    cases gateHTTP cf r1.tr r1.target r1.dnsOK r1.ipLitOK with
    | error o => rfl
    | ok u =>
      simp only [verdictOf]
      congr 1
      apply ctx_https_congr
      · rfl
      · rfl
      · rfl
      · rcases ht with ht | ht <;> simp [mkCtxHTTP, clientServerName, ht, ← h1, h3]
      · rfl
      · rfl
  have tls : ∀ p, verdictOf (frontTLS cf r1 p) = verdictOf (frontTLS cf r2 p) := by
    intro p; unfold frontTLS; rw [h3, h6]
  unfold front
  rw [← h1]
  cases ht : r1.tr with
  | udp => rfl
  | tcp => rfl
  | dcu => rfl
  | dot => exact tls _
  | doq => exact tls _
  | h1 => exact http (Or.inl ht)
  | h2 => exact http (Or.inr ht)
  | hp => exact absurd ht h2

/-- The decoded path of a request (`none`: the target has none). -/
def decodedPath (cf : Conf) (r : Req) : Option Bytes := (specPath (envOf cf r.ipLitOK) r.target).map (·.2)

/-- `r.Host` as the handler sees it. -/
def hostOf (cf : Conf) (r : Req) : Bytes :=
  match specPath (envOf cf r.ipLitOK) r.target with
  | some (h, _) => effHost r h
  | none => []

/-- **No other source.**  Two requests that agree on the transport, the
server name they sent and their percent-decoded path (over unencrypted HTTP
also on the Host, which stands in for the server name there) get the same
verdict from the ClientID stage whenever both reach it — whatever their Host
header, query string, method, raw spelling of the target, other headers, EDNS
options, question and peer address are. -/
theorem C16_no_other_source (cf : Conf) (r r' : Req) (c c' : Ctx)
    (h : front cf r = .ok c) (h' : front cf r' = .ok c')
    (htr : r.tr = r'.tr) (hsni : r.sni = r'.sni)
    (hpath : decodedPath cf r = decodedPath cf r')
    (hplain : r.tr = .hp → hostOf cf r = hostOf cf r' ∧ r.hostSplit = r'.hostSplit) :
    clientIDFromCtx c = clientIDFromCtx c' := by
  have hs := front_specCtx cf r c h
  have hs' := front_specCtx cf r' c' h'
  unfold specCtx at hs hs'
  unfold decodedPath at hpath
  unfold hostOf at hplain
  rw [← htr] at hs'
  cases ht : r.tr <;> simp only [ht] at hs hs' hplain
  · cases hs; cases hs'; rfl
  · cases hs; cases hs'; rfl
  · cases hs; cases hs'; rw [hsni]
  · cases hs; cases hs'; rw [hsni]
  all_goals first
    | (cases hs; cases hs'; rfl)
    | (cases h1 : specPath (envOf cf r.ipLitOK) r.target with
       | none => rw [h1] at hs; cases hs
       | some a =>
         cases h2 : specPath (envOf cf r'.ipLitOK) r'.target with
         | none => rw [h2] at hs'; cases hs'
         | some b =>
           rw [h1] at hs hpath hplain; rw [h2] at hs' hpath hplain
           simp only [Option.map_some, Option.some.injEq] at hs hs' hpath
           subst hs; subst hs'
           apply ctx_https_congr
           · rfl
           · rfl
           · simp [mkCtxHTTP, hpath]
           · simp [clientServerName, mkCtxHTTP, ht, ← htr, hsni, hplain]
           · rfl
           · rfl)

/-- …and therefore the same attribution: if both are answered, they are
attributed to the same identity, from whatever server states. -/
theorem C16_no_other_source_attribution (cf : Conf) (st st' : St) (r r' : Req) (id id' : Bytes)
    (h : (step cf st r).2 = .ans id) (h' : (step cf st' r').2 = .ans id')
    (htr : r.tr = r'.tr) (hsni : r.sni = r'.sni)
    (hpath : decodedPath cf r = decodedPath cf r')
    (hplain : r.tr = .hp → hostOf cf r = hostOf cf r' ∧ r.hostSplit = r'.hostSplit) :
    id = id' := by
  cases hf : front cf r with
  | error o =>
    rw [step_error cf st r o hf] at h
    rcases front_error_cls cf r o hf with ⟨n, rfl⟩ | rfl | rfl <;> cases h
  | ok c =>
    cases hf' : front cf r' with
    | error o =>
      rw [step_error cf st' r' o hf'] at h'
      rcases front_error_cls cf r' o hf' with ⟨n, rfl⟩ | rfl | rfl <;> cases h'
    | ok c' =>
      rw [step_ok cf st r c hf] at h
      rw [step_ok cf st' r' c' hf'] at h'
      rw [C16_no_other_source cf r r' c c' hf hf' htr hsni hpath hplain] at h
      cases hc : clientIDFromCtx c' with
      | error e => rw [hc] at h; cases h
      | ok i => rw [hc] at h h'; cases h; cases h'; rfl

/-- **Decode, then shape.**  An identity attributed to a DoH request is the
lower-cased valid label `l` such that the percent-decoded path component of
THAT request's target cleans to `/dns-query/l` — or it is the label of the
server name the request came with (`l.<configured name>`; over unencrypted HTTP
the Host stands in for the server name). -/
theorem C16_decode_then_shape (cf : Conf) (st : St) (r : Req) (id : Bytes)
    (hh : isHTTP r.tr = true) (h : (step cf st r).2 = .ans id) (hne : id ≠ []) :
    (∃ host rp p l, splitTarget (envOf cf r.ipLitOK) r.target = some (host, rp) ∧ pctDecode rp = some p ∧
        validLabel l = true ∧ slash ∉ l ∧ pathClean p = slash :: dnsQuery ++ slash :: l ∧
        id = lower l)
    ∨ (cf.srvName ≠ [] ∧ ∃ cli l, validLabel l = true ∧ dot ∉ l ∧ cli = l ++ dot :: cf.srvName ∧
        id = lower l ∧ ((r.tr ≠ .hp ∧ cli = r.sni) ∨ (r.tr = .hp ∧ r.hostSplit = some cli))) := by
  have hfront : front cf r = frontHTTP cf r := by
    unfold front
    cases ht : r.tr <;> simp [isHTTP, ht] at hh ⊢
  cases hf : front cf r with
  | error o =>
    rw [step_error cf st r o hf] at h
    rcases front_error_cls cf r o hf with ⟨n, rfl⟩ | rfl | rfl <;> cases h
  | ok c =>
    rw [step_ok cf st r c hf] at h
    have hc : clientIDFromCtx c = .ok id := by
      cases hcc : clientIDFromCtx c with
      | error e => rw [hcc] at h; cases h
      | ok i => rw [hcc] at h; cases h; rfl
    rw [hfront] at hf
    obtain ⟨u, hg, hu, hcu, _⟩ := frontHTTP_ok cf r c hf
    obtain ⟨_, hsp, hun⟩ := parseRequestURI_parts _ _ u hu
    obtain ⟨v, hv⟩ := gate_path_rooted cf _ _ _ _ u hg
    rcases C16_ctx_shape c id hc hne with ⟨_, p, l, hp, hvl, hsl, hcl, hid⟩ |
        ⟨_, hsn, cli, l, hcs, hvl, hdl, hcli, hid⟩
    · left
      rw [hcu] at hp
      simp only [mkCtxHTTP, Option.some.injEq] at hp
      subst hp
      refine ⟨u.host, u.rawPath, u.path, l, hsp, by rw [← unescape_eq_pctDecode]; exact hun, hvl, hsl, ?_, hid⟩
      rcases hcl with hcl | hcl
      · exact hcl
      · exfalso
        rw [hv] at hcl
        obtain ⟨w, hw⟩ := pathClean_rooted_head v
        rw [hw] at hcl
        have := congrArg List.head? hcl
        simp [dnsQuery, slash] at this
    · right
      rw [hcu] at hsn hcs hcli
      simp only [mkCtxHTTP] at hsn hcli
      refine ⟨hsn, cli, l, hvl, hdl, hcli, hid, ?_⟩
      by_cases htr : r.tr = .hp
      · right
        refine ⟨htr, ?_⟩
        simp only [clientServerName, mkCtxHTTP, htr] at hcs
        simp only [beq_self_eq_true, if_true] at hcs
        split at hcs
        · cases hcs
          -- cli = [] contradicts cli = l ++ "." ++ name
          simp at hcli
        · split at hcs
          · next hs' hsplit => cases hcs; exact hsplit
          · cases hcs
      · left
        refine ⟨htr, ?_⟩
        have : (r.tr == Tr.hp) = false := by simp [htr]
        simp only [clientServerName, mkCtxHTTP, this] at hcs
        simp at hcs
        exact hcs.symm

/-- The split of a request-target the spec monitor relies on, stated without
reference to the parser: the path component is a literal piece of the target,
followed by nothing or by `?…`, preceded by nothing (origin-form), by
`scheme:` or by `scheme://authority` (absolute-form; `parseAuthority` — userinfo,
port, IP literal, host escapes as in net/url — gives the Host); a rootless `scheme:…` target has the empty path. -/
theorem C16_target_split_shape (e : UrlEnv) (raw host rp : Bytes) (h : splitTarget e raw = some (host, rp)) :
    ∃ pre q, raw = pre ++ rp ++ q ∧ qmark ∉ rp ∧ (q = [] ∨ q.head? = some qmark) ∧
      ((pre = [] ∧ host = [] ∧ rp.head? = some slash) ∨
       ∃ sc, sc ≠ [] ∧ (∀ c ∈ sc, schemeChar c) ∧
         ((pre = sc ++ [colon] ∧ host = [] ∧ rp.head? = some slash) ∨
          (∃ auth, pre = sc ++ colon :: slash :: slash :: auth ∧ slash ∉ auth ∧
              parseAuthority e (lower sc) auth = some host ∧ (rp = [] ∨ rp.head? = some slash)) ∨
          (rp = [] ∧ host = [] ∧ ∃ o, pre = sc ++ colon :: o ∧ o.head? ≠ some slash))) :=
  target_split_shape e raw host rp h

/-- A DoH request whose decoded path carries a candidate label that is not a
valid host-name label (or extra segments after it) is never answered: not
attributed to nobody, not to somebody else — whatever server name, Host or
headers it has. -/
theorem C16_e2e_invalid_fails (cf : Conf) (st : St) (r : Req) (hh : isHTTP r.tr = true)
    (host p l : Bytes) (hs : specPath (envOf cf r.ipLitOK) r.target = some (host, p)) (hl : pathLabel p = some l)
    (hv : validLabel l = false) (id : Bytes) : (step cf st r).2 ≠ .ans id := by
  intro h
  have hfront : front cf r = frontHTTP cf r := by
    unfold front
    cases ht : r.tr <;> simp [isHTTP, ht] at hh ⊢
  cases hf : front cf r with
  | error o =>
    rw [step_error cf st r o hf] at h
    rcases front_error_cls cf r o hf with ⟨n, rfl⟩ | rfl | rfl <;> cases h
  | ok c =>
    rw [step_ok cf st r c hf] at h
    rw [hfront] at hf
    obtain ⟨u, _, hu, hcu, _⟩ := frontHTTP_ok cf r c hf
    have hsp := parseRequestURI_spec _ _ u hu
    rw [hs] at hsp
    simp only [Option.some.injEq, Prod.mk.injEq] at hsp
    obtain ⟨_, hp⟩ := hsp
    have : clientIDFromCtx c = .error (if slash ∈ l then .extraParts else .badLabel) := by
      rw [hcu]
      simp only [clientIDFromCtx, mkCtxHTTP, ← hp, path_char, hl, hv]
      by_cases hsl : slash ∈ l <;> simp [hsl]
    rw [this] at h
    cases h

/-- A DoT / DoQ server name `<l>.<configured name>` whose label `l` is not a
valid host-name label is never answered either. -/
theorem C16_e2e_sni_invalid_fails (cf : Conf) (st : St) (r : Req)
    (htr : r.tr = .dot ∨ r.tr = .doq) (hn : cf.srvName ≠ [])
    (hne : cf.srvName ≠ r.sni) (himm : isImmediateSubdomain r.sni cf.srvName = true)
    (hbad : validLabel (r.sni.take (r.sni.length - cf.srvName.length - 1)) = false) :
    (step cf st r).2 = .hs ∨ (step cf st r).2 = .servfail := by
  cases hf : front cf r with
  | error o =>
    rw [step_error cf st r o hf]
    have : o = .hs := by
      unfold front at hf
      rcases htr with htr | htr <;> simp only [htr] at hf <;>
        (unfold frontTLS at hf; split at hf <;> cases hf; rfl)
    exact Or.inl this
  | ok c =>
    rw [step_ok cf st r c hf]
    have hc : c = mkCtxConn cf (if r.tr = .dot then .tls else .quic) (some r.sni) := by
      unfold front at hf
      rcases htr with htr | htr <;> simp only [htr] at hf
      · rw [frontTLS_ok cf r _ c hf]; simp [htr]
      · rw [frontTLS_ok cf r _ c hf]; simp [htr]
    have : clientIDFromCtx c = .error .badLabel := by
      rw [hc]
      have := C16_sni_invalid_fails cf.srvName r.sni cf.strict hne himm hbad
      rcases htr with htr | htr <;>
        simp [htr, clientIDFromCtx, mkCtxConn, Conf.prep, prepareTLS, fromSNI, clientServerName, hn, this]
    rw [this]; exact Or.inr rfl

/-- The request record carries the peer address, the EDNS options, the
question and the other HTTP headers; the pipeline provably never looks at
them: changing them changes neither the outcome nor the server state. -/
theorem C16_ignored_inputs (cf : Conf) (st : St) (r : Req)
    (peer edns qname : Bytes) (hdrs : List (Bytes × Bytes)) :
    step cf st { r with peer := peer, edns := edns, qname := qname, hdrs := hdrs } = step cf st r := rfl

/-- Over TLS (DoH over HTTP/1.1 or h2, DoT, DoQ) the Host header / `:authority`
and the request method are not a source either: any two values the transport
accepts as a Host (`hostFieldOK`: `ValidHostHeader` for HTTP/1.x, a valid field
value for h2 — a malformed one fails the request with 400 / a stream reset)
lead to the same outcome. -/
theorem C16_host_header_ignored_over_tls (cf : Conf) (st : St) (r : Req)
    (host : Bytes) (hsplit : Option Bytes) (m : Method) (htr : r.tr ≠ .hp)
    (hok : hostFieldOK r.tr host = hostFieldOK r.tr r.host) :
    (step cf st { r with host := host, hostSplit := hsplit, method := m }).2 = (step cf st r).2 := by
  have k := verdict_congr_tls cf { r with host := host, hostSplit := hsplit, method := m } r
    rfl htr rfl rfl rfl rfl rfl hok
  rw [step_verdict, step_verdict, k]

/-- Plain DNS and DNSCrypt requests are always answered and attributed to
nobody, whatever the cache holds under their request number. -/
theorem C16_e2e_plain_none (cf : Conf) (st : St) (r : Req)
    (h : r.tr = .udp ∨ r.tr = .tcp ∨ r.tr = .dcu) : (step cf st r).2 = .ans [] := by
  rcases h with h | h | h
  · rw [step_ok cf st r (mkCtxConn cf .udp none) (by unfold front; simp [h])]
    rw [C16_plain_none _ (Or.inl rfl)]
  · rw [step_ok cf st r (mkCtxConn cf .tcp none) (by unfold front; simp [h])]
    rw [C16_plain_none _ (Or.inr (Or.inl rfl))]
  · rw [step_ok cf st r (mkCtxConn cf .dnscrypt none) (by unfold front; simp [h])]
    rw [C16_plain_none _ (Or.inr (Or.inr rfl))]

/-- With strict checking, a DoT / DoQ server name outside the configured domain
is rejected: the handshake is refused or the request is answered SERVFAIL. -/
theorem C16_e2e_strict_rejects (cf : Conf) (st : St) (r : Req)
    (hs : cf.strict = true) (hn : cf.srvName ≠ []) (htr : r.tr = .dot ∨ r.tr = .doq)
    (hne : cf.srvName ≠ r.sni) (himm : isImmediateSubdomain r.sni cf.srvName = false) :
    (step cf st r).2 = .hs ∨ (step cf st r).2 = .servfail := by
  cases hf : front cf r with
  | error o =>
    rw [step_error cf st r o hf]
    have : o = .hs := by
      unfold front at hf
      rcases htr with htr | htr <;> simp only [htr] at hf <;>
        (unfold frontTLS at hf; split at hf <;> cases hf; rfl)
    exact Or.inl this
  | ok c =>
    rw [step_ok cf st r c hf]
    have hc : c = mkCtxConn cf (if r.tr = .dot then .tls else .quic) (some r.sni) := by
      unfold front at hf
      rcases htr with htr | htr <;> simp only [htr] at hf
      · rw [frontTLS_ok cf r _ c hf]; simp [htr]
      · rw [frontTLS_ok cf r _ c hf]; simp [htr]
    have : clientIDFromCtx c = .error .sniMismatch := by
      rw [hc]
      have := C16_strict_rejects cf.srvName r.sni hne himm
      rcases htr with htr | htr <;>
        simp [htr, clientIDFromCtx, mkCtxConn, Conf.prep, prepareTLS, fromSNI, clientServerName, hn, hs, this]
    rw [this]; exact Or.inr rfl

/-- **The strictness used for a request is the configured one**, for every
certificate: `prepareTLS` derives the handshake names from the certificate (DNS
SANs, else the common name, even an empty one) but never rewrites
`strict_sni_check`; whatever the certificate carries — a matching name, another
name, a wildcard, a common name only, IP addresses only, nothing — the context
handed to `clientIDFromDNSContext` has `strict` = the configuration's, and a
handshake is refused only under the configured strictness. -/
theorem C16_strict_is_configured_strict (cf : Conf) (r : Req) :
    (prepareTLS cf.strict cf.cert).strict = cf.strict ∧
      (∀ c, front cf r = .ok c → c.strict = cf.strict) ∧
      (front cf r = .error .hs → cf.strict = true) := by
  refine ⟨rfl, ?_, fun h => (front_hs cf r h).1⟩
  intro c h
  unfold front at h
  cases ht : r.tr <;> simp only [ht] at h
  · cases h; rfl
  · cases h; rfl
  · rw [frontTLS_ok cf r _ c h]; rfl
  · rw [frontTLS_ok cf r _ c h]; rfl
  · obtain ⟨u, _, _, hc, _⟩ := frontHTTP_ok cf r c h; rw [hc]; rfl
  · obtain ⟨u, _, _, hc, _⟩ := frontHTTP_ok cf r c h; rw [hc]; rfl
  · obtain ⟨u, _, _, hc, _⟩ := frontHTTP_ok cf r c h; rw [hc]; rfl
  · cases h; rfl

/-- With strict checking and a certificate that has no DNS name and no common
name (an IP-only certificate) every DoT / DoQ handshake is refused — strict
checking is not silently given up. -/
theorem C16_strict_ip_only_cert_refuses (cf : Conf) (st : St) (r : Req)
    (hs : cf.strict = true) (hd : cf.cert.dnsNames = []) (hcn : cf.cert.cn = [])
    (htr : r.tr = .dot ∨ r.tr = .doq) (hv : r.sniValidHost = true → r.sni ≠ []) :
    (step cf st r).2 = .hs := by
  have hf : front cf r = .error .hs := by
    unfold front
    have : frontTLS cf r = fun _ => .error .hs := by
      funext p
      unfold frontTLS
      by_cases hvv : r.sniValidHost = true
      · have hne := hv hvv
        simp [Conf.prep, prepareTLS, hs, hd, hcn, anyNameMatches, isWildcard, hvv, hne]
      · simp [Conf.prep, prepareTLS, hs, hd, hcn, anyNameMatches, hvv]
    rcases htr with htr | htr <;> simp [htr, this]
  rw [step_error cf st r _ hf]

-- Non-vacuity: concrete requests through the whole model.
def exConf : Conf := { srvName := exHost, strict := true, cert := { dnsNames := [exHost, [42, 46] ++ exHost], cn := [], hasIP := false }, plainDoH := false, urlStrictColons := false }
def exReq (tr : Tr) (sni target : Bytes) : Req :=
  { tr := tr, sni := sni, sniValidHost := true, method := .get, target := target, host := [120],
    hostSplit := some [120], dnsOK := true, ipLitOK := true, peer := [], edns := [], qname := [], hdrs := [] }
-- GET /dns-query/%43li-1?dns=… over h1 with SNI example.org: attributed to "cli-1"
example : (step exConf {} (exReq .h1 exHost
    (slash :: dnsQuery ++ slash :: [37, 52, 51, 108, 105, 45, 49, 63, 100, 110, 115, 61, 65]))).2 =
    .ans [99, 108, 105, 45, 49] := by decide
-- //dns-query/x is redirected by the mux, never attributed
example : (step exConf {} (exReq .h2 exHost (slash :: slash :: dnsQuery ++ [slash, 120]))).2 = .http 307 := by decide
-- /dns-query/%zz : 400 over HTTP/1.1, stream reset over h2
example : (step exConf {} (exReq .h1 exHost (slash :: dnsQuery ++ [slash, 37, 122, 122]))).2 = .http 400 := by decide
example : (step exConf {} (exReq .h2 exHost (slash :: dnsQuery ++ [slash, 37, 122, 122]))).2 = .rst := by decide
-- DoT with SNI a.b.example.org under strict checking passes the wildcard gate and is answered SERVFAIL
example : (step exConf {} (exReq .dot ([97, 46, 98] ++ dot :: exHost) [])).2 = .servfail := by decide
-- DoT with SNI xexample.org: the handshake is refused
example : (step exConf {} (exReq .dot (120 :: exHost) [])).2 = .hs := by decide
-- an IP-only certificate under strict checking: DoT is refused, DoH (handshake by the web server) with
-- a server name outside the domain is answered SERVFAIL — never served as nobody
def exConfIP : Conf := { exConf with cert := { dnsNames := [], cn := [], hasIP := true } }
example : (step exConfIP {} (exReq .dot ([99, 108, 105] ++ dot :: exHost) [])).2 = .hs := by decide
example : (step exConfIP {} (exReq .h1 (120 :: exHost) (slash :: dnsQuery ++ [63, 100]))).2 = .servfail := by decide
-- absolute-form with an escaped non-ASCII authority, GET http://%ff/.. : the mux redirects (307);
-- http://%41/dns-query (escape of an ASCII byte in the host) is a parse error (400)
example : (step exConf {} (exReq .h1 exHost [104, 116, 116, 112, 58, 47, 47, 37, 102, 102, 47, 46, 46])).2 = .http 307 := by decide
example : (step exConf {} (exReq .h1 exHost ([104, 116, 116, 112, 58, 47, 47, 37, 52, 49, 47] ++ dnsQuery))).2 = .http 400 := by decide

end AGH.C16.E2E

/-! ## Translator tie: "no other source" in the Go code

`AGH.Gen.C16` is regenerated from the typed syntax of internal/dnsforward on
every run (extract/cmd/c16).  The obligations below are re-checked against the
tree under check; they are what makes the model's input signature (`Ctx`, and
`E2E.Req` above it) the input signature of the CODE: a new source of the
ClientID (an HTTP header, an EDNS option, the Host header over TLS, the peer
address, the question) adds a selector or an escape and breaks
`C16_gen_sources_expected`; a second writer of the identity, a cache store of
something else, a lost `Del` break `C16_gen_single_writer`; a return that is not
validated and lower-cased breaks `C16_gen_validated_returns`. -/
namespace AGH.C16
open AGH.Gen.C16

/-- The selectors each field of the model's `Ctx` stands for (ids of
`AGH.Gen.C16`, names in the generated file):
`proto` ← 1; `path` ← 2 3 4 (`HTTPRequest.URL.Path`); `httpTLS` ← 2 5 6
(`HTTPRequest.TLS.ServerName`); `hostHdr`/`hostSplit` ← 2 7 (`HTTPRequest.Host`);
`connSNI` ← 8 9 6 / 10 11 12 6 (`Conn`→`ConnectionState().ServerName`,
`QUICConnection`→`ConnectionState().TLS.ServerName`); `hostSrvName` ← 13 14 15
(`s.conf.TLSConf.ServerName`); `strict` ← 13 14 16. -/
def ctxFieldSources : List (List Nat) :=
  [[1], [2, 3, 4], [2, 5, 6], [2, 7], [8, 9, 6], [10, 11, 12, 6], [13, 14, 15], [13, 14, 16]]

/-- The request-derived reads of the Go functions that compute the ClientID
are exactly the inputs of the model (`Ctx`): nothing else of the request, the
connection or the configuration is read, and no request-carrying value is
handed to a function outside them.  With `C16_no_other_source` /
`C16_ignored_inputs` (the model provably ignores everything else) this is the
"no other source" claim for the code. -/
theorem C16_gen_sources_expected :
    (∀ s ∈ sources, s ∈ ctxFieldSources.flatten) ∧ (∀ s ∈ ctxFieldSources.flatten, s ∈ sources) ∧
      escapes = [] := by decide +kernel

/-- The identity of a request (`dnsContext.clientID`) is written in one way
only: in `processInitial`, from `clientIDCache.Get` under the key derived from
`pctx.RequestID` (model: `attributed`).  The cache is stored to only in
`HandleBefore`, only with the value `clientIDFromDNSContext` returned for this
request, under the same key, and the entry is deleted there when the request
has no id (model: `handleBefore`); nobody else calls the extraction or touches
the cache. -/
theorem C16_gen_single_writer :
    (2, 1, 1) ∈ clientIDWrites ∧ (∀ w ∈ clientIDWrites, w = (2, 1, 1)) ∧
      (1, 1, 1, 1) ∈ cacheOps ∧ (1, 3, 0, 1) ∈ cacheOps ∧ (2, 2, 0, 1) ∈ cacheOps ∧
      (∀ o ∈ cacheOps, o = (1, 1, 1, 1) ∨ o = (1, 3, 0, 1) ∨ o = (2, 2, 0, 1)) ∧
      (∀ f ∈ extractionCalls, f = 1) := by decide +kernel

/-- Every return of every function whose result becomes the ClientID is the
empty string, or `strings.ToLower(v)` immediately after `ValidateClientID(v)`
and its error return, or a value forwarded from another such function;
`ValidateClientID` starts with `netutil.ValidateHostnameLabel` on its argument
(model: `validLabel`, `lower`; theorems `C16_result_valid`, `C16_ctx_shape`). -/
theorem C16_gen_validated_returns :
    (∀ r ∈ returns, r.2 = 0 ∨ r.2 = 1 ∨ r.2 = 3) ∧ (∃ r ∈ returns, r.2 = 1) ∧
      (∀ f ∈ idFuncs, f ∈ closure) ∧ (∀ r ∈ returns, r.1 ∈ idFuncs) ∧
      1 ∈ validateCallees ∧ validateUnconditional = 1 := by decide +kernel

/-- `TLSConfig.StrictSNICheck` — the flag `clientIDFromDNSContext` passes as
`strict` and `onGetCertificate` consults — is only ever set by a composite
literal where the configuration is loaded (package home); nothing in
dnsforward (not `prepareTLS`, not a request path) assigns it or takes its
address.  This is what makes the model's `prepareTLS` (flag copied through,
`C16_strict_is_configured_strict`) the code's. -/
theorem C16_gen_strict_flag_never_rewritten :
    (∀ w ∈ strictFlagWrites, w.1 ≠ 3 ∧ w.2 = 1) ∧ (1, 1) ∈ strictFlagWrites := by decide +kernel

end AGH.C16
