/-
C16 — ClientIDs come only from a well-formed DoH path or server-name label.
Property theorems only (helper lemmas live in AGH/Lemmas).
-/
import AGH.Spec.ClientID
namespace AGH.C16
open AGH AGH.Bytes

/-- Plain DNS and DNSCrypt requests never carry a ClientID (and never fail). -/
theorem C16_plain_none (c : Ctx) (h : c.proto = .udp ∨ c.proto = .tcp ∨ c.proto = .dnscrypt) :
    clientIDFromCtx c = .ok [] := by
  rcases h with h | h | h <;> simp [clientIDFromCtx, h]

end AGH.C16
