/-
C16 — ClientIDs come only from a well-formed DoH path or server-name label.
Property theorems only (helper lemmas live in AGH/Lemmas/ClientID.lean).
All theorems quantify over every byte string / request context.
-/
import AGH.Lemmas.ClientID
namespace AGH.C16
open AGH AGH.Bytes

/-- Plain DNS and DNSCrypt requests never carry a ClientID (and never fail). -/
theorem C16_plain_none (c : Ctx) (h : c.proto = .udp ∨ c.proto = .tcp ∨ c.proto = .dnscrypt) :
    clientIDFromCtx c = .ok [] := by
  rcases h with h | h | h <;> simp [clientIDFromCtx, h]

/-- A ClientID taken from a server name is the lower-cased valid label `l` of
`l.<configured name>`: immediate sub-domain only (no sub-sub-domain, sibling or
suffix look-alike). -/
theorem C16_sni_shape (host cli : Bytes) (strict : Bool) (id : Bytes)
    (hr : clientIDFromServerName host cli strict = .ok id) (hne : id ≠ []) :
    ∃ l, validLabel l = true ∧ dot ∉ l ∧ cli = l ++ dot :: host ∧ id = lower l := by
  unfold clientIDFromServerName at hr
  split at hr
  · cases hr; exact absurd rfl hne
  · split at hr
    · split at hr
      · cases hr; exact absurd rfl hne
      · cases hr
    · next himm =>
      simp at himm
      simp only at hr
      split at hr
      · next hv =>
        cases hr
        unfold isImmediateSubdomain at himm
        simp only [Bool.and_eq_true, beq_iff_eq] at himm
        obtain ⟨hsub, hcount⟩ := himm
        obtain ⟨hsplit, _⟩ := isSubdomain_split cli host hsub
        refine ⟨_, hv, ?_, hsplit, rfl⟩
        -- the dots: count cli = count l + 1 + count host, so count l = 0
        intro hmem
        have hc := congrArg (List.count dot) hsplit
        rw [List.count_append, List.count_cons_self] at hc
        have : 0 < List.count dot (List.take (cli.length - host.length - 1) cli) :=
          List.count_pos_iff.mpr hmem
        omega
      · cases hr

/-- A candidate label that is not a valid host-name label makes the request
fail; it is never attributed to nobody or to somebody else. -/
theorem C16_sni_invalid_fails (host cli : Bytes) (strict : Bool)
    (hne : host ≠ cli) (himm : isImmediateSubdomain cli host = true)
    (hbad : validLabel (cli.take (cli.length - host.length - 1)) = false) :
    clientIDFromServerName host cli strict = .error .badLabel := by
  unfold clientIDFromServerName
  simp [hne, himm, hbad]

/-- With strict server-name checking, a name that is neither the configured
one nor its immediate sub-domain is rejected. -/
theorem C16_strict_rejects (host cli : Bytes)
    (hne : host ≠ cli) (himm : isImmediateSubdomain cli host = false) :
    clientIDFromServerName host cli true = .error .sniMismatch := by
  unfold clientIDFromServerName
  simp [hne, himm]

/-- A ClientID taken from a DoH path is the lower-cased valid label `l` of a
path that cleans to `/dns-query/l` (`dns-query/l` for a relative path, which
net/http never produces).  Extra segments never yield an id. -/
theorem C16_path_shape (p id : Bytes) (hr : clientIDFromPath p = .ok id) (hne : id ≠ []) :
    ∃ l, validLabel l = true ∧ slash ∉ l ∧
      (pathClean p = slash :: dnsQuery ++ slash :: l ∨ pathClean p = dnsQuery ++ slash :: l) ∧
      id = lower l := by
  have hjoin := joinWith_splitOn slash (pathClean p)
  have hnosep := splitOn_no_sep slash (pathClean p)
  unfold clientIDFromPath at hr
  simp only at hr
  -- case analysis on the split of the cleaned path
  cases hs : splitOn slash (pathClean p) with
  | nil => exact absurd hs (splitOn_ne_nil _ _)
  | cons a rest =>
    rw [hs] at hr hjoin hnosep
    cases a with
    | nil =>
      -- rooted: parts = rest
      simp only at hr
      cases rest with
      | nil => simp at hr
      | cons first rest2 =>
        simp only at hr
        split at hr
        · cases hr
        · next hfirst =>
          simp only [ne_eq, Decidable.not_not] at hfirst
          cases rest2 with
          | nil => simp at hr; exact absurd hr hne
          | cons l rest3 =>
            cases rest3 with
            | nil =>
              simp only at hr
              split at hr
              · next hv =>
                cases hr
                refine ⟨l, hv, hnosep l (by simp), Or.inl ?_, rfl⟩
                rw [← hjoin, hfirst]; simp [joinWith]
              · cases hr
            | cons _ _ => simp at hr
    | cons b bs =>
      simp only at hr
      split at hr
      · cases hr
      · next hfirst =>
        simp only [ne_eq, Decidable.not_not] at hfirst
        cases rest with
        | nil => simp at hr; exact absurd hr hne
        | cons l rest3 =>
          cases rest3 with
          | nil =>
            simp only at hr
            split at hr
            · next hv =>
              cases hr
              refine ⟨l, hv, hnosep l (by simp), Or.inr ?_, rfl⟩
              rw [← hjoin, hfirst]; simp [joinWith]
            · cases hr
          | cons _ _ => simp at hr

/-- What the whole extraction returns, when it returns an id: the lower-cased
valid label of `/dns-query/<l>` (DoH only) or of `<l>.<configured name>`
(DoH, DoT, DoQ, configured name non-empty). -/
theorem C16_ctx_shape (c : Ctx) (id : Bytes) (hr : clientIDFromCtx c = .ok id) (hne : id ≠ []) :
    (c.proto = .https ∧ ∃ p l, c.path = some p ∧ validLabel l = true ∧ slash ∉ l ∧
        (pathClean p = slash :: dnsQuery ++ slash :: l ∨ pathClean p = dnsQuery ++ slash :: l) ∧
        id = lower l)
    ∨ ((c.proto = .https ∨ c.proto = .tls ∨ c.proto = .quic) ∧ c.hostSrvName ≠ [] ∧
        ∃ cli l, clientServerName c = .ok cli ∧ validLabel l = true ∧ dot ∉ l ∧
          cli = l ++ dot :: c.hostSrvName ∧ id = lower l) := by
  have sni : ∀ (hp : c.proto = .https ∨ c.proto = .tls ∨ c.proto = .quic),
      fromSNI c = .ok id →
      ((c.proto = .https ∨ c.proto = .tls ∨ c.proto = .quic) ∧ c.hostSrvName ≠ [] ∧
        ∃ cli l, clientServerName c = .ok cli ∧ validLabel l = true ∧ dot ∉ l ∧
          cli = l ++ dot :: c.hostSrvName ∧ id = lower l) := by
    intro hp h
    unfold fromSNI at h
    split at h
    · cases h; exact absurd rfl hne
    · next hh =>
      split at h
      · cases h
      · next cli hcli =>
        obtain ⟨l, hv, hd, hs, hid⟩ := C16_sni_shape _ _ _ _ h hne
        exact ⟨hp, hh, cli, l, hcli, hv, hd, hs, hid⟩
  unfold clientIDFromCtx at hr
  split at hr
  · next hp =>
    split at hr
    · cases hr
    · next p hpath =>
      split at hr
      · cases hr
      · next id' hid' =>
        split at hr
        · next hne' =>
          cases hr
          obtain ⟨l, hv, hs, hc, hl⟩ := C16_path_shape p id hid' hne
          exact Or.inl ⟨hp, p, l, hpath, hv, hs, hc, hl⟩
        · exact Or.inr (sni (Or.inl hp) hr)
  · next hp => exact Or.inr (sni (Or.inr (Or.inl hp)) hr)
  · next hp => exact Or.inr (sni (Or.inr (Or.inr hp)) hr)
  · cases hr; exact absurd rfl hne

/-- Every ClientID handed on is itself a valid host-name label and is in
lower case (lower-casing is idempotent). -/
theorem C16_result_valid (c : Ctx) (id : Bytes) (hr : clientIDFromCtx c = .ok id) (hne : id ≠ []) :
    validLabel id = true ∧ lower id = id := by
  rcases C16_ctx_shape c id hr hne with ⟨_, _, l, _, hv, _, _, hid⟩ | ⟨_, _, _, l, _, hv, _, _, hid⟩
  · subst hid; exact ⟨by rw [validLabel_lower]; exact hv, lower_idem l⟩
  · subst hid; exact ⟨by rw [validLabel_lower]; exact hv, lower_idem l⟩

/-- The model satisfies the spec monitor that the driver evaluates on the implementation's
output, for every request context: the monitor never raises an alarm on
behaviour that agrees with the model. -/
theorem C16_model_meets_spec (c : Ctx) : specOK c (clientIDFromCtx c) = true := by
  have hsni := sni_meets c.hostSrvName c.strict (clientServerName c)
  rw [← fromSNI_eq] at hsni
  rcases c with ⟨proto, path, httpTLS, hostHdr, hostSplit, connSNI, host, strict⟩
  cases proto
  case udp => simp [specOK, clientIDFromCtx, sniCapable]
  case tcp => simp [specOK, clientIDFromCtx, sniCapable]
  case dnscrypt => simp [specOK, clientIDFromCtx, sniCapable]
  case tls =>
    simp only [specOK, clientIDFromCtx, sniCapable]
    simp only at hsni
    split at hsni
    · next id heq =>
      rw [heq]
      by_cases hid : id = []
      · simp [hid] at hsni ⊢; exact hsni
      · simp [hid] at hsni ⊢; exact hsni
    · next e heq => rw [heq]; simp; exact hsni
  case quic =>
    simp only [specOK, clientIDFromCtx, sniCapable]
    simp only at hsni
    split at hsni
    · next id heq =>
      rw [heq]
      by_cases hid : id = []
      · simp [hid] at hsni ⊢; exact hsni
      · simp [hid] at hsni ⊢; exact hsni
    · next e heq => rw [heq]; simp; exact hsni
  case https =>
    simp only [specOK, clientIDFromCtx, sniCapable]
    cases path with
    | none => simp
    | some p =>
      simp only [path_char]
      cases hpl : pathLabel p with
      | some l =>
        simp only
        by_cases hsl : slash ∈ l
        · simp [hsl, not_valid_of_slash l hsl]
        · by_cases hv : validLabel l = true
          · have := lower_ne_nil (validLabel_ne_nil hv)
            simp [hsl, hv, this, idOf]
          · simp [hsl, hv]
      | none =>
        simp only
        by_cases hq : pathClean p = slash :: dnsQuery ∨ pathClean p = dnsQuery
        · simp only [hq, if_true, ne_eq, not_true_eq_false, if_false]
          simp only at hsni
          split at hsni
          · next id heq =>
            rw [heq]
            by_cases hid : id = []
            · simp [hid] at hsni ⊢; exact hsni
            · simp [hid] at hsni ⊢; exact hsni
          · next e heq => rw [heq]; simp; exact Or.inr hsni
        · simp only [hq, if_false]
          simp at hq ⊢
          exact Or.inl hq

-- Non-vacuity: concrete requests that yield an id from the path and from the SNI
-- ("Cli-1" = [67,108,105,45,49]; "example.org" as bytes below).
def exHost : Bytes := [101,120,97,109,112,108,101,46,111,114,103]
example : clientIDFromPath (slash :: dnsQuery ++ slash :: [67,108,105,45,49]) = .ok [99,108,105,45,49] := by decide
example : clientIDFromServerName exHost ([67,108,105] ++ dot :: exHost) true = .ok [99,108,105] := by decide
-- a.b.example.org with strict checking
example : clientIDFromServerName exHost ([97,46,98] ++ dot :: exHost) true = .error .sniMismatch := by decide
-- suffix look-alike xexample.org, not strict: nobody
example : clientIDFromServerName exHost (120 :: exHost) false = .ok [] := by decide
-- /dns-query/a_b : invalid label fails
example : clientIDFromPath (slash :: dnsQuery ++ slash :: [97,95,98]) = .error .badLabel := by decide

end AGH.C16

namespace AGH.C16
open AGH AGH.Bytes

theorem Cache.get_set (c : Cache) (r : Nat) (id : Bytes) : (c.set r id).get r = id := by
  simp [Cache.set, Cache.get]

theorem Cache.get_del (c : Cache) (r : Nat) : (c.del r).get r = [] := by
  unfold Cache.get Cache.del
  cases h : List.find? (fun x => x.1 == r) (List.filter (fun x => x.1 != r) c) with
  | none => rfl
  | some p =>
    have h1 := List.find?_some h
    have h2 := List.mem_of_find?_eq_some h
    simp at h2
    simp at h1
    exact absurd h1 h2.2

/-- A request that passed `HandleBefore` is attributed to exactly the ClientID
extracted from THAT request — whatever the cache held before (any history of
earlier requests, any reuse of request numbers after the proxy was re-created).
In particular a plain or DNSCrypt request is attributed to nobody. -/
theorem C16_attribution_is_own (c : Cache) (r : Nat) (ctx : Ctx) (id : Bytes)
    (h : (handleBefore c r ctx).2 = .ok id) :
    attributed (handleBefore c r ctx).1 r = id ∧ clientIDFromCtx ctx = .ok id := by
  unfold handleBefore at h ⊢
  cases hc : clientIDFromCtx ctx with
  | error e => simp [hc] at h
  | ok id' =>
    simp only [hc] at h ⊢
    by_cases hid : id' = []
    · simp [hid] at h ⊢
      subst h
      exact ⟨Cache.get_del c r, rfl⟩
    · simp [hid] at h ⊢
      subst h
      exact ⟨Cache.get_set c r id', rfl⟩

/-- …over every history of requests sharing one cache. -/
theorem C16_attribution_history (hist : List (Nat × Ctx)) (r : Nat) (ctx : Ctx) (id : Bytes) :
    let c := hist.foldl (fun c p => (handleBefore c p.1 p.2).1) ([] : Cache)
    (handleBefore c r ctx).2 = .ok id → attributed (handleBefore c r ctx).1 r = id :=
  fun h => (C16_attribution_is_own _ r ctx id h).1

theorem C16_plain_attributed_to_nobody (c : Cache) (r : Nat) (ctx : Ctx)
    (hp : ctx.proto = .udp ∨ ctx.proto = .tcp ∨ ctx.proto = .dnscrypt) :
    attributed (handleBefore c r ctx).1 r = [] := by
  have h := C16_plain_none ctx hp
  have : (handleBefore c r ctx).2 = .ok [] := by simp [handleBefore, h]
  exact (C16_attribution_is_own c r ctx [] this).1

end AGH.C16
