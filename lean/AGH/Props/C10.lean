/-
C10 — DHCPv4 never leases one address to two clients; lease table survives restart.

Property theorems only (helper lemmas live in AGH/Lemmas/DHCP*.lean).  The
model (`AGH/Model/DHCP.lean`) transcribes `internal/dhcpd/v4_unix.go`, `db.go`,
`config.go Validate` as they are after the repairs F5–F7, F16/F17, a691f53 (R5),
410da26 (R3) and 2820039 (R4); `Reachable O c s` are the states it reaches from
the empty table by ANY history of DISCOVER / REQUEST (selecting, init-reboot,
renew) / DECLINE / RELEASE / static add, update, remove / sleep / restart /
reorder (the unstable sort of `writeDB`), from ANY hardware addresses, for ANY
hostname oracle `O` and ANY configuration `c`.

`c.fixR3 = true`, `c.fixR4 = true` say "the tree as it is" (the defaults of
`Conf`, and what the driver runs for /repo: the harness reports the level).
Every clause of the property is a theorem for that variant.  The variant with a
switch off is the code before 410da26 / 2820039: `C10_counterexample_*_before_fix`
show what was wrong, `*_partial` what held all the same.
-/
import AGH.Lemmas.DHCPAnswers
import AGH.Lemmas.LeaseDBCodec
import AGH.Gen.C10Steps
namespace AGH.C10
open AGH

/-! ### the invariant, for all histories -/

theorem C10_inv_init (c : Conf) : Inv c State.init := Inv_init c

/-- Every operation keeps the invariant (addresses and MACs unique, dynamic
leases inside the pool, bitset / address index / hostname index in step with
the table, file well-formed). -/
theorem C10_inv_step (O : Oracle) (c : Conf) (s : State) (op : Op) (h : Inv c s) :
    Inv c (step O c s op).1 := Inv_step h

theorem C10_inv_reachable (O : Oracle) (c : Conf) (ops : List Op) :
    Inv c (run O c State.init ops) := run_inv ops _ (Inv_init c)

/-! ### what the property says, in Prop form -/

/-- For every address at most one lease (held or not, static or dynamic). -/
theorem C10_no_shared_address {O : Oracle} {c : Conf} {s : State} (hr : Reachable O c s)
    {l₁ l₂ : Lease} (h₁ : l₁ ∈ s.leases) (h₂ : l₂ ∈ s.leases) (hip : l₁.ip = l₂.ip) : l₁ = l₂ :=
  nodup_map_inj hr.inv.ipNodup h₁ h₂ hip

/-- A client holds at most one lease. -/
theorem C10_one_lease_per_client {O : Oracle} {c : Conf} {s : State} (hr : Reachable O c s)
    {l₁ l₂ : Lease} (h₁ : l₁ ∈ s.leases) (h₂ : l₂ ∈ s.leases) (hmac : l₁.mac = l₂.mac) : l₁ = l₂ :=
  nodup_map_inj hr.inv.macNodup h₁ h₂ hmac

/-- The table holds every lease once (no object twice). -/
theorem C10_each_lease_once {O : Oracle} {c : Conf} {s : State} (hr : Reachable O c s) :
    (s.leases.map (·.id)).Nodup ∧ (s.leases.map (·.ip)).Nodup ∧ (s.leases.map (·.mac)).Nodup :=
  ⟨hr.inv.idNodup, hr.inv.ipNodup, hr.inv.macNodup⟩

/-- A configuration the server accepts never has the gateway inside the
(inclusive) pool — at its first or last address included.  `validate`
transcribes `V4ServerConf.Validate`; its verdict is compared with the real
`v4Create` on every generated configuration. -/
theorem C10_validate_excludes_gateway {c : Conf} (h : validate c = true) :
    ¬ (c.start ≤ c.gw ∧ c.gw ≤ c.stop) ∧ c.start < c.stop := ⟨(validate_spec h).2.1, (validate_spec h).1⟩

/-- Dynamic addresses lie inside the pool, are not the gateway (because the
configuration passed validation) and never coincide with a static reservation. -/
theorem C10_dynamic_in_pool_not_reserved {O : Oracle} {c : Conf} {s : State} (hc : validate c = true)
    (hr : Reachable O c s) {l : Lease} (hl : l ∈ s.leases) (hd : l.static = false) :
    (c.start ≤ l.ip ∧ l.ip ≤ c.stop) ∧ l.ip ≠ c.gw ∧ ∀ r ∈ s.leases, r.static = true → r.ip ≠ l.ip := by
  have hp := hr.inv.dynPool l hl hd
  refine ⟨hp, fun e => (validate_spec hc).2.1 ⟨e ▸ hp.1, e ▸ hp.2⟩, ?_⟩
  intro r hrm hrs e
  have : r = l := nodup_map_inj hr.inv.ipNodup hrm hl e
  rw [this, hd] at hrs; cases hrs

/-- The address of a positive reply is recorded in the table for the client it was sent to. -/
theorem C10_reply_recorded {O : Oracle} {c : Conf} {s : State} (hr : Reachable O c s) {op : Op}
    {m : Bytes} (hm : op.mac? = some m) (hrc : (step O c s op).2.rc = 1) (hyi : (step O c s op).2.yi ≠ 0) :
    ∃ l ∈ (step O c s op).1.leases, l.mac = m ∧ l.ip = (step O c s op).2.yi :=
  step_recorded hr.inv hm hrc hyi

/-- A client with a reservation is only ever given that address (OFFER, ACK of
any REQUEST flavour, DECLINE replacement). -/
theorem C10_reserved_client_gets_reservation {O : Oracle} {c : Conf} {s : State} (hr : Reachable O c s)
    {op : Op} {m : Bytes} (hm : op.mac? = some m)
    (hrc : (step O c s op).2.rc = 1) (hyi : (step O c s op).2.yi ≠ 0)
    {r : Lease} (hrl : r ∈ (step O c s op).1.leases) (_hrs : r.static = true) (hrm : r.mac = m) :
    (step O c s op).2.yi = r.ip := by
  obtain ⟨l, hl, h1, h2⟩ := step_recorded hr.inv hm hrc hyi
  have : r = l := nodup_map_inj (Inv_step (O := O) (op := op) hr.inv).macNodup hrl hl (by rw [hrm, h1])
  rw [this, h2]

/-- A DISCOVER from a new client is answered with an OFFER of a pool address
whenever some pool address is neither leased (held by an unexpired lease) nor
reserved — also when every address carries a lease and only expired ones are left. -/
theorem C10_offer_liveness {O : Oracle} {c : Conf} {s : State} (hr : Reachable O c s)
    {mac : Bytes} (hv : validMAC mac = true) (hnew : ∀ l ∈ s.leases, l.mac ≠ mac)
    (hfree : ∃ a, c.start ≤ a ∧ a ≤ c.stop ∧ ∀ l ∈ s.leases, l.ip = a → l.static = false ∧ l.exp < s.now) :
    (step O c s (.discover mac)).2.rc = 1 ∧ (step O c s (.discover mac)).2.typ = 2 ∧
    c.start ≤ (step O c s (.discover mac)).2.yi ∧ (step O c s (.discover mac)).2.yi ≤ c.stop := by
  have h0 : Inv c { s with stale := [] } := Inv_congr hr.inv rfl rfl rfl rfl rfl rfl
  have hstep : (step O c s (.discover mac)).2 = (handleDiscover c mac { s with stale := [] }).2 := by
    unfold step
    simp only [hv, Bool.not_true, Bool.false_eq_true, if_false]
  rw [hstep]
  exact handleDiscover_offer h0 hnew hfree

/-- No DHCP message and no lapse of time adds, removes, moves, renames or
re-assigns a reservation: the static leases of the table are literally the same
list before and after (so a reserved client keeps its address whatever other
clients send, also when the pool is exhausted and expired leases are recycled). -/
theorem C10_reservations_unchanged_by_dhcp {O : Oracle} {c : Conf} {s : State} (hr : Reachable O c s)
    {op : Op} (hd : op.isDHCP = true) :
    (step O c s op).1.leases.filter (·.static) = s.leases.filter (·.static) :=
  step_statics hr.inv hd

/-- The bitset of leased offsets is exactly the set of pool addresses in the table. -/
theorem C10_bitset_agrees {O : Oracle} {c : Conf} {s : State} (hr : Reachable O c s) (o : Nat) :
    s.bits o = true ↔ ∃ l ∈ s.leases, l.ip = c.start + o ∧ l.ip ≤ c.stop := hr.inv.bitsIff o

/-- The address index maps exactly the addresses of the table, each to its lease. -/
theorem C10_ip_index_agrees {O : Oracle} {c : Conf} {s : State} (hr : Reachable O c s) (ip id : Nat) :
    s.ips ip = some id ↔ ∃ l ∈ s.leases, l.ip = ip ∧ l.id = id := hr.inv.ipsIff ip id

/-- Every entry of the hostname index points to a lease of the table that carries that name. -/
theorem C10_host_index_sound {O : Oracle} {c : Conf} {s : State} (hr : Reachable O c s) (h : Bytes) (id : Nat)
    (he : s.hosts h = some id) : ∃ l ∈ s.leases, l.id = id ∧ l.host = h := hr.inv.hostsSound h id he

/-! ### the answers given to DNS (`dhcpd.Interface`: HostByIP, MACByIP, IPByHost) -/

/-- `HostByIP` answers the name of the lease on that address and `MACByIP` its
hardware address while it is a reservation or unexpired; both answer nothing
for an address without a lease. -/
theorem C10_dns_answers_by_address {O : Oracle} {c : Conf} {s : State} (hr : Reachable O c s) :
    (∀ l ∈ s.leases, s.hostByIP l.ip = l.host ∧
      s.macByIP l.ip = (if l.static || decide (s.now < l.exp) then l.mac else [])) ∧
    (∀ ip, (∀ l ∈ s.leases, l.ip ≠ ip) → s.hostByIP ip = [] ∧ s.macByIP ip = []) :=
  ⟨fun _ hl => answers_at_lease hr.inv hl, fun _ ha => answers_absent hr.inv ha⟩

/-- An address `IPByHost` answers belongs to a lease of the table that carries
that name; a name no lease carries is not answered. -/
theorem C10_dns_answer_by_name_sound {O : Oracle} {c : Conf} {s : State} (hr : Reachable O c s) (n : Bytes) :
    (s.ipByHost n ≠ 0 → ∃ l ∈ s.leases, l.host = n ∧ l.ip = s.ipByHost n) ∧
    ((∀ l ∈ s.leases, l.host ≠ n) → s.ipByHost n = 0) :=
  ⟨fun hne => ipByHost_sound hr.inv hne rfl, fun ha => ipByHost_absent hr.inv ha⟩

/-- `reset_leases` on the running server leaves nothing behind: empty table, no
bit set, empty indexes, an empty file — so the whole pool is on offer again
(`C10_offer_liveness` applies to the state it leaves, which is reachable). -/
theorem C10_reset_leases_frees_everything {O : Oracle} {c : Conf} (s : State) :
    (step O c s .resetLeases).1.leases = [] ∧ (∀ o, (step O c s .resetLeases).1.bits o = false) ∧
    (∀ ip, (step O c s .resetLeases).1.ips ip = none) ∧ (∀ h, (step O c s .resetLeases).1.hosts h = none) ∧
    (step O c s .resetLeases).1.disk = some [] :=
  ⟨rfl, fun _ => rfl, fun _ => rfl, fun _ => rfl, rfl⟩

/-! ### the database file -/

/-- Every operation other than a restart ends with `dbStore` or changes neither
table nor file — including DECLINE and a failing static-lease call. -/
theorem C10_store_or_unchanged {O : Oracle} {c : Conf} {s : State} (hr : Reachable O c s) {op : Op}
    (hne : op ≠ .restart) (hnr : ∀ d, op ≠ .reorder d) :
    (∃ x : State, (step O c s op).1 = x.store) ∨
    ((step O c s op).1.leases = s.leases ∧ (step O c s op).1.disk = s.disk) :=
  step_store_or_same hr.inv hne hnr

/-- The file lists exactly the leases in memory (each once, in whatever order
the unstable sort of `writeDB` left them: `Op.reorder`) after every operation
other than a restart, once it did so before. -/
theorem C10_disk_mirror_step {O : Oracle} {c : Conf} {s : State} (hr : Reachable O c s) {op : Op}
    (hne : op ≠ .restart) (hm : Mirror s) : Mirror (step O c s op).1 := Mirror_step hr.inv hm hne

/-- Along every history without a restart the file lists exactly the leases in
memory — for either code variant (with restarts: `C10_disk_mirror`). -/
theorem C10_disk_mirror_without_restart (O : Oracle) (c : Conf) (ops : List Op)
    (hnr : ∀ op ∈ ops, op ≠ .restart) : Mirror (run O c State.init ops) := by
  suffices H : ∀ (ops : List Op) (s : State), Inv c s → Mirror s →
      (∀ op ∈ ops, op ≠ .restart) → Mirror (run O c s ops) from H ops _ (Inv_init c) Mirror_init hnr
  intro ops
  induction ops with
  | nil => intro s _ hm _; exact hm
  | cons op rest ih =>
    intro s hi hm hnr
    unfold run
    exact ih _ (Inv_step hi) (Mirror_step hi hm (hnr op List.mem_cons_self))
      (fun o ho => hnr o (List.mem_cons_of_mem _ ho))

/-- What is on disk is a permutation of what is in memory: each lease once. -/
theorem C10_disk_lists_each_lease_once {s : State} (hm : Mirror s) {d : List DLease} (hd : s.disk = some d) :
    d.Perm (s.leases.map Lease.toDisk) := by
  rcases hm with ⟨d', h, hp⟩ | ⟨h, _⟩
  · rw [hd] at h; cases h; exact hp
  · rw [hd] at h; cases h

/-! ### the monitor of the check, on the model -/

/-- The model meets the specification on its own observations, after every
step of every history: all clauses about addresses and clients (`specCore`:
shared address, two leases per client, pool, reservation, recorded reply, offer
liveness, bitset, address index), DHCP messages leave the reservations alone,
no step other than a restart makes the file differ from the table, and the
hostname index is sound.  What is left of `specOK` are the two clauses the code
violates (hostname index complete — R3; restart reproduces table and answers —
R4), see below. -/
theorem C10_model_meets_spec {O : Oracle} {c : Conf} {s : State} (hc : validate c = true) (hpos : 0 < c.start)
    (hr : Reachable O c s)
    {op : Op} :
    specCore c (obsOf c s) op (step O c s op).2 (obsOf c (step O c s op).1) = true ∧
    reservationsKept (obsOf c s) op (obsOf c (step O c s op).1) = true ∧
    (op ≠ .restart → (∀ d, op ≠ .reorder d) →
      (diskMirror (obsOf c s) && !diskMirror (obsOf c (step O c s op).1)) = false) ∧
    hostIndexSound (obsOf c (step O c s op).1) = true :=
  ⟨specCore_step hc hpos hr.inv, obs_reservationsKept hr.inv, fun hne hnr => obs_disk_step hr.inv hne hnr,
    obs_hostIndexSound (Inv_step hr.inv)⟩

/-! ### R3 — before 410da26 the generated hostname was not checked for uniqueness

Full statement (false): `∀ reachable s, ∀ l ∈ s.leases, l.host ≠ [] → s.hosts l.host = some l.id`
("every named lease is what its name resolves to"), hence also "a restart restores the same table". -/

/-- A reservation named `0-0-0-10`, a client that is offered 0.0.0.10 and
requests it without a hostname: two leases carry the same name, the index entry
of the reservation now points to the client, and the monitor names the cause. -/
theorem C10_counterexample_generated_hostname_not_unique_before_fix :
    validate c0old = true ∧
    (run O0 c0old State.init opsR3).leases.map (fun l => (l.ip, l.static, l.host)) =
      [(20, true, name10), (10, false, name10)] ∧
    (run O0 c0old State.init opsR3).hosts name10 = some 1 ∧
    (∃ l ∈ (run O0 c0old State.init opsR3).leases, l.host ≠ [] ∧ (run O0 c0old State.init opsR3).hosts l.host ≠ some l.id) ∧
    specWhy c0old (obsOf c0old (run O0 c0old State.init (opsR3.take 2))) (.request mB 2 true 10 0 [])
      (step O0 c0old (run O0 c0old State.init (opsR3.take 2)) (.request mB 2 true 10 0 [])).2
      (obsOf c0old (run O0 c0old State.init opsR3)) = some "generated-hostname-not-unique@request" := by
  refine ⟨c0old_valid, by decide, by decide, by decide, by decide⟩

/-- What does hold: the hostname index stays complete over every step that is
not an instance of R3 (`R3at`: a REQUEST commits a still unnamed lease, the
wanted name is taken, and the generated name it falls back to is indexed for
another lease) — DISCOVER, the other REQUESTs, DECLINE, RELEASE, the static-lease
API and restart included. -/
theorem C10_host_index_complete_step_partial {O : Oracle} {c : Conf} {s : State} (hr : Reachable O c s)
    (hcpl : HostComplete s) {op : Op} (hno : ¬ R3at O c s op) :
    HostComplete (step O c s op).1 := (Inv2_step ⟨hr.inv, hcpl⟩ (.inr hno)).2

/-- Along every history without an instance of R3, every named lease is what its name resolves to. -/
theorem C10_host_index_complete_partial (O : Oracle) (c : Conf) (ops : List Op)
    (hno : NoR3 O c State.init ops) : HostComplete (run O c State.init ops) :=
  (run_inv2 ops _ ⟨Inv_init c, by intro l hl; cases hl⟩ hno).2

/-- … and the next restart loses one of the two leases although the file listed both. -/
theorem C10_counterexample_restart_drops_duplicate_hostname_before_fix :
    Mirror (run O0 c0old State.init opsR3) ∧
    (run O0 c0old State.init opsR3).leases.length = 2 ∧
    (restart O0 c0old (run O0 c0old State.init opsR3)).leases.map (fun l => (l.ip, l.static)) = [(20, true)] := by
  refine ⟨Mirror_of_eq (by decide), by decide, by decide⟩

/-! ### R4 — before 2820039 `ResetLeases` renamed unnamed dynamic leases

Full statement (false): `∀ reachable s, Mirror s → (restart O c s).leases.map Lease.view` is a
permutation of `s.leases.map Lease.view`, with the same `HostByIP` / `IPByHost` answers. -/

/-- One DISCOVER, then a restart: the file mirrors the table, yet the reloaded
lease has a hostname it did not have, and `IPByHost` answers a name it did not know. -/
theorem C10_counterexample_restart_names_unnamed_lease_before_fix :
    validate c0old = true ∧ Mirror (run O0 c0old State.init opsR4) ∧
    (run O0 c0old State.init opsR4).leases.map (·.host) = [[]] ∧
    (restart O0 c0old (run O0 c0old State.init opsR4)).leases.map (·.host) = [name10] ∧
    (obsOf c0old (run O0 c0old State.init opsR4)).ipByHost name10 = none ∧
    (obsOf c0old (restart O0 c0old (run O0 c0old State.init opsR4))).ipByHost name10 = some 10 ∧
    specWhy c0old (obsOf c0old (run O0 c0old State.init opsR4)) .restart (Reply.api "ok")
      (obsOf c0old (restart O0 c0old (run O0 c0old State.init opsR4))) = some "restart-names-unnamed-lease" := by
  refine ⟨c0old_valid, Mirror_of_eq (by decide), by decide, by decide, by decide, by decide, by decide⟩

/-- If the generated name is taken, the restart drops a lease — here the reservation. -/
theorem C10_counterexample_restart_drops_lease_generated_name_taken_before_fix :
    Mirror (run O0 c0old State.init opsR4b) ∧
    (run O0 c0old State.init opsR4b).leases.map (fun l => (l.ip, l.static, l.host)) = [(20, true, name10), (10, false, [])] ∧
    (restart O0 c0old (run O0 c0old State.init opsR4b)).leases.map (fun l => (l.ip, l.static, l.host)) = [(10, false, name10)] ∧
    specWhy c0old (obsOf c0old (run O0 c0old State.init opsR4b)) .restart (Reply.api "ok")
      (obsOf c0old (restart O0 c0old (run O0 c0old State.init opsR4b))) = some "restart-drops-lease-generated-name-taken" := by
  refine ⟨Mirror_of_eq (by decide), by decide, by decide, by decide⟩

/-- What does hold on the unrepaired tree (excludes R3 and R4 by hypothesis):
when the file mirrors the table (in ANY order — `slices.SortFunc` is not stable
beyond 12 records), reservations lie in the subnet, loading leaves the name of
every dynamic lease alone and no two leases share a name, a restart restores
exactly the records of the file, every lease once. -/
theorem C10_restart_restores_table_partial {O : Oracle} {c : Conf} {s : State} (hr : Reachable O c s)
    (hm : Mirror s)
    (hsub : ∀ l ∈ s.leases, l.static = true → inSubnet c l.ip = true)
    (hnamed : ∀ l ∈ s.leases, l.static = false → loadHost O c l.toDisk = l.host)
    (huniq : ∀ l₁ ∈ s.leases, ∀ l₂ ∈ s.leases, l₁.host = l₂.host → l₁.host ≠ [] → l₁ = l₂) :
    ((restart O c s).leases.map Lease.toDisk).Perm (s.leases.map Lease.toDisk) ∧
    (∀ d, s.disk = some d → (restart O c s).leases.map Lease.toDisk = d) := by
  have h := restart_restores hr.inv hm hsub hnamed huniq
  exact ⟨h.1, h.2.2⟩

/-! ### the tree as it is (`fixR3 = fixR4 = true`): hostname index, restart, file

The clauses about the hostname index, the restart and the file, at full
strength, for every history. -/

/-- For every history (any tree): every hostname in the table and in the file
is empty or left alone by normalisation + validation, and every reservation
lies in the subnet. -/
theorem C10_names_normalised_reservations_in_subnet {O : Oracle} {c : Conf} (ho : OracleOK O) (ops : List Op) :
    Inv3 O c (run O c State.init ops) := run_inv3 ho ops _ (Inv3_init O c)

/-- Along EVERY history every named lease is what its name resolves to. -/
theorem C10_host_index_complete {O : Oracle} {c : Conf} (hf : c.fixR3 = true) (ops : List Op) :
    HostComplete (run O c State.init ops) :=
  (run_inv2 ops _ ⟨Inv_init c, by intro l hl; cases hl⟩ (NoR3_of_fix hf ops _)).2

/-- A restart in ANY reachable state whose file mirrors the
table restores exactly that table (every lease once, same MAC, address, name,
kind and expiry), and the file still mirrors it. -/
theorem C10_restart_restores_table {O : Oracle} {c : Conf} {s : State} (ho : OracleOK O)
    (hf3 : c.fixR3 = true) (hf4 : c.fixR4 = true) (hr : Reachable O c s) (hm : Mirror s) :
    ((restart O c s).leases.map Lease.toDisk).Perm (s.leases.map Lease.toDisk) ∧ Mirror (restart O c s) :=
  restart_restores_fixed ho hf4 (hr.all ho hf3).1 (hr.all ho hf3).2 hm

/-- A restart gives the same hostname/address answers to DNS
as before it (`HostByIP` for every address, `IPByHost` for every name). -/
theorem C10_restart_same_answers {O : Oracle} {c : Conf} {s : State} (ho : OracleOK O)
    (hf3 : c.fixR3 = true) (hf4 : c.fixR4 = true) (hr : Reachable O c s) (hm : Mirror s) :
    (∀ ip, (restart O c s).hostByIP ip = s.hostByIP ip) ∧
    (∀ n, n ≠ [] → (restart O c s).ipByHost n = s.ipByHost n) := by
  have hall := hr.all ho hf3
  have hres := restart_restores_fixed ho hf4 hall.1 hall.2 hm
  have h2' : Inv2 c (restart O c s) := by
    have := Inv2_step (O := O) (op := .restart) hall.1 (.inl hf3)
    exact this
  exact answers_eq_of_perm hall.1 h2' hres.1

/-- Every named lease is answered by `IPByHost` with its address, along every history. -/
theorem C10_dns_answer_by_name_complete {O : Oracle} {c : Conf} (hf : c.fixR3 = true) (ops : List Op)
    {l : Lease} (hl : l ∈ (run O c State.init ops).leases) (hne : l.host ≠ []) :
    (run O c State.init ops).ipByHost l.host = l.ip :=
  ipByHost_complete (run_inv2 ops _ ⟨Inv_init c, by intro l hl; cases hl⟩ (NoR3_of_fix hf ops _)) hl hne

/-- The file lists exactly the leases in memory after every
step of EVERY history — restarts included. -/
theorem C10_disk_mirror {O : Oracle} {c : Conf} (ho : OracleOK O) (hf3 : c.fixR3 = true)
    (hf4 : c.fixR4 = true) (ops : List Op) : Mirror (run O c State.init ops) :=
  run_mirror_fixed ho hf3 hf4 ops _ ⟨Inv_init c, by intro l hl; cases hl⟩ (Inv3_init O c) Mirror_init

/-! ### the bytes of `leases.json`

`encodeDB` / `decodeDB` (`AGH/Model/LeaseDB.lean`) model `json.Marshal` of
`dataLeases` and `json.Unmarshal` + `toLease` byte by byte; on every operation
of every run the real file is compared with `encodeDB` of the model's records
and `decodeDB` of the real bytes with what the real `dbLoad` parsed. -/

/-- The hostname field round-trips: for ANY ASCII hostname (quotes, backslashes,
control characters, `<`, `>`, `&` included) the decoder reads exactly the
hostname back from what the encoder wrote and stops behind the closing quote. -/
theorem C10_leasedb_hostname_roundtrip (h rest : Bytes) (hb : ∀ b ∈ h, b < 128) :
    readString (jsonString h ++ rest) = some (h, rest) := readString_jsonString h rest hb

/-- `decode (encode t) = t` on a table with every kind of record the code
writes: a dynamic lease with an escaped hostname, a static lease (empty
`expires`) with an 8-byte hardware address, an offer with the zero expiry; and
on the empty table. -/
theorem C10_leasedb_roundtrip_witness :
    let t : List DLease :=
      [{ mac := [2, 0, 0, 0, 0, 10], ip := 3232238180, host := [97, 60, 98, 62, 38, 34, 92, 1, 127], static := false, exp := 1010 },
       { mac := [2, 0, 0, 0, 0, 1, 7, 7], ip := 167772165, host := [], static := true, exp := 0 },
       { mac := [171, 0, 0, 0, 0, 1], ip := 167772166, host := [120], static := false, exp := 0 }]
    decodeDB (parseExpAt 946684800) (encodeDB (fmtExpAt 946684800) t) = some t ∧
    decodeDB (parseExpAt 946684800) (encodeDB (fmtExpAt 946684800) []) = some [] := by
  decide +kernel

/-! ### non-vacuity -/

/-- `validate` accepts a configuration; a reachable table with a reservation,
two acknowledged clients and an outstanding offer. -/
example : validate c0 = true ∧
    (run O0 c0 State.init opsOK).leases.map (fun l => (l.ip, l.static, l.exp)) =
      [(20, true, 0), (10, false, 1060), (11, false, 1060), (12, false, 0)] :=
  ⟨c0_valid, by decide⟩

/-- `validate` rejects the gateway at the last, the first and an inner pool address, a one-address pool,
a reversed range and a range outside the gateway's subnet. -/
example : validate { c0 with gw := 12 } = false ∧ validate { c0 with gw := 10 } = false ∧
    validate { c0 with gw := 11 } = false ∧ validate { c0 with stop := 10 } = false ∧
    validate { c0 with start := 12, stop := 10 } = false ∧ validate { c0 with stop := 300 } = false ∧
    validate { c0 with gw := 13 } = true ∧ validate { c0 with gw := 9 } = true := by decide

example : Reachable O0 c0 (run O0 c0 State.init opsOK) := ⟨opsOK, rfl⟩

/-- Mixed address lengths (the history of R5, repaired by a691f53): the 6-byte
client that recycles the expired lease of an 8-byte client is recorded under
its own address, and all hardware addresses of the table stay distinct. -/
example :
    (step O0 c0 (run O0 c0 State.init (opsMixed.take 3)) (.discover mB)).2 = { rc := 1, typ := 2, yi := 10, err := "ok" } ∧
    (run O0 c0 State.init opsMixed).leases.map (fun l => (l.ip, l.mac)) =
      [(10, mB), (11, [2, 0, 0, 0, 0, 2, 7, 7]), (12, [2, 0, 0, 0, 0, 3, 7, 7])] := by
  refine ⟨by decide, by decide⟩

/-- The hypotheses of `C10_offer_liveness` hold in a state where every pool
address carries a lease and only expiry frees one (and the offer recycles it). -/
example :
    let s := run O0 c0 State.init (opsOK ++ [.sleep 100])
    (∀ l ∈ s.leases, l.mac ≠ [2, 0, 0, 0, 0, 9]) ∧
    (∃ a, c0.start ≤ a ∧ a ≤ c0.stop ∧ ∀ l ∈ s.leases, l.ip = a → l.static = false ∧ l.exp < s.now) ∧
    nextIP c0 s = none ∧
    (step O0 c0 s (.discover [2, 0, 0, 0, 0, 9])).2 = { rc := 1, typ := 2, yi := 10, err := "ok" } := by
  refine ⟨by decide, ⟨10, by decide, by decide, by decide⟩, by decide, by decide⟩

/-- The hypotheses of `C10_restart_restores_table_partial` hold in a non-trivial state. -/
example :
    let s := run O0 c0 State.init (opsOK.take 5)
    Mirror s ∧ s.leases.length = 3 ∧
    (∀ l ∈ s.leases, l.static = true → inSubnet c0 l.ip = true) ∧
    (∀ l ∈ s.leases, l.static = false → loadHost O0 c0 l.toDisk = l.host) ∧
    (∀ l₁ ∈ s.leases, ∀ l₂ ∈ s.leases, l₁.host = l₂.host → l₁.host ≠ [] → l₁ = l₂) :=
  ⟨Mirror_of_eq (by decide), by decide, by decide, by decide, by decide⟩

/-- The tree as it is, on the two witness histories of R3 and R4: R3 — the client stays
unnamed instead of taking the reservation's name, and the restart keeps both
leases; R4 — the offered lease is still unnamed after the restart. -/
example :
    (run O0 c0 State.init opsR3).leases.map (fun l => (l.ip, l.host)) =
      [(20, name10), (10, [])] ∧
    (restart O0 c0
      (run O0 c0 State.init opsR3)).leases.map (fun l => (l.ip, l.host)) =
      [(10, []), (20, name10)] ∧
    (restart O0 c0
      (run O0 c0 State.init opsR4)).leases.map (·.host) = [[]] := by
  refine ⟨by decide, by decide, by decide⟩

/-- The hypotheses of the restart theorems are satisfiable: the witness oracle is
`OracleOK`, `c0` is the tree as it is, and the busy table is mirrored by its file. -/
example : OracleOK O0 ∧ c0.fixR3 = true ∧ c0.fixR4 = true ∧ Mirror (run O0 c0 State.init opsOK) ∧
    (run O0 c0 State.init opsOK).leases.length = 4 :=
  ⟨⟨fun x n h _ => by simp only [O0, Option.some.injEq] at h ⊢, fun _ => ⟨rfl, rfl⟩⟩, rfl, rfl,
    Mirror_of_eq (by decide), by decide⟩

/-- `HostComplete` holds in a non-trivial reachable state (three named leases). -/
example : HostComplete (run O0 c0 State.init (opsOK.take 5)) ∧
    (run O0 c0 State.init (opsOK.take 5)).leases.map (·.host) = [alpha, [98], [99]] := by
  refine ⟨?_, by decide⟩
  unfold HostComplete
  decide

/-- `C10_reserved_client_gets_reservation` is not vacuous: the reserved client is offered its reservation. -/
example : (step O0 c0 (run O0 c0 State.init opsOK) (.discover mA)).2 = { rc := 1, typ := 2, yi := 20, err := "ok" } := by
  decide

/-! ## Translator tie: the order of the lease-table steps (regenerated per run)

`extract/cmd/c10` rewrites `Gen/C10Steps.lean` from the typed syntax of
`internal/dhcpd/v4_unix.go`: for each lease-table function the calls of
package-`dhcpd` callees in source order (`defer:` marks deferred ones,
`notify:<event>` the configuration's callback).  The model's operations
(`Model/DHCP.lean`) perform their table steps in exactly this order; the
invariant proofs (`C10_inv_step`) go through the intermediate tables in that
order, and the persistence clause rests on every mutating entry point storing
the table (`notify:LeaseChangedDBStore`) on EVERY path, also the failing ones. -/

/-- Is `a` somewhere before `b` in `l`? -/
def before (a b : String) (l : List String) : Bool :=
  match l.dropWhile (· != a) with
  | [] => false
  | _ :: rest => rest.contains b

def stepsOf (f : String) : List String := ((Gen.C10.leaseSteps.find? (·.1 == f)).map (·.2)).getD []

/-- The current source performs the lease-table steps in the order the model
assumes. -/
theorem C10_T_lease_step_order :
    Gen.C10.leaseSteps =
      [ ("AddStaticLease", ["normalizeHostname", "updateStaticLease", "notify:LeaseChangedDBStore",
          "notify:LeaseChangedDBStore", "notify:LeaseChangedAddedStatic"]),
        ("UpdateStaticLease", ["defer:notify:LeaseChangedDBStore", "defer:notify:LeaseChangedRemovedStatic",
          "findLease", "validateStaticLease", "rmLease", "addLease"]),
        ("RemoveStaticLease", ["defer:notify:LeaseChangedDBStore", "defer:notify:LeaseChangedRemovedStatic", "rmLease"]),
        ("updateStaticLease", ["rmDynamicLease", "addLease"]),
        ("rmDynamicLease", ["rmLeaseByIndex"]),
        ("addLease", ["offset", "set"]),
        ("rmLease", ["rmLeaseByIndex"]),
        ("reserveLease", ["nextIP", "findExpiredLease", "addLease"]),
        ("commitLease", ["validHostnameForClient"]),
        ("allocateLease", ["reserveLease", "addrAvailable", "blocklistLease"]),
        ("handleDiscover", ["defer:notify:LeaseChangedDBStore", "findLease", "allocateLease"]),
        ("handleDecline", ["defer:notify:LeaseChangedDBStore", "findLeaseForIP", "rmDynamicLease", "allocateLease"]),
        ("handleRelease", ["defer:notify:LeaseChangedDBStore", "rmDynamicLease"]),
        ("ResetLeases", ["newBitSet", "validHostnameForClient", "addLease"]) ] := by
  decide

/-- What the proofs use of that table, stated on the regenerated facts: a static
add removes the clashing dynamic leases BEFORE it inserts; it stores the table
on the failing path as well as on the success path (two store notifications
after `updateStaticLease`) and announces the new static lease only after the
store; a fresh address is looked for before an expired lease is recycled; every
request handler that may change the table stores it when it returns. -/
theorem C10_T_step_order_consequences :
    before "rmDynamicLease" "addLease" (stepsOf "updateStaticLease") = true ∧
      ((stepsOf "AddStaticLease").dropWhile (· != "updateStaticLease")).count "notify:LeaseChangedDBStore" = 2 ∧
      before "notify:LeaseChangedDBStore" "notify:LeaseChangedAddedStatic" (stepsOf "AddStaticLease") = true ∧
      before "nextIP" "findExpiredLease" (stepsOf "reserveLease") = true ∧
      before "findExpiredLease" "addLease" (stepsOf "reserveLease") = true ∧
      ["handleDiscover", "handleDecline", "handleRelease"].all
        (fun f => (stepsOf f).contains "defer:notify:LeaseChangedDBStore") = true ∧
      before "rmLease" "addLease" (stepsOf "UpdateStaticLease") = true := by
  decide

end AGH.C10
