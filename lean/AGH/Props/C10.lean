import AGH.Spec.DHCP
namespace AGH.C10
theorem C10_placeholder : State.init.leases = [] := rfl
end AGH.C10
