/-
C05 — reconfiguring the live server never races with, crashes or stalls DNS
serving.  Property theorems only (proofs of the generic parts are in
AGH/Lemmas/Locks*.lean).

What is proved here, and of what:

* GENERIC, full strength (every program, any number of goroutines, every
  interleaving of the abstract machine of `AGH.Model.Locks`, which has Go's
  Mutex/RWMutex blocking rules including the pending-writer rule):
    `C05_lockset_sound`   lockset discipline  ⇒ no reachable data race
    `C05_order_sound`     ranked lock order   ⇒ no reachable deadlock
    `C05_no_wait_cycle`   ranked lock order   ⇒ no wait-for cycle in any reachable state
    `C05_order_sound_gated`, `C05_no_wait_cycle_gated`  the same with GATE locks: a lock
                          that is only taken under its gate (bbolt's single-writer lock of the
                          statistics database under `StatsCtx.confMu`) may be taken out of rank
                          order by a goroutine that holds the gate exclusively; leaf holds
                          (released at once) may omit the gate
    `C05_model_meets_spec` the executable runner used by the driver satisfies the
                          schedule monitor for every program and schedule.
* PER PROGRAM (tables regenerated from the Go source by /verif/extract/cmd/c05,
  re-checked by `decide +kernel` on every run):
    `C05_program_disciplined_partial`, `C05_program_ranked`, `C05_program_gated` and their
    consequences `C05_program_race_free_partial`,
    `C05_program_deadlock_free` for every set of goroutines that
    conforms to the tables (the explicit statement of what the extractor is
    trusted for).

The lock-order statements are FULL since R4, R5 and R11 are repaired in the tree
(`C05_program_lock_order`, `C05_program_deadlock_free`; the historical
counterexample is `C05_counterexample_lock_order_before_fix`).  The full
access statement
    theorem C05_program_disciplined : accesses.all (rowOK guards) = true
is still FALSE: `C05_counterexample_known_rows` proves the negation on the 20
rows of the one finding left (R7 rest: request-path reads of Server fields that
only Reconfigure > Prepare rewrites; listed in known_findings.txt under the
reason class `static:known-rows:R7:…`, printed on every run).  The `_partial`
theorems cover the goroutines that never execute one of those sites.

Not covered by any theorem (named in DESIGN §2 C05): panics from logic,
well-formedness and latency of responses, channel protocols, atomics,
scheduler fairness; these are only observed by the stress harness (`specRun`).
-/
import AGH.Lemmas.LocksExec
import AGH.Lemmas.LocksProgress
import AGH.Lemmas.LocksCycle
import AGH.Lemmas.LocksExamples
import AGH.Lemmas.LocksGate
import AGH.Lemmas.LocksGateExamples
import AGH.Lemmas.LocksChan
import AGH.Gen.C05Locks
namespace AGH.C05
open AGH.Gen.C05

/-! ### generic theorems -/

/-- Eraser discipline is sufficient: if along every goroutine each read of `x`
happens with `guard x` held (in any mode) and each write with `guard x` held
exclusively, no interleaving reaches a state where two goroutines are about to
access the same variable, one of them writing. -/
theorem C05_lockset_sound (guard : Var → Lock) (p : Prog) (h : progDisc guard p = true) :
    ∀ s, Reach (init p) s → ¬ Race s :=
  lockset_sound guard p h

/-- Ranked lock order is sufficient: if every goroutine acquires a lock only
while all locks it holds have a smaller rank, releases only what it holds and
ends holding nothing, then no interleaving — including every placement of a
pending writer's announcement — reaches a state in which some goroutine has
work left and none can move. -/
theorem C05_order_sound (rank : Lock → Nat) (p : Prog) (h : progRanked rank p = true) :
    ∀ s, Reach (init p) s → ¬ Deadlock s :=
  order_sound rank p h

/-- … and no reachable state contains a wait-for cycle. -/
theorem C05_no_wait_cycle (rank : Lock → Nat) (p : Prog) (h : progRanked rank p = true) :
    ∀ s, Reach (init p) s → ∀ i, ¬ WaitChain s i i :=
  no_wait_cycle rank p h

/-- Ranked lock order with gate locks is sufficient for deadlock freedom: a
lock whose every (non-leaf) acquisition is made under its gate may be acquired
out of rank order by a goroutine that holds the gate exclusively. -/
theorem C05_order_sound_gated (rank : Lock → Nat) (gate : Lock → Option Lock) (p : Prog)
    (h : progRankedG rank gate p = true) : ∀ s, Reach (init p) s → ¬ Deadlock s :=
  order_sound_gated rank gate p h

/-- … and for the absence of wait-for cycles. -/
theorem C05_no_wait_cycle_gated (rank : Lock → Nat) (gate : Lock → Option Lock) (p : Prog)
    (h : progRankedG rank gate p = true) : ∀ s, Reach (init p) s → ∀ i, ¬ WaitChain s i i :=
  no_wait_cycle_gated rank gate p h

/-- Without gates the gated discipline is the plain ranked lock order. -/
theorem C05_gated_generalises (rank : Lock → Nat) (p : Prog) :
    progRankedG rank (fun _ => none) p = progRanked rank p :=
  progRankedG_none rank p

/-- The executable runner (the driver's model) only visits reachable states. -/
theorem C05_exec_reachable (p : Prog) (sched : List Nat) :
    ∀ s ∈ statesFrom (init p) sched, Reach (init p) s :=
  statesFrom_reach (init p) (init p) Reach.refl sched

/-- The Bool monitors evaluated by the driver decide the Props of the theorems. -/
theorem C05_monitors_exact (s : State) :
    (raceB s = true ↔ Race s) ∧ (deadlockB s = true ↔ Deadlock s) :=
  ⟨raceB_iff s, deadlockB_iff s⟩

/-- The model meets the spec, for ALL programs and schedules: on the trajectory
of its own grant decisions a disciplined program never passes through a race
state and a ranked program never through a deadlock; and its prediction for a
stress run satisfies the run monitor. -/
theorem C05_model_meets_spec :
    (∀ (guard : Var → Lock) (rank : Lock → Nat) (p : Prog) (sched : List Nat),
      specSched guard rank p sched (modelSched p sched) = true) ∧
    specRun modelRun = true :=
  ⟨model_meets_specSched, by decide⟩

/-- The run monitor is exactly the property text: it accepts an observation iff
it reports no race, no panic, no deadlock and no malformed response. -/
theorem C05_specRun_iff (o : RunObs) :
    specRun o = true ↔ o.races = 0 ∧ o.panics = 0 ∧ o.deadlocks = 0 ∧ o.malformed = 0 ∧
      o.untabled = 0 := by
  simp [specRun, and_assoc]

/-! ### the program of this tree -/

/-- Obligation 1 (regenerated table): every access row that is not a reported
finding holds the guard of its field, exclusively at a write. -/
theorem C05_program_disciplined_partial : tableDisciplined guards accesses = true := by
  decide +kernel

/-- Obligation 2 (regenerated table): every lock-order edge that is not a
reported finding goes up in the generated rank certificate. -/
theorem C05_program_ranked : edgesRanked ranks edges = true := by
  decide +kernel

/-- Every goroutine set whose accesses come from non-finding sites of the table,
with the locks the table lists really held there, is free of data races on the
guarded fields, under every interleaving. -/
theorem C05_program_race_free_partial (p : List (List LEvent))
    (hc : ∀ t ∈ p, conformsAcc accesses [] t = true) :
    ∀ s, Reach (init (p.map eraseLabels)) s → ¬ Race s := by
  apply lockset_sound (guardOf guards)
  simp only [progDisc, List.all_eq_true, List.mem_map]
  rintro _ ⟨t, ht, rfl⟩
  exact disc_of_conforms guards accesses C05_program_disciplined_partial t [] (hc t ht)

/-- Obligation 3 (regenerated table): every acquisition site of a gated lock
(bbolt's writer lock of the statistics database) that is not a reported finding
holds the gate, or is a leaf hold.  THIS is the obligation that fails when a
reader takes the bbolt lock without `confMu`. -/
theorem C05_program_gated : acqsGated gates acqs = true := by
  decide +kernel

/-- Obligation 4 (regenerated table): every potentially blocking channel
operation made while a lock is possibly held is justified by structural facts
the extractor re-checked (see `ChanOpRow`).  Channels are outside the lock
machine: this is a table obligation, not a consequence of the generic
theorems; it is what fails when the send on `filtersInitializerChan` leaves the
critical section of `filtersInitializerLock` that drains the channel. -/
theorem C05_program_no_blocking_under_lock : chanOpsJustified chanOps = true := by
  decide +kernel

/-- The discipline behind the `drained_under` rows of obligation 4: on a channel
of capacity ≥ 1, if every send is preceded since the last send by a drain (what
the extractor checks structurally, the pairs of different senders being
serialised by the lock named in the row), no send ever finds the buffer full,
whatever the receivers do — the sender cannot block on the channel while it
holds its locks. -/
theorem C05_drained_send_never_blocks (cap : Nat) (hcap : 1 ≤ cap) (tr : List ChanStep)
    (len : Nat) (hlen : len ≤ cap) (hok : sendOK false tr = true) :
    (chanRun cap len tr).isSome = true :=
  drained_send_never_blocks cap hcap tr len hlen hok

/-- Obligation 5 (regenerated table): every check-then-act pattern across two
critical sections of the same lock (see `CtaRow`) is in the reviewed baseline.
A table obligation, like obligation 4: values are outside the lock machine. -/
theorem C05_program_check_then_act_reviewed : ctaReviewed ctaRows = true := by
  decide +kernel

/-- Obligation 6 (regenerated table): no object is written through a local
variable after it was stored into a guarded field and the guarding hold ended,
except in reviewed places (none in the current tree).  A table obligation. -/
theorem C05_program_no_write_after_publish : pubReviewed pubRows = true := by
  decide +kernel

/-- Obligation 7 (regenerated table): no method of a lock-owning type that takes
the guard of a field itself returns a pointer, slice or map that still aliases
the object kept in that field (instead of a clone), except in the reviewed
places of guards.json `guarded_escape`.  A table obligation. -/
theorem C05_program_no_guarded_escape_reviewed : escReviewed escRows = true := by
  decide +kernel

/-- Since R4, R5 and R11 are repaired in the tree, NO lock-order edge and NO
acquisition of a gated lock is excluded any more: the exclusion lists are
empty (this theorem stops checking, and has to be restated, if a finding is
ever listed again). -/
theorem C05_program_no_excluded_order_facts :
    knownEdges = [] ∧ knownCycle = [] ∧ acqs.all (fun a => !a.known) = true := by
  decide +kernel

/-- The FULL lock-order statement, over every extracted edge: a rank function
exists under which every nested, possibly blocking acquisition of the program
goes up.  (False before the fixes: `C05_counterexample_lock_order_before_fix`.) -/
theorem C05_program_lock_order :
    ∃ rank : Nat → Nat, ∀ e ∈ edges ++ knownEdges, rank e.1 < rank e.2 := by
  refine ⟨rankOf ranks, ?_⟩
  have hk : knownEdges = [] := C05_program_no_excluded_order_facts.1
  have hr := C05_program_ranked
  simp only [edgesRanked, List.all_eq_true, decide_eq_true_eq] at hr
  intro e he
  rw [hk, List.append_nil] at he
  exact hr e he

/-- Every goroutine set whose blocking nested acquisitions are edges of the
table and whose acquisitions of gated locks come from sites of the table, with
balanced releases, is free of deadlocks and wait-for cycles under every
interleaving.  No finding is excluded (see above), so this is the full
statement; the hypothesis is the extractor-soundness assumption, which the
instrumented `sync` of the stress runs checks on what they exercise. -/
theorem C05_program_deadlock_free (p : List (List LEvent))
    (hc : ∀ t ∈ p, conformsOrdG edges gates acqs [] t = true) :
    ∀ s, Reach (init (p.map eraseLabels)) s → ¬ Deadlock s ∧ ∀ i, ¬ WaitChain s i i := by
  have hr : progRankedG (rankOf ranks) (gateFn gates) (p.map eraseLabels) = true := by
    simp only [progRankedG, List.all_eq_true, List.mem_map]
    rintro _ ⟨t, ht, rfl⟩
    exact rank_of_conforms_gated ranks edges gates acqs C05_program_ranked C05_program_gated t [] (hc t ht)
  intro s hs
  exact ⟨order_sound_gated _ _ _ hr s hs, no_wait_cycle_gated _ _ _ hr s hs⟩

/-! ### the reported findings are real violations of the disciplines -/

/-- Every row marked as a reported finding does violate the discipline (so the
marking cannot be used to excuse a disciplined access, and the full statement
`accesses.all (rowOK guards)` fails exactly on these rows). -/
theorem C05_counterexample_known_rows :
    accesses.all (fun a => !a.known || !rowOK guards a) = true := by
  decide +kernel

/-- Dropping the gate is not harmless: a reader that takes the gated lock without
the gate and then a lock the flusher holds is a reachable deadlock of the
machine (the pattern of finding R11 and of the seeded stats change). -/
theorem C05_counterexample_ungated_reader :
    ∃ s, Reach (init exUngated) s ∧ Deadlock s :=
  exUngated_deadlock

/-- The lock order of the tree BEFORE the fixes (c4d7229 R4, 863506e R5) was
cyclic: the edges the extractor found then — the re-entrant read lock
`dnsforward.Server.serverLock -> dnsforward.Server.serverLock` (R4; class 12 of
the table of that tree) and the inversion `home.tlsManager.mu (29) <->
home.configuration.RWMutex (26)` (R5) — admit no rank function.  (Reverting
either commit makes `C05_program_ranked` fail on the regenerated table.) -/
def edgesBeforeFix : List (Nat × Nat) := [(12, 12), (29, 26), (26, 29)]

theorem C05_counterexample_lock_order_before_fix :
    ∀ rank : Nat → Nat, ¬ (∀ e ∈ edgesBeforeFix, rank e.1 < rank e.2) :=
  no_rank_of_cycle edgesBeforeFix [12] (by decide)

/-- A cyclic lock order is not harmless: the recursive read-lock pattern of
finding R4 (repaired) (a goroutine re-acquires a read lock it already holds while a writer
is pending) is a reachable deadlock of the machine. -/
theorem C05_counterexample_recursive_rlock :
    ∃ s, Reach (init exRecursiveRead) s ∧ Deadlock s :=
  ⟨_, exRecursiveRead_reach, (deadlockB_iff _).mp (by decide)⟩

/-! ### non-vacuity -/

/-- The hypotheses of the generic theorems are satisfiable by a program in
which two goroutines really contend for a lock and write the same variable. -/
example : progDisc (fun _ => 0) exGood = true ∧ progRanked (fun l => l) exGood = true := by decide

/-- The tables are not empty, contain writes, shared and exclusive holds. -/
example : accesses.length > 0 ∧ accesses.any (·.write) = true ∧
    accesses.any (fun a => !a.heldShared.isEmpty) = true ∧
    accesses.any (fun a => !a.heldExcl.isEmpty) = true ∧ edges.length > 0 := by decide +kernel

/-- A goroutine that conforms to the regenerated lock-order table: it nests the
two locks of the first edge. -/
example : (match edges.find? (fun e => (lookup gates e.1).isNone && (lookup gates e.2).isNone) with
    | some (a, b) => conformsOrdG edges gates acqs []
        [(.acq a .excl, 0), (.acq b .excl, 0), (.rel b .excl, 0), (.rel a .excl, 0)]
    | none => true) = true := by
  decide +kernel

/-- The gate table is in use: some acquisition row holds its gate, and the
gated discipline is satisfiable where the plain one is not. -/
example : acqs.any (fun a => !a.known && !a.leaf) = true ∧
    progRankedG exGateRank exGate exGated = true ∧ (∀ rank, progRanked rank exGated = false) :=
  ⟨by decide +kernel, by decide, exGated_not_ranked⟩

/-- A labelled goroutine that conforms to the regenerated access table: it
performs the access of the first disciplined row with the row's locks held. -/
example : (match accesses.find? (fun a => !a.known) with
    | some a =>
      let pre : List LEvent := (a.heldShared.map fun l => (Event.acq l .shared, a.site)) ++
        (a.heldExcl.map fun l => (Event.acq l .excl, a.site))
      conformsAcc accesses [] (pre ++ [((if a.write then Event.wr a.field else Event.rd a.field), a.site)])
    | none => true) = true := by
  decide +kernel

end AGH.C05
