/-
C03 — Access lists: disallowed clients and blocked names are never served.

Property theorems only; helper lemmas are in AGH/Lemmas/Access.lean.  Every
theorem quantifies over ALL allowed/disallowed lists (any length, any mix of
addresses, CIDRs of any length, ClientIDs), all client addresses (IPv4, IPv6
with or without zone, IPv4-mapped), all ClientIDs, all six protocols.
`newAccessCtx al bl = .ok a` says the configuration was accepted.

History: finding F9 (HandleBefore answered SERVFAIL for a malformed ClientID
before looking at the access lists, so an excluded client could get SERVFAIL
instead of REFUSED) was repaired in /repo by ade6158; the model follows the
repaired code and `C03_model_meets_spec` holds at full strength.  The witness
stays in corpus/C03/cases.txt as a regression case.
-/
import AGH.Lemmas.Access
import AGH.Gen.C03Hook
namespace AGH.C03
open AGH AGH.Bytes

/-! ### the decision -/

/-- `IsBlockedClient` computes exactly "the access settings exclude the
client", for every real (non-zero) address. -/
theorem C03_decision_eq_excluded {al bl : List Entry} {a : Access}
    (h : newAccessCtx al bl = .ok a) {ip : IP} (hv : ip.isValid = true) (id : Bytes) :
    (a.isBlockedClient ip id).1 = excluded al bl ip id := by
  rw [decision_general h, excluded, hv]
  cases al.isEmpty <;> simp

/-- Allow-list mode: a client is admitted exactly when its address or its
ClientID is allowed. -/
theorem C03_allow_mode {al bl : List Entry} {a : Access} (h : newAccessCtx al bl = .ok a)
    (hal : al ≠ []) {ip : IP} (hv : ip.isValid = true) (id : Bytes) :
    (a.isBlockedClient ip id).1 = false ↔ (addrListed al ip = true ∨ idListed al id = true) := by
  have he : al.isEmpty = false := by cases al <;> simp_all
  rw [decision_general h, hv, he]
  cases addrListed al ip <;> cases idListed al id <;> simp

/-- Allow-list mode: the disallowed list is ignored (for every address, the
zero one included, and every ClientID). -/
theorem C03_allow_mode_ignores_disallowed {al bl bl' : List Entry} {a a' : Access}
    (h : newAccessCtx al bl = .ok a) (h' : newAccessCtx al bl' = .ok a') (hal : al ≠ [])
    (ip : IP) (id : Bytes) :
    (a.isBlockedClient ip id).1 = (a'.isBlockedClient ip id).1 := by
  have he : al.isEmpty = false := by cases al <;> simp_all
  rw [decision_general h, decision_general h', he]
  rfl

/-- Block-list mode: a client is excluded exactly when its address or its
ClientID is disallowed. -/
theorem C03_block_mode {bl : List Entry} {a : Access} (h : newAccessCtx [] bl = .ok a)
    (ip : IP) (id : Bytes) :
    (a.isBlockedClient ip id).1 = true ↔ (addrListed bl ip = true ∨ idListed bl id = true) := by
  rw [decision_general h]
  simp

/-- A CIDR entry names an address exactly when the two agree on every bit of
the network part (bit 0 = least significant; the network part is the top
`bits` bits of the 32 resp. 128), whatever the host bits written in the entry
and whatever the client's zone. -/
theorem C03_cidr_leading_bits (p : Prefix) :
    (∀ n, inCIDR p (.v4 n) = true ↔
      (p.is6 = false ∧ ∀ i, 32 - p.bits ≤ i → n.testBit i = p.addr.testBit i)) ∧
    (∀ n z, inCIDR p (.v6 n z) = true ↔
      (p.is6 = true ∧ ∀ i, 128 - p.bits ≤ i → n.testBit i = p.addr.testBit i)) := by
  constructor
  · intro n
    simp only [inCIDR, Bool.and_eq_true, Bool.not_eq_true', beq_iff_eq, div_pow_eq_iff_bits]
  · intro n z
    simp only [inCIDR, Bool.and_eq_true, beq_iff_eq, div_pow_eq_iff_bits]

/-- The code's test `ipnet.Contains(ip.WithZone(""))` (xor / shift / compare
with zero, false across families) is that CIDR membership. -/
theorem C03_contains_iff_inCIDR (p : Prefix) (ip : IP) :
    p.contains ip.withoutZone = inCIDR p ip := contains_withoutZone p ip

/-! ### what happens to the request

`r.effectiveID` is the request's ClientID, or none when it could not be
determined (then the client is judged by its address alone). -/

/-- The action of the hook, for every accepted configuration and every request
in scope: refusal (by transport) when the client is excluded or the name is
blocked; otherwise pass, or SERVFAIL if the ClientID was malformed. -/
theorem C03_handleBefore_eq {al bl : List Entry} {a : Access} (h : newAccessCtx al bl = .ok a)
    (r : Request) (hs : inScope ⟨al, bl, r⟩ r.effectiveID = true) :
    (handleBefore a r).1 =
      if excluded al bl r.addr r.effectiveID || nameBlocked r then refusal r.proto
      else match r.clientID with
        | .ok _ => .pass
        | .error _ => .servfail := by
  have hd : (a.isBlockedClient r.addr r.effectiveID).1 = excluded al bl r.addr r.effectiveID :=
    decision_in_scope h r hs
  have hr : preBlockedResponse r.proto = refusal r.proto := by cases r.proto <;> rfl
  unfold handleBefore
  simp only [hd, hr]
  cases hex : excluded al bl r.addr r.effectiveID
  · cases hn : nameBlocked r
    · have : ¬ (r.nq = 1 ∧ r.hostBlocked = true) := by simpa [nameBlocked] using hn
      simp only [this, if_false, Bool.false_eq_true, Bool.or_self]
      cases r.clientID <;> rfl
    · have : r.nq = 1 ∧ r.hostBlocked = true := by simpa [nameBlocked] using hn
      simp [this]
  · simp

/-- A request from an excluded client, or for a name on the blocked-hosts
list, is dropped without a reply over UDP and DNSCrypt and answered REFUSED
over every other transport — also when its ClientID is malformed. -/
theorem C03_never_served {al bl : List Entry} {a : Access} (h : newAccessCtx al bl = .ok a)
    (r : Request) (hv : r.addr.isValid = true)
    (hex : excluded al bl r.addr r.effectiveID = true ∨ nameBlocked r = true) :
    (handleBefore a r).1 = (if r.proto = .udp ∨ r.proto = .dnscrypt then Action.drop else .refused) := by
  have hs : inScope ⟨al, bl, r⟩ r.effectiveID = true := by simp [inScope, hv]
  rw [C03_handleBefore_eq h r hs]
  have : (excluded al bl r.addr r.effectiveID || nameBlocked r) = true := by
    rcases hex with hex | hex <;> simp [hex]
  rw [this]
  cases r.proto <;> simp [refusal]

/-- … and it is never resolved, filtered, logged or counted, whatever the
processing behind the hook would have done; the only bytes that go back are a
REFUSED (none at all over UDP and DNSCrypt). -/
theorem C03_not_processed {al bl : List Entry} {a : Access} (h : newAccessCtx al bl = .ok a)
    (r : Request) (hv : r.addr.isValid = true)
    (hex : excluded al bl r.addr r.effectiveID = true ∨ nameBlocked r = true)
    (process : Request → Effects × Option Reply) :
    (serve a process r).1.filtered = [] ∧ (serve a process r).1.upstream = [] ∧
    (serve a process r).1.logged = [] ∧ (serve a process r).1.counted = [] ∧
    (serve a process r).2 = (if r.proto = .udp ∨ r.proto = .dnscrypt then none else some .refused) := by
  have := C03_never_served h r hv hex
  unfold serve
  rw [this]
  by_cases hp : r.proto = .udp ∨ r.proto = .dnscrypt <;> simp [hp]

/-- All other requests are served: the hook lets them through untouched (and
remembers the ClientID for the rest of the pipeline). -/
theorem C03_others_pass {al bl : List Entry} {a : Access} (h : newAccessCtx al bl = .ok a)
    (r : Request) (id : Bytes) (hid : r.clientID = .ok id) (hv : r.addr.isValid = true)
    (hex : excluded al bl r.addr id = false) (hn : nameBlocked r = false)
    (process : Request → Effects × Option Reply) :
    handleBefore a r = (.pass, id) ∧ serve a process r = process r := by
  have he : r.effectiveID = id := by simp [Request.effectiveID, hid]
  have hd := C03_decision_eq_excluded h hv id
  have hb : handleBefore a r = (.pass, id) := by
    unfold handleBefore
    simp only [hid, he, hd, hex]
    have : ¬ (r.nq = 1 ∧ r.hostBlocked = true) := by
      simpa [nameBlocked] using hn
    simp [this]
  refine ⟨hb, ?_⟩
  unfold serve
  rw [hb]

/-- A request whose ClientID cannot be determined is never processed either,
for every configuration and address: it is refused like a request without
ClientID, or answered SERVFAIL. -/
theorem C03_bad_clientid_not_processed (a : Access) (r : Request) (e : C16.Err)
    (hid : r.clientID = .error e) (process : Request → Effects × Option Reply) :
    (serve a process r).1.filtered = [] ∧ (serve a process r).1.upstream = [] ∧
    (serve a process r).1.logged = [] ∧ (serve a process r).1.counted = [] ∧
    (serve a process r).2 ≠ some .processed := by
  have : (handleBefore a r).1 ≠ .pass := by
    unfold handleBefore
    simp only [hid]
    split
    · cases r.proto <;> simp [preBlockedResponse]
    · split
      · cases r.proto <;> simp [preBlockedResponse]
      · simp
  unfold serve
  cases hb : (handleBefore a r).1 <;> simp_all

/-! ### the spec monitor on the model -/

/-- The model satisfies the executable spec (the predicate the driver evaluates
on the implementation's observations) for every accepted configuration and
every request. -/
theorem C03_model_meets_spec {al bl : List Entry} {a : Access}
    (h : newAccessCtx al bl = .ok a) (r : Request) :
    specOK ⟨al, bl, r⟩ (modelObs a r) = true := by
  unfold specOK specFail
  simp only
  cases hs : inScope ⟨al, bl, r⟩ r.effectiveID with
  | false => rfl
  | true =>
    have hd := decision_in_scope h r hs
    have hact := C03_handleBefore_eq h r hs
    simp only [modelObs, hd, hact, Bool.not_true, Bool.false_eq_true, if_false, bne_self_eq_false]
    cases hc : (excluded al bl r.addr r.effectiveID || nameBlocked r)
    · cases r.clientID <;> simp
    · simp only [if_true]
      cases r.proto <;> simp [refusal]

/-- The blocked-hosts decision is the same for every class of the question (IN,
CH, HS, NONE, ANY, anything) and depends on the type only through the rule
engine's verdict on (name, type): two requests that differ only in class and
type fields get the same action; and a request for a blocked name is refused
whatever its class and type. -/
theorem C03_blocked_host_any_class_type (a : Access) (r : Request) (qclass qtype : Nat) :
    handleBefore a { r with qclass := qclass, qtype := qtype } = handleBefore a r ∧
    (nameBlocked r = true → (handleBefore a { r with qclass := qclass, qtype := qtype }).1 ≠ .pass) := by
  have h1 : handleBefore a { r with qclass := qclass, qtype := qtype } = handleBefore a r := rfl
  refine ⟨h1, ?_⟩
  intro hn
  rw [h1]
  have hb : r.nq = 1 ∧ r.hostBlocked = true := by simpa [nameBlocked] using hn
  unfold handleBefore
  simp only [hb, and_self, if_true]
  split
  · cases r.proto <;> simp [preBlockedResponse]
  · cases r.proto <;> simp [preBlockedResponse]

/-! ### call order of the real hook (facts regenerated from the source tree) -/

/-- In the current source of `(*Server).HandleBefore` the ClientID is determined
first, the client check (`IsBlockedClient`) and the blocked-name check
(`isBlockedHost`) both come before the SERVFAIL for a bad ClientID, before the
ClientID is cached and before `return nil` (the only way to let a request
through), and each check is followed by a `preBlockedResponse`; the server is
registered as dnsproxy's `BeforeRequestHandler`; and dnsproxy's
`handleDNSRequest` (the version in go.mod) calls the hook before the rate
limiter, the request handler, `Resolve` and `respond`.  Removing or reordering
any of these calls breaks this theorem at build time. -/
theorem C03_hook_call_order :
    let h := AGH.Gen.C03.hookEvents
    let p := AGH.Gen.C03.proxyEvents
    (occursBefore h 6 1 && occursBefore h 1 4 && occursBefore h 1 5 && occursBefore h 1 7 &&
     occursBefore h 2 4 && occursBefore h 2 5 && occursBefore h 2 7 &&
     occursBefore h 1 3 && occursBefore ((h.dropWhile (· != 2))) 2 3 &&
     decide (AGH.Gen.C03.hookRegistrations ≥ 1) &&
     occursBefore p 1 2 && occursBefore p 1 3 && occursBefore p 1 4 && occursBefore p 1 5) = true := by
  decide

/-! ### the default blocked hosts -/

/-- `Prepare` builds the rule engine from the list the settings report: the
configured blocked hosts, or — when none are configured — the default names
`version.bind`, `id.server`, `hostname.bind`; never from an empty list. -/
theorem C03_defaults_apply (al bl : List Entry) (hosts : List Bytes) (p : Prepared)
    (h : prepare al bl hosts = .ok p) :
    p.engineHosts = p.reportedHosts ∧ p.engineHosts ≠ [] ∧
    (hosts = [] → p.engineHosts = defaultBlockedHosts) ∧ (hosts ≠ [] → p.engineHosts = hosts) ∧
    newAccessCtx al bl = .ok p.access := by
  unfold prepare at h
  cases hn : newAccessCtx al bl with
  | error e => rw [hn] at h; cases h
  | ok a =>
    rw [hn] at h
    simp only [Except.ok.injEq] at h
    subst h
    refine ⟨rfl, ?_, ?_, ?_, rfl⟩
    · unfold initDefaultHosts
      cases hosts <;> simp [defaultBlockedHosts]
    · rintro rfl; rfl
    · intro hne
      cases hosts with
      | nil => exact absurd rfl hne
      | cons a r => simp [initDefaultHosts]

/-- In the current source `Prepare` calls `initDefaultSettings` before
`newAccessCtx`, `initDefaultSettings` assigns `defaultBlockedHosts` to the
configuration, and that literal is the model's list of default names. -/
theorem C03_prepare_defaults_before_access :
    (occursBefore AGH.Gen.C03.prepareEvents 1 2 && AGH.Gen.C03.prepareEvents.contains 2 &&
     decide (AGH.Gen.C03.hostsDefaulting ≥ 1) &&
     (AGH.Gen.C03.defaultBlockedHosts == defaultBlockedHosts)) = true := by
  decide

/-! ### live reconfiguration through `POST /control/access/set` -/

/-- A rejected set (duplicates, an entry on both lists, a malformed entry)
leaves the access manager exactly as it was. -/
theorem C03_set_rejected_unchanged (cur : Access) (al bl : List Entry) (hosts : List Bytes)
    (h : (accessSet cur al bl hosts).2 ≠ none) : (accessSet cur al bl hosts).1 = cur := by
  unfold accessSet at h ⊢
  cases hv : validateAccessSet (al.map (·.raw)) (bl.map (·.raw)) hosts with
  | some e => rfl
  | none =>
    simp only [hv] at h ⊢
    cases hn : newAccessCtx al bl with
    | error e => rfl
    | ok a => rw [hn] at h; simp at h

/-- An accepted set installs the manager built from the new lists, so every
theorem above holds for the new lists from then on: the decision is "excluded
by the NEW settings", whatever was configured before. -/
theorem C03_set_accepted (cur : Access) (al bl : List Entry) (hosts : List Bytes)
    (h : (accessSet cur al bl hosts).2 = none) :
    newAccessCtx al bl = .ok (accessSet cur al bl hosts).1 ∧
    ∀ ip, ip.isValid = true → ∀ id,
      ((accessSet cur al bl hosts).1.isBlockedClient ip id).1 = excluded al bl ip id := by
  have hk : newAccessCtx al bl = .ok (accessSet cur al bl hosts).1 := by
    unfold accessSet at h ⊢
    cases hv : validateAccessSet (al.map (·.raw)) (bl.map (·.raw)) hosts with
    | some e => simp [hv] at h
    | none =>
      simp only [hv] at h ⊢
      cases hn : newAccessCtx al bl with
      | error e => rw [hn] at h; simp at h
      | ok a => rfl
  exact ⟨hk, fun ip hv id => C03_decision_eq_excluded hk hv id⟩

/-! ### what the code does at the edges of the property (reading notes) -/

/-- The zero `netip.Addr` skips the address test, so in allow-list mode it is
admitted whatever its ClientID (DESIGN C03 note (i)). -/
theorem C03_zero_addr_admitted_in_allow_mode (a : Access) (hm : a.allowlistMode = true) (id : Bytes) :
    (a.isBlockedClient .invalid id).1 = false := by
  rw [isBlockedClient_fst]
  simp [hm, IP.isValid]

/-- Zones: an address entry without zone does not name the same address with a
zone (the entry `fe80::1` does not match a client `fe80::1%eth0`), while the
CIDR `fe80::1/128` does. -/
theorem C03_obs_zone_exact_vs_cidr (raw : Bytes) (n : Nat) (z : Bytes) (hz : z ≠ []) :
    (∀ a, newAccessCtx [] [⟨raw, .addr (.v6 n [])⟩] = .ok a →
      (a.isBlockedClient (.v6 n z) []).1 = false) ∧
    (∀ a, newAccessCtx [] [⟨raw, .pfx ⟨true, n, 128⟩⟩] = .ok a →
      (a.isBlockedClient (.v6 n z) []).1 = true) := by
  constructor
  · intro a h
    rw [decision_general h]
    have : (IP.v6 n [] == IP.v6 n z) = false := by
      simp only [beq_eq_false_iff_ne, ne_eq, IP.v6.injEq, true_and]
      exact fun h => hz h.symm
    simp [addrListed, idListed, IP.isValid, this]
  · intro a h
    rw [decision_general h]
    simp [addrListed, idListed, IP.isValid, inCIDR]

/-- IPv4-mapped IPv6 addresses are IPv6 addresses: no IPv4 entry (address or
CIDR, even `0.0.0.0/0`) ever names one. -/
theorem C03_obs_v4_entries_never_name_v6 (es : List Entry)
    (h4 : ∀ e ∈ es, (∃ m, e.parse = .addr (.v4 m)) ∨ (∃ m b, e.parse = .pfx ⟨false, m, b⟩) ∨ e.parse = .none)
    (n : Nat) (z : Bytes) : addrListed es (.v6 n z) = false := by
  simp only [addrListed, IP.isValid, Bool.true_and]
  rw [List.any_eq_false]
  intro e he
  rcases h4 e he with ⟨m, hm⟩ | ⟨m, b, hm⟩ | hm <;> simp [hm, inCIDR]

/-! ### non-vacuity: the hypotheses above are satisfiable by non-trivial states -/

/-- Allow-list `[10.0.0.0/8, "cli"]`, disallowed `[10.0.0.1]`: 10.0.0.1 is
admitted (disallowed list ignored), 11.0.0.1 without ClientID is excluded and
dropped over UDP / REFUSED over TCP, 11.0.0.1 with ClientID `cli` is admitted. -/
example :
    let al : List Entry := [⟨[], .pfx ⟨false, 0x0a000000, 8⟩⟩, ⟨[99, 108, 105], .none⟩]
    let bl : List Entry := [⟨[], .addr (.v4 0x0a000001)⟩]
    ∃ a, newAccessCtx al bl = .ok a ∧
      excluded al bl (.v4 0x0a000001) [] = false ∧
      excluded al bl (.v4 0x0b000001) [] = true ∧
      excluded al bl (.v4 0x0b000001) [99, 108, 105] = false ∧
      (handleBefore a ⟨.udp, .v4 0x0b000001, .ok [], 1, false, 1, 1⟩).1 = .drop ∧
      (handleBefore a ⟨.tcp, .v4 0x0b000001, .ok [], 1, false, 1, 1⟩).1 = .refused ∧
      (handleBefore a ⟨.tls, .v4 0x0b000001, .ok [99, 108, 105], 1, false, 1, 1⟩) = (.pass, [99, 108, 105]) ∧
      (handleBefore a ⟨.tls, .v4 0x0a000001, .ok [], 1, true, 1, 1⟩).1 = .refused := by
  exact ⟨_, rfl, by decide, by decide, by decide, by decide, by decide, by decide, by decide⟩

/-- ClientIDs in the lists are compared as written: the entry `MyPhone` does
not name the (lower-cased, C16) request ClientID `myphone` (DESIGN O2). -/
example : idListed [⟨[77, 121, 80, 104, 111, 110, 101], .none⟩] [109, 121, 112, 104, 111, 110, 101] = false := by
  decide

end AGH.C03
