import AGH.Spec.Access
namespace AGH.C03

theorem C03_stub : preBlockedResponse .udp = .drop := by decide

end AGH.C03
