/-
C13, the clause "…which the current configuration loader accepts whenever the
input was valid under its own schema": theorems about the model of the loader's
validation stage (`AGH/Model/Loader.lean`) against the documented meaning of
the settings (`AGH/Spec/Loader.lean`).  All statements hold for every value of
the validated fields.  Unmarshalling is a library stage (oracle); that a
generated VALID document of each historical version reaches the validation
stage and is accepted by the real `parseConfig` is checked by correspondence.
-/
import AGH.Lemmas.Loader
import AGH.Gen.C13Loader
namespace AGH.C13L

/-- **The model accepts exactly what the documented meaning prescribes.** -/
theorem C13_loader_model_meets_spec (i : LoaderIn) : parseConfig i = .ok ↔ shouldAccept i = true := by
  unfold shouldAccept clash
  simp only [Bool.and_eq_true, Bool.not_eq_true', Bool.not_eq_false', decide_eq_true_eq]
  rw [← tcpRegs_eq, ← udpRegs_eq, ← ucDups_nil_iff, ← ucDups_nil_iff]
  constructor
  · intro h
    unfold parseConfig at h
    cases hm : i.migrated <;> simp [hm] at h
    cases hu : i.unmarshalled <;> simp [hu] at h
    rw [validateConfig_eq] at h
    cases hh : i.httpValid <;> simp [hh] at h
    cases hf : firstInvalid i.bindValid 0 with
    | some idx => simp [hf] at h
    | none =>
      simp only [hf] at h
      have hb := (firstInvalid_none i.bindValid 0).1 hf
      by_cases ht : ucDups (tcpRegs i) = []
      · by_cases hud : ucDups (udpRegs i) = []
        · simp [ht, hud] at h
          exact ⟨⟨⟨⟨⟨⟨rfl, rfl⟩, rfl⟩, hb⟩, ht⟩, hud⟩, by cases hc : i.ciphersOK <;> simp_all⟩
        · simp [ht, hud] at h
      · simp [ht] at h
  · rintro ⟨⟨⟨⟨⟨⟨h1, h2⟩, h3⟩, h4⟩, ht⟩, hu⟩, hc⟩
    rw [parseConfig_eq i ⟨h1, h2, h3, h4⟩]
    simp [ht, hu, hc]

/-- The monitor is never raised on model-agreeing behaviour. -/
theorem C13_loader_monitor_sound (i : LoaderIn) : loaderOK false i (parseConfig i) = true := by
  unfold loaderOK loaderWhy
  by_cases hs : shouldAccept i = true
  · have := (C13_loader_model_meets_spec i).2 hs
    simp [hs, this]
  · have hn : parseConfig i ≠ .ok := fun h => hs ((C13_loader_model_meets_spec i).1 h)
    simp at hs
    simp [hs, hn]

/-- **Disabled listeners never clash**: whatever the ports, if no two ACTIVE listeners
(switched on and with a non-zero port) of one transport share a port, the port check passes. -/
theorem C13_loader_accepts_disabled_ports (i : LoaderIn) (h : upToPorts i) (hc : i.ciphersOK = true)
    (htcp : (activePorts (tcpListeners i)).Nodup) (hudp : (activePorts (udpListeners i)).Nodup) :
    parseConfig i = .ok := by
  rw [parseConfig_eq i h, (ucDups_nil_iff _).2 (tcpRegs_eq i ▸ htcp), (ucDups_nil_iff _).2 (udpRegs_eq i ▸ hudp)]
  simp [hc]

/-- In particular port 0 on any number of listeners is no clash (the seeded defect C13-10). -/
theorem C13_loader_accepts_zero_ports (i : LoaderIn) (h : upToPorts i) (hc : i.ciphersOK = true)
    (hz : i.portHTTPS = 0 ∧ i.portDNSCrypt = 0) (hne : i.httpPort ≠ i.portDoT) (hq : i.dnsPort ≠ i.portDoQ) :
    parseConfig i = .ok := by
  apply C13_loader_accepts_disabled_ports i h hc
  · simp only [activePorts, tcpListeners, hz.1, hz.2, Listener.active, List.filter_cons]
    cases i.tlsEnabled <;> by_cases h1 : i.httpPort = 0 <;> by_cases h2 : i.portDoT = 0 <;>
      simp_all [List.filter_cons]
  · simp only [activePorts, udpListeners, Listener.active, List.filter_cons]
    cases i.tlsEnabled <;> by_cases h1 : i.dnsPort = 0 <;> by_cases h2 : i.portDoQ = 0 <;>
      simp_all [List.filter_cons]

/-- **The port errors report exactly the real clashes**: the TCP error lists, each once and in
ascending order, the ports used by two or more active TCP listeners — and nothing else. -/
theorem C13_loader_rejects_exactly_real_clashes (i : LoaderIn) (h : upToPorts i) (ps : List Nat) :
    parseConfig i = .tcpDup ps ↔
      (ps ≠ [] ∧ ps.Pairwise (· < ·) ∧ ∀ p, p ∈ ps ↔ 1 < (activePorts (tcpListeners i)).count p) := by
  rw [parseConfig_eq i h, ← tcpRegs_eq]
  constructor
  · intro hp
    by_cases ht : ucDups (tcpRegs i) = []
    · simp [ht] at hp; split at hp <;> (try split at hp) <;> simp at hp
    · simp [ht] at hp; subst hp
      exact ⟨ht, sorted_ucDups _, fun p => mem_ucDups _ p⟩
  · rintro ⟨hne, hsort, hmem⟩
    have heq : ucDups (tcpRegs i) = ps := by
      -- two strictly ascending lists with the same elements are equal
      have h2 : ∀ p, p ∈ ucDups (tcpRegs i) ↔ p ∈ ps := fun p => by rw [mem_ucDups, hmem]
      exact List.Perm.eq_of_pairwise (le := (· < ·)) (fun a b _ _ hab hba => absurd hab (Nat.lt_asymm hba))
        (sorted_ucDups _) hsort
        ((List.perm_ext_iff_of_nodup
          ((sorted_ucDups _).imp (fun h => Nat.ne_of_lt h))
          (hsort.imp (fun h => Nat.ne_of_lt h))).2 h2)
    simp [heq, hne]

/-- The same for UDP (plain DNS and DNS-over-QUIC), when TCP has no clash. -/
theorem C13_loader_udp_clash (i : LoaderIn) (h : upToPorts i) (htcp : (activePorts (tcpListeners i)).Nodup) :
    (∃ ps, parseConfig i = .udpDup ps) ↔ ¬ (activePorts (udpListeners i)).Nodup := by
  rw [parseConfig_eq i h, (ucDups_nil_iff _).2 (tcpRegs_eq i ▸ htcp), ← udpRegs_eq, ← ucDups_nil_iff]
  by_cases hu : ucDups (udpRegs i) = []
  · simp [hu]; split <;> simp
  · simp [hu]

/-- **`tls.enabled: false` makes the encrypted ports irrelevant.** -/
theorem C13_loader_tls_disabled_ignores_ports (i : LoaderIn) (h : i.tlsEnabled = false) (a b c d : Nat) :
    parseConfig { i with portHTTPS := a, portDoT := b, portDoQ := c, portDNSCrypt := d } = parseConfig i := by
  simp [parseConfig, validateConfig, h]

/-! ### Obligations over the facts regenerated from `internal/home/config.go` -/

/-- Every port that reaches a uniqueness check in `validateConfig` goes through `addPorts`
(the helper that skips the disabled, zero ports), never through `UniqChecker.Add` directly;
and the registrations are the ones the model makes: web and plain-DNS port unconditionally,
the four encrypted ports under `tls.enabled`. -/
theorem C13_gen_loader_ports :
    Gen.C13L.addPortsSkipsZero = true ∧
    (∀ r ∈ Gen.C13L.portRegs, r.1 = 1) ∧
    Gen.C13L.portRegs = [(1, 0, 0, 0), (1, 1, 0, 1), (1, 0, 1, 2), (1, 0, 1, 3), (1, 0, 1, 4), (1, 1, 1, 5)] := by
  decide +kernel

/-! ### Non-vacuity -/

/-- The seeded case: encryption on, HTTPS and DNSCrypt switched off by port 0. -/
example : parseConfig ⟨true, true, true, 3000, [true], 5353, true, 0, 853, 853, 0, true⟩ = .ok := by decide

/-- A real clash is reported: web interface and DoT both on 853. -/
example : parseConfig ⟨true, true, true, 853, [true], 53, true, 443, 853, 853, 0, true⟩ = .tcpDup [853] := by decide

/-- Same port on different transports is fine (DoT and DoQ on 853, web and DNS on 53). -/
example : parseConfig ⟨true, true, true, 53, [true], 53, true, 443, 853, 853, 0, true⟩ = .ok := by decide

end AGH.C13L
