/-
C09 — the concurrency clause: "with updates running concurrently with the
hourly flush and with API reads".  Property theorems only.

Model: AGH/Model/StatsConc.lean (threads, micro-steps, three locks, arbitrary
scheduler) and AGH/Model/StatsProgs.lean (Update / flush / getData /
handleStatsConfig / handlePutStatsConfig / handleStatsReset as the sequences of
lock acquisitions, reads and writes of the Go code, the locks being taken from
`LockFacts`).  Hypothesis: `okFor F op` for every operation in the run
(AGH/Spec/StatsLocks.lean) — the same predicate the driver evaluates on the
facts the harness re-extracts from the Go sources on every run.
-/
import AGH.Lemmas.StatsConcMain
import AGH.Props.C09
import AGH.Model.StatsFaults
import AGH.Gen.C09Locks
import AGH.Lemmas.StatsLoop
namespace AGH.C09

/-- Serializability.  Threads `t` with `ops t = some op` run concurrently from
state `s0` under lock facts `F` that satisfy `okFor` for each of them.  For
EVERY state `σ` any schedule can reach there is a sequential order `hist`
(no repetitions) of the operations that have left their critical section such
that: every finished operation is in it; whenever `confMu` has no writer the
shared state is exactly the sequential model's state after running those
operations in that order; and every finished read returned exactly what the
sequential `getData` returns at its position in that order. -/
theorem C09_interleavings_serializable (F : LockFacts) (ops : Nat → Option COp) (s0 : State)
    (hok : ∀ t op, ops t = some op → okFor F op = true)
    (σ : Sys Loc) (hr : Reach (concInit F ops s0) σ) :
    ∃ hist : List Nat, hist.Nodup ∧
      (∀ t ∈ hist, ∃ op, ops t = some op ∧ rejected op = false) ∧
      (∀ t op, ops t = some op → rejected op = false → (σ.th t).rest = [] → t ∈ hist) ∧
      ((σ.lk .conf).writer = none → runOps s0 (hist.map (opOf ops)) = some σ.st) ∧
      (∀ t, ops t = some .read → (σ.th t).rest = [] →
        ∃ h1 h2 s, hist = h1 ++ t :: h2 ∧ runOps s0 (h1.map (opOf ops)) = some s ∧
          (σ.th t).loc.result = some (getData s)) := by
  rw [concInit_eq F ops s0 hok] at hr
  obtain ⟨hist, hi⟩ := cinv_reach (setupOf_wf F ops s0 hok) hr
  have hprogs : ∀ t p, (setupOf F ops s0).progs t = some p → ∃ op, ops t = some op ∧ rejected op = false := by
    intro t p hp
    simp only [setupOf] at hp
    cases hop : ops t with
    | none => simp [hop] at hp
    | some op =>
      refine ⟨op, rfl, ?_⟩
      cases hrj : rejected op with
      | false => rfl
      | true => simp [hop, progOf, hrj] at hp
  have hsome : ∀ t op, ops t = some op → rejected op = false → ∃ p, (setupOf F ops s0).progs t = some p := by
    intro t op hop hrj
    obtain ⟨m, hm, _⟩ := okFor_conf (hok t op hop) hrj
    exact ⟨⟨m, bodyOf F op⟩, by simp [setupOf, hop, progOf, hrj, hm]⟩
  have hafter : ∀ t op, ops t = some op → rejected op = false → (σ.th t).rest = [] →
      ∃ h1 h2, hist = h1 ++ t :: h2 ∧ (σ.th t).loc = ((setupOf F ops s0).effect t ((setupOf F ops s0).seq h1)).2 := by
    intro t op hop hrj hrest
    obtain ⟨p, hp⟩ := hsome t op hop hrj
    cases hi.ph t with
    | idle hp' => rw [hp] at hp'; cases hp'
    | before p' hp' hth => rw [hth] at hrest; simp [CProg.code] at hrest
    | insideW p' hp' hm done todo hb hr' => rw [hr'] at hrest; simp at hrest
    | insideR p' hp' hm done todo hb hr' => rw [hr'] at hrest; simp at hrest
    | after p' hp' hr' hw hrd h1 h2 hh hloc => exact ⟨h1, h2, hh, hloc⟩
  refine ⟨hist, hi.nodup, ?_, ?_, ?_, ?_⟩
  · intro t ht
    cases hi.ph t with
    | idle hp hth hw hrd hh => exact absurd ht hh
    | before p hp hth hw hrd hh => exact absurd ht hh
    | insideW p hp hm done todo hb hr' hw hh => exact absurd ht hh
    | insideR p hp hm done todo hb hr' hw hrd hh => exact absurd ht hh
    | after p hp => exact hprogs t p hp
  · intro t op hop hrj hrest
    obtain ⟨h1, h2, hh, _⟩ := hafter t op hop hrj hrest
    rw [hh]; simp
  · intro hfree
    rw [runOps_seq F ops s0 hok hist s0, hi.free hfree]
    rfl
  · intro t hop hrest
    obtain ⟨h1, h2, hh, hloc⟩ := hafter t _ hop rfl hrest
    refine ⟨h1, h2, _, hh, runOps_seq F ops s0 hok h1 s0, ?_⟩
    rw [hloc]
    exact read_effect F ops s0 hok t hop _

/-- Hence the sequential theorems apply to concurrent runs: in any interleaving
started from a fresh `New`, what a finished API read returned satisfies the
spec monitor for the history "the operations serialized before it, then the
read". -/
theorem C09_interleavings_meet_spec (F : LockFacts) (ops : Nat → Option COp)
    (clock limitMs : Nat) (enabled : Bool) (s0 : State) (hnew : new [] clock limitMs enabled = some s0)
    (hok : ∀ t op, ops t = some op → okFor F op = true)
    (σ : Sys Loc) (hr : Reach (concInit F ops s0) σ)
    (t : Nat) (hop : ops t = some .read) (hdone : (σ.th t).rest = []) :
    ∃ (before : List Nat) (res : Except Fault Resp), (σ.th t).loc.result = some res ∧
      specOK (ghostRun (Ghost.init clock limitMs enabled) ((before ++ [t]).map (opOf ops))) res = true := by
  obtain ⟨hist, _, _, _, _, hread⟩ := C09_interleavings_serializable F ops s0 hok σ hr
  obtain ⟨h1, h2, s, _, hrun, hres⟩ := hread t hop hdone
  refine ⟨h1, getData s, hres, ?_⟩
  have hrun' : runOps s0 ((h1 ++ [t]).map (opOf ops)) = some s := by
    have hlast : runOps s ([t].map (opOf ops)) = some s := by simp [opOf, hop, COp.toOp, runOps, step]
    have happ : ∀ (l1 l2 : List Op) (a b : State), runOps a l1 = some b → runOps a (l1 ++ l2) = runOps b l2 := by
      intro l1
      induction l1 with
      | nil => intro l2 a b h; simp only [runOps, Option.some.injEq] at h; subst h; rfl
      | cons o l1 ih =>
        intro l2 a b h
        simp only [runOps, List.cons_append] at h ⊢
        cases hs : step a o with
        | none => simp [hs] at h
        | some a' => simp only [hs] at h ⊢; exact ih l2 a' b h
    rw [List.map_append, happ _ _ _ _ hrun, hlast]
  exact C09_model_meets_spec clock limitMs enabled _ s0 s hnew hrun'

/-- The locking of the current tree satisfies the hypothesis for every
operation: Update, the hourly flush, reads, both configuration requests and
(since the fix) `handleStatsReset`. -/
theorem C09_real_locks_cover (op : COp) : okFor LockFacts.real op = true := by
  cases op with
  | reset => rfl
  | upd e => rfl
  | flush id => rfl
  | read => rfl
  | setDays d => simp [okFor, COp.writes, confOf, LockFacts.real]
  | putConf ms en => simp [okFor, COp.writes, confOf, LockFacts.real]

/-- THE TIE of the concurrency clause.  `AGH.Gen.C09.lockFacts` is regenerated
from the Go sources of the tree under test on every run (extract/cmd/c09); the
facts are turned into the `LockFacts` the programs of the model are built from,
and the hypothesis of the interleaving theorem — for all six operations — is
re-checked on them by the kernel.  A dropped or weakened lock makes this
theorem fail to compile. -/
theorem C09_lock_facts_obligation :
    (LockFacts.ofRaw AGH.Gen.C09.lockFacts).okAll = true ∧ rawClean AGH.Gen.C09.lockFacts = true := by
  decide +kernel

theorem okAll_okFor {F : LockFacts} (h : F.okAll = true) (op : COp) : okFor F op = true := by
  simp only [LockFacts.okAll, LockFacts.ok, Bool.and_eq_true, beq_iff_eq] at h
  obtain ⟨⟨⟨⟨⟨h1, h2⟩, h3⟩, h4⟩, h5⟩, h6⟩ := h
  cases op <;> simp [okFor, COp.writes, confOf, h1, h2, h3, h4, h5, h6]

/-- Serializability for the locking the CURRENT tree has (no hypothesis left:
it is discharged by `C09_lock_facts_obligation`). -/
theorem C09_interleavings_serializable_current_tree (ops : Nat → Option COp) (s0 : State)
    (σ : Sys Loc) (hr : Reach (concInit (LockFacts.ofRaw AGH.Gen.C09.lockFacts) ops s0) σ) :
    ∃ hist : List Nat, hist.Nodup ∧
      (∀ t ∈ hist, ∃ op, ops t = some op ∧ rejected op = false) ∧
      (∀ t op, ops t = some op → rejected op = false → (σ.th t).rest = [] → t ∈ hist) ∧
      ((σ.lk .conf).writer = none → runOps s0 (hist.map (opOf ops)) = some σ.st) ∧
      (∀ t, ops t = some .read → (σ.th t).rest = [] →
        ∃ h1 h2 s, hist = h1 ++ t :: h2 ∧ runOps s0 (h1.map (opOf ops)) = some s ∧
          (σ.th t).loc.result = some (getData s)) :=
  C09_interleavings_serializable _ ops s0 (fun _ op _ => okAll_okFor C09_lock_facts_obligation.1 op) σ hr

/-! ### the flush loop: rollover within one polling period -/

/-- The timing clause.  `periodicFlush` with polling period `period` (any
positive value), a wake-up due within one period (true from `Start` on, and
re-established by this theorem), statistics with a non-zero limit.  Let `d ≥
period` ms pass.  If the UnitID generator has shown the same hour for the last
`period` ms, the module's current unit is the unit of THAT hour — whatever
happened before (clock steps of any size, any number of missed hours): a query
counted more than one period after an hour change is counted in the new hour.
A loop that may sleep longer than `period` while the unit is current does not
satisfy this. -/
theorem C09_rollover_within_period (period : Nat) (hp : 0 < period) (L : Loop) (d : Nat)
    (hlim : L.s.limitHours ≠ 0) (hdue : L.next ≤ L.t + period) (hd : period ≤ d)
    (hconst : hourAt (L.t + d - period) L.skew = hourAt (L.t + d) L.skew) :
    (L.wait period d).s.curr.id = hourAt (L.t + d) L.skew ∧
    (L.wait period d).t = L.t + d ∧
    (L.wait period d).t < (L.wait period d).next ∧ (L.wait period d).next ≤ (L.wait period d).t + period ∧
    (L.wait period d).s.limitHours ≠ 0 := by
  have hle : L.next ≤ L.t + d := by omega
  obtain ⟨a, b, _, e⟩ := polls_succ period ((L.t + d - L.next) / period) L hlim
  have h1 : (L.t + d - L.next) / period * period ≤ L.t + d - L.next := Nat.div_mul_le_self _ _
  have h2 : L.t + d - L.next < period * ((L.t + d - L.next) / period + 1) := Nat.lt_mul_div_succ _ hp
  rw [Nat.mul_add, Nat.mul_one, Nat.mul_comm] at h2
  have hw : L.wait period d = { L.polls period ((L.t + d - L.next) / period + 1) with t := L.t + d } := by
    simp only [Loop.wait, hle, if_true]
  rw [hw]
  refine ⟨?_, rfl, ?_, ?_, by rw [e]; exact hlim⟩
  · show (L.polls period ((L.t + d - L.next) / period + 1)).s.curr.id = _
    rw [a]
    apply Nat.le_antisymm
    · exact hourAt_mono (by omega) _
    · rw [← hconst]; exact hourAt_mono (by omega) _
  · show L.t + d < (L.polls period ((L.t + d - L.next) / period + 1)).next
    rw [b, Nat.add_mul, Nat.one_mul]; omega
  · show (L.polls period ((L.t + d - L.next) / period + 1)).next ≤ L.t + d + period
    rw [b, Nat.add_mul, Nat.one_mul]; omega

/-- `Start` establishes the premise: the first `flush` runs at once and the next
wake-up is one period later. -/
theorem C09_loop_start_due (period t0 skew limitMs : Nat) (enabled : Bool) (L : Loop)
    (h : Loop.start period t0 skew limitMs enabled = some L) :
    L.t = t0 ∧ L.next = t0 + period ∧ L.s.limitHours ≠ 0 ∧ L.s.curr.id = hourAt t0 skew := by
  simp only [Loop.start] at h
  cases hn : new [] (hourAt t0 skew) limitMs enabled with
  | none => simp [hn] at h
  | some s =>
    simp only [hn, Option.some.injEq] at h
    subst h
    have hv : validIvl limitMs = true := by
      cases hv : validIvl limitMs with
      | true => rfl
      | false => simp [new, hv] at hn
    have hs : s.limit = limitMs ∧ s.curr.id = hourAt t0 skew := by
      simp only [new, hv, Bool.not_true, Bool.false_eq_true, if_false, Option.some.injEq, deleteOldUnits, DB.get,
        MemUnit.deserialize] at hn
      subst hn; exact ⟨rfl, rfl⟩
    have hl : s.limitHours ≠ 0 := by
      have := validIvl_range hv
      simp only [State.limitHours, hs.1]; omega
    refine ⟨rfl, rfl, ?_, tick_id _ _ hl⟩
    simp only [Loop.poll, State.limitHours, tick_limit]
    exact hl

/-- THE TIE of the timing clause: what `flush` makes the loop sleep while the
unit is current, re-extracted from the source on every run, is the documented
one second — a constant, not a computed duration. -/
theorem C09_poll_period_obligation : AGH.Gen.C09.pollPeriodMs = some docPeriodMs := by decide +kernel

/-! ### the hypothesis is needed -/

def exState : State :=
  { db := [], curr := ⟨500000, 0, fun _ => 0⟩, limit := 24 * msPerHour, enabled := true, clock := 500000 }

def exEntry : Entry := ⟨2, false, false⟩

/-- Without the locks in `Update` two concurrent updates lose one: both read
`nTotal = 0`, both write 1.  Sequentially the total is 2. -/
theorem C09_interleaving_lost_update_without_locks :
    let F := { LockFacts.real with updConf := none, updCurr := none }
    let ops : Nat → Option COp := fun t => if t < 2 then some (.upd exEntry) else none
    let σ := (concInit F ops exState).run [0, 0, 0, 0, 0, 1, 1, 1, 1, 1, 0, 1]
    (σ.th 0).rest = [] ∧ (σ.th 1).rest = [] ∧ σ.st.curr.nTotal = 1 ∧
    (updateN (updateN exState exEntry 1).1 exEntry 1).1.curr.nTotal = 2 := by
  refine ⟨?_, ?_, ?_, ?_⟩
  · rfl
  · rfl
  · decide
  · decide

def exState3 : State :=
  { db := [], curr := ⟨500000, 3, fun i => if i = 2 then 3 else 0⟩, limit := 24 * msPerHour,
    enabled := true, clock := 500000 }

/-- FINDING (model level; repaired in /repo since: `handleStatsReset` now takes
`confMu`).  Before the fix `handleStatsReset` called `clear()` without `confMu`
(`LockFacts.beforeResetFix`).  Interleaving: reset has replaced the
database file, the hourly flush runs completely (it still sees the OLD current
unit and writes it into the NEW file), reset then swaps the current unit.  The
bucket of hour 500000 with its 3 queries survives the reset; in either
sequential order it does not (no bucket, or an empty one). -/
theorem C09_counterexample_reset_vs_flush :
    let ops : Nat → Option COp := fun t => if t = 0 then some (.flush 500001) else if t = 1 then some .reset else none
    let σ := (concInit LockFacts.beforeResetFix ops exState3).run ([1] ++ List.replicate 11 0 ++ [1, 1, 1])
    (σ.th 0).rest = [] ∧ (σ.th 1).rest = [] ∧
    (σ.st.db.get 500000).map (·.nTotal) = some 3 ∧
    ((clear (tick exState3 500001)).db.get 500000).map (·.nTotal) = none ∧
    ((tick (clear exState3) 500001).db.get 500000).map (·.nTotal) = some 0 := by
  refine ⟨?_, ?_, ?_, ?_, ?_⟩
  · rfl
  · rfl
  · decide
  · decide
  · decide

/-! ### findings: histories on which the implementation (and the faithful model) violate the property -/

/-- The history of both findings: fresh start at hour 500000 with a 24 h
limit, 3 blocked queries counted. -/
def exGhost3 : Ghost := ghostRun (Ghost.init 500000 (24 * msPerHour) true) [.upd ⟨2, false, false⟩ 3]

/-- What a failed database write in the hourly flush does: compared with a
successful flush the ONLY difference is that the rotated-out unit is not
stored (and bucket `id - limit` is not deleted) — the counters of the hour that
just ended are gone, everything else is as after a normal rollover. -/
theorem C09_flush_write_error_effect (s : State) (id : Nat) (h0 : s.limitHours ≠ 0) (hid : s.curr.id ≠ id) :
    (tickFail s id).db = s.db ∧ (tickFail s id).curr = newUnit id ∧ (tickFail s id).clock = id ∧
    (tick s id).db = (s.db.put s.curr.id s.curr.serialize).del (sub32 id s.limitHours) ∧
    (tick s id).curr = newUnit id ∧ (tick s id).clock = id := by
  have hc : ¬ (s.limitHours = 0 ∨ s.curr.id = id) := by
    intro h; rcases h with h | h
    · exact h0 h
    · exact hid h
  have hc' : ¬ (({ s with clock := id } : State).limitHours = 0 ∨ s.curr.id = id) := hc
  refine ⟨?_, ?_, ?_, ?_, ?_, ?_⟩
  · simp [tickFail, hc]
  · simp [tickFail, hc]
  · simp [tickFail, hc]
  · simp only [tick, flush, if_neg hc']; rfl
  · simp only [tick, flush, if_neg hc']
  · simp only [tick, flush, if_neg hc']

/-- FINDING.  "Counts survive hour rollovers" fails when the database write of
the rollover fails: 3 queries counted in hour 500000, rollover to 500001 with a
write error — hour 500000 is still inside the 24 h window but the totals are 0
(`specOK` false); with a successful write they are reported (`specOK` true). -/
theorem C09_counterexample_flush_write_error :
    specOK (ghostStep exGhost3 (.tick 500001)) (getData (tickFail exState3 500001)) = false ∧
    specOK (ghostStep exGhost3 (.tick 500001)) (getData (tick exState3 500001)) = true := by
  constructor <;> decide

/-- FINDING.  After the reset/flush race of `C09_counterexample_reset_vs_flush`
the API reports 3 queries although a reset has happened since they were
counted: the monitor rejects the answer whichever of the two sequential orders
(reset then rollover, rollover then reset) is taken as the reference. -/
theorem C09_counterexample_reset_race_reported :
    specOK (ghostStep (ghostStep exGhost3 .clear) (.tick 500001)) (getData (resetRace exState3 500001)) = false ∧
    specOK (ghostStep (ghostStep exGhost3 (.tick 500001)) .clear) (getData (resetRace exState3 500001)) = false := by
  constructor <;> decide

/-! ### non-vacuity -/

/-- A concrete concurrent run under the real lock facts: two updates, a
rollover and a read, in a schedule that makes them contend; all finish. -/
example :
    let ops : Nat → Option COp := fun t =>
      if t = 0 then some (.upd exEntry) else if t = 1 then some (.flush 500001)
      else if t = 2 then some .read else if t = 3 then some (.upd exEntry) else none
    let σ := (concInit LockFacts.real ops exState).run
      ([0, 1, 2, 3, 0, 0] ++ List.replicate 12 0 ++ List.replicate 14 1 ++ List.replicate 14 2 ++ List.replicate 12 3)
    (∀ t, t < 4 → (σ.th t).rest = []) ∧ σ.st.curr.id = 500001 ∧
    (σ.th 2).loc.result.isSome = true := by
  refine ⟨?_, ?_, ?_⟩
  · intro t ht
    have : t = 0 ∨ t = 1 ∨ t = 2 ∨ t = 3 := by omega
    rcases this with h | h | h | h <;> subst h <;> rfl
  · decide
  · rfl

end AGH.C09
