/-
C14 — the configuration file, the DHCP lease database and downloaded filter-list
files are replaced atomically: at every instant of a save, and therefore after
a crash at any point, the path holds the complete previous or the complete new
version.

Property theorems only (helper lemmas: AGH/Lemmas/FS.lean, FSMonitor.lean).
`OKAt s dest old new` (AGH/Spec/FS.lean) is the sentence of the property for one
instant `s`.  Instants of a save are the states after every prefix of its
syscall program (`runAbort s₀ (prog.take k)`; a run stops at the first failing
syscall, as the Go code returns at the first error).

What is assumed, not proved (named in the evidence): the crash semantics of
`AfterCrash` (completed directory operations are durable and atomic; an inode
unmodified since its last fsync survives exactly; a modified one comes back as
its last synced content or any prefix of its current content), and that the
names renameio invents differ from the destination (`TempNames`, checked on
every real trace by the driver).
-/
import AGH.Lemmas.FSCrash
import AGH.Gen.C14WriteSites
namespace AGH.C14
open AGH

/-! ## The atomic writer (config.go:652/818, dhcpd/db.go:189, filter.go CloseReplace) -/

/-- Every instant of one atomic save — any content, any chunking of the writes,
any prefix `k` of the program, any syscall failing — shows the complete old or
the complete new version, to a reader and after a crash. -/
theorem C14_atomic_all_prefixes (pr : Probe) (dest tmp : Path) (fd : Nat) (chunks : List Content)
    (s₀ : FS) (old : Option Content) (hwf : WF s₀) (h0 : Settled s₀ dest old)
    (hn : TempNames pr tmp dest) (k : Nat) :
    OKAt (runAbort s₀ ((atomicWrite pr dest tmp fd chunks).take k)).1 dest old chunks.flatten := by
  rcases (atomic_prefix (chunks := chunks) (fd := fd) hwf h0 hn k).2 with h | h
  · exact settled_old_ok _ h
  · exact settled_new_ok _ h

/-- A save whose syscalls all succeeded has installed the new version, synced and
closed (so the next save starts from a settled file again). -/
theorem C14_completed_save_installs_new (pr : Probe) (dest tmp : Path) (fd : Nat)
    (chunks : List Content) (s₀ s : FS) (hwf : WF s₀) (hne : tmp ≠ dest)
    (h : runAbort s₀ (atomicWrite pr dest tmp fd chunks) = (s, true)) :
    Settled s dest (some chunks.flatten) ∧ visible s dest = some chunks.flatten :=
  ⟨atomic_complete hwf hne h, settled_visible (atomic_complete hwf hne h)⟩

/-- The committed temporary file holds exactly ONE version: every write between its
exclusive create and the rename belongs to the one run that produced `chunks`
(the program has no other write), and that — nothing before it, nothing after
it — is what a completed save shows.  The driver checks the same on every real
trace: sum and number of the write chunks of a committed save equal the length
and the number of rule lines of the one complete list served (`C14.length`,
`C14.oneversion`), and the final file equals it byte for byte (`C14.content`). -/
theorem C14_committed_content_is_one_version (pr : Probe) (dest tmp : Path) (fd : Nat)
    (chunks : List Content) (s₀ s : FS) (hwf : WF s₀) (hne : tmp ≠ dest)
    (h : runAbort s₀ (atomicWrite pr dest tmp fd chunks) = (s, true)) :
    writesOf (atomicWrite pr dest tmp fd chunks) = chunks ∧
      visible s dest = some (writesOf (atomicWrite pr dest tmp fd chunks)).flatten := by
  have hw : writesOf (atomicWrite pr dest tmp fd chunks) = chunks := by
    simp only [atomicWrite, stageOps, writesOf_append, writesOf_map, writesOf_probe]
    simp [writesOf]
  exact ⟨hw, by rw [hw]; exact settled_visible (atomic_complete hwf hne h)⟩

/-- An abandoned filter update (`Cleanup`: list unchanged, download or parse
error after any number of rule lines) never shows anything but the old file. -/
theorem C14_abandoned_update_keeps_old (pr : Probe) (dest tmp : Path) (fd : Nat)
    (chunks : List Content) (s₀ : FS) (old : Option Content) (hwf : WF s₀)
    (h0 : Settled s₀ dest old) (hn : TempNames pr tmp dest) (k : Nat) (new : Content) :
    let s := (runAbort s₀ ((pendingAbort pr tmp fd chunks).take k)).1
    Settled s dest old ∧ OKAt s dest old new := by
  intro s
  have h := (abort_prefix (chunks := chunks) (fd := fd) hwf h0 hn k).2
  exact ⟨h, settled_old_ok _ h⟩

/-- Frame: whatever else the process does to the file system (error paths,
cleanups, other files' saves), as long as no syscall names `dest`, every instant
shows the version `dest` had. -/
theorem C14_unrelated_syscalls_preserve (dest : Path) (s₀ : FS) (v : Option Content)
    (hwf : WF s₀) (h0 : Settled s₀ dest v) (es : List Sys)
    (hes : ∀ e ∈ es, e.safeFor dest = true) (k : Nat) (new : Content) :
    OKAt (runAbort s₀ (es.take k)).1 dest v new :=
  settled_old_ok _ (runAbort_safe hwf h0 _ (safe_take hes k))

/-! ## Any number of successive saves -/

/-- After any number of earlier saves (committed, abandoned or failed half-way,
of any sizes), at every instant of the next one the path shows the complete
version `prev` that was there when it began — itself the initial version or one
of the complete versions saved before — or the complete new one. -/
theorem C14_successive_saves (dest : Path) (s₀ : FS) (old : Option Content) (hwf : WF s₀)
    (h0 : Settled s₀ dest old) (svs : List Save) (sv : Save)
    (hn : ∀ x ∈ sv :: svs, TempNames x.pr x.tmp dest) (k : Nat) :
    ∃ prev, prev ∈ old :: svs.map (fun x => some x.new) ∧
      visible (runSaves s₀ dest svs) dest = prev ∧
      OKAt (runAbort (runSaves s₀ dest svs) ((sv.prog dest).take k)).1 dest prev sv.new := by
  obtain ⟨hw, prev, hmem, hp⟩ :=
    saves_settled dest svs s₀ old hwf h0 (fun x hx => hn x (by simp [hx]))
  refine ⟨prev, hmem, settled_visible hp, ?_⟩
  rcases (save_prefix sv hw hp (hn sv (by simp)) k).2 with h | h
  · exact settled_old_ok _ h
  · exact settled_new_ok _ h

/-! ## Robustness: a weaker crash model in which the directory may roll back -/

/-- None of the three savers ever opens an existing file in place: whatever they
actually perform consists of exclusive creates, writes to the descriptor so
obtained, fsync, close, rename and unlink. -/
theorem C14_savers_never_open_in_place (sv : Save) (dest : Path) (s : FS) :
    ∀ e ∈ performed s (sv.prog dest), e.isOpenWr = false :=
  performed_no_openWr (prog_no_openWr sv dest) s

/-- Once a version is installed at `dest` (instant `j`), its inode is never
modified again by any later syscalls of that kind (instant `k ≥ j`), across any
number of further saves: it keeps its content and survives a crash exactly.
Hence even if a crash brings the DIRECTORY back in an earlier state (the rename
was not yet durable — renameio does not fsync the directory), the file found at
`dest` is the complete version that was installed then, never a partial one. -/
theorem C14_installed_version_never_modified (dest : Path) (s₀ : FS) (hwf : WF s₀) (es : List Sys)
    (hes : ∀ e ∈ es, e.isOpenWr = false) (j k : Nat) (hjk : j ≤ k) (i : Nat) (c : Content)
    (hi : (run s₀ (es.take j)).names dest = some i)
    (hs : Settled (run s₀ (es.take j)) dest (some c)) :
    (run s₀ (es.take k)).cache i = c ∧ ∀ x, Survives (run s₀ (es.take k)) i x → x = c := by
  have hsplit : es.take k = es.take j ++ (es.take k).drop j := by
    have h1 : (es.take k).take j = es.take j := by
      rw [List.take_take, Nat.min_eq_left hjk]
    rw [← h1]; exact (List.take_append_drop j (es.take k)).symm
  have hfr := settled_frozen hs hi
  have hlt := (run_wf hwf (es.take j)).names_lt dest i hi
  have hrest : ∀ e ∈ (es.take k).drop j, e.isOpenWr = false :=
    fun e he => hes e (List.mem_of_mem_take (List.mem_of_mem_drop he))
  have hf := frozen_run ((es.take k).drop j) (run s₀ (es.take j)) hlt hfr hrest
  rw [← run_append, ← hsplit] at hf
  obtain ⟨hc, _, hd, _⟩ := hf
  refine ⟨hc, fun x hx => ?_⟩
  simp only [Survives, hd, Bool.false_eq_true, if_false] at hx
  rw [hx, hc]

/-! ## Concurrent saves of the same path -/

/-- The set monitor the driver runs on interleaved traces of concurrent saves is
exact for the set form of the spec. -/
theorem C14_monitor_set_exact (ok : Option Content → Bool) (dest : Path) (s : FS) (es : List Sys) :
    firstBadP ok dest s es = none ↔ ∀ j, OKAtP ok (run s (es.take j)) dest :=
  firstBadP_none_iff ok dest s es

/-- ANY interleaving of any number of writers (and of anything else the process
does): if every step either does not name `dest` or renames onto it a temporary
file that is complete (a member of `V`), synced and closed — which is what each
atomic saver does, whatever the others are doing — then at every instant `dest`
shows, and a crash leaves, the version it had or one of the complete versions
`V`: two racing saves end with one of the two complete files, never a mixture. -/
theorem C14_any_interleaving (dest : Path) (V : List Content) (es : List Sys) (s : FS)
    (v : Option Content) (hwf : WF s) (h : Settled s dest v) (hg : GoodTrace dest V s es)
    (j : Nat) :
    ∃ w, (w = v ∨ ∃ c ∈ V, w = some c) ∧ visible (run s (es.take j)) dest = w ∧
      ∀ c, AfterCrash (run s (es.take j)) dest c → c = w := by
  obtain ⟨w, hw, hs⟩ := goodTrace_settled dest V es s v hwf h hg j
  exact ⟨w, hw, settled_visible hs, fun c hc => settled_crash hs hc⟩

/-! ## Negative witnesses: what the positive theorems exclude -/

/-- `os.WriteFile` on the destination: right after its first syscall a reader
sees an EMPTY file, which is neither version (old and new non-empty). -/
theorem C14_trunc_unsafe (dest : Path) (fd : Nat) (chunks : List Content) (s₀ : FS) (c : Content)
    (h0 : Settled s₀ dest (some c)) (hc : c ≠ []) (hnew : chunks.flatten ≠ [])
    (hfd : s₀.fds fd = none) :
    visible (runAbort s₀ ((truncWrite dest fd chunks).take 1)).1 dest = some [] ∧
      ¬ OKAt (runAbort s₀ ((truncWrite dest fd chunks).take 1)).1 dest (some c) chunks.flatten := by
  obtain ⟨i, hn, hca, _⟩ := h0
  have hne : (s₀.cache i).isEmpty = false := by
    rw [hca]; cases c <;> simp_all
  have hv : visible (runAbort s₀ ((truncWrite dest fd chunks).take 1)).1 dest = some [] := by
    simp [truncWrite, runAbort, step, hfd, hn, hne, visible]
  refine ⟨hv, ?_⟩
  intro hok
  rcases hok.1 with h | h
  · rw [hv] at h; exact hc (by simpa using h.symm)
  · rw [hv] at h; exact hnew (by simpa using h.symm)

/-- The atomic writer with the `fsync` dropped: once it has completed, a crash
may leave an EMPTY file at the destination. -/
theorem C14_needs_fsync (pr : Probe) (dest tmp : Path) (fd : Nat) (chunks : List Content)
    (s₀ s : FS) (old : Option Content) (hwf : WF s₀) (hne : tmp ≠ dest)
    (h : runAbort s₀ (atomicNoSync pr dest tmp fd chunks) = (s, true))
    (hold : old ≠ some []) (hnew : chunks.flatten ≠ []) :
    AfterCrash s dest (some []) ∧ ¬ OKAt s dest old chunks.flatten := by
  obtain ⟨i, hn, _, hd⟩ := nosync_complete hwf hne h
  have hcr : AfterCrash s dest (some []) :=
    ⟨i, hn, by simp [Survives, hd hnew]⟩
  refine ⟨hcr, fun hok => ?_⟩
  rcases hok.2 _ hcr with h1 | h1
  · exact hold h1.symm
  · exact hnew (by simpa using h1.symm)

/-! ## The monitor the driver runs on the implementation's traces -/

/-- `spec=ok` on a trace means: the property holds at every instant of the replay
of that trace in the model file system (and conversely). -/
theorem C14_monitor_exact (dest : Path) (old : Option Content) (new : Content) (s : FS)
    (es : List Sys) :
    firstBad dest old new s es = none ↔ ∀ j, OKAt (run s (es.take j)) dest old new :=
  firstBad_none_iff dest old new s es

/-- What the model does for one save: the syscalls performed up to the first
error; it reports a commit when it was asked to commit and nothing failed. -/
def modelOut (s₀ : FS) (dest : Path) (sv : Save) : Out :=
  ⟨performed s₀ (sv.prog dest), sv.started && sv.commit && (runAbort s₀ (sv.prog dest)).2, 0⟩

/-- The model satisfies the spec predicate for ALL start states, contents,
chunkings, oracle values and failure points. -/
theorem C14_model_meets_spec (s₀ : FS) (dest : Path) (sv : Save) (hwf : WF s₀)
    (h0 : Settled s₀ dest (visible s₀ dest)) (hn : TempNames sv.pr sv.tmp dest) :
    specOK ⟨s₀, dest, sv.new⟩ (modelOut s₀ dest sv) = true := by
  have hfb : firstBad dest (visible s₀ dest) sv.new s₀ (performed s₀ (sv.prog dest)) = none := by
    rw [firstBad_none_iff]
    intro j
    rw [run_performed_take]
    rcases (save_prefix sv hwf h0 hn j).2 with h | h
    · exact settled_old_ok _ h
    · exact settled_new_ok _ h
  simp only [specOK, check, In.old, modelOut, hfb, run_performed]
  cases hs : sv.started with
  | false => simp
  | true =>
    cases hc : sv.commit with
    | false => simp
    | true =>
      cases hr : runAbort s₀ (sv.prog dest) with
      | mk s ok =>
        cases ok with
        | false => simp
        | true =>
          have hr' : runAbort s₀ (atomicWrite sv.pr dest sv.tmp sv.fd sv.chunks) = (s, true) := by
            simpa [Save.prog, hc, hs] using hr
          have := settled_visible (atomic_complete hwf hn.2.2 hr')
          simp [this, Save.new]

/-! ## Translator tie: the write sites of the current tree (regenerated every run) -/

/-- The path of the site is one of the three durable files (and not a sibling
such as `<file>.old`). -/
def durable (st : Gen.Site) : Bool := decide (st.prov / 2 ≠ 0) && !st.derived

/-- The only operations allowed on a durable path: the atomic writer (0), a
pending file (1), renaming the file away (6) or removing it (7) — the last two
delete the file as a whole (filter removal, DHCP reset); they never leave
partial content. -/
def allowedOp (op : Nat) : Bool := op == 0 || op == 1 || op == 6 || op == 7

/-- Every call in the module that creates or overwrites the configuration file,
the lease database or a filter-list file goes through the atomic writer. -/
theorem C14_durable_sites_atomic :
    ∀ st ∈ Gen.sites, durable st = true → allowedOp st.op = true := by
  decide +kernel

/-- A durable path never disappears and is never rebound other than by the atomic
writer: every call that removes it, renames it away, truncates it or links
onto it is one of the explicitly reviewed deletions (DHCP reset deletes the
lease database; removing a filter list moves its file away) — neither is a
save, and no save, failed save or change of a list's URL may do such a thing. -/
theorem C14_durable_paths_never_removed :
    ∀ st ∈ Gen.sites, durable st = true → st.op ≠ 0 → st.op ≠ 1 → st.reviewed ≠ 0 := by
  decide +kernel

/-- …and they are exactly the two reviewed calls, each once. -/
theorem C14_reviewed_removals_exact :
    ((Gen.sites.filter (fun st => durable st && st.op != 0 && st.op != 1)).map (·.reviewed))
      = [1, 2] := by
  decide +kernel

/-- The monitor treats a destination that existed and is gone as a failure at
that very instant (this is what a rename-away before the download, or a removal
after a failed save, trips). -/
theorem C14_disappearance_detected (dest : Path) (c new : Content) (s : FS) (es : List Sys)
    (h : s.names dest = none) : firstBad dest (some c) new s es = some .visible := by
  unfold firstBad
  simp [visibleOK, isVersion, visible, h]

/-- Every pending temporary file is closed on all paths: by a finaliser deferred
right after its creation (`CloseReplace` or `Cleanup` on every return path), or
it is the aghrenameio wrapper handing the file to such a caller. -/
theorem C14_pending_files_finalised :
    ∀ st ∈ Gen.sites, st.op = 1 → st.fin = 1 ∨ st.fin = 2 := by
  decide +kernel

/-- The aghrenameio wrapper the filter updater writes through adds nothing of its
own: `CloseReplace`, `Cleanup` and `Write` are single delegations to renameio's
`CloseAtomicallyReplace` (fsync, close, rename), `Cleanup` and `os.File.Write` —
the syscall programs `atomicWrite` / `pendingAbort` transcribe. -/
theorem C14_wrapper_delegates : Gen.wrapperDelegates = [true, true, true] := by
  decide

/-- Completeness of CONTENT: every size limit on a path that feeds a save of one
of the three durable files is an erroring one (golibs `ioutil.LimitReader`,
`http.MaxBytesReader`): hitting it makes the read fail, the update is abandoned
through `Cleanup` and the old version stays (`C14_abandoned_update_keeps_old`).
A silent limiter (`io.LimitReader`, `io.LimitedReader`, `io.CopyN`) would end
the input with a clean EOF and a cut-off file would be installed atomically. -/
theorem C14_limits_on_save_paths_error :
    ∀ l ∈ Gen.limiters, l.durable = true → l.kind = 2 := by
  decide +kernel

/-- The extractor does see limiters, among them one on an atomic save path (the
rule-list cache of `filtering/rulelist`), and it is an erroring one. -/
theorem C14_limiters_seen : ∃ l ∈ Gen.limiters, l.atomic = true ∧ l.kind = 2 := by
  decide +kernel

/-- The table is not vacuous: each of the three kinds has a writer site in it
(config 2, leases 4, filter 8). -/
theorem C14_three_kinds_present :
    (∃ st ∈ Gen.sites, st.prov = 2 ∧ st.op = 0) ∧ (∃ st ∈ Gen.sites, st.prov = 4 ∧ st.op = 0) ∧
      (∃ st ∈ Gen.sites, st.prov = 8 ∧ st.op = 1 ∧ st.fin = 1) := by
  decide +kernel

/-- The syscall program a write site stands for (0: `renameio.WriteFile`,
1: pending file, committed or abandoned, 2: `os.WriteFile`). -/
def siteProg (op : Nat) (sv : Save) (dest : Path) : Option (List Sys) :=
  if op = 0 then some (atomicWrite sv.pr dest sv.tmp sv.fd sv.chunks)
  else if op = 1 then some (sv.prog dest)
  else if op = 2 then some (truncWrite dest sv.fd sv.chunks)
  else none

/-- Program-level statement: for every write site of the CURRENT tree whose path
is one of the three durable files, every save it performs — any content, any
oracle values, any prefix — keeps the property at every instant. -/
theorem C14_durable_sites_crash_safe (st : Gen.Site) (hst : st ∈ Gen.sites)
    (hd : durable st = true) (sv : Save) (dest : Path) (prog : List Sys)
    (hp : siteProg st.op sv dest = some prog) (s₀ : FS) (old : Option Content) (hwf : WF s₀)
    (h0 : Settled s₀ dest old) (hn : TempNames sv.pr sv.tmp dest) (k : Nat) :
    OKAt (runAbort s₀ (prog.take k)).1 dest old sv.new := by
  have hop := C14_durable_sites_atomic st hst hd
  simp only [allowedOp, Bool.or_eq_true, beq_iff_eq] at hop
  rcases hop with ((h | h) | h) | h
  · simp only [siteProg, h, if_true, Option.some.injEq] at hp
    subst hp
    exact C14_atomic_all_prefixes _ _ _ _ _ _ _ hwf h0 hn k
  · simp only [siteProg, h] at hp
    simp only [Nat.succ_ne_zero, if_false, if_true, Option.some.injEq] at hp
    subst hp
    rcases (save_prefix sv hwf h0 hn k).2 with h' | h'
    · exact settled_old_ok _ h'
    · exact settled_new_ok _ h'
  · simp [siteProg, h] at hp
  · simp [siteProg, h] at hp

/-! ## Crash safety under the explicit crash models (AGH/Spec/Crash.lean)

Chain from the code to this section, and where each link is established:
1. every call writing a durable path is `maybe.WriteFile` or a pending file that is
   finalised, through a wrapper that only delegates — PROVED over the table the
   extractor regenerates from the current tree (`C14_durable_sites_atomic`,
   `C14_pending_files_finalised`, `C14_wrapper_delegates`, `C14_durable_paths_never_removed`);
   the extractor itself is trusted;
2. such a call emits the syscall program `Save.prog` (probe, exclusive create, writes,
   fsync, close, rename | close, unlink) — TRANSCRIBED from renameio and SAMPLED on every run
   by strace of real saves of all three kinds (`instanceOf` in the driver, AGREE/DISAGREE);
   `C14_site_programs_are_saves` connects the table's op codes to `Save.prog`;
3. for every list of such saves, every crash point and every admissible loss set the
   destination holds a complete version — PROVED below. -/

/-- The three models are nested: what the strict model allows the ordered-journal
model allows, and what that allows the POSIX model allows. -/
theorem C14_crash_models_nested (s₀ : FS) (es : List Sys) (out : Dir) :
    (CrashDirStrict s₀ es out → CrashDirOrdered s₀ es out) ∧
      (CrashDirOrdered s₀ es out → CrashDirPosix s₀ es out) := by
  constructor
  · intro h; rw [h]; exact dirSnaps_last s₀ es
  · intro h
    unfold CrashDirOrdered at h
    unfold CrashDirPosix
    cases hds : dirSnaps s₀ es with
    | nil => exact absurd hds (dirSnaps_ne_nil s₀ es)
    | cons d ds => rw [hds] at h; exact lossy_prefix d ds h

/-- The crash model the earlier theorems use (`AfterCrash`) is the strict directory
model with a less pessimistic data layer. -/
theorem C14_strict_model_is_an_instance (s : FS) (p : Path) (c : Option Content)
    (h : AfterCrash s p c) : AfterCrashIn s.names s p c := by
  cases c with
  | none => exact h
  | some x =>
    obtain ⟨i, hi, hs⟩ := h
    refine ⟨i, hi, fun hd => ?_⟩
    simpa [Survives, hd] using hs

/-- EVERY crash point, EVERY admissible loss set, pessimistic POSIX model (hence
also the ordered-journal and the strict one): after any number of saves of any
sizes — committed, abandoned, failed at any syscall — cut at any prefix `k` of the
concatenated syscall trace, whichever pending directory operations the crash
loses and whatever it does to unsynced data, the destination holds the initial
version or one of the COMPLETE versions saved (or is still absent if it never
existed): never an empty, truncated or mixed file.  No `fsync(dir)` is assumed;
the directory is taken to be durable at the start (`s₀`). -/
theorem C14_crash_safe_all_crash_points (dest : Path) (s₀ : FS) (old : Option Content)
    (hwf : WF s₀) (h0 : Settled s₀ dest old) (svs : List Save)
    (hn : ∀ sv ∈ svs, TempNames sv.pr sv.tmp dest) (k : Nat) (out : Dir) (c : Option Content)
    (hcd : CrashDirPosix s₀ ((performedSaves s₀ dest svs).take k) out)
    (hc : AfterCrashIn out (run s₀ ((performedSaves s₀ dest svs).take k)) dest c) :
    c ∈ old :: svs.map (fun sv => some sv.new) := by
  -- the surviving entry of `dest` is the entry of some instant j ≤ k
  have hsnap : ∃ d ∈ dirSnaps s₀ ((performedSaves s₀ dest svs).take k), out dest = d dest := by
    unfold CrashDirPosix at hcd
    cases hds : dirSnaps s₀ ((performedSaves s₀ dest svs).take k) with
    | nil => exact absurd hds (dirSnaps_ne_nil _ _)
    | cons d ds =>
      rw [hds] at hcd
      rcases lossy_entry hcd dest with h | ⟨d', hd', h⟩
      · exact ⟨d, by simp, h⟩
      · exact ⟨d', hd', h⟩
  obtain ⟨d, hd, hout⟩ := hsnap
  obtain ⟨j, hj⟩ := dirSnaps_instant hd
  rw [List.take_take] at hj
  have hjk : min j k ≤ k := Nat.min_le_right j k
  obtain ⟨_, v, hv, hs⟩ := saves_instants dest svs s₀ old hwf h0 hn (min j k)
  have hnames : out dest = (run s₀ ((performedSaves s₀ dest svs).take (min j k))).names dest := by
    rw [hout, hj]
  cases c with
  | none =>
    have hnone : (run s₀ ((performedSaves s₀ dest svs).take (min j k))).names dest = none := by
      rw [← hnames]; exact hc
    cases v with
    | none => exact hv
    | some cv => obtain ⟨i, hi, _⟩ := hs; rw [hnone] at hi; cases hi
  | some x =>
    obtain ⟨i, hi, hsurv⟩ := hc
    have hi' : (run s₀ ((performedSaves s₀ dest svs).take (min j k))).names dest = some i := by
      rw [← hnames]; exact hi
    cases v with
    | none => simp only [Settled] at hs; rw [hs] at hi'; cases hi'
    | some cv =>
      have hf := settled_stays_frozen hwf (performedSaves_no_openWr dest svs s₀) hjk hi' hs
      obtain ⟨hcache, _, hdirty, _⟩ := hf
      have : x = cv := by rw [hsurv hdirty, hcache]
      rw [this]; exact hv

/-- PARTIAL form of the property's literal wording: if the directory was durable
when the save began (journal committed, or `fsync(dir)`), a crash at any point of
that save under any of the three models leaves exactly the previous or the new
version. -/
theorem C14_previous_or_new_partial (dest : Path) (s₀ : FS) (old : Option Content)
    (hwf : WF s₀) (h0 : Settled s₀ dest old) (sv : Save) (hn : TempNames sv.pr sv.tmp dest)
    (k : Nat) (out : Dir) (c : Option Content)
    (hcd : CrashDirPosix s₀ ((performedSaves s₀ dest [sv]).take k) out)
    (hc : AfterCrashIn out (run s₀ ((performedSaves s₀ dest [sv]).take k)) dest c) :
    IsVersion old sv.new c := by
  have := C14_crash_safe_all_crash_points dest s₀ old hwf h0 [sv]
    (fun x hx => by simp at hx; subst hx; exact hn) k out c hcd hc
  simpa [IsVersion] using this

/- The full statement "after a crash at any point the path holds the complete PREVIOUS
or the complete NEW version" over SEVERAL saves is false in the ordered-journal and POSIX
models, because renameio does not fsync the directory: the renames of earlier saves may
not be durable yet.  What holds there is `C14_crash_safe_all_crash_points` (a complete
version, possibly an older one); the witness: -/

/-- Two completed saves ([1,2,3] → [7,7,7] → [9,9,9]); a crash before the journal
commits (ordered model, all pending directory operations lost) brings back [1,2,3],
which is neither the previous nor the new version — but complete. -/
theorem C14_counterexample_stale_version_without_dir_fsync :
    visible (run (FS.init [100] (some [1, 2, 3]))
        (performedSaves (FS.init [100] (some [1, 2, 3])) [100]
          [{ pr := ⟨[46, 7], [46, 8], 5, 5, .sameMount⟩, tmp := [46, 9], fd := 5,
             chunks := [[7], [7, 7]], commit := true },
           { pr := ⟨[46, 9], [46, 10], 5, 5, .sameMount⟩, tmp := [46, 11], fd := 5,
             chunks := [[9], [9, 9]], commit := true }])) [100] = some [9, 9, 9] ∧
      ∃ out, CrashDirOrdered (FS.init [100] (some [1, 2, 3]))
          (performedSaves (FS.init [100] (some [1, 2, 3])) [100]
            [{ pr := ⟨[46, 7], [46, 8], 5, 5, .sameMount⟩, tmp := [46, 9], fd := 5,
               chunks := [[7], [7, 7]], commit := true },
             { pr := ⟨[46, 9], [46, 10], 5, 5, .sameMount⟩, tmp := [46, 11], fd := 5,
               chunks := [[9], [9, 9]], commit := true }]) out ∧
        AfterCrashIn out (run (FS.init [100] (some [1, 2, 3]))
          (performedSaves (FS.init [100] (some [1, 2, 3])) [100]
            [{ pr := ⟨[46, 7], [46, 8], 5, 5, .sameMount⟩, tmp := [46, 9], fd := 5,
               chunks := [[7], [7, 7]], commit := true },
             { pr := ⟨[46, 9], [46, 10], 5, 5, .sameMount⟩, tmp := [46, 11], fd := 5,
               chunks := [[9], [9, 9]], commit := true }])) [100] (some [1, 2, 3]) := by
  refine ⟨by decide, (FS.init [100] (some [1, 2, 3])).names, ?_, ⟨0, by decide, fun _ => by decide⟩⟩
  exact dirSnaps_start (by decide)

/-- Link 2 of the chain: the op codes of the generated table stand for `Save.prog`. -/
theorem C14_site_programs_are_saves (op : Nat) (hop : op = 0 ∨ op = 1) (sv : Save) (dest : Path)
    (hs : sv.started = true) :
    ∃ sv' : Save, siteProg op sv dest = some (sv'.prog dest) ∧ sv'.new = sv.new ∧
      sv'.pr = sv.pr ∧ sv'.tmp = sv.tmp := by
  rcases hop with h | h
  · refine ⟨{ sv with commit := true }, ?_, rfl, rfl, rfl⟩
    simp [siteProg, h, Save.prog, hs]
  · exact ⟨sv, by simp [siteProg, h], rfl, rfl, rfl⟩

/-! ## Non-vacuity -/

/-- A concrete state satisfying the hypotheses, and a save that reaches the new
version: old content `[1,2,3]`, two successive saves written in two chunks each. -/
def exDest : Path := [100]
def exSave (n : Nat) : Save :=
  { pr := ⟨[46, n], [46, n + 1], 5, 5, .sameMount⟩, tmp := [46, n + 2], fd := 5,
    chunks := [[n], [n, n]], commit := true }

example : WF (FS.init exDest (some [1, 2, 3])) :=
  ⟨fun p i h => by
      simp only [FS.init, FS.empty, upd] at h ⊢
      split at h <;> simp_all,
    fun fd i off h => by simp [FS.init, FS.empty] at h⟩

example : Settled (FS.init exDest (some [1, 2, 3])) exDest (some [1, 2, 3]) :=
  ⟨0, by simp [FS.init, upd], by simp [FS.init, upd], by simp [FS.init, upd],
    by simp [FS.init, FS.empty], by simp [FS.init, FS.empty]⟩

example : TempNames (exSave 7).pr (exSave 7).tmp exDest := by unfold TempNames; decide

/-- The save completes and the new version is visible; half-way the old one is. -/
example : visible (runSaves (FS.init exDest (some [1, 2, 3])) exDest [exSave 7, exSave 9]) exDest
    = some [9, 9, 9] := by decide

example : (runAbort (FS.init exDest (some [1, 2, 3])) ((exSave 7).prog exDest)).2 = true := by decide

example : visible (runAbort (FS.init exDest (some [1, 2, 3])) (((exSave 7).prog exDest).take 9)).1
    exDest = some [1, 2, 3] := by decide

/-- The hypothesis of `C14_needs_fsync` is satisfiable (the run completes). -/
example : (runAbort (FS.init exDest (some [1, 2, 3]))
    (atomicNoSync (exSave 7).pr exDest (exSave 7).tmp 5 [[7], [7, 7]])).2 = true := by decide

/-- The monitor rejects the truncating writer and the writer without fsync on the
same start state, and accepts the atomic one. -/
example : specOK ⟨FS.init exDest (some [1, 2, 3]), exDest, [7, 7, 7]⟩
    ⟨truncWrite exDest 5 [[7], [7, 7]], true, 0⟩ = false := by decide

example : check ⟨FS.init exDest (some [1, 2, 3]), exDest, [7, 7, 7]⟩
    ⟨atomicNoSync (exSave 7).pr exDest (exSave 7).tmp 5 [[7], [7, 7]], true, 0⟩ = some .crash := by
  decide

example : specOK ⟨FS.init exDest (some [1, 2, 3]), exDest, [7, 7, 7]⟩
    ⟨(exSave 7).prog exDest, true, 0⟩ = true := by decide

end AGH.C14
